#!/usr/bin/env python3
"""Sensitivity runs: apply hand-written mutants of /repo one at a time in a scratch worktree
(outside /repo and /verif) and run the named check against it.

  bin/mutants.py [--only ID[,ID]] [--property Cxx] [--file sensitivity/mutants.json]

A mutant: {"id", "file", "old", "new", "property", "only" (sub-check, optional), "cases", "shards"}.
Output: one line per mutant: CAUGHT / MISSED / INCONCLUSIVE / BROKEN(build), appended to
sensitivity/results.jsonl. The scratch worktree is removed after each mutant.
"""
import json
import os
import subprocess
import sys
import time

ROOT = os.path.dirname(os.path.dirname(os.path.abspath(__file__)))


def sh(cmd, **kw):
    return subprocess.run(cmd, shell=True, capture_output=True, text=True, **kw)


def main():
    args = sys.argv[1:]
    only = None
    prop = None
    mfile = os.path.join(ROOT, "sensitivity", "mutants.json")
    i = 0
    while i < len(args):
        if args[i] == "--only":
            only = set(args[i + 1].split(",")); i += 2
        elif args[i] == "--property":
            prop = args[i + 1]; i += 2
        elif args[i] == "--file":
            mfile = args[i + 1]; i += 2
        else:
            print("unknown arg", args[i]); return 2
    mutants = json.load(open(mfile))
    res_path = os.path.join(ROOT, "sensitivity", "results.jsonl")
    for m in mutants:
        if only and m["id"] not in only:
            continue
        if prop and m["property"] != prop:
            continue
        wt = "/tmp/mut-%s-%d" % (m["id"], os.getpid())
        sh("git -C /repo worktree remove --force %s" % wt)
        r = sh("git -C /repo worktree add --detach %s HEAD" % wt)
        if r.returncode != 0:
            print(m["id"], "WORKTREE-FAILED", r.stderr.strip()); continue
        try:
            p = os.path.join(wt, m["file"])
            src = open(p).read()
            if src.count(m["old"]) < 1:
                print(m["id"], "BROKEN(pattern not found)"); continue
            src = src.replace(m["old"], m["new"], 1 if not m.get("all") else -1)
            open(p, "w").write(src)
            cmd = "cd %s && VERIF_REPO_DIR=%s bin/check %s" % (ROOT, wt, m["property"])
            if m.get("only"):
                cmd += " --only %s" % m["only"]
            if m.get("cases"):
                cmd += " --cases %d" % m["cases"]
            if m.get("shards"):
                cmd += " --shards %d" % m["shards"]
            if m.get("tier"):
                cmd += " --tier %s" % m["tier"]
            t0 = time.time()
            r = sh(cmd)
            dt = time.time() - t0
            out = r.stdout + r.stderr
            if r.returncode == 1 and "VIOLATION property=" in out:
                verdict = "CAUGHT"
            elif r.returncode == 0:
                verdict = "MISSED"
            elif "BUILD FAILED" in out:
                verdict = "BROKEN(build)"
            else:
                verdict = "INCONCLUSIVE"
            kinds = sorted(set(l.strip().split("]")[0].strip("[ ") for l in out.splitlines() if l.strip().startswith("[") and "]" in l))
            print("%-32s %-14s %5.0fs %s %s" % (m["id"], verdict, dt, m["property"] + ("/" + m["only"] if m.get("only") else ""), ",".join(kinds)[:150]), flush=True)
            with open(res_path, "a") as f:
                f.write(json.dumps(dict(id=m["id"], property=m["property"], only=m.get("only"), verdict=verdict, wall_s=round(dt, 1), kinds=kinds,
                                        desc=m.get("desc", ""), file=m["file"])) + "\n")
            if verdict in ("INCONCLUSIVE", "BROKEN(build)"):
                print(out[-1500:])
        finally:
            sh("git -C /repo worktree remove --force %s" % wt)
    return 0


if __name__ == "__main__":
    sys.exit(main())
