#!/usr/bin/env python3
"""Rewrites the seeded-changes table of DESIGN.md (between the seeded-table markers) from seeded/*/meta.json."""
import glob, json, os, re
ROOT = os.path.dirname(os.path.dirname(os.path.abspath(__file__)))
rows = ["| seed | change | caught by |", "|---|---|---|"]
for d in sorted(glob.glob(os.path.join(ROOT, "seeded", "*", ""))):
    m = json.load(open(os.path.join(d, "meta.json")))
    ch = m.get("checks", {})
    cs = "; ".join("%s (%s)" % (k, ", ".join(v.get("failed_sub_checks", []))) if v["verdict"] == "CAUGHT" else "%s: %s" % (k, v["verdict"].lower()) for k, v in ch.items())
    summ = (m.get("summary") or "").replace("\n", " ").replace("|", "/")
    if len(summ) > 170:
        summ = summ[:167] + "..."
    rows.append("| %s | %s | %s |" % (os.path.basename(d[:-1]), summ, cs))
p = os.path.join(ROOT, "DESIGN.md")
s = open(p).read()
b, e = "<!-- seeded-table-begin -->", "<!-- seeded-table-end -->"
i, j = s.index(b), s.index(e)
s = s[:i + len(b)] + "\n" + "\n".join(rows) + "\n" + s[j:]
open(p, "w").write(s)
print(len(rows) - 2, "seeded changes")
