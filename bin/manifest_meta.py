HOOK_COMMITS = []

ENGINES = [
    dict(name="pbt", path="harness/pbt", serves_properties=["C%02d" % i for i in range(1, 21)],
         kind_free_text="scenario-as-data framework over pgregory.net/rapid: generate -> execute deterministically -> judge purely; replay files; known-finding signatures; evidence counters"),
]

# Properties not (yet) claimed. Kept current: an entry disappears as soon as the property has a registered check.
NOT_APPLICABLE = {
    "C%02d" % i: "check not built yet in this session (planned in DESIGN.md section 10); no claim is made" for i in range(1, 21)
}

META = {
    "C16": dict(
        engine="E3 pure PBT",
        technique="property-based testing: print/parse round trip, three-parser differential, and match semantics against an independent backtracking regex matcher",
        design_ref="DESIGN.md §4 C16",
        level_text="Generated search (tens of thousands of matchers, input strings and (matcher, label set) pairs per run) against round-trip, differential and reference-model oracles; finds any disagreement that the generators reach, proves nothing beyond them.",
        level_note="Trusted: Go regexp for patterns outside the generated grammar; brace-guard inputs are exempt for the single-matcher entry points by design of compat; names are non-empty.",
    ),
}
