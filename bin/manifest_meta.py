HOOK_COMMITS = ["c106a14", "2cc9483"]

ENGINES = [
    dict(name="pbt", path="harness/pbt", serves_properties=["C%02d" % i for i in range(1, 21)],
         kind_free_text="scenario-as-data framework over pgregory.net/rapid: generate -> execute deterministically -> judge purely; replay files; known-finding signatures; evidence counters"),
]

# Properties not (yet) claimed. Kept current: an entry disappears as soon as the property has a registered check.
NOT_APPLICABLE = {
    "C%02d" % i: "check not built yet in this session (planned in DESIGN.md section 10); no claim is made" for i in range(1, 21)
}

