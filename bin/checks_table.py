"""Loads the per-property check tables from bin/table.d/<ID>.json.

Format of one file:
{
 "level": "exploration" | "fault_enumeration",
 "assumptions": ["..."],
 "meta": {"engine": "...", "technique": "...", "design_ref": "...", "level_text": "...", "level_note": "..."},
 "subs": [
   {"name": "C16RoundTrip",                    # TestC16RoundTrip in harness/checks
    "quick":    {"cases": 6000,  "shards": 2, "timeout": 600},
    "thorough": {"cases": 60000, "shards": 6, "timeout": 1500},
    "tiers": ["quick", "thorough"],            # optional, default both
    "race": false,                             # optional: use the -race binary
    "hang_is_violation": false,                # optional: a test timeout with a current-case file is a violation (pure parsers only)
    "gomaxprocs": 4},                          # optional
   {"name": "FuzzC16Differential", "kind": "fuzz", "tiers": ["thorough"], "thorough": {"fuzztime": "60s", "timeout": 900}}
 ]
}
"""
import glob
import json
import os

_D = os.path.join(os.path.dirname(os.path.abspath(__file__)), "table.d")

CHECKS = {}
LEVEL = {}
ASSUMPTIONS = {}
META = {}

for _f in sorted(glob.glob(os.path.join(_D, "C*.json"))):
    _pid = os.path.basename(_f)[:-5]
    with open(_f) as _fh:
        _d = json.load(_fh)
    _subs = []
    for _s in _d["subs"]:
        _s = dict(_s)
        _s.setdefault("tiers", ["quick", "thorough"])
        for _t in ("quick", "thorough"):
            if _t in _s:
                _s[_t].setdefault("shards", 1)
                _s[_t].setdefault("cases", 0)
        _subs.append(_s)
    CHECKS[_pid] = _subs
    LEVEL[_pid] = _d.get("level", "exploration")
    ASSUMPTIONS[_pid] = _d.get("assumptions", [])
    META[_pid] = _d["meta"]
