# Table of sub-checks per property: test name (TestXxx in harness/checks), case counts and shards per tier.
def sub(name, quick, thorough, **kw):
    d = dict(name=name, quick=dict(cases=quick[0], shards=quick[1]), thorough=dict(cases=thorough[0], shards=thorough[1]))
    for t in ("quick", "thorough"):
        if "timeout" in kw:
            d[t]["timeout"] = kw["timeout"]
    d.update({k: v for k, v in kw.items() if k != "timeout"})
    return d


def fuzz(name, fuzztime, **kw):
    return dict(name=name, kind="fuzz", tiers=("thorough",), thorough=dict(fuzztime=fuzztime, cases=0, shards=1, timeout=1200), **kw)


CHECKS = {
    "C16": [
        sub("C16RoundTrip", (6000, 2), (60000, 6), hang_is_violation=True),
        sub("C16Differential", (10000, 2), (100000, 6), hang_is_violation=True),
        sub("C16Semantics", (3000, 2), (30000, 4)),
    ],
}

LEVEL = {"C11": "fault_enumeration", "C20": "fault_enumeration"}

ASSUMPTIONS = {
    "C16": ["Go's regexp package decides language membership correctly for the generated grammar subset (it is compared with an independent backtracking matcher, so this is cross-checked, not assumed, for that subset)",
            "the 'parser panic' recovery inside parse.Matchers is treated as a panic"],
}
