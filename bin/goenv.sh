# source me: sets up the offline Go toolchain used by every check.
# go1.26.8 is preferred (go1.25.0's runtime has a testing/synctest WaitGroup defect that makes bubbles hang);
# fallback: go1.25.0 from the module cache.
export GOTOOLCHAIN=local GOFLAGS=-mod=mod GOPROXY=off GOSUMDB=off
unset GOROOT
if [ -x /opt/veriftools/go1.26.8/bin/go ]; then
  export PATH="/opt/veriftools/go1.26.8/bin:$PATH"
else
  _mc=$(GOTOOLCHAIN=local go env GOMODCACHE 2>/dev/null || echo /root/go/pkg/mod)
  if [ -x "$_mc/golang.org/toolchain@v0.0.1-go1.25.0.linux-amd64/bin/go" ]; then
    export PATH="$_mc/golang.org/toolchain@v0.0.1-go1.25.0.linux-amd64/bin:$PATH"
  fi
fi
