# source me: sets up the offline Go toolchain used by every check
export GOTOOLCHAIN=local GOFLAGS=-mod=mod GOPROXY=off GOSUMDB=off
_mc=$(GOTOOLCHAIN=local go env GOMODCACHE 2>/dev/null || echo /root/go/pkg/mod)
if [ -x "$_mc/golang.org/toolchain@v0.0.1-go1.25.0.linux-amd64/bin/go" ]; then
  export PATH="$_mc/golang.org/toolchain@v0.0.1-go1.25.0.linux-amd64/bin:$PATH"
fi
