#!/usr/bin/env python3
"""Regenerates /verif/MANIFEST.json from bin/checks_table.py + bin/manifest_meta.py."""
import json, os, sys
ROOT = os.path.dirname(os.path.dirname(os.path.abspath(__file__)))
sys.path.insert(0, os.path.join(ROOT, "bin"))
from checks_table import CHECKS, LEVEL, META
from manifest_meta import HOOK_COMMITS, NOT_APPLICABLE, ENGINES

checks = []
for pid in sorted(CHECKS):
    m = META[pid]
    checks.append(dict(
        property_id=pid,
        quick_cmd="bin/check %s --tier quick" % pid,
        thorough_cmd="bin/check %s --tier thorough" % pid,
        evidence_file="/verif/evidence/%s.json" % pid,
        replay_cmd_template="bin/check %s --replay {path}" % pid,
        engine=m["engine"],
        level_claimed=dict(category=LEVEL.get(pid, "exploration"), text=m["level_text"], design_ref=m["design_ref"]),
        level_note=m["level_note"],
        technique=m["technique"],
    ))
manifest = dict(
    version=1,
    setup_cmd="bin/check --setup",
    hooks=dict(guard="verif", enable="go test -tags verif (the harness test binary is always built with -tags verif)",
               baseline_off_cmd="for m in $(cat /w/out/gomods.txt); do MF=$(cd /repo/$m && . /w/out/goenv.sh && gomodflag); (cd /repo/$m && go test $MF -json -vet=off -count=1 -timeout 25m ./...); done",
               source_commits=HOOK_COMMITS, add_only=True),
    engines=ENGINES,
    checks=checks,
    notes="Property-based testing and fuzzing only: every check is generated-input search (pgregory.net/rapid v1.3.0, native go fuzzing in the thorough tier) against an explicit oracle. Exit 2 = inconclusive (build failure / budget), never reported as a violation. known_findings.json lists genuine defects (known / fixed).",
    not_applicable=[dict(property_id=p, reason=r) for p, r in sorted(NOT_APPLICABLE.items()) if p not in CHECKS],
)
with open(os.path.join(ROOT, "MANIFEST.json"), "w") as f:
    json.dump(manifest, f, indent=1)
    f.write("\n")
print("MANIFEST.json: %d checks, %d not_applicable" % (len(checks), len(manifest["not_applicable"])))
