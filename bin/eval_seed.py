#!/usr/bin/env python3
"""Confirms a seeded change (from an independent sub-agent) and runs the checks against it.

  bin/eval_seed.py <src_dir> <seed_id> [--checks C01,C05] [--tier quick]

<src_dir> holds patch.diff, meta.json and the demonstration file(s). Steps, all in a scratch
worktree of /repo outside /repo and /verif (removed afterwards):
  1. patch applies to HEAD, touched packages build;
  2. the repository's existing tests of the touched packages (and their direct users) pass with the patch;
  3. the demonstration fails with the patch and passes without it;
  4. the named checks (default: the property in meta.json) are run with VERIF_REPO_DIR=<worktree>.
The verdicts are written to /verif/seeded/<seed_id>/meta.json next to copies of patch.diff and the demo.
"""
import glob
import json
import os
import re
import shutil
import subprocess
import sys
import time

ROOT = os.path.dirname(os.path.dirname(os.path.abspath(__file__)))
GO125 = "/root/go/pkg/mod/golang.org/toolchain@v0.0.1-go1.25.0.linux-amd64/bin"


def sh(cmd, cwd=None, env=None, timeout=3600):
    try:
        p = subprocess.run(cmd, shell=True, cwd=cwd, env=env, capture_output=True, text=True, timeout=timeout)
        return p.returncode, p.stdout + p.stderr
    except subprocess.TimeoutExpired:
        return 124, "timeout"


def main():
    src, sid = sys.argv[1], sys.argv[2]
    checks = None
    tier = "quick"
    a = sys.argv[3:]
    while a:
        if a[0] == "--checks":
            checks = a[1].split(","); a = a[2:]
        elif a[0] == "--tier":
            tier = a[1]; a = a[2:]
        else:
            print("unknown", a[0]); return 2
    meta = json.load(open(os.path.join(src, "meta.json")))
    prop = meta.get("property")
    checks = checks or [prop]
    env = dict(os.environ, GOTOOLCHAIN="local", GOFLAGS="-mod=mod", GOPROXY="off", GOSUMDB="off")
    env["PATH"] = GO125 + os.pathsep + env["PATH"]
    wt = "/tmp/ev-%s-%d" % (sid, os.getpid())
    sh("git -C /repo worktree remove --force %s" % wt)
    rc, out = sh("git -C /repo worktree add --detach %s HEAD" % wt)
    if rc != 0:
        print("worktree failed", out); return 2
    res = dict(meta)
    res["evaluated_at_repo_commit"] = sh("git -C /repo rev-parse --short HEAD")[1].strip()
    try:
        patch = os.path.abspath(os.path.join(src, "patch.diff"))
        rc, out = sh("git apply --check %s && git apply %s" % (patch, patch), cwd=wt)
        res["applies"] = rc == 0
        if rc != 0:
            res["error"] = out[-800:]
            return finish(res, src, sid)
        files = [l[6:].strip() for l in open(patch) if l.startswith("+++ b/")]
        pkgs = sorted(set("./" + os.path.dirname(f) + "/" for f in files))
        res["touched_packages"] = pkgs
        rc, out = sh("go build %s" % " ".join(pkgs), cwd=wt, env=env)
        res["compiles"] = rc == 0
        if rc != 0:
            res["error"] = out[-800:]
            return finish(res, src, sid)
        # existing tests of touched packages + a fixed set of heavy users
        users = {"./store/": ["./provider/...", "./dispatch/", "./inhibit/"], "./nflog/": ["./notify/"], "./silence/": ["./notify/", "./api/v2/"],
                 "./notify/": ["./dispatch/"], "./config/": ["./dispatch/", "./cli/..."], "./pkg/labels/": ["./matcher/...", "./config/...", "./silence/"],
                 "./timeinterval/": ["./config/", "./notify/"], "./alert/": ["./provider/...", "./dispatch/", "./api/v2/"], "./limit/": ["./store/", "./provider/..."],
                 "./cluster/": ["./silence/", "./nflog/"], "./inhibit/": ["./notify/"], "./provider/mem/": ["./dispatch/", "./api/v2/"]}
        tp = list(pkgs)
        for p in pkgs:
            tp += users.get(p, [])
        tp = sorted(set(tp))
        t0 = time.time()
        rc, out = sh("go test -count=1 %s" % " ".join(tp), cwd=wt, env=env, timeout=2400)
        res["existing_tests"] = dict(packages=tp, passed=rc == 0, wall_s=round(time.time() - t0, 1))
        if rc != 0:
            res["existing_tests"]["tail"] = out[-1500:]
        # demonstration: the test file goes into the package named by the `go test` part of demo_cmd
        demos = [f for f in glob.glob(os.path.join(src, "*")) if os.path.basename(f) not in ("patch.diff", "meta.json", "property.txt") and os.path.isfile(f)]
        raw = meta.get("demo_cmd", "")
        i = raw.rfind("go test")
        gotest = raw[i:].strip().strip("`'\"") if i >= 0 else ""
        gotest = gotest.split("&&")[0].split(";")[0].strip()
        mm = re.search(r"go test[^()\n]*?\./[\w/.-]+/?", gotest)
        if mm:
            gotest = mm.group(0)
        pk = re.findall(r"\./([\w/.-]+?)/?(?:\s|$)", gotest + " ")
        target = os.path.join(wt, pk[0]) if pk and os.path.isdir(os.path.join(wt, pk[0])) else None
        placed = []
        for d in demos:
            if os.path.basename(d).endswith("_test.go") and target:
                shutil.copy(d, target)
                placed.append(os.path.join(target, os.path.basename(d)))
        res["demo_files"] = [os.path.basename(d) for d in demos]
        demo_cmd = gotest
        rc1, out1 = sh(demo_cmd, cwd=wt, env=env, timeout=1200) if demo_cmd and target else (0, "no runnable demo command")
        sh("git apply -R %s" % patch, cwd=wt)
        rc2, out2 = sh(demo_cmd, cwd=wt, env=env, timeout=1200) if demo_cmd and target else (1, "no runnable demo command")
        sh("git apply %s" % patch, cwd=wt)
        res["demo"] = dict(cmd=demo_cmd, package=pk[0] if pk else None, fails_with_patch=rc1 != 0, passes_without_patch=rc2 == 0)
        if rc1 == 0 or rc2 != 0:
            res["demo"]["with_tail"] = out1[-600:]
            res["demo"]["without_tail"] = out2[-600:]
        for f in placed:
            os.remove(f)
        # the checks
        res["checks"] = {}
        for c in checks:
            t0 = time.time()
            rc, out = sh("cd %s && VERIF_REPO_DIR=%s bin/check %s --tier %s" % (ROOT, wt, c, tier), timeout=7200)
            verdict = "CAUGHT" if (rc == 1 and "VIOLATION property=" in out) else ("MISSED" if rc == 0 else "INCONCLUSIVE")
            kinds = sorted(set(re.findall(r"^\s*\[([a-z0-9-]+)\]", out, re.M)))
            subs = sorted(set(re.findall(r"---- (\w+) failed", out)))
            res["checks"][c] = dict(tier=tier, verdict=verdict, wall_s=round(time.time() - t0, 1), kinds=kinds, failed_sub_checks=subs)
            if verdict == "INCONCLUSIVE":
                res["checks"][c]["tail"] = out[-800:]
        return finish(res, src, sid)
    finally:
        sh("git -C /repo worktree remove --force %s" % wt)


def finish(res, src, sid):
    dst = os.path.join(ROOT, "seeded", sid)
    os.makedirs(dst, exist_ok=True)
    for f in glob.glob(os.path.join(src, "*")):
        if os.path.isfile(f) and os.path.basename(f) not in ("meta.json", "property.txt") and os.path.abspath(os.path.dirname(f)) != os.path.abspath(dst):
            shutil.copy(f, dst)
    with open(os.path.join(dst, "meta.json"), "w") as f:
        json.dump(res, f, indent=1)
    print(json.dumps({k: res.get(k) for k in ("property", "summary", "applies", "compiles", "existing_tests", "demo", "checks")}, indent=1)[:3000])
    return 0


if __name__ == "__main__":
    sys.exit(main())
