#!/bin/bash
# Runs every registered check of the given tier once; prints id, exit code, wall seconds.
tier=${1:-quick}
cd "$(dirname "$0")/.."
for f in bin/table.d/C*.json; do
  id=$(basename $f .json)
  s=$(date +%s)
  out=$(bin/check $id --tier $tier 2>&1); rc=$?
  e=$(date +%s)
  echo "$id rc=$rc $((e-s))s $(echo "$out" | grep -c '^KNOWN-FINDING') known  $(echo "$out" | grep 'tier=' | sed 's/.*seed=[0-9]*: //')"
  if [ $rc -ne 0 ]; then echo "$out" | tail -15; fi
done
