package crashfs

import (
	"errors"
	"fmt"
	"strings"
	"testing"
)

func hx(s string) string {
	var sb strings.Builder
	for i := 0; i < len(s); i++ {
		fmt.Fprintf(&sb, "\\x%02x", s[i])
	}
	return sb.String()
}

func trace(lines ...string) string { return strings.Join(lines, "\n") + "\n" }

func TestC11ParseAndEnumerate(t *testing.T) {
	d := "/data"
	tmp := hx(d + "/silences.1a")
	tgt := hx(d + "/silences")
	tr := trace(
		`10 openat(AT_FDCWD<`+hx("/cwd")+`>, "`+hx("/etc/passwd")+`", O_RDONLY|O_CLOEXEC) = 3<`+hx("/etc/passwd")+`>`,
		`10 close(3<`+hx("/etc/passwd")+`>) = 0`,
		`10 openat(AT_FDCWD<`+hx("/cwd")+`>, "`+tgt+`", O_RDONLY|O_CLOEXEC) = 3<`+tgt+`>`,
		`10 close(3<`+tgt+`>) = 0`,
		`11 openat(AT_FDCWD<`+hx("/cwd")+`>, "`+tmp+`", O_RDWR|O_CREAT|O_TRUNC|O_CLOEXEC, 0666) = 7<`+tmp+`>`,
		`11 write(7<`+tmp+`>, "`+hx("AAABBB")+`", 6 <unfinished ...>`,
		`12 --- SIGURG {si_signo=SIGURG, si_code=SI_TKILL, si_pid=1, si_uid=0} ---`,
		`12 write(2</dev/pts/0>, "`+hx("noise")+`", 5) = 5`,
		`11 <... write resumed>) = 6`,
		`11 fsync(7<`+tmp+`>) = 0`,
		`11 close(7<`+tmp+`>) = 0`,
		`11 renameat(AT_FDCWD<`+hx("/cwd")+`>, "`+tmp+`", AT_FDCWD<`+hx("/cwd")+`>, "`+tgt+`") = 0`,
		`11 openat(AT_FDCWD<`+hx("/cwd")+`>, "`+hx(d+"/nope")+`", O_RDONLY) = -1 ENOENT (No such file or directory)`,
		`10 +++ exited with 0 +++`,
	)
	ops, err := ParseStrace(strings.NewReader(tr), d)
	if err != nil {
		t.Fatal(err)
	}
	var kinds []string
	for _, o := range ops {
		kinds = append(kinds, o.Kind.String())
	}
	if got := strings.Join(kinds, ","); got != "open,close,open,write,sync,close,rename" {
		t.Fatalf("ops: %s", got)
	}
	if string(ops[3].Data) != "AAABBB" {
		t.Fatalf("data %q", ops[3].Data)
	}
	cuts := func(name string, before []byte, off int64, data []byte) []Cut {
		return []Cut{{Off: 3, Mid: false}, {Off: 4, Mid: true}}
	}
	var states []string
	err = Enumerate(d, map[string][]byte{"silences": []byte("OLD")}, ops, cuts, func(s State) bool {
		states = append(states, fmt.Sprintf("%d:%s|%s|cut=%d,mid=%v", s.Point, s.Files["silences"], s.Files["silences.1a"], s.Cut, s.Mid))
		return true
	})
	if err != nil {
		t.Fatal(err)
	}
	want := []string{
		"0:OLD||cut=-1,mid=false", "1:OLD||cut=-1,mid=false", "2:OLD||cut=-1,mid=false", "3:OLD||cut=-1,mid=false",
		"4:OLD|AAABBB|cut=-1,mid=false", "4:OLD||cut=0,mid=false", "4:OLD|AAA|cut=3,mid=false", "4:OLD|AAAB|cut=4,mid=true",
		"5:OLD|AAABBB|cut=-1,mid=false", "6:OLD|AAABBB|cut=-1,mid=false", "7:AAABBB||cut=-1,mid=false",
	}
	if strings.Join(states, "\n") != strings.Join(want, "\n") {
		t.Fatalf("states:\n%s\nwant:\n%s", strings.Join(states, "\n"), strings.Join(want, "\n"))
	}

	// writer without fsync: after the rename the target may be empty or torn
	var noSync []Op
	for _, o := range ops {
		if o.Kind != OpSync {
			noSync = append(noSync, o)
		}
	}
	torn := 0
	Enumerate(d, map[string][]byte{"silences": []byte("OLD")}, noSync, cuts, func(s State) bool {
		if s.Point == len(noSync) && string(s.Files["silences"]) != "AAABBB" {
			torn++
		}
		return true
	})
	if torn != 3 {
		t.Fatalf("torn states after rename without fsync: %d, want 3", torn)
	}

	// in-place writer: O_TRUNC on the target
	inplace := trace(
		`11 openat(AT_FDCWD<`+hx("/cwd")+`>, "`+tgt+`", O_RDWR|O_CREAT|O_TRUNC|O_CLOEXEC, 0666) = 7<`+tgt+`>`,
		`11 write(7<`+tgt+`>, "`+hx("NEWNEW")+`", 6) = 6`,
		`11 fsync(7<`+tgt+`>) = 0`,
	)
	ops2, err := ParseStrace(strings.NewReader(inplace), d)
	if err != nil {
		t.Fatal(err)
	}
	got := map[string]bool{}
	Enumerate(d, map[string][]byte{"silences": []byte("OLD")}, ops2, nil, func(s State) bool {
		got[fmt.Sprintf("%d:%s", s.Point, s.Files["silences"])] = true
		return true
	})
	for _, w := range []string{"0:OLD", "1:", "1:OLD", "2:NEWNEW", "2:", "2:OLD", "3:NEWNEW"} {
		if !got[w] {
			t.Fatalf("in-place: missing state %q in %v", w, got)
		}
	}
	if got["3:OLD"] || got["3:"] {
		t.Fatalf("in-place: stale state after fsync: %v", got)
	}

	// unknown data-modifying call
	bad := trace(
		`11 openat(AT_FDCWD<`+hx("/cwd")+`>, "`+tmp+`", O_RDWR|O_CREAT|O_TRUNC|O_CLOEXEC, 0666) = 7<`+tmp+`>`,
		`11 writev(7<`+tmp+`>, [{iov_base="`+hx("ab")+`", iov_len=2}], 1) = 2`,
	)
	ops3, err := ParseStrace(strings.NewReader(bad), d)
	if err != nil {
		t.Fatal(err)
	}
	err = Enumerate(d, nil, ops3, nil, func(State) bool { return true })
	if !errors.Is(err, ErrUnknownOp) {
		t.Fatalf("writev must be inconclusive, got %v", err)
	}
	// truncated data
	bad2 := trace(
		`11 openat(AT_FDCWD<`+hx("/cwd")+`>, "`+tmp+`", O_RDWR|O_CREAT|O_TRUNC|O_CLOEXEC, 0666) = 7<`+tmp+`>`,
		`11 write(7<`+tmp+`>, "`+hx("ab")+`"..., 200) = 200`,
	)
	ops4, _ := ParseStrace(strings.NewReader(bad2), d)
	if len(ops4) != 2 || ops4[1].Kind != OpUnknown {
		t.Fatalf("truncated write data must be unknown: %v", ops4)
	}
}
