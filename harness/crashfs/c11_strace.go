// Package crashfs is engine E5 of the C11 check: it parses the syscall history
// of a snapshot writer recorded by
//
//	strace -f -y -xx -s <big> -e trace=openat,write,pwrite64,writev,sendfile,
//	    copy_file_range,ftruncate,fsync,fdatasync,close,rename,renameat,
//	    renameat2,unlinkat,linkat -o FILE
//
// keeps the operations that touch one directory, replays them into a small
// file-system model (c11_model.go) and enumerates, for every crash point
// between two operations, the on-disk states that model allows.
package crashfs

import (
	"bufio"
	"fmt"
	"io"
	"path/filepath"
	"strconv"
	"strings"
)

// Kind of a file-system operation relevant to the model.
type Kind int

const (
	OpOpen Kind = iota
	OpWrite
	OpPwrite
	OpTruncate
	OpSync
	OpClose
	OpRename
	OpUnlink
	OpLink
	// OpUnknown: a data-modifying call on a tracked file that the model does not
	// understand (writev, sendfile, copy_file_range, renameat2 with flags, a
	// truncated data argument, a rename across the directory boundary ...).
	// The replay refuses to continue: the case is inconclusive, never a pass.
	OpUnknown
)

func (k Kind) String() string {
	return [...]string{"open", "write", "pwrite", "truncate", "sync", "close", "rename", "unlink", "link", "unknown"}[k]
}

// Op is one completed, successful system call touching the tracked directory.
type Op struct {
	Line  int    // line of the strace file on which the call completed
	PID   int    // thread id
	Call  string // syscall name
	Kind  Kind
	Path  string // open/unlink: absolute path; rename/link: old path
	Path2 string // rename/link: new path
	FD    int    // fd argument; for open the returned fd
	Flags string // open flags as printed by strace
	Data  []byte // write/pwrite: the bytes actually written (cut to the return value)
	Off   int64  // pwrite: offset; truncate: new length
	Why   string // OpUnknown: why
}

func (o Op) String() string {
	switch o.Kind {
	case OpOpen:
		return fmt.Sprintf("#%d open(%s, %s)=%d", o.Line, filepath.Base(o.Path), o.Flags, o.FD)
	case OpWrite:
		return fmt.Sprintf("#%d write(%d, %d bytes)", o.Line, o.FD, len(o.Data))
	case OpPwrite:
		return fmt.Sprintf("#%d pwrite(%d, %d bytes @%d)", o.Line, o.FD, len(o.Data), o.Off)
	case OpTruncate:
		return fmt.Sprintf("#%d ftruncate(%d, %d)", o.Line, o.FD, o.Off)
	case OpSync:
		return fmt.Sprintf("#%d %s(%d)", o.Line, o.Call, o.FD)
	case OpClose:
		return fmt.Sprintf("#%d close(%d)", o.Line, o.FD)
	case OpRename:
		return fmt.Sprintf("#%d rename(%s -> %s)", o.Line, filepath.Base(o.Path), filepath.Base(o.Path2))
	case OpUnlink:
		return fmt.Sprintf("#%d unlink(%s)", o.Line, filepath.Base(o.Path))
	case OpLink:
		return fmt.Sprintf("#%d link(%s -> %s)", o.Line, filepath.Base(o.Path), filepath.Base(o.Path2))
	}
	return fmt.Sprintf("#%d %s: UNKNOWN (%s)", o.Line, o.Call, o.Why)
}

// call is one syscall line after joining "<unfinished ...>" / "resumed" halves.
type call struct {
	line int
	pid  int
	name string
	args []string
	ret  string // text after " = "
}

// ParseStrace reads an strace output file and returns the operations that
// touch files directly inside dir (absolute, clean path), in completion order.
// File descriptors are followed with an own table (open -> fd, close), the -y
// annotations are only used as a cross-check: a data-modifying call whose
// annotation points into dir but whose fd the table does not know becomes
// OpUnknown.
func ParseStrace(r io.Reader, dir string) ([]Op, error) {
	dir = filepath.Clean(dir)
	br := bufio.NewReaderSize(r, 1<<20)
	pending := map[int]string{} // pid -> text of the unfinished half
	fds := map[int]bool{}       // fds that refer to a file in dir (or dir itself)
	var ops []Op
	ln := 0
	for {
		text, err := readLine(br)
		if err != nil && text == "" {
			if err == io.EOF {
				break
			}
			return nil, err
		}
		ln++
		text = strings.TrimRight(text, "\r\n")
		if text == "" {
			continue
		}
		sp := strings.IndexByte(text, ' ')
		if sp <= 0 {
			return nil, fmt.Errorf("strace line %d: no pid: %.80q", ln, text)
		}
		pid, perr := strconv.Atoi(text[:sp])
		if perr != nil {
			return nil, fmt.Errorf("strace line %d: bad pid: %.80q", ln, text)
		}
		rest := strings.TrimLeft(text[sp+1:], " ")
		switch {
		case strings.HasPrefix(rest, "+++") || strings.HasPrefix(rest, "---"):
			continue // exit / signal lines
		case strings.HasSuffix(rest, "<unfinished ...>"):
			pending[pid] = strings.TrimSuffix(rest, "<unfinished ...>")
			continue
		case strings.HasPrefix(rest, "<... "):
			end := strings.Index(rest, " resumed>")
			if end < 0 {
				return nil, fmt.Errorf("strace line %d: bad resume: %.80q", ln, rest)
			}
			head, ok := pending[pid]
			if !ok {
				return nil, fmt.Errorf("strace line %d: resume without start: %.80q", ln, rest)
			}
			delete(pending, pid)
			rest = head + rest[end+len(" resumed>"):]
		}
		c, ok, cerr := splitCall(rest)
		if cerr != nil {
			return nil, fmt.Errorf("strace line %d: %v: %.120q", ln, cerr, rest)
		}
		if !ok {
			continue
		}
		c.line, c.pid = ln, pid
		op, keep, oerr := interpret(c, dir, fds)
		if oerr != nil {
			return nil, fmt.Errorf("strace line %d: %v: %.120q", ln, oerr, rest)
		}
		if keep {
			ops = append(ops, op)
		}
	}
	return ops, nil
}

func readLine(br *bufio.Reader) (string, error) {
	var sb strings.Builder
	for {
		chunk, isPrefix, err := br.ReadLine()
		sb.Write(chunk)
		if err != nil {
			return sb.String(), err
		}
		if !isPrefix {
			return sb.String(), nil
		}
	}
}

// splitCall splits `name(arg, arg, ...) = ret`. ok=false for lines that are
// not syscalls (e.g. "exit_group(0) = ?" is a syscall and is returned).
func splitCall(s string) (call, bool, error) {
	par := strings.IndexByte(s, '(')
	if par <= 0 {
		return call{}, false, nil
	}
	name := s[:par]
	for _, ch := range name {
		if !(ch == '_' || ch >= 'a' && ch <= 'z' || ch >= '0' && ch <= '9' || ch >= 'A' && ch <= 'Z') {
			return call{}, false, nil
		}
	}
	// walk to the matching ')'
	var args []string
	depth := 0
	inStr := false
	start := par + 1
	i := par + 1
	endArgs := -1
	for ; i < len(s); i++ {
		ch := s[i]
		if inStr {
			if ch == '\\' {
				i++
			} else if ch == '"' {
				inStr = false
			}
			continue
		}
		switch ch {
		case '"':
			inStr = true
		case '(', '[', '{', '<':
			depth++
		case ']', '}', '>':
			depth--
		case ')':
			if depth == 0 {
				endArgs = i
			} else {
				depth--
			}
		case ',':
			if depth == 0 {
				args = append(args, strings.TrimSpace(s[start:i]))
				start = i + 1
			}
		}
		if endArgs >= 0 {
			break
		}
	}
	if endArgs < 0 {
		return call{}, false, fmt.Errorf("unterminated argument list")
	}
	if last := strings.TrimSpace(s[start:endArgs]); last != "" || len(args) > 0 {
		args = append(args, last)
	}
	ret := ""
	if eq := strings.Index(s[endArgs:], " = "); eq >= 0 {
		ret = strings.TrimSpace(s[endArgs+eq+3:])
	}
	return call{name: name, args: args, ret: ret}, true, nil
}

// retInt parses the numeric part of a return value ("7</path>", "-1 ENOENT (..)", "0").
func retInt(ret string) (int64, bool) {
	end := 0
	for end < len(ret) && (ret[end] == '-' || ret[end] >= '0' && ret[end] <= '9') {
		end++
	}
	if end == 0 {
		return 0, false
	}
	v, err := strconv.ParseInt(ret[:end], 10, 64)
	return v, err == nil
}

// fdArg parses "7</path/annotation>" or "7" or "AT_FDCWD</cwd>".
func fdArg(a string) (fd int, annot string, isCwd bool, err error) {
	num := a
	if lt := strings.IndexByte(a, '<'); lt >= 0 {
		num = a[:lt]
		if strings.HasSuffix(a, ">") {
			b, _, derr := unescape(a[lt+1 : len(a)-1])
			if derr == nil {
				annot = string(b)
			}
		}
	}
	if num == "AT_FDCWD" {
		return -100, annot, true, nil
	}
	v, perr := strconv.Atoi(num)
	if perr != nil {
		return 0, "", false, fmt.Errorf("bad fd argument %.40q", a)
	}
	return v, annot, false, nil
}

// strArg decodes a quoted C string argument. truncated reports a trailing "...".
func strArg(a string) (b []byte, truncated bool, err error) {
	if !strings.HasPrefix(a, "\"") {
		return nil, false, fmt.Errorf("not a string argument: %.40q", a)
	}
	end := -1
	for i := 1; i < len(a); i++ {
		if a[i] == '\\' {
			i++
			continue
		}
		if a[i] == '"' {
			end = i
			break
		}
	}
	if end < 0 {
		return nil, false, fmt.Errorf("unterminated string argument")
	}
	b, _, err = unescape(a[1:end])
	return b, strings.HasPrefix(a[end+1:], "..."), err
}

// unescape decodes strace's C-style escapes (\xHH with -xx, octal, \n ...).
func unescape(s string) ([]byte, int, error) {
	out := make([]byte, 0, len(s)/4+8)
	for i := 0; i < len(s); i++ {
		ch := s[i]
		if ch != '\\' {
			out = append(out, ch)
			continue
		}
		i++
		if i >= len(s) {
			return nil, 0, fmt.Errorf("dangling backslash")
		}
		switch s[i] {
		case 'x':
			if i+2 >= len(s) {
				return nil, 0, fmt.Errorf("short hex escape")
			}
			hi, ok1 := hexVal(s[i+1])
			lo, ok2 := hexVal(s[i+2])
			if !ok1 || !ok2 {
				return nil, 0, fmt.Errorf("bad hex escape")
			}
			out = append(out, hi<<4|lo)
			i += 2
		case 'n':
			out = append(out, '\n')
		case 't':
			out = append(out, '\t')
		case 'r':
			out = append(out, '\r')
		case 'v':
			out = append(out, '\v')
		case 'f':
			out = append(out, '\f')
		case 'a':
			out = append(out, '\a')
		case 'b':
			out = append(out, '\b')
		case 'e':
			out = append(out, 27)
		case '\\', '"', '\'':
			out = append(out, s[i])
		case '0', '1', '2', '3', '4', '5', '6', '7':
			v := 0
			n := 0
			for n < 3 && i < len(s) && s[i] >= '0' && s[i] <= '7' {
				v = v*8 + int(s[i]-'0')
				i++
				n++
			}
			i--
			out = append(out, byte(v))
		default:
			return nil, 0, fmt.Errorf("unknown escape \\%c", s[i])
		}
	}
	return out, len(out), nil
}

func hexVal(c byte) (byte, bool) {
	switch {
	case c >= '0' && c <= '9':
		return c - '0', true
	case c >= 'a' && c <= 'f':
		return c - 'a' + 10, true
	case c >= 'A' && c <= 'F':
		return c - 'A' + 10, true
	}
	return 0, false
}

// resolve makes the (dirfd, path) pair of an *at call absolute.
func resolve(dirfdArg, pathArg string) (string, error) {
	pb, trunc, err := strArg(pathArg)
	if err != nil {
		return "", err
	}
	if trunc {
		return "", fmt.Errorf("path argument truncated by strace")
	}
	p := string(pb)
	if filepath.IsAbs(p) {
		return filepath.Clean(p), nil
	}
	_, annot, _, err := fdArg(dirfdArg)
	if err != nil {
		return "", err
	}
	if annot == "" {
		return "", fmt.Errorf("relative path %q without an annotated directory fd", p)
	}
	return filepath.Clean(filepath.Join(annot, p)), nil
}

func inDir(p, dir string) bool { return filepath.Dir(p) == dir }

// interpret turns a syscall into an Op if it concerns dir. fds is the set of
// descriptors currently known to refer to a file in dir (or to dir itself).
func interpret(c call, dir string, fds map[int]bool) (Op, bool, error) {
	op := Op{Line: c.line, PID: c.pid, Call: c.name}
	rv, hasRet := retInt(c.ret)
	failed := !hasRet || rv < 0
	unknown := func(why string) (Op, bool, error) {
		op.Kind, op.Why = OpUnknown, why
		return op, true, nil
	}
	// fd-based calls: decide relevance by the own table, cross-check with -y.
	fdRelevant := func(arg string) (int, bool, bool, error) {
		fd, annot, _, err := fdArg(arg)
		if err != nil {
			return 0, false, false, err
		}
		known := fds[fd]
		stray := !known && annot != "" && (inDir(annot, dir) || annot == dir)
		return fd, known, stray, nil
	}
	need := func(n int) error {
		if len(c.args) < n {
			return fmt.Errorf("%s: %d arguments, want >= %d", c.name, len(c.args), n)
		}
		return nil
	}
	switch c.name {
	case "openat":
		if err := need(3); err != nil {
			return op, false, err
		}
		p, err := resolve(c.args[0], c.args[1])
		if err != nil {
			// unreadable path: only matters if the result points into dir
			if !failed {
				if _, annot, _, e2 := fdArg(c.ret); e2 == nil && annot != "" && (inDir(annot, dir) || annot == dir) {
					return unknown("openat with unresolvable path: " + err.Error())
				}
			}
			return op, false, nil
		}
		if failed || !(inDir(p, dir) || p == dir) {
			if !failed && fds[int(rv)] {
				// the fd number is being reused for an unrelated file without a traced close
				delete(fds, int(rv))
			}
			return op, false, nil
		}
		op.Kind, op.Path, op.FD, op.Flags = OpOpen, p, int(rv), c.args[2]
		fds[op.FD] = true
		return op, true, nil
	case "write", "pwrite64":
		if err := need(3); err != nil {
			return op, false, err
		}
		fd, known, stray, err := fdRelevant(c.args[0])
		if err != nil {
			return op, false, err
		}
		if failed || rv == 0 && !known {
			return op, false, nil
		}
		if stray {
			op.FD = fd
			return unknown("write on a descriptor of the tracked directory that was never seen opened")
		}
		if !known {
			return op, false, nil
		}
		data, trunc, err := strArg(c.args[1])
		if err != nil {
			op.FD = fd
			return unknown("write data not a string: " + err.Error())
		}
		if trunc || int64(len(data)) < rv {
			op.FD = fd
			return unknown("write data truncated by strace (raise -s)")
		}
		op.Kind, op.FD, op.Data = OpWrite, fd, data[:rv]
		if c.name == "pwrite64" {
			if err := need(4); err != nil {
				return op, false, err
			}
			off, perr := strconv.ParseInt(c.args[3], 10, 64)
			if perr != nil {
				return unknown("pwrite64 offset unreadable")
			}
			op.Kind, op.Off = OpPwrite, off
		}
		return op, true, nil
	case "ftruncate":
		if err := need(2); err != nil {
			return op, false, err
		}
		fd, known, stray, err := fdRelevant(c.args[0])
		if err != nil {
			return op, false, err
		}
		if failed || !(known || stray) {
			return op, false, nil
		}
		op.FD = fd
		if stray {
			return unknown("ftruncate on an untracked descriptor of the tracked directory")
		}
		n, perr := strconv.ParseInt(c.args[1], 10, 64)
		if perr != nil {
			return unknown("ftruncate length unreadable")
		}
		op.Kind, op.Off = OpTruncate, n
		return op, true, nil
	case "fsync", "fdatasync":
		if err := need(1); err != nil {
			return op, false, err
		}
		fd, known, stray, err := fdRelevant(c.args[0])
		if err != nil {
			return op, false, err
		}
		if failed || !(known || stray) {
			return op, false, nil
		}
		op.FD = fd
		if stray {
			// a sync we cannot attribute can only make more data durable: ignoring it
			// keeps the enumeration a superset; but be strict and flag it.
			return unknown("sync on an untracked descriptor of the tracked directory")
		}
		op.Kind = OpSync
		return op, true, nil
	case "close":
		if err := need(1); err != nil {
			return op, false, err
		}
		fd, _, _, err := fdArg(c.args[0])
		if err != nil {
			return op, false, err
		}
		if failed || !fds[fd] {
			return op, false, nil
		}
		delete(fds, fd)
		op.Kind, op.FD = OpClose, fd
		return op, true, nil
	case "rename", "renameat", "renameat2", "linkat":
		var oldp, newp string
		var err error
		switch c.name {
		case "rename":
			if err = need(2); err != nil {
				return op, false, err
			}
			oldp, err = resolve("AT_FDCWD", c.args[0])
			if err == nil {
				newp, err = resolve("AT_FDCWD", c.args[1])
			}
		default:
			if err = need(4); err != nil {
				return op, false, err
			}
			oldp, err = resolve(c.args[0], c.args[1])
			if err == nil {
				newp, err = resolve(c.args[2], c.args[3])
			}
		}
		if failed {
			return op, false, nil
		}
		if err != nil {
			return unknown("rename/link with unresolvable path: " + err.Error())
		}
		inOld, inNew := inDir(oldp, dir), inDir(newp, dir)
		if !inOld && !inNew {
			return op, false, nil
		}
		op.Path, op.Path2 = oldp, newp
		if inOld != inNew {
			return unknown("rename/link across the boundary of the tracked directory")
		}
		if c.name == "renameat2" && len(c.args) >= 5 && c.args[4] != "0" {
			return unknown("renameat2 with flags " + c.args[4])
		}
		if c.name == "linkat" {
			op.Kind = OpLink
		} else {
			op.Kind = OpRename
		}
		return op, true, nil
	case "unlinkat":
		if err := need(2); err != nil {
			return op, false, err
		}
		if failed {
			return op, false, nil
		}
		p, err := resolve(c.args[0], c.args[1])
		if err != nil {
			return op, false, nil
		}
		if !inDir(p, dir) {
			return op, false, nil
		}
		op.Kind, op.Path = OpUnlink, p
		return op, true, nil
	case "writev", "sendfile", "copy_file_range":
		idx := 0
		if c.name == "copy_file_range" {
			idx = 2
		}
		if err := need(idx + 1); err != nil {
			return op, false, err
		}
		fd, known, stray, err := fdRelevant(c.args[idx])
		if err != nil {
			return op, false, err
		}
		if failed || !(known || stray) {
			return op, false, nil
		}
		op.FD = fd
		return unknown(c.name + " on a tracked file is not modelled")
	}
	return op, false, nil
}
