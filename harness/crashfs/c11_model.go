package crashfs

import (
	"errors"
	"fmt"
	"path/filepath"
	"sort"
	"strings"
)

// The file-system model (DESIGN §3 E5).
//
// Per inode: durable bytes plus an ordered list of pending (volatile) changes.
// write/pwrite/ftruncate/O_TRUNC append a pending change; fsync/fdatasync fold
// all pending changes into the durable bytes. Name-space operations (create,
// rename, link, unlink) take effect atomically at the call; in particular a
// rename may reach the disk before unsynced data of the renamed inode. After a
// crash an inode holds its durable bytes with a *prefix* of its pending changes
// applied, the last one (if it is a write) possibly only up to a cut offset.

// ErrUnknownOp is returned (wrapped) when the history contains a data-modifying
// operation on a tracked file that the model cannot replay.
var ErrUnknownOp = errors.New("operation not modelled")

type pend struct {
	trunc bool
	size  int64 // trunc
	off   int64 // write
	data  []byte
}

type inode struct {
	id      int
	durable []byte
	pending []pend
}

type fdent struct {
	ino    *inode // nil: the directory itself
	off    int64
	append bool
}

// FS is the replayed state of one directory.
type FS struct {
	dir    string
	names  map[string]*inode
	fds    map[int]*fdent
	nextID int
}

// NewFS starts from files (base name -> content) that are completely durable.
func NewFS(dir string, initial map[string][]byte) *FS {
	fs := &FS{dir: filepath.Clean(dir), names: map[string]*inode{}, fds: map[int]*fdent{}}
	names := make([]string, 0, len(initial))
	for n := range initial {
		names = append(names, n)
	}
	sort.Strings(names)
	for _, n := range names {
		fs.nextID++
		fs.names[n] = &inode{id: fs.nextID, durable: append([]byte(nil), initial[n]...)}
	}
	return fs
}

func applyPend(content []byte, p pend, cut int) []byte {
	if p.trunc {
		if int64(len(content)) >= p.size {
			return content[:p.size:p.size]
		}
		out := make([]byte, p.size)
		copy(out, content)
		return out
	}
	data := p.data
	if cut >= 0 && cut < len(data) {
		data = data[:cut]
	}
	if len(data) == 0 {
		return content
	}
	end := p.off + int64(len(data))
	size := int64(len(content))
	if end > size {
		size = end
	}
	out := make([]byte, size)
	copy(out, content)
	copy(out[p.off:], data)
	return out
}

// volatileContent is what a reader sees before the crash: everything applied.
func (ino *inode) volatileContent() []byte {
	c := ino.durable
	for _, p := range ino.pending {
		c = applyPend(c, p, -1)
	}
	return c
}

// Apply replays one operation.
func (fs *FS) Apply(op Op) error {
	base := func(p string) string { return filepath.Base(p) }
	switch op.Kind {
	case OpOpen:
		if filepath.Clean(op.Path) == fs.dir {
			fs.fds[op.FD] = &fdent{}
			return nil
		}
		n := base(op.Path)
		ino := fs.names[n]
		flags := "|" + op.Flags + "|"
		has := func(f string) bool { return strings.Contains(flags, "|"+f+"|") }
		if ino == nil {
			if !has("O_CREAT") {
				// O_TMPFILE and friends
				return fmt.Errorf("%w: %v opens a name the model does not know without O_CREAT", ErrUnknownOp, op)
			}
			fs.nextID++
			ino = &inode{id: fs.nextID}
			fs.names[n] = ino
		} else if has("O_TRUNC") && (has("O_WRONLY") || has("O_RDWR")) {
			if len(ino.volatileContent()) > 0 {
				ino.pending = append(ino.pending, pend{trunc: true, size: 0})
			}
		}
		fs.fds[op.FD] = &fdent{ino: ino, append: has("O_APPEND")}
	case OpWrite, OpPwrite:
		fd := fs.fds[op.FD]
		if fd == nil || fd.ino == nil {
			return fmt.Errorf("%w: %v on a descriptor the model does not know", ErrUnknownOp, op)
		}
		off := fd.off
		if op.Kind == OpPwrite {
			off = op.Off
		} else if fd.append {
			off = int64(len(fd.ino.volatileContent()))
		}
		fd.ino.pending = append(fd.ino.pending, pend{off: off, data: op.Data})
		if op.Kind == OpWrite {
			fd.off = off + int64(len(op.Data))
		}
	case OpTruncate:
		fd := fs.fds[op.FD]
		if fd == nil || fd.ino == nil {
			return fmt.Errorf("%w: %v on a descriptor the model does not know", ErrUnknownOp, op)
		}
		fd.ino.pending = append(fd.ino.pending, pend{trunc: true, size: op.Off})
	case OpSync:
		fd := fs.fds[op.FD]
		if fd == nil {
			return fmt.Errorf("%w: %v on a descriptor the model does not know", ErrUnknownOp, op)
		}
		if fd.ino != nil {
			fd.ino.durable = fd.ino.volatileContent()
			fd.ino.pending = nil
		}
	case OpClose:
		delete(fs.fds, op.FD)
	case OpRename:
		o, n := base(op.Path), base(op.Path2)
		ino := fs.names[o]
		if ino == nil {
			return fmt.Errorf("%w: %v renames a name the model does not know", ErrUnknownOp, op)
		}
		if o != n {
			fs.names[n] = ino
			delete(fs.names, o)
		}
	case OpLink:
		ino := fs.names[base(op.Path)]
		if ino == nil {
			return fmt.Errorf("%w: %v links a name the model does not know", ErrUnknownOp, op)
		}
		fs.names[base(op.Path2)] = ino
	case OpUnlink:
		delete(fs.names, base(op.Path))
	default:
		return fmt.Errorf("%w: %v", ErrUnknownOp, op)
	}
	return nil
}

// Cut is an offset into the data of one pending write at which the crash may
// have cut it; Mid says the offset lies strictly inside a record.
type Cut struct {
	Off int
	Mid bool
}

// CutFunc proposes cut offsets (0 < Off < len(data)) for the data of one
// pending write that starts at file offset off of content before. "Nothing of
// the write" and "all of it" are always enumerated by the model itself.
type CutFunc func(name string, before []byte, off int64, data []byte) []Cut

// State is one on-disk state the model allows at a crash point.
type State struct {
	Point   int               // the crash happens after ops[:Point]
	Files   map[string][]byte // base name -> content of every name bound in the directory
	Varied  []string          // names bound to the inode whose content was varied (nil: baseline)
	Applied int               // number of pending changes of the varied inode that reached the disk completely
	Pending int               // number of pending changes the varied inode had
	Cut     int               // >=0: additionally, this many bytes of the next pending write reached the disk
	Mid     bool              // the cut lies strictly inside a record
	Desc    string
}

// Enumerate replays ops and calls visit for every state at every crash point
// (before the first operation, between any two, after the last). visit returns
// false to stop. The baseline state of a crash point is "every pending change
// of every inode reached the disk"; then, one inode at a time, every proper
// prefix of its pending changes, with the next write cut at 0 (= nothing) and
// at the offsets cuts proposes. Inodes that are not bound to any name are not
// varied. Byte-identical directory states of one crash point are visited once.
func Enumerate(dir string, initial map[string][]byte, ops []Op, cuts CutFunc, visit func(State) bool) error {
	fs := NewFS(dir, initial)
	for point := 0; ; point++ {
		if !fs.enumeratePoint(point, cuts, visit) {
			return nil
		}
		if point == len(ops) {
			return nil
		}
		if err := fs.Apply(ops[point]); err != nil {
			return err
		}
	}
}

func (fs *FS) enumeratePoint(point int, cuts CutFunc, visit func(State) bool) bool {
	// group names by inode, deterministic order
	names := make([]string, 0, len(fs.names))
	for n := range fs.names {
		names = append(names, n)
	}
	sort.Strings(names)
	byIno := map[int][]string{}
	var inos []*inode
	for _, n := range names {
		ino := fs.names[n]
		if _, ok := byIno[ino.id]; !ok {
			inos = append(inos, ino)
		}
		byIno[ino.id] = append(byIno[ino.id], n)
	}
	full := map[int][]byte{}
	for _, ino := range inos {
		full[ino.id] = ino.volatileContent()
	}
	seen := map[string]bool{}
	emit := func(varied *inode, content []byte, st State) bool {
		files := make(map[string][]byte, len(names))
		var key strings.Builder
		for _, n := range names {
			ino := fs.names[n]
			c := full[ino.id]
			if varied != nil && ino.id == varied.id {
				c = content
			}
			files[n] = c
			fmt.Fprintf(&key, "%s\x00%d\x00%x\x00", n, len(c), fnv64(c))
		}
		if seen[key.String()] {
			return true
		}
		seen[key.String()] = true
		st.Point, st.Files = point, files
		if varied != nil {
			st.Varied = byIno[varied.id]
		}
		return visit(st)
	}
	if !emit(nil, nil, State{Cut: -1, Desc: "all pending changes on disk"}) {
		return false
	}
	for _, ino := range inos {
		if len(ino.pending) == 0 {
			continue
		}
		content := ino.durable
		for j := 0; j < len(ino.pending); j++ {
			// content = durable + pending[:j]; pending[j] did not (completely) reach the disk
			p := ino.pending[j]
			st := State{Applied: j, Pending: len(ino.pending), Cut: -1,
				Desc: fmt.Sprintf("%v: %d of %d pending changes on disk", byIno[ino.id], j, len(ino.pending))}
			if !p.trunc {
				st.Cut = 0
			}
			if !emit(ino, content, st) {
				return false
			}
			if !p.trunc && cuts != nil {
				for _, c := range cuts(byIno[ino.id][0], content, p.off, p.data) {
					if c.Off <= 0 || c.Off >= len(p.data) {
						continue
					}
					st := State{Applied: j, Pending: len(ino.pending), Cut: c.Off, Mid: c.Mid,
						Desc: fmt.Sprintf("%v: %d of %d pending changes on disk + %d of %d bytes of the next write (mid-record=%v)",
							byIno[ino.id], j, len(ino.pending), c.Off, len(p.data), c.Mid)}
					if !emit(ino, applyPend(content, p, c.Off), st) {
						return false
					}
				}
			}
			content = applyPend(content, p, -1)
		}
	}
	return true
}

func fnv64(b []byte) uint64 {
	h := uint64(14695981039346656037)
	for _, c := range b {
		h ^= uint64(c)
		h *= 1099511628211
	}
	return h
}
