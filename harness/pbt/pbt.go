// Package pbt is the small framework every check is written against:
// scenario-as-data generation (rapid), deterministic execution, pure judging,
// replay files, known-finding signatures and per-shard evidence counters.
//
// Protocol with bin/check (environment):
//
//	VERIF_OUT     directory for shard evidence, current-case and violation files
//	VERIF_REPLAY  path of a replay file; the named check executes it and nothing else
//	VERIF_KNOWN   path of known_findings.json
//	VERIF_TIER    quick | thorough (generators may scale sizes)
//	VERIF_SHARD   shard number (file naming only)
package pbt

import (
	"bytes"
	"encoding/binary"
	"encoding/json"
	"fmt"
	"hash/fnv"
	"os"
	"path/filepath"
	"regexp"
	"runtime"
	"runtime/debug"
	"sort"
	"strconv"
	"strings"
	"sync"
	"sync/atomic"
	"syscall"
	"testing"
	"time"

	"pgregory.net/rapid"
)

// Violation is what an oracle returns. Kind is a stable short identifier;
// Facts are the structured facts known-finding signatures are predicates over.
type Violation struct {
	Kind    string         `json:"kind"`
	Message string         `json:"message"`
	Facts   map[string]any `json:"facts,omitempty"`
}

func V(kind, format string, args ...any) Violation {
	return Violation{Kind: kind, Message: fmt.Sprintf(format, args...)}
}

func (v Violation) With(k string, val any) Violation {
	if v.Facts == nil {
		v.Facts = map[string]any{}
	}
	v.Facts[k] = val
	return v
}

// Result of executing and judging one scenario.
type Result struct {
	Violations []Violation
	NonTrivial bool     // the property's stated non-triviality rule held for this case
	Classes    []string // labels for the generator-distribution histogram
	Excluded   int      // shapes excluded by construction while executing this case
	Sample     any      // optional compact description for evidence samples (default: the scenario)
}

func (r *Result) Add(v ...Violation)         { r.Violations = append(r.Violations, v...) }
func (r *Result) Class(c ...string)          { r.Classes = append(r.Classes, c...) }
func (r *Result) Fail(k, f string, a ...any) { r.Add(V(k, f, a...)) }

// Spec of one sub-check.
type Spec[S any] struct {
	Property string // C01..C20
	Name     string // sub-check name, unique; stored in replay files
	Rule     string // how cases are generated and what makes one non-trivial
	Gen      func(t *rapid.T) S
	Exec     func(s S) Result
}

type replayFile struct {
	Property  string          `json:"property"`
	Check     string          `json:"check"`
	Scenario  json.RawMessage `json:"scenario"`
	Violation *Violation      `json:"violation,omitempty"`
}

type knownEntry struct {
	ID        string `json:"id"`
	Property  string `json:"property"`
	Status    string `json:"status"`
	Signature string `json:"signature"`
	What      string `json:"what"`
	Replay    string `json:"replay"`
}

// Signature predicates over a violation; registered by the checks package.
var (
	sigMu      sync.Mutex
	signatures = map[string]func(Violation) bool{}
)

func RegisterSignature(name string, pred func(Violation) bool) {
	sigMu.Lock()
	defer sigMu.Unlock()
	signatures[name] = pred
}

func loadKnown(property string) []knownEntry {
	p := os.Getenv("VERIF_KNOWN")
	if p == "" {
		return nil
	}
	b, err := os.ReadFile(p)
	if err != nil {
		return nil
	}
	var f struct {
		Findings []knownEntry `json:"findings"`
	}
	if json.Unmarshal(b, &f) != nil {
		return nil
	}
	var out []knownEntry
	for _, e := range f.Findings {
		if e.Property == property && e.Status == "known" {
			out = append(out, e)
		}
	}
	return out
}

// matchKnown returns the id of the known finding matched by v, or "".
func matchKnown(known []knownEntry, v Violation) string {
	sigMu.Lock()
	defer sigMu.Unlock()
	for _, e := range known {
		if pred := signatures[e.Signature]; pred != nil && pred(v) {
			return e.ID
		}
	}
	return ""
}

type shard struct {
	Property    string         `json:"property"`
	Check       string         `json:"check"`
	Rule        string         `json:"rule"`
	Evaluations int            `json:"evaluations"`
	NonTrivial  int            `json:"nontrivial_evaluations"`
	Classes     map[string]int `json:"classes"`
	KnownHits   map[string]int `json:"known_finding_hits"`
	Excluded    int            `json:"excluded_by_construction"`
	Samples     []any          `json:"samples"`
	Violations  int            `json:"violations"`
	DigestFile  string         `json:"digest_file"`
	Extra       map[string]any `json:"extra,omitempty"`

	digests map[uint64]struct{}
}

func outDir() string {
	d := os.Getenv("VERIF_OUT")
	if d == "" {
		d = filepath.Join(os.TempDir(), "verif-out")
	}
	os.MkdirAll(d, 0o755)
	return d
}

func shardID() string {
	s := os.Getenv("VERIF_SHARD")
	if s == "" {
		s = "0"
	}
	return s
}

func Tier() string {
	if os.Getenv("VERIF_TIER") == "thorough" {
		return "thorough"
	}
	return "quick"
}

func Thorough() bool { return Tier() == "thorough" }

func digest(b []byte) uint64 {
	h := fnv.New64a()
	h.Write(b)
	return h.Sum64()
}

func (sh *shard) flush() {
	dir := outDir()
	base := fmt.Sprintf("shard-%s-%s", sh.Check, shardID())
	ds := make([]uint64, 0, len(sh.digests))
	for d := range sh.digests {
		ds = append(ds, d)
	}
	sort.Slice(ds, func(i, j int) bool { return ds[i] < ds[j] })
	buf := make([]byte, 8*len(ds))
	for i, d := range ds {
		binary.LittleEndian.PutUint64(buf[8*i:], d)
	}
	sh.DigestFile = filepath.Join(dir, base+".digests")
	os.WriteFile(sh.DigestFile, buf, 0o644)
	b, _ := json.MarshalIndent(sh, "", " ")
	os.WriteFile(filepath.Join(dir, base+".json"), b, 0o644)
}

func truncateSample(v any) any {
	b, err := json.Marshal(v)
	if err != nil {
		return fmt.Sprintf("%v", v)
	}
	if len(b) > 3000 {
		return string(b[:3000]) + "…(truncated)"
	}
	var out any
	json.Unmarshal(b, &out)
	return out
}

var curT *testing.T

// T returns the *testing.T of the sub-check currently running (for
// synctest.Test, t.TempDir and the like inside Exec).
func T() *testing.T { return curT }

// Run executes the sub-check: replay mode if VERIF_REPLAY names this check,
// search mode otherwise.
func Run[S any](t *testing.T, spec Spec[S]) {
	curT = t
	if rp := os.Getenv("VERIF_REPLAY"); rp != "" {
		runReplay(t, spec, rp)
		return
	}
	known := loadKnown(spec.Property)
	sh := &shard{
		Property: spec.Property, Check: spec.Name, Rule: spec.Rule,
		Classes: map[string]int{}, KnownHits: map[string]int{}, digests: map[uint64]struct{}{},
	}
	defer sh.flush()
	dir := outDir()
	curPath := filepath.Join(dir, fmt.Sprintf("current-case-%s-%s.json", spec.Name, shardID()))
	vioPath := filepath.Join(dir, fmt.Sprintf("violation-%s-%s.json", spec.Name, shardID()))
	os.Remove(vioPath)
	sampleEvery := 1
	rapid.Check(t, func(rt *rapid.T) {
		s := spec.Gen(rt)
		sj, err := json.Marshal(s)
		if err != nil {
			rt.Fatalf("scenario does not marshal: %v", err)
		}
		cur, _ := json.Marshal(replayFile{Property: spec.Property, Check: spec.Name, Scenario: sj})
		os.WriteFile(curPath, cur, 0o644)
		res := safeExec(spec, s)
		sh.Evaluations++
		sh.Excluded += res.Excluded
		for _, c := range res.Classes {
			sh.Classes[c]++
		}
		if res.NonTrivial {
			sh.NonTrivial++
			sh.digests[digest(sj)] = struct{}{}
			if len(sh.Samples) < 4 && sh.NonTrivial%sampleEvery == 0 {
				sample := res.Sample
				if sample == nil {
					sample = json.RawMessage(sj)
				}
				sh.Samples = append(sh.Samples, map[string]any{"classes": res.Classes, "case": truncateSample(sample)})
				sampleEvery *= 7
			}
		}
		var real []Violation
		for _, v := range res.Violations {
			if id := matchKnown(known, v); id != "" {
				sh.KnownHits[id]++
				continue
			}
			real = append(real, v)
		}
		if len(real) > 0 {
			sh.Violations++
			rf, _ := json.MarshalIndent(replayFile{Property: spec.Property, Check: spec.Name, Scenario: sj, Violation: &real[0]}, "", " ")
			os.WriteFile(vioPath, rf, 0o644)
			var sb strings.Builder
			for i, v := range real {
				if i >= 5 {
					fmt.Fprintf(&sb, "\n  … %d more", len(real)-i)
					break
				}
				fmt.Fprintf(&sb, "\n  [%s] %s", v.Kind, v.Message)
			}
			rt.Fatalf("%s/%s violated:%s", spec.Property, spec.Name, sb.String())
		}
	})
	os.Remove(curPath)
}

// safeExec runs one case. A panic that starts inside the code under test (the first frame below the runtime's is a
// function of the alertmanager module) on the goroutine that executes the case is a violation of every property
// ("never crashes") and is reported as kind "panic" with the case, so that it is shrunk and replayable; any other panic
// (the harness's own code, the Go runtime) is passed on and ends the run as inconclusive.
func safeExec[S any](spec Spec[S], s S) (res Result) {
	type outcome struct {
		res   Result
		p     any
		stack string
	}
	done := make(chan outcome, 1)
	go func() {
		var o outcome
		defer func() {
			if p := recover(); p != nil {
				o.p, o.stack = p, string(debug.Stack())
			}
			done <- o
		}()
		o.res = spec.Exec(s)
	}()
	finish := func(o outcome) Result {
		if o.p == nil {
			return o.res
		}
		if !panicUnderTest(o.stack) {
			panic(o.p)
		}
		return Result{Violations: []Violation{V("panic", "the code under test panicked: %v\n%s", o.p, firstFrames(o.stack, 12))}}
	}
	// A case that does not come back: when a goroutine has been waiting for a sync.Mutex / RWMutex inside the module
	// under test for seconds of real time (virtual time cannot pass meanwhile, nothing in the harness holds such a
	// lock) while the process uses no processor time, the code under test has left a lock locked: a violation ("hang"),
	// not a slow machine.
	wait := hangAfter()
	for {
		select {
		case o := <-done:
			return finish(o)
		case <-time.After(wait):
		}
		first := lockWaiters()
		if len(first) > 0 {
			cpu0 := cpuUsed()
			select {
			case o := <-done:
				return finish(o)
			case <-time.After(5 * time.Second):
			}
			second := lockWaiters()
			// (a process that is merely slow keeps using the processor; one whose goroutines all wait does not)
			idle := cpuUsed()-cpu0 < 250*time.Millisecond
			for id, st := range first {
				if _, still := second[id]; still && idle {
					hangSeen.Store(true)
					return Result{Violations: []Violation{V("hang", "the case did not return: after %s a goroutine is still waiting for a lock inside the code under test, was 5 s earlier, and the process has been idle in between (a lock that is never released)\n%s", wait+5*time.Second, st)}}
				}
			}
		}
		wait = 30 * time.Second
	}
}

var hangSeen atomic.Bool

func cpuUsed() time.Duration {
	var ru syscall.Rusage
	if syscall.Getrusage(syscall.RUSAGE_SELF, &ru) != nil {
		return 0
	}
	return time.Duration(ru.Utime.Nano() + ru.Stime.Nano())
}

// hangAfter: real time after which a case that has not returned is examined (VERIF_HANG_SECS, default 150; 8 s once a
// hang has been confirmed in this process, so that shrinking and the final re-run stay short).
func hangAfter() time.Duration {
	if hangSeen.Load() {
		return 8 * time.Second
	}
	if v, err := strconv.Atoi(os.Getenv("VERIF_HANG_SECS")); err == nil && v > 0 {
		return time.Duration(v) * time.Second
	}
	return 150 * time.Second
}

var lockWaitRe = regexp.MustCompile(`^goroutine (\d+) \[sync\.(?:RW)?Mutex\.R?Lock`)

var bubbleRe = regexp.MustCompile(`synctest bubble (\d+)`)

// lockWaiters returns, by goroutine id, the stacks of the goroutines that wait for a mutex in a function of the module
// under test and whose lock cannot be held by anyone who is merely waiting for something else: a waiter is dropped when
// another goroutine of the same synctest bubble (of the whole process outside bubbles) is blocked somewhere below a
// function of the package that asked for the lock - it may hold the lock while it waits for virtual time, which cannot pass while
// the waiter is not durably blocked: an artefact of the bubble, not a lock that is never released.
func lockWaiters() map[string]string {
	buf := make([]byte, 16<<20)
	buf = buf[:runtime.Stack(buf, true)]
	out := map[string]string{}
	scope := map[string]string{} // waiter -> bubble|package of the function that asked for the lock
	type blocked struct {
		bubble string
		lines  []string
	}
	var others []blocked
	for _, g := range strings.Split(string(buf), "\n\n") {
		head, _, _ := strings.Cut(g, "\n")
		bubble := ""
		if bm := bubbleRe.FindStringSubmatch(head); bm != nil {
			bubble = bm[1]
		}
		lines := strings.Split(g, "\n")[1:]
		if m := lockWaitRe.FindStringSubmatch(g); m != nil {
			for _, l := range lines {
				if strings.HasPrefix(l, "\t") || strings.HasPrefix(l, "sync.") || strings.HasPrefix(l, "internal/") || strings.HasPrefix(l, "runtime.") {
					continue
				}
				// the first frame outside sync / runtime: the function that asked for the lock
				if strings.HasPrefix(l, "github.com/prometheus/alertmanager/") {
					out[m[1]] = firstLines(g, 14)
					scope[m[1]] = bubble + "|" + pkgOfFrame(l)
				}
				break
			}
			continue
		}
		if strings.Contains(head, "[running") || strings.Contains(head, "[runnable") {
			continue
		}
		others = append(others, blocked{bubble, lines})
	}
	for id, sc := range scope {
		bubble, pkg, _ := strings.Cut(sc, "|")
		for _, o := range others {
			if o.bubble != bubble {
				continue
			}
			held := false
			for _, l := range o.lines {
				// (mutexes are unexported fields: whoever holds this one is inside a function of the same package)
				if strings.HasPrefix(l, pkg+".") {
					held = true
					break
				}
			}
			if held {
				delete(out, id)
				break
			}
		}
	}
	return out
}

// pkgOfFrame: "github.com/prometheus/alertmanager/api/v2.(*API).receiverLabelsMap(...)" -> ".../api/v2"
func pkgOfFrame(l string) string {
	slash := strings.LastIndex(l, "/")
	if dot := strings.Index(l[slash+1:], "."); dot >= 0 {
		return l[:slash+1+dot]
	}
	return l
}

func firstLines(s string, n int) string {
	lines := strings.Split(s, "\n")
	if len(lines) > n {
		lines = lines[:n]
	}
	return strings.Join(lines, "\n")
}

// panicUnderTest reports whether, in a stack printed by debug.Stack inside a deferred recover, the function that
// raised the panic belongs to the module under test.
func panicUnderTest(stack string) bool {
	lines := strings.Split(stack, "\n")
	seenPanic := false
	for _, l := range lines {
		if strings.HasPrefix(l, "\t") || strings.HasPrefix(l, "goroutine ") || l == "" {
			continue
		}
		if strings.HasPrefix(l, "panic(") {
			seenPanic = true
			continue
		}
		if !seenPanic {
			continue
		}
		if strings.HasPrefix(l, "runtime.") || strings.HasPrefix(l, "runtime/") {
			continue
		}
		return strings.HasPrefix(l, "github.com/prometheus/alertmanager/")
	}
	return false
}

func firstFrames(stack string, n int) string {
	lines := strings.Split(stack, "\n")
	var out []string
	seenPanic := false
	for _, l := range lines {
		if strings.HasPrefix(l, "panic(") {
			seenPanic = true
			continue
		}
		if seenPanic && !strings.HasPrefix(l, "\t") && l != "" {
			out = append(out, l)
			if len(out) >= n {
				break
			}
		}
	}
	return strings.Join(out, "\n")
}

func runReplay[S any](t *testing.T, spec Spec[S], path string) {
	b, err := os.ReadFile(path)
	if err != nil {
		t.Skipf("cannot read replay file: %v", err)
	}
	var rf replayFile
	if err := json.Unmarshal(b, &rf); err != nil {
		t.Skipf("bad replay file: %v", err)
	}
	if rf.Check != spec.Name {
		t.Skip("replay file is for another check")
	}
	var s S
	dec := json.NewDecoder(bytes.NewReader(rf.Scenario))
	if err := dec.Decode(&s); err != nil {
		t.Fatalf("REPLAY-ERROR scenario does not decode: %v", err)
	}
	res := safeExec(spec, s)
	fmt.Printf("REPLAY-RAN check=%s violations=%d\n", spec.Name, len(res.Violations))
	if len(res.Violations) > 0 {
		for _, v := range res.Violations {
			fmt.Printf("REPLAY-VIOLATION [%s] %s\n", v.Kind, v.Message)
		}
		// Known-signature status is reported for the driver's KNOWN-FINDING logic.
		known := loadKnown(spec.Property)
		all := true
		for _, v := range res.Violations {
			if matchKnown(known, v) == "" {
				all = false
			}
		}
		if all {
			fmt.Printf("REPLAY-ALL-KNOWN\n")
		}
		t.Fatalf("replay of %s fails: [%s] %s", path, res.Violations[0].Kind, res.Violations[0].Message)
	}
}

// Extra lets a non-rapid check (enumerations, real-cluster runs) write a shard file itself.
type Manual struct{ sh *shard }

func NewManual(property, check, rule string) *Manual {
	return &Manual{sh: &shard{Property: property, Check: check, Rule: rule,
		Classes: map[string]int{}, KnownHits: map[string]int{}, digests: map[uint64]struct{}{}}}
}

func (m *Manual) Case(scenario any, nontrivial bool, classes ...string) {
	m.sh.Evaluations++
	for _, c := range classes {
		m.sh.Classes[c]++
	}
	if nontrivial {
		sj, _ := json.Marshal(scenario)
		m.sh.NonTrivial++
		m.sh.digests[digest(sj)] = struct{}{}
		if len(m.sh.Samples) < 4 {
			m.sh.Samples = append(m.sh.Samples, map[string]any{"classes": classes, "case": truncateSample(scenario)})
		}
	}
}

func (m *Manual) Set(k string, v any) {
	if m.sh.Extra == nil {
		m.sh.Extra = map[string]any{}
	}
	m.sh.Extra[k] = v
}

func (m *Manual) KnownHit(id string) { m.sh.KnownHits[id]++ }

// Violation writes a replay file and fails the test.
func (m *Manual) Violation(t *testing.T, scenario any, v Violation) {
	m.sh.Violations++
	sj, _ := json.Marshal(scenario)
	rf, _ := json.MarshalIndent(replayFile{Property: m.sh.Property, Check: m.sh.Check, Scenario: sj, Violation: &v}, "", " ")
	os.WriteFile(filepath.Join(outDir(), fmt.Sprintf("violation-%s-%s.json", m.sh.Check, shardID())), rf, 0o644)
	m.sh.flush()
	t.Fatalf("%s/%s violated: [%s] %s", m.sh.Property, m.sh.Check, v.Kind, v.Message)
}

func (m *Manual) Flush() { m.sh.flush() }

// ReplayScenario returns the scenario of a replay file if VERIF_REPLAY names check.
func ReplayScenario(check string, into any) bool {
	p := os.Getenv("VERIF_REPLAY")
	if p == "" {
		return false
	}
	b, err := os.ReadFile(p)
	if err != nil {
		return false
	}
	var rf replayFile
	if json.Unmarshal(b, &rf) != nil || rf.Check != check {
		return false
	}
	return json.Unmarshal(rf.Scenario, into) == nil
}

// Replaying reports whether the process runs in replay mode.
func Replaying() bool { return os.Getenv("VERIF_REPLAY") != "" }
