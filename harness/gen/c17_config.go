package gen

// C17: structured generator of whole Alertmanager configurations as YAML text.
//
// The generator builds a small model (routing tree, receivers, inhibit rules,
// time intervals, globals), optionally places a unique canary in every
// secret-bearing field of what it generated, optionally injects one breach of
// the well-formedness conditions, and renders the model to YAML text.

import (
	"fmt"
	"sort"
	"strings"

	"gopkg.in/yaml.v2"
	"pgregory.net/rapid"
)

// C17Opts selects what C17Config generates.
type C17Opts struct {
	Secrets              bool   // set every secret-bearing field of the generated parts to a canary
	F6                   bool   // allow an empty expression in match_re / source_match_re / target_match_re
	F11                  bool   // allow a child with `group_by: []` below an ancestor that groups
	SlackAppToken        bool   // allow a Slack receiver that ends up with an app token (own or inherited)
	IncidentioGlobalHTTP bool   // allow an incident.io receiver that inherits the global http_config
	MSTeamsV2EnvProxy    bool   // allow an msteamsv2 http_config with proxy_from_environment under a global proxy_url
	UTF8                 bool   // non-classic label names allowed (group_by, matchers, route labels, equal)
	Force                string // "" or "F6".."msteamsv2-env-proxy": make sure that known-defect shape is present (implies allowing it)
	Breach               string // "" or one of C17Breaches
	Big                  bool   // thorough-tier sizes
}

// C17Breaches are the single well-formedness breaches the generator can inject.
var C17Breaches = []string{
	"root-matchers", "root-match", "root-match-re", "root-mute", "root-active", "root-no-receiver",
	"undefined-receiver", "undefined-receiver-leaf", "dup-receiver",
	"group-by-dup", "group-by-mixed", "zero-gi", "zero-ri",
	"undefined-mute-interval", "undefined-active-interval", "dup-interval", "dup-interval-across",
	"null-route", "null-integration",
}

// C17BreachDraw is the sampling list: the null-integration breach has 18
// distinct sites (one per integration kind) and is drawn more often.
var C17BreachDraw = append(append([]string(nil), C17Breaches...), "null-integration", "null-integration", "null-integration", "null-integration", "null-integration")

// C17Canary is one secret value the generator placed.
type C17Canary struct {
	Token string `json:"token"`           // unique substring that must never be printed
	Path  string `json:"path"`            // YAML type-path of the field (".receivers[].slack_configs[].api_url")
	Extra bool   `json:"extra,omitempty"` // not a secret-typed field (proxy_url password)
}

// C17Out is a generated configuration.
type C17Out struct {
	YAML     string
	Canaries []C17Canary
	Kinds    []string // integration kinds present
	Features []string // shapes present (for the class histogram)
	Excluded int      // shapes avoided by construction
}

type c17m = yaml.MapSlice

func c17kv(k string, v any) yaml.MapItem { return yaml.MapItem{Key: k, Value: v} }

type c17Node struct {
	Receiver   string
	GroupBy    []string // nil = absent; empty non-nil = []
	HasGroupBy bool
	GW, GI, RI string
	Matchers   []string
	Match      [][2]string
	MatchRE    [][2]string
	Continue   *bool
	Mute       []string
	Active     []string
	Labels     [][2]string
	Children   []*c17Node
	NullChild  int // -1 none; else position at which a null entry is inserted
}

type c17b struct {
	t        *rapid.T
	o        C17Opts
	n        int
	out      *C17Out
	feats    map[string]bool
	kinds    map[string]bool
	recvs    []string
	tis      []string
	global   c17m
	gHas     map[string]bool // which global defaults exist (smtp, slack, opsgenie, ...)
	nodes    []*c17Node
	nodeDeep map[*c17Node]int
	v2proxy  bool // building an msteamsv2 http_config
	forced   bool // building the integration that must carry the forced shape
}

func (b *c17b) feat(f string)                 { b.feats[f] = true }
func (b *c17b) intn(lo, hi int, l string) int { return rapid.IntRange(lo, hi).Draw(b.t, l) }
func (b *c17b) coin(l string) bool            { return rapid.Bool().Draw(b.t, l) }
func (b *c17b) one(pct int, l string) bool {
	return rapid.IntRange(0, 99).Draw(b.t, l) < pct
}
func (b *c17b) pick(xs []string, l string) string { return rapid.SampledFrom(xs).Draw(b.t, l) }

var c17SecretSuffix = []string{"", "", "-S3cr3t", " sp ace", ":colon", "\"dq", "'sq", "世", "#hash", "\nnl", "&amp;", "{{x}}", "%41", "\\bs", "- dash", "*star", "\ttab"}

// secret places a canary for a plain Secret field.
func (b *c17b) secret(path string) string {
	b.n++
	tok := fmt.Sprintf("cnry%04dq", b.n)
	b.out.Canaries = append(b.out.Canaries, C17Canary{Token: tok, Path: path})
	switch b.intn(0, 2, "secretShape") {
	case 0:
		return tok + b.pick(c17SecretSuffix, "secretSuffix")
	case 1:
		return b.pick(c17SecretSuffix, "secretPrefix") + tok
	default:
		return tok
	}
}

// secretURL places a canary inside an absolute http(s) URL.
func (b *c17b) secretURL(path string) string {
	b.n++
	tok := fmt.Sprintf("cnry%04dq", b.n)
	b.out.Canaries = append(b.out.Canaries, C17Canary{Token: tok, Path: path})
	switch b.intn(0, 4, "urlShape") {
	case 0:
		return "https://" + tok + ".example.com/hook"
	case 1:
		return "https://hooks.example.com/services/" + tok
	case 2:
		return "http://user:" + tok + "@example.com:8080/x"
	case 3:
		return "https://example.com/x?key=" + tok + "&a=b"
	default:
		return "http://example.com/" + tok + "#frag"
	}
}

// secretTemplateURL: as secretURL, sometimes with template actions.
func (b *c17b) secretTemplateURL(path string) string {
	if b.one(40, "tmplURL") {
		b.n++
		tok := fmt.Sprintf("cnry%04dq", b.n)
		b.out.Canaries = append(b.out.Canaries, C17Canary{Token: tok, Path: path})
		b.feat("webhook-url-templated")
		return b.pick([]string{
			"https://example.com/" + tok + "/{{ .GroupLabels.alertname }}",
			"{{ .CommonAnnotations.hook }}/" + tok,
			"https://{{ .CommonLabels.env }}." + tok + ".example.com/",
		}, "tmplURLShape")
	}
	return b.secretURL(path)
}

func (b *c17b) file(what string) string {
	return b.pick([]string{"/etc/am/" + what, "secrets/" + what + ".txt", what}, "file")
}

func (b *c17b) url(l string) string {
	return b.pick([]string{"https://api.example.com/", "http://127.0.0.1:5001/", "https://example.com/a/b", "http://[::1]:9093/x?y=z", "https://example.com"}, l)
}

// ------------------------------------------------------------------- names

var (
	c17ClassicNames = []string{"a", "b", "c", "alertname", "severity", "team_x", "_u", "job"}
	c17UTF8Names    = []string{"名", "with space", "dotted.name", "dash-name", "é", "0lead", "q\"uote", "a/b"}
	c17Values       = []string{"", "x", "y", "z", "a b", "q\"uote", "back\\slash", "new\nline", "cr\r\nlf", "tab\there", "世界", "{}", "a,b", "tick`", "1", "true", "null", "~", "a=b", " lead", "trail "}
	c17Regexes      = []string{".*", "x|y", "[a-c]+", "a.b", "(x)?y", "\\d+", "a{2}", "^x$", "世.*", ".+", "x", "(?i)crit", "a\\.b", "[^z]"}
	c17Durations    = []string{"1ms", "1s", "30s", "90s", "5m", "1h", "2h30m", "1d", "1w", "1y", "36h", "10m"}
	c17TmplText     = []string{"plain", "{{ .CommonLabels.alertname }}", "{{ template \"x\" . }}", "multi\nline", "quote\"d", "", "世"}
)

func (b *c17b) labelName(l string) string {
	if b.o.UTF8 && b.one(25, l+"utf8") {
		b.feat("utf8-label-name")
		return b.pick(c17UTF8Names, l)
	}
	return b.pick(c17ClassicNames, l)
}

func c17Quote(s string) string {
	var sb strings.Builder
	sb.WriteByte('"')
	for _, r := range s {
		switch r {
		case '"':
			sb.WriteString(`\"`)
		case '\\':
			sb.WriteString(`\\`)
		case '\n':
			sb.WriteString(`\n`)
		default:
			sb.WriteRune(r)
		}
	}
	sb.WriteByte('"')
	return sb.String()
}

func c17IsClassic(s string) bool {
	if s == "" {
		return false
	}
	for i, r := range s {
		if !(r == '_' || (r >= 'a' && r <= 'z') || (r >= 'A' && r <= 'Z') || (i > 0 && r >= '0' && r <= '9')) {
			return false
		}
	}
	return true
}

func c17IsBare(s string) bool {
	if s == "" {
		return false
	}
	for _, r := range s {
		if !((r >= 'a' && r <= 'z') || (r >= 'A' && r <= 'Z') || (r >= '0' && r <= '9') || r == '_' || r == '.' || r == '|' || r == '*' || r == '+') {
			return false
		}
	}
	return true
}

// matcherText renders one matcher in input syntax.
func (b *c17b) matcherText() string {
	name := b.labelName("mname")
	op := b.pick(Ops, "mop")
	var val string
	if op == "=" || op == "!=" {
		val = b.pick(c17Values, "mval")
	} else {
		if b.one(10, "emptyRe") {
			val = ""
		} else {
			val = b.pick(c17Regexes, "mre")
		}
	}
	n := name
	if !c17IsClassic(name) {
		n = c17Quote(name)
	}
	if c17IsBare(val) && b.one(30, "bare") {
		b.feat("matcher-bare-value")
		return n + op + val
	}
	if b.one(15, "spaces") {
		return n + " " + op + " " + c17Quote(val)
	}
	return n + op + c17Quote(val)
}

// matcherLine: one entry of a `matchers:` list (possibly several matchers).
func (b *c17b) matcherLine() string {
	k := 1
	if b.one(25, "multi") {
		k = b.intn(2, 3, "mk")
		b.feat("matchers-multi-per-line")
	}
	var ms []string
	for i := 0; i < k; i++ {
		ms = append(ms, b.matcherText())
	}
	s := strings.Join(ms, ",")
	if k > 1 || b.one(15, "braces") {
		if b.coin("brace") {
			b.feat("matchers-braces")
			return "{" + s + "}"
		}
	}
	return s
}

// ------------------------------------------------------------------- routes

func (b *c17b) subset(xs []string, max int, l string) []string {
	if len(xs) == 0 {
		return nil
	}
	k := b.intn(1, max, l+"K")
	idx := rapid.Permutation(append([]string(nil), xs...)).Draw(b.t, l)
	if k > len(idx) {
		k = len(idx)
	}
	return idx[:k]
}

func (b *c17b) node(depth int, root bool, ancestorGroups bool, budget *int) *c17Node {
	n := &c17Node{NullChild: -1}
	b.nodes = append(b.nodes, n)
	b.nodeDeep[n] = depth
	if root || b.one(60, "hasRecv") {
		n.Receiver = b.pick(b.recvs, "recv")
	}
	switch b.intn(0, 5, "groupBy") {
	case 0: // absent
	case 1: // []
		if ancestorGroups && !b.o.F11 {
			b.out.Excluded++ // F11 shape avoided
		} else {
			n.HasGroupBy, n.GroupBy = true, []string{}
			b.feat("group-by-empty-list")
			if ancestorGroups {
				b.feat("F11-shape")
			}
		}
	case 2:
		n.HasGroupBy, n.GroupBy = true, []string{"..."}
		b.feat("group-by-all")
	default:
		names := c17ClassicNames
		if b.o.UTF8 && b.one(30, "gbutf8") {
			names = append(append([]string(nil), c17ClassicNames...), c17UTF8Names...)
			b.feat("utf8-label-name")
		}
		n.HasGroupBy, n.GroupBy = true, b.subset(names, 3, "gb")
	}
	groups := ancestorGroups
	if n.HasGroupBy {
		groups = len(n.GroupBy) > 0
	}
	if b.one(35, "gw") {
		n.GW = b.pick(append([]string{"0s", "0s"}, c17Durations...), "gwv")
	}
	if b.one(35, "gi") {
		n.GI = b.pick(c17Durations, "giv")
	}
	if b.one(35, "ri") {
		n.RI = b.pick(c17Durations, "riv")
	}
	if b.one(30, "rlabels") {
		k := b.intn(1, 2, "rlK")
		seen := map[string]bool{}
		for i := 0; i < k; i++ {
			ln := b.labelName("rln")
			if seen[ln] {
				continue
			}
			seen[ln] = true
			n.Labels = append(n.Labels, [2]string{ln, b.pick(append([]string{"{{ .GroupLabels.a }}", "{{ .CommonLabels.team_x | toUpper }}"}, c17Values[1:]...), "rlv")})
		}
		b.feat("route-labels")
	}
	if !root {
		if b.one(70, "matchers") {
			k := b.intn(1, 3, "nm")
			for i := 0; i < k; i++ {
				n.Matchers = append(n.Matchers, b.matcherLine())
			}
		}
		if b.one(25, "match") {
			k := b.intn(1, 2, "nmatch")
			seen := map[string]bool{}
			for i := 0; i < k; i++ {
				ln := b.pick(c17ClassicNames, "matchN")
				if !seen[ln] {
					seen[ln] = true
					n.Match = append(n.Match, [2]string{ln, b.pick(c17Values, "matchV")})
				}
			}
			b.feat("legacy-match")
		}
		if b.one(25, "matchre") {
			k := b.intn(1, 2, "nmatchre")
			seen := map[string]bool{}
			for i := 0; i < k; i++ {
				ln := b.pick(c17ClassicNames, "matchreN")
				if seen[ln] {
					continue
				}
				seen[ln] = true
				v := b.pick(c17Regexes, "matchreV")
				if b.one(12, "matchreEmpty") {
					if b.o.F6 {
						v = ""
						b.feat("F6-shape")
					} else {
						b.out.Excluded++
					}
				}
				n.MatchRE = append(n.MatchRE, [2]string{ln, v})
			}
			b.feat("legacy-match-re")
		}
		if b.one(50, "cont") {
			c := b.coin("contv")
			n.Continue = &c
		}
		if len(b.tis) > 0 && b.one(30, "mute") {
			n.Mute = b.subset(b.tis, 2, "mutev")
			b.feat("route-mute-intervals")
		}
		if len(b.tis) > 0 && b.one(30, "active") {
			n.Active = b.subset(b.tis, 2, "activev")
			b.feat("route-active-intervals")
		}
	}
	if depth < 4 && *budget > 0 {
		maxKids := 4
		if *budget < maxKids {
			maxKids = *budget
		}
		k := 0
		if b.one(75-15*depth, "kids") {
			k = b.intn(1, maxKids, "nkids")
		}
		*budget -= k
		for i := 0; i < k; i++ {
			n.Children = append(n.Children, b.node(depth+1, false, groups, budget))
		}
	}
	return n
}

func c17pairs(p [][2]string) c17m {
	var m c17m
	for _, kv := range p {
		m = append(m, c17kv(kv[0], kv[1]))
	}
	return m
}

func (n *c17Node) render() c17m {
	var m c17m
	if n.Receiver != "" {
		m = append(m, c17kv("receiver", n.Receiver))
	}
	if n.HasGroupBy {
		m = append(m, c17kv("group_by", n.GroupBy))
	}
	if n.GW != "" {
		m = append(m, c17kv("group_wait", n.GW))
	}
	if n.GI != "" {
		m = append(m, c17kv("group_interval", n.GI))
	}
	if n.RI != "" {
		m = append(m, c17kv("repeat_interval", n.RI))
	}
	if len(n.Matchers) > 0 {
		m = append(m, c17kv("matchers", n.Matchers))
	}
	if len(n.Match) > 0 {
		m = append(m, c17kv("match", c17pairs(n.Match)))
	}
	if len(n.MatchRE) > 0 {
		m = append(m, c17kv("match_re", c17pairs(n.MatchRE)))
	}
	if n.Continue != nil {
		m = append(m, c17kv("continue", *n.Continue))
	}
	if len(n.Mute) > 0 {
		m = append(m, c17kv("mute_time_intervals", n.Mute))
	}
	if len(n.Active) > 0 {
		m = append(m, c17kv("active_time_intervals", n.Active))
	}
	if len(n.Labels) > 0 {
		m = append(m, c17kv("labels", c17pairs(n.Labels)))
	}
	if len(n.Children) > 0 || n.NullChild >= 0 {
		var kids []any
		for i, c := range n.Children {
			if i == n.NullChild {
				kids = append(kids, nil)
			}
			kids = append(kids, c.render())
		}
		if n.NullChild >= len(n.Children) {
			kids = append(kids, nil)
		}
		m = append(m, c17kv("routes", kids))
	}
	return m
}

// ------------------------------------------------------------ http_config

// C17HTTPSuffixes are the secret-typed paths below an http_config.
var C17HTTPSuffixes = []string{
	".basic_auth.password", ".authorization.credentials", ".oauth2.client_secret", ".oauth2.client_certificate_key",
	".oauth2.tls_config.key", ".oauth2.proxy_connect_header{}[]", ".bearer_token", ".tls_config.key",
	".proxy_connect_header{}[]", ".http_headers{}.secrets[]",
}

func (b *c17b) tls(path string) c17m {
	var m c17m
	if b.o.Secrets {
		m = append(m, c17kv("cert", "-----BEGIN CERTIFICATE-----\nMIIB\n-----END CERTIFICATE-----\n"), c17kv("key", b.secret(path+".key")))
	} else if b.coin("tlsfiles") {
		m = append(m, c17kv("cert_file", b.file("cert.pem")), c17kv("key_file", b.file("key.pem")))
	}
	if b.coin("tlsca") {
		m = append(m, c17kv("ca_file", b.file("ca.pem")))
	}
	if b.coin("tlsskip") {
		m = append(m, c17kv("insecure_skip_verify", b.coin("tlsskipv")))
	}
	if b.one(30, "tlsname") {
		m = append(m, c17kv("server_name", "example.com"))
	}
	if b.one(20, "tlsmin") {
		m = append(m, c17kv("min_version", b.pick([]string{"TLS12", "TLS13"}, "tlsminv")))
	}
	return m
}

func (b *c17b) proxy(path string) c17m {
	var m c17m
	env := b.coin("proxyenv")
	if b.o.Force == "msteamsv2-env-proxy" && path == ".global.http_config" {
		env = false
	}
	if b.o.Force == "msteamsv2-env-proxy" && b.forced && b.v2proxy && strings.HasSuffix(path, "[].http_config") {
		env = true
	}
	if env && b.v2proxy && b.gHas["http_proxy_url"] {
		if b.o.MSTeamsV2EnvProxy {
			b.feat("msteamsv2-env-proxy-shape")
		} else {
			b.out.Excluded++
			env = false
		}
	}
	if env {
		m = append(m, c17kv("proxy_from_environment", true))
	} else {
		if path == ".global.http_config" {
			b.gHas["http_proxy_url"] = true
		}
		pu := "http://proxy.example.com:3128"
		if b.o.Secrets && b.coin("proxypw") {
			b.n++
			tok := fmt.Sprintf("cnry%04dq", b.n)
			b.out.Canaries = append(b.out.Canaries, C17Canary{Token: tok, Path: path + ".proxy_url(password)", Extra: true})
			pu = "http://puser:" + tok + "@proxy.example.com:3128"
		}
		m = append(m, c17kv("proxy_url", pu))
		if b.one(30, "noproxy") {
			m = append(m, c17kv("no_proxy", "localhost,10.0.0.0/8"))
		}
	}
	if b.o.Secrets {
		m = append(m, c17kv("proxy_connect_header", c17m{c17kv("X-Proxy-Auth", []string{b.secret(path + ".proxy_connect_header{}[]"), b.secret(path + ".proxy_connect_header{}[]")})}))
	}
	return m
}

// httpConfig builds an http_config. auth: "" any, "authorization" required,
// "none" no authorization-like credential (Slack app tokens).
func (b *c17b) httpConfig(path string, auth string) c17m {
	path += ".http_config"
	var m c17m
	variant := b.intn(0, 5, "httpAuth")
	if auth == "authorization" {
		variant = 1
	}
	if auth == "none" {
		variant = 5
	}
	switch variant {
	case 0:
		ba := c17m{c17kv("username", "u")}
		if b.o.Secrets {
			ba = append(ba, c17kv("password", b.secret(path+".basic_auth.password")))
		} else {
			ba = append(ba, c17kv("password_file", b.file("pw")))
		}
		m = append(m, c17kv("basic_auth", ba))
	case 1:
		au := c17m{}
		if b.coin("authType") {
			au = append(au, c17kv("type", b.pick([]string{"Bearer", "Token", "custom"}, "authTypeV")))
		}
		if b.o.Secrets {
			au = append(au, c17kv("credentials", b.secret(path+".authorization.credentials")))
		} else {
			au = append(au, c17kv("credentials_file", b.file("cred")))
		}
		m = append(m, c17kv("authorization", au))
	case 2:
		oa := c17m{c17kv("client_id", "cid"), c17kv("token_url", "https://idp.example.com/token")}
		if b.o.Secrets {
			oa = append(oa, c17kv("client_secret", b.secret(path+".oauth2.client_secret")))
			oa = append(oa, c17kv("tls_config", b.tls(path+".oauth2.tls_config")))
			oa = append(oa, b.proxy(path+".oauth2")...)
		} else {
			oa = append(oa, c17kv("client_secret_file", b.file("cs")))
			if b.coin("oatls") {
				oa = append(oa, c17kv("tls_config", b.tls(path+".oauth2.tls_config")))
			}
		}
		if b.coin("scopes") {
			oa = append(oa, c17kv("scopes", []string{"a", "b"}), c17kv("endpoint_params", c17m{c17kv("k", "v")}))
		}
		m = append(m, c17kv("oauth2", oa))
	case 3:
		oa := c17m{c17kv("client_id", "cid"), c17kv("token_url", "https://idp.example.com/token"), c17kv("grant_type", "urn:ietf:params:oauth:grant-type:jwt-bearer"), c17kv("client_certificate_key_id", "kid")}
		if b.o.Secrets {
			oa = append(oa, c17kv("client_certificate_key", b.secret(path+".oauth2.client_certificate_key")))
		} else {
			oa = append(oa, c17kv("client_certificate_key_file", b.file("jwt.key")))
		}
		if b.coin("sigalg") {
			oa = append(oa, c17kv("signature_algorithm", b.pick([]string{"RS256", "RS384", "RS512"}, "sigalgv")))
		}
		m = append(m, c17kv("oauth2", oa))
	case 4:
		if b.o.Secrets {
			m = append(m, c17kv("bearer_token", b.secret(path+".bearer_token")))
		} else {
			m = append(m, c17kv("bearer_token_file", b.file("bt")))
		}
	default:
	}
	if b.o.Secrets || b.coin("httptls") {
		m = append(m, c17kv("tls_config", b.tls(path+".tls_config")))
	}
	if b.o.Secrets || b.one(30, "httpproxy") || (b.o.Force == "msteamsv2-env-proxy" && (path == ".global.http_config" || b.forced)) {
		m = append(m, b.proxy(path)...)
	}
	if b.o.Secrets || b.one(30, "httphdr") {
		h := c17m{c17kv("values", []string{"v1"})}
		if b.o.Secrets {
			h = append(h, c17kv("secrets", []string{b.secret(path + ".http_headers{}.secrets[]")}))
		} else if b.coin("hdrfiles") {
			h = append(h, c17kv("files", []string{b.file("hdr")}))
		}
		m = append(m, c17kv("http_headers", c17m{c17kv("X-Custom", h)}))
	}
	if b.coin("follow") {
		m = append(m, c17kv("follow_redirects", b.coin("followv")))
	}
	if b.coin("http2") {
		m = append(m, c17kv("enable_http2", b.coin("http2v")))
	}
	b.feat("http-config")
	return m
}

// maybeHTTP appends an http_config with probability p (always in secrets mode
// with probability 60).
func (b *c17b) maybeHTTP(m c17m, path, auth string) c17m {
	p := 35
	if b.o.Secrets {
		p = 60
	}
	if b.one(p, "withHTTP") {
		m = append(m, c17kv("http_config", b.httpConfig(path, auth)))
	}
	return m
}

func (b *c17b) common(m c17m) c17m {
	if b.one(40, "sendResolved") {
		m = append(m, c17kv("send_resolved", b.coin("sendResolvedV")))
	}
	return m
}

func (b *c17b) text(l string) string { return b.pick(c17TmplText, l) }

// ------------------------------------------------------------ integrations

// C17Kinds lists the integration kinds the generator covers (yaml key without "_configs").
var C17Kinds = []string{"discord", "email", "incidentio", "pagerduty", "slack", "webhook", "opsgenie", "wechat", "pushover", "victorops", "sns", "telegram", "webex", "msteams", "msteamsv2", "jira", "rocketchat", "mattermost"}

// integration returns one config of the given kind, or nil if the kind cannot
// be generated under the current options (counted as excluded).
func (b *c17b) integration(kind string) c17m {
	p := ".receivers[]." + kind + "_configs[]"
	S := b.o.Secrets
	var m c17m
	switch kind {
	case "discord", "msteams", "msteamsv2":
		if S {
			m = append(m, c17kv("webhook_url", b.secretURL(p+".webhook_url")))
		} else {
			m = append(m, c17kv("webhook_url_file", b.file("hook")))
		}
		if b.coin("title") {
			m = append(m, c17kv("title", b.text("titlev")))
		}
		if kind == "discord" && b.coin("dextra") {
			m = append(m, c17kv("content", b.text("content")), c17kv("username", "am"), c17kv("avatar_url", "https://example.com/a.png"))
		}
		if kind == "msteams" && b.coin("summary") {
			m = append(m, c17kv("summary", b.text("summaryv")))
		}
		if b.coin("text") && kind != "discord" {
			m = append(m, c17kv("text", b.text("textv")))
		}
		b.v2proxy = kind == "msteamsv2"
		if b.forced && b.o.Force == "msteamsv2-env-proxy" {
			m = append(m, c17kv("http_config", b.httpConfig(p, "")))
		} else {
			m = b.maybeHTTP(m, p, "")
		}
		b.v2proxy = false
	case "email":
		m = append(m, c17kv("to", "ops@example.com"))
		if !b.gHas["smtp_smarthost"] || b.coin("localSmart") {
			m = append(m, c17kv("smarthost", b.pick([]string{"smtp.example.com:587", "[::1]:25", "localhost:465"}, "smarthost")))
		}
		if !b.gHas["smtp_from"] || b.coin("localFrom") {
			m = append(m, c17kv("from", "am@example.com"))
		}
		if b.coin("hello") {
			m = append(m, c17kv("hello", "am.example.com"))
		}
		if b.coin("authuser") {
			m = append(m, c17kv("auth_username", "user"), c17kv("auth_identity", "id"))
		}
		if S {
			m = append(m, c17kv("auth_password", b.secret(p+".auth_password")), c17kv("auth_secret", b.secret(p+".auth_secret")))
			m = append(m, c17kv("tls_config", b.tls(p+".tls_config")))
		} else {
			if b.coin("pwfile") {
				m = append(m, c17kv("auth_password_file", b.file("smtp-pw")))
			}
			if b.coin("secfile") {
				m = append(m, c17kv("auth_secret_file", b.file("smtp-secret")))
			}
			if b.coin("etls") {
				m = append(m, c17kv("tls_config", b.tls(p+".tls_config")))
			}
		}
		if b.coin("headers") {
			m = append(m, c17kv("headers", c17m{c17kv("subject", b.text("subj")), c17kv("X-Prio", "1")}))
		}
		if b.coin("html") {
			m = append(m, c17kv("html", b.text("htmlv")), c17kv("text", b.text("etextv")))
		}
		if b.coin("reqtls") {
			m = append(m, c17kv("require_tls", b.coin("reqtlsv")))
		}
		if b.coin("implicit") {
			m = append(m, c17kv("force_implicit_tls", b.coin("implicitv")))
		}
		if b.one(30, "threading") {
			m = append(m, c17kv("threading", c17m{c17kv("enabled", true), c17kv("thread_by_date", b.pick([]string{"none", "daily"}, "tbd"))}))
		}
	case "incidentio":
		if b.coin("iourlfile") {
			m = append(m, c17kv("url_file", b.file("io-url")))
		} else {
			m = append(m, c17kv("url", b.url("iourl")))
		}
		switch {
		case S && b.coin("ioauth"):
			m = append(m, c17kv("http_config", b.httpConfig(p, "authorization")))
		case S:
			m = append(m, c17kv("alert_source_token", b.secret(p+".alert_source_token")))
			if b.coin("iohttp") {
				m = append(m, c17kv("http_config", b.httpConfig(p, "none")))
			}
		default:
			m = append(m, c17kv("alert_source_token_file", b.file("io-token")))
			if b.coin("iohttp") && !(b.forced && b.o.Force == "incidentio-global-http") {
				m = append(m, c17kv("http_config", b.httpConfig(p, "none")))
			} else if b.gHas["http_config"] {
				if b.o.IncidentioGlobalHTTP {
					b.feat("incidentio-global-http-shape")
				} else {
					b.out.Excluded++
					m = append(m, c17kv("http_config", b.httpConfig(p, "none")))
				}
			}
		}
		if b.coin("iomax") {
			m = append(m, c17kv("max_alerts", b.intn(0, 50, "iomaxv")), c17kv("timeout", b.pick([]string{"0s", "5s", "1m30s"}, "iotimeout")))
		}
	case "pagerduty":
		which := b.intn(0, 2, "pdkeys")
		if S {
			if which != 1 {
				m = append(m, c17kv("routing_key", b.secret(p+".routing_key")))
			}
			if which != 0 {
				m = append(m, c17kv("service_key", b.secret(p+".service_key")))
			}
		} else {
			if which != 1 {
				m = append(m, c17kv("routing_key_file", b.file("pd-routing")))
			}
			if which != 0 {
				m = append(m, c17kv("service_key_file", b.file("pd-service")))
			}
		}
		if b.coin("pdurl") {
			m = append(m, c17kv("url", b.url("pdurlv")))
		}
		if b.coin("pdextra") {
			m = append(m, c17kv("client", b.text("pdclient")), c17kv("description", b.text("pddesc")), c17kv("severity", "critical"),
				c17kv("details", c17m{c17kv("firing", "custom"), c17kv("extra", b.text("pddet")), c17kv("nested", c17m{c17kv("k", []any{1, "two", true})})}))
		}
		if b.coin("pdimages") {
			m = append(m, c17kv("images", []c17m{{c17kv("src", "https://example.com/i.png"), c17kv("alt", "a")}}), c17kv("links", []c17m{{c17kv("href", "https://example.com"), c17kv("text", "t")}}))
		}
		if b.coin("pdtimeout") {
			m = append(m, c17kv("timeout", b.pick([]string{"0s", "10s"}, "pdtimeoutv")))
		}
		m = b.maybeHTTP(m, p, "")
	case "slack":
		// credential: own api_url | own app_token | inherited from global
		mode := b.intn(0, 2, "slackCred")
		if b.forced && b.o.Force == "slack-app-token" {
			mode = b.intn(1, 2, "slackCredForced")
		}
		appToken := false
		switch mode {
		case 0:
			if S {
				m = append(m, c17kv("api_url", b.secretURL(p+".api_url")))
			} else {
				m = append(m, c17kv("api_url_file", b.file("slack-url")))
			}
		case 1:
			if !b.o.SlackAppToken {
				b.out.Excluded++
				if S {
					m = append(m, c17kv("api_url", b.secretURL(p+".api_url")))
				} else {
					m = append(m, c17kv("api_url_file", b.file("slack-url")))
				}
				break
			}
			appToken = true
			if S {
				m = append(m, c17kv("app_token", b.secret(p+".app_token")))
			} else {
				m = append(m, c17kv("app_token_file", b.file("slack-token")))
			}
			if b.coin("appurl") {
				m = append(m, c17kv("app_url", "https://slack.example.com/api/chat.postMessage"))
			}
		default:
			switch {
			case b.gHas["slack_api_url"]:
			case b.gHas["slack_app_token"]:
				appToken = true
			default:
				// nothing to inherit: own api_url
				if S {
					m = append(m, c17kv("api_url", b.secretURL(p+".api_url")))
				} else {
					m = append(m, c17kv("api_url_file", b.file("slack-url")))
				}
			}
		}
		if appToken {
			b.feat("slack-app-token-shape")
		}
		if b.coin("slackch") {
			m = append(m, c17kv("channel", "#alerts"), c17kv("username", b.text("slackuser")), c17kv("color", "good"))
		}
		if b.coin("slacktxt") {
			m = append(m, c17kv("title", b.text("slacktitle")), c17kv("text", b.text("slacktext")), c17kv("short_fields", b.coin("sf")), c17kv("link_names", b.coin("ln")))
		}
		if b.coin("slackfields") {
			m = append(m, c17kv("fields", []c17m{{c17kv("title", "t"), c17kv("value", "v"), c17kv("short", true)}}))
		}
		if b.coin("slackactions") {
			m = append(m, c17kv("actions", []c17m{
				{c17kv("type", "button"), c17kv("text", "go"), c17kv("url", "https://example.com")},
				{c17kv("type", "button"), c17kv("text", "ack"), c17kv("name", "ack"), c17kv("value", "1"), c17kv("confirm", c17m{c17kv("text", "sure?")})},
			}))
		}
		if b.coin("slacktimeout") {
			m = append(m, c17kv("timeout", b.pick([]string{"0s", "3s"}, "slacktimeoutv")), c17kv("mrkdwn_in", []string{"text"}))
		}
		switch {
		case appToken:
			if b.gHas["http_config"] || b.coin("slackhttp") {
				m = append(m, c17kv("http_config", b.httpConfig(p, "none")))
			}
		case b.gHas["slack_app_token"] && b.gHas["http_config"]:
			// the global app token may be injected: do not inherit a global authorization
			m = append(m, c17kv("http_config", b.httpConfig(p, "")))
		default:
			m = b.maybeHTTP(m, p, "")
		}
	case "webhook":
		if S {
			m = append(m, c17kv("url", b.secretTemplateURL(p+".url")))
		} else {
			m = append(m, c17kv("url_file", b.file("wh-url")))
		}
		if b.coin("whmax") {
			m = append(m, c17kv("max_alerts", b.intn(0, 100, "whmaxv")))
		}
		if b.coin("whtimeout") {
			m = append(m, c17kv("timeout", b.pick([]string{"0s", "10s", "1m"}, "whtimeoutv")))
		}
		if b.one(25, "whpayload") {
			m = append(m, c17kv("payload", c17m{c17kv("text", b.text("whp")), c17kv("list", []any{"a", 1}), c17kv("obj", c17m{c17kv("k", "v")})}))
		}
		m = b.maybeHTTP(m, p, "")
	case "opsgenie":
		if !b.gHas["opsgenie_api_key"] || b.coin("ogOwn") {
			if S {
				m = append(m, c17kv("api_key", b.secret(p+".api_key")))
			} else {
				m = append(m, c17kv("api_key_file", b.file("og-key")))
			}
		} else {
			b.feat("inherits-global-credential")
		}
		if b.coin("ogurl") {
			m = append(m, c17kv("api_url", b.pick([]string{"https://api.eu.opsgenie.com", "https://og.example.com/v2/"}, "ogurlv")))
		}
		if b.coin("ogextra") {
			m = append(m, c17kv("message", b.text("ogmsg")), c17kv("details", c17m{c17kv("k", b.text("ogdet"))}), c17kv("tags", "a,b"), c17kv("priority", "P1"), c17kv("update_alerts", b.coin("ogupd")))
		}
		if b.coin("ogresp") {
			m = append(m, c17kv("responders", []c17m{{c17kv("name", "ops"), c17kv("type", b.pick([]string{"team", "Team", "user", "escalation", "schedule", "{{ .CommonLabels.kind }}"}, "ogtype"))}, {c17kv("id", "x"), c17kv("type", "user")}}))
		}
		m = b.maybeHTTP(m, p, "")
	case "wechat":
		if !b.gHas["wechat_api_secret"] || b.coin("wcOwn") {
			if S {
				m = append(m, c17kv("api_secret", b.secret(p+".api_secret")))
			} else {
				m = append(m, c17kv("api_secret_file", b.file("wc-secret")))
			}
		} else {
			b.feat("inherits-global-credential")
		}
		if !b.gHas["wechat_api_corp_id"] || b.coin("wcCorp") {
			m = append(m, c17kv("corp_id", "corp"))
		}
		if b.coin("wcextra") {
			m = append(m, c17kv("message", b.text("wcmsg")), c17kv("to_user", "u"), c17kv("agent_id", "1"), c17kv("message_type", b.pick([]string{"text", "markdown"}, "wctype")))
		}
		if b.coin("wcurl") {
			m = append(m, c17kv("api_url", "https://wc.example.com/cgi-bin"))
		}
		m = b.maybeHTTP(m, p, "")
	case "pushover":
		if S {
			m = append(m, c17kv("user_key", b.secret(p+".user_key")), c17kv("token", b.secret(p+".token")))
		} else {
			m = append(m, c17kv("user_key_file", b.file("po-user")), c17kv("token_file", b.file("po-token")))
		}
		if b.coin("poextra") {
			m = append(m, c17kv("title", b.text("potitle")), c17kv("priority", "1"), c17kv("retry", b.pick([]string{"30s", "1m", "1m0s", "90s"}, "poretry")), c17kv("expire", "2h"), c17kv("ttl", b.pick([]string{"0s", "1h"}, "pottl")))
		}
		if b.coin("pohtml") {
			if b.coin("pohtmlv") {
				m = append(m, c17kv("html", true))
			} else {
				m = append(m, c17kv("monospace", true))
			}
		}
		m = b.maybeHTTP(m, p, "")
	case "victorops":
		m = append(m, c17kv("routing_key", b.text("vork")+"rk"))
		if !b.gHas["victorops_api_key"] || b.coin("voOwn") {
			if S {
				m = append(m, c17kv("api_key", b.secret(p+".api_key")))
			} else {
				m = append(m, c17kv("api_key_file", b.file("vo-key")))
			}
		} else {
			b.feat("inherits-global-credential")
		}
		if b.coin("voextra") {
			m = append(m, c17kv("message_type", "WARNING"), c17kv("state_message", b.text("vosm")), c17kv("custom_fields", c17m{c17kv("f", b.text("vocf"))}))
		}
		if b.coin("vourl") {
			m = append(m, c17kv("api_url", "https://vo.example.com/alert"))
		}
		m = b.maybeHTTP(m, p, "")
	case "sns":
		switch b.intn(0, 2, "snsTarget") {
		case 0:
			m = append(m, c17kv("topic_arn", "arn:aws:sns:us-east-2:123456789012:My-Topic"))
		case 1:
			m = append(m, c17kv("phone_number", "+15555550100"))
		default:
			m = append(m, c17kv("target_arn", "arn:aws:sns:us-east-2:123456789012:endpoint/x"))
		}
		sv := c17m{c17kv("region", "us-east-2")}
		if S {
			sv = append(sv, c17kv("access_key", "AKIAEXAMPLE"), c17kv("secret_key", b.secret(p+".sigv4.secret_key")))
		} else if b.coin("snsrole") {
			sv = append(sv, c17kv("role_arn", "arn:aws:iam::1:role/r"), c17kv("profile", "p"))
		}
		m = append(m, c17kv("sigv4", sv))
		if b.coin("snsextra") {
			m = append(m, c17kv("subject", b.text("snssubj")), c17kv("message", b.text("snsmsg")), c17kv("attributes", c17m{c17kv("k", "v")}), c17kv("api_url", "https://sns.us-east-2.amazonaws.com"))
		}
		m = b.maybeHTTP(m, p, "")
	case "telegram":
		if b.coin("tgchatfile") {
			m = append(m, c17kv("chat_id_file", b.file("tg-chat")))
		} else {
			m = append(m, c17kv("chat_id", rapid.SampledFrom([]int{1, -100123456, 42}).Draw(b.t, "tgchat")))
		}
		if !b.gHas["telegram_bot_token"] || b.coin("tgOwn") {
			if S {
				m = append(m, c17kv("bot_token", b.secret(p+".bot_token")))
			} else {
				m = append(m, c17kv("bot_token_file", b.file("tg-token")))
			}
		} else {
			b.feat("inherits-global-credential")
		}
		if b.coin("tgextra") {
			m = append(m, c17kv("parse_mode", b.pick([]string{"", "Markdown", "MarkdownV2", "HTML"}, "tgpm")), c17kv("message", b.text("tgmsg")), c17kv("disable_notifications", b.coin("tgdn")), c17kv("message_thread_id", b.intn(0, 5, "tgthread")))
		}
		if b.coin("tgurl") {
			m = append(m, c17kv("api_url", "https://tg.example.com"))
		}
		m = b.maybeHTTP(m, p, "")
	case "webex":
		m = append(m, c17kv("room_id", "room"))
		m = append(m, c17kv("http_config", b.httpConfig(p, "authorization")))
		if b.coin("wxextra") {
			m = append(m, c17kv("message", b.text("wxmsg")), c17kv("api_url", "https://webex.example.com/v1/messages"))
		}
	case "jira":
		m = append(m, c17kv("project", "OPS"), c17kv("issue_type", "Bug"))
		if !b.gHas["jira_api_url"] || b.coin("jiraurl") {
			m = append(m, c17kv("api_url", "https://jira.example.com/rest"))
		}
		if b.coin("jiratype") {
			m = append(m, c17kv("api_type", b.pick([]string{"auto", "cloud", "datacenter"}, "jiratypev")))
		}
		if b.coin("jirasummary") {
			if b.coin("jirasummaryobj") {
				m = append(m, c17kv("summary", c17m{c17kv("template", b.text("jirasumt")), c17kv("enable_update", b.coin("jiraeu"))}))
			} else {
				m = append(m, c17kv("summary", b.text("jirasum")))
			}
		}
		if b.coin("jiraextra") {
			m = append(m, c17kv("labels", []string{"a", "{{ .CommonLabels.x }}"}), c17kv("priority", "High"), c17kv("reopen_duration", b.pick([]string{"1h", "30d", "0s"}, "jirareopen")),
				c17kv("reopen_transition", "Reopen"), c17kv("resolve_transition", "Done"), c17kv("wont_fix_resolution", "Won't Fix"),
				c17kv("fields", c17m{c17kv("customfield_1", "v"), c17kv("customfield_2", c17m{c17kv("value", "x")}), c17kv("customfield_3", []any{1, "a"})}))
		}
		m = b.maybeHTTP(m, p, "")
	case "rocketchat":
		own := !b.gHas["rocketchat_token"] || b.coin("rcOwn")
		if own {
			if S {
				m = append(m, c17kv("token_id", b.secret(p+".token_id")), c17kv("token", b.secret(p+".token")))
			} else {
				m = append(m, c17kv("token_id_file", b.file("rc-id")), c17kv("token_file", b.file("rc-token")))
			}
		} else {
			b.feat("inherits-global-credential")
		}
		if b.coin("rcextra") {
			m = append(m, c17kv("channel", "#a"), c17kv("title", b.text("rctitle")), c17kv("short_fields", b.coin("rcsf")), c17kv("link_names", b.coin("rcln")), c17kv("api_url", "https://rc.example.com/"))
		}
		if b.coin("rcfields") {
			m = append(m, c17kv("fields", []c17m{{c17kv("title", "t"), c17kv("value", "v"), c17kv("short", true)}}), c17kv("actions", []c17m{{c17kv("type", "button"), c17kv("text", "x"), c17kv("url", "https://example.com")}}))
		}
		m = b.maybeHTTP(m, p, "")
	case "mattermost":
		if !b.gHas["mattermost_webhook_url"] || b.coin("mmOwn") {
			if S {
				m = append(m, c17kv("webhook_url", b.secretURL(p+".webhook_url")))
			} else {
				m = append(m, c17kv("webhook_url_file", b.file("mm-url")))
			}
		} else {
			b.feat("inherits-global-credential")
		}
		if b.coin("mmextra") {
			m = append(m, c17kv("channel", "town"), c17kv("username", b.text("mmuser")), c17kv("text", b.text("mmtext")),
				c17kv("fields", []c17m{{c17kv("title", "t"), c17kv("value", "v")}}),
				c17kv("attachments", []c17m{{c17kv("title", "at"), c17kv("fields", []c17m{{c17kv("title", "t"), c17kv("value", "v"), c17kv("short", false)}})}}),
				c17kv("props", c17m{c17kv("card", "c")}), c17kv("priority", c17m{c17kv("priority", "urgent"), c17kv("requested_ack", true)}))
		}
		m = b.maybeHTTP(m, p, "")
	}
	m = b.common(m)
	b.kinds[kind] = true
	return m
}

// ------------------------------------------------------------------ global

func (b *c17b) globals() {
	S := b.o.Secrets
	var g c17m
	p := ".global"
	if b.coin("resolveTimeout") {
		g = append(g, c17kv("resolve_timeout", b.pick(c17Durations, "resolveTimeoutV")))
	}
	if b.one(60, "gsmtp") {
		g = append(g, c17kv("smtp_smarthost", "smtp.example.com:25"), c17kv("smtp_from", "am@example.com"))
		b.gHas["smtp_smarthost"], b.gHas["smtp_from"] = true, true
		if b.coin("gsmtpauth") {
			g = append(g, c17kv("smtp_auth_username", "user"), c17kv("smtp_hello", "am"), c17kv("smtp_require_tls", b.coin("gsmtptls")))
			if S {
				g = append(g, c17kv("smtp_auth_password", b.secret(p+".smtp_auth_password")), c17kv("smtp_auth_secret", b.secret(p+".smtp_auth_secret")))
				g = append(g, c17kv("smtp_tls_config", b.tls(p+".smtp_tls_config")))
			} else {
				g = append(g, c17kv("smtp_auth_password_file", b.file("smtp-pw")))
				if b.coin("gsmtptlscfg") {
					g = append(g, c17kv("smtp_tls_config", b.tls(p+".smtp_tls_config")))
				}
			}
		}
	}
	gslack := b.intn(0, 3, "gslack")
	if b.o.Force == "slack-app-token" {
		gslack = 1
	}
	switch gslack {
	case 0:
		if S {
			g = append(g, c17kv("slack_api_url", b.secretURL(p+".slack_api_url")))
		} else {
			g = append(g, c17kv("slack_api_url_file", b.file("g-slack-url")))
		}
		b.gHas["slack_api_url"] = true
	case 1:
		if !b.o.SlackAppToken {
			b.out.Excluded++
			break
		}
		if S {
			g = append(g, c17kv("slack_app_token", b.secret(p+".slack_app_token")))
		} else {
			g = append(g, c17kv("slack_app_token_file", b.file("g-slack-token")))
		}
		b.gHas["slack_app_token"] = true
	}
	cred := func(name, key string) {
		if !b.one(45, "g"+name) {
			return
		}
		if S {
			g = append(g, c17kv(key, b.secret(p+"."+key)))
		} else {
			g = append(g, c17kv(key+"_file", b.file("g-"+name)))
		}
		b.gHas[key] = true
	}
	cred("opsgenie", "opsgenie_api_key")
	cred("wechat", "wechat_api_secret")
	cred("victorops", "victorops_api_key")
	cred("telegram", "telegram_bot_token")
	if b.one(45, "grocket") {
		if S {
			g = append(g, c17kv("rocketchat_token", b.secret(p+".rocketchat_token")), c17kv("rocketchat_token_id", b.secret(p+".rocketchat_token_id")))
		} else {
			g = append(g, c17kv("rocketchat_token_file", b.file("g-rc-token")), c17kv("rocketchat_token_id_file", b.file("g-rc-id")))
		}
		b.gHas["rocketchat_token"] = true
	}
	if b.one(45, "gmm") {
		if S {
			g = append(g, c17kv("mattermost_webhook_url", b.secretURL(p+".mattermost_webhook_url")))
		} else {
			g = append(g, c17kv("mattermost_webhook_url_file", b.file("g-mm-url")))
		}
		b.gHas["mattermost_webhook_url"] = true
	}
	if b.coin("gwccorp") {
		g = append(g, c17kv("wechat_api_corp_id", "gcorp"))
		b.gHas["wechat_api_corp_id"] = true
	}
	if b.coin("gjira") {
		g = append(g, c17kv("jira_api_url", "https://jira.example.com/"))
		b.gHas["jira_api_url"] = true
	}
	if b.one(30, "gurls") {
		g = append(g, c17kv("pagerduty_url", "https://pd.example.com/v2/enqueue"), c17kv("opsgenie_api_url", "https://og.example.com"), c17kv("victorops_api_url", "https://vo.example.com/x"),
			c17kv("telegram_api_url", "https://tg.example.com"), c17kv("webex_api_url", "https://wx.example.com/v1/messages"), c17kv("rocketchat_api_url", "https://rc.example.com"), c17kv("wechat_api_url", "https://wc.example.com/cgi"))
	}
	hp := 35
	if S {
		hp = 60
	}
	if b.one(hp, "ghttp") || b.o.Force == "incidentio-global-http" || b.o.Force == "msteamsv2-env-proxy" {
		g = append(g, c17kv("http_config", b.httpConfig(p, "")))
		b.gHas["http_config"] = true
		b.feat("global-http-config")
	}
	b.global = g
}

// ------------------------------------------------------------ time intervals

var (
	c17TINames   = []string{"ti0", "ti1", "ti2", "office hours", "名", "null"}
	c17Times     = [][2]string{{"09:00", "17:00"}, {"00:00", "24:00"}, {"23:59", "24:00"}, {"00:00", "00:01"}, {"08:30", "12:15"}}
	c17Weekdays  = []string{"monday:friday", "saturday", "sunday", "sunday:saturday", "wednesday:wednesday", "Tuesday"}
	c17Days      = []string{"1:5", "-3:-1", "-1", "31", "1:31", "15", "-31:-1", "1:-1", "10:-5"}
	c17Months    = []string{"january:march", "12", "5:7", "december", "1:12", "June", "may:may", "13", "0:2", "11:13", "0", "14:20"}
	c17Years     = []string{"2020:2025", "2030", "1999:2001"}
	c17Locations = []string{"UTC", "Local", "Europe/Paris", "America/New_York", "Australia/Sydney", "Asia/Kolkata"}
)

func (b *c17b) timeInterval() c17m {
	var m c17m
	pickN := func(xs []string, l string) []string {
		k := b.intn(1, 2, l+"K")
		var out []string
		for i := 0; i < k; i++ {
			out = append(out, b.pick(xs, l))
		}
		return out
	}
	if b.one(60, "tiTimes") {
		k := b.intn(1, 2, "tiTimesK")
		var ts []c17m
		for i := 0; i < k; i++ {
			tr := rapid.SampledFrom(c17Times).Draw(b.t, "tiTime")
			ts = append(ts, c17m{c17kv("start_time", tr[0]), c17kv("end_time", tr[1])})
		}
		m = append(m, c17kv("times", ts))
	}
	if b.one(50, "tiWd") {
		m = append(m, c17kv("weekdays", pickN(c17Weekdays, "tiWdV")))
	}
	if b.one(40, "tiDom") {
		m = append(m, c17kv("days_of_month", pickN(c17Days, "tiDomV")))
	}
	if b.one(40, "tiMon") {
		m = append(m, c17kv("months", pickN(c17Months, "tiMonV")))
	}
	if b.one(30, "tiYr") {
		m = append(m, c17kv("years", pickN(c17Years, "tiYrV")))
	}
	if b.one(40, "tiLoc") {
		m = append(m, c17kv("location", b.pick(c17Locations, "tiLocV")))
	}
	return m
}

// --------------------------------------------------------------- inhibition

func (b *c17b) inhibitRule() c17m {
	var m c17m
	if b.one(30, "irName") {
		m = append(m, c17kv("name", b.pick([]string{"r1", "rule two", "名"}, "irNameV")))
	}
	side := func(prefix string) {
		if b.one(70, prefix+"M") {
			k := b.intn(1, 2, prefix+"MK")
			var ms []string
			for i := 0; i < k; i++ {
				ms = append(ms, b.matcherLine())
			}
			m = append(m, c17kv(prefix+"_matchers", ms))
		}
		if b.one(25, prefix+"Eq") {
			m = append(m, c17kv(prefix+"_match", c17m{c17kv(b.pick(c17ClassicNames, prefix+"EqN"), b.pick(c17Values, prefix+"EqV"))}))
			b.feat("inhibit-legacy-match")
		}
		if b.one(25, prefix+"Re") {
			v := b.pick(c17Regexes, prefix+"ReV")
			if b.one(12, prefix+"ReEmpty") {
				if b.o.F6 {
					v = ""
					b.feat("F6-shape")
				} else {
					b.out.Excluded++
				}
			}
			m = append(m, c17kv(prefix+"_match_re", c17m{c17kv(b.pick(c17ClassicNames, prefix+"ReN"), v)}))
			b.feat("inhibit-legacy-match-re")
		}
	}
	side("source")
	side("target")
	if b.one(70, "irEqual") {
		k := b.intn(1, 3, "irEqualK")
		var eq []string
		for i := 0; i < k; i++ {
			eq = append(eq, b.labelName("irEqualN"))
		}
		m = append(m, c17kv("equal", eq))
	}
	return m
}

// -------------------------------------------------------------------- main

// C17Config draws one configuration.
func C17Config(t *rapid.T, o C17Opts) C17Out {
	switch o.Force {
	case "F6":
		o.F6 = true
	case "F11":
		o.F11 = true
	case "slack-app-token":
		o.SlackAppToken = true
	case "incidentio-global-http":
		o.IncidentioGlobalHTTP = true
	case "msteamsv2-env-proxy":
		o.MSTeamsV2EnvProxy = true
	}
	out := C17Out{}
	b := &c17b{t: t, o: o, out: &out, feats: map[string]bool{}, kinds: map[string]bool{}, gHas: map[string]bool{}, nodeDeep: map[*c17Node]int{}}

	b.globals()

	// time intervals (names unique across both sections)
	nti := b.intn(0, 3, "nti")
	names := rapid.Permutation(append([]string(nil), c17TINames...)).Draw(t, "tiNames")[:nti]
	var tiNew, tiOld []c17m
	for _, n := range names {
		k := b.intn(1, 2, "tiEntries")
		var entries []c17m
		for i := 0; i < k; i++ {
			entries = append(entries, b.timeInterval())
		}
		e := c17m{c17kv("name", n), c17kv("time_intervals", entries)}
		if b.one(25, "tiOld") {
			tiOld = append(tiOld, e)
			b.feat("deprecated-mute-time-intervals-section")
		} else {
			tiNew = append(tiNew, e)
		}
		b.tis = append(b.tis, n)
	}

	// receivers
	recvPool := []string{"r0", "r1", "r2", "web.hook", "team X", "ünï", "123", "true", "null", "a/b"}
	nrecv := b.intn(1, 4, "nrecv")
	b.recvs = rapid.Permutation(append([]string(nil), recvPool...)).Draw(t, "recvNames")[:nrecv]
	maxInt := 3
	if o.Big {
		maxInt = 6
	}
	var receivers []any
	type recvModel struct {
		name string
		m    c17m
	}
	var rms []recvModel
	for _, rn := range b.recvs {
		rm := c17m{c17kv("name", rn)}
		if b.one(20, "recvLabels") {
			rm = append(rm, c17kv("labels", c17m{c17kv("team", "x")}))
		}
		ni := b.intn(0, maxInt, "nint")
		byKind := map[string][]c17m{}
		var order []string
		for i := 0; i < ni; i++ {
			kind := b.pick(C17Kinds, "kind")
			if _, ok := byKind[kind]; !ok {
				order = append(order, kind)
			}
			byKind[kind] = append(byKind[kind], b.integration(kind))
		}
		if fk := map[string]string{"slack-app-token": "slack", "incidentio-global-http": "incidentio", "msteamsv2-env-proxy": "msteamsv2"}[o.Force]; fk != "" && rn == b.recvs[0] {
			if _, ok := byKind[fk]; !ok {
				order = append(order, fk)
			}
			b.forced = true
			byKind[fk] = append(byKind[fk], b.integration(fk))
			b.forced = false
		}
		for _, k := range order {
			rm = append(rm, c17kv(k+"_configs", byKind[k]))
		}
		rms = append(rms, recvModel{rn, rm})
	}

	// routing tree
	budget := 10
	if o.Big {
		budget = 30
	}
	root := b.node(0, true, false, &budget)

	// inhibit rules
	nir := b.intn(0, 3, "nir")
	var rules []c17m
	for i := 0; i < nir; i++ {
		rules = append(rules, b.inhibitRule())
	}

	// tracing / event recorder (carry secrets too)
	var tracing, recorder c17m
	if b.one(25, "tracing") {
		tracing = c17m{c17kv("endpoint", "otel.example.com:4317"), c17kv("client_type", b.pick([]string{"grpc", "http"}, "trClient"))}
		if o.Secrets {
			tracing = append(tracing, c17kv("tls_config", b.tls(".tracing.tls_config")), c17kv("headers", c17m{c17kv("X-Trace-Auth", c17m{c17kv("secrets", []string{b.secret(".tracing.headers{}.secrets[]")})})}))
		} else if b.coin("trExtra") {
			tracing = append(tracing, c17kv("insecure", true), c17kv("sampling_fraction", 0.5), c17kv("compression", "gzip"), c17kv("timeout", "5s"))
		}
		b.feat("tracing")
	}
	if b.one(25, "recorder") {
		if b.coin("erFile") {
			recorder = append(recorder, c17kv("file_outputs", []c17m{{c17kv("path", "/var/log/am-events.jsonl")}}))
		}
		if o.Secrets || b.coin("erKafka") {
			k := c17m{c17kv("brokers", []string{"k1:9092", "k2:9092"}), c17kv("topic", "events")}
			if o.Secrets || b.coin("erKafkaTLS") {
				k = append(k, c17kv("tls_config", b.tls(".event_recorder.kafka_outputs[].tls_config")))
			}
			if b.coin("erKafkaX") {
				k = append(k, c17kv("acks", "all"), c17kv("compression", "gzip"), c17kv("format", "protobuf"))
			}
			recorder = append(recorder, c17kv("kafka_outputs", []c17m{k}))
		}
		if o.Secrets {
			w := c17m{c17kv("url", b.secretURL(".event_recorder.webhook_outputs[].url"))}
			w = append(w, c17kv("http_config", b.httpConfig(".event_recorder.webhook_outputs[]", "")))
			if b.coin("erBatch") {
				w = append(w, c17kv("batch", true), c17kv("batch_max_events", 10))
			}
			recorder = append(recorder, c17kv("webhook_outputs", []c17m{w}))
		}
		if b.coin("erStdout") {
			recorder = append(recorder, c17kv("stdout_outputs", []c17m{{}}))
		}
		if len(recorder) > 0 {
			b.feat("event-recorder")
		}
	}

	// ---- breach injection (exactly one, on top of an otherwise valid config)
	nonRoot := b.nodes[1:]
	anyNode := func(l string) *c17Node { return b.nodes[b.intn(0, len(b.nodes)-1, l)] }
	someNonRoot := func(l string) *c17Node {
		if len(nonRoot) == 0 {
			c := &c17Node{NullChild: -1, Matchers: []string{`a="x"`}}
			root.Children = append(root.Children, c)
			b.nodes = append(b.nodes, c)
			nonRoot = b.nodes[1:]
			return c
		}
		// prefer deep nodes
		best := nonRoot[b.intn(0, len(nonRoot)-1, l)]
		other := nonRoot[b.intn(0, len(nonRoot)-1, l+"2")]
		if b.nodeDeep[other] > b.nodeDeep[best] {
			best = other
		}
		return best
	}
	dupInterval := func(across bool) {
		e := c17m{c17kv("name", "dup"), c17kv("time_intervals", []c17m{b.timeInterval()})}
		if across {
			tiNew = append(tiNew, e)
			tiOld = append(tiOld, e)
		} else if b.coin("dupWhere") {
			tiNew = append(tiNew, e, e)
		} else {
			tiOld = append(tiOld, e, e)
		}
	}
	switch o.Force {
	case "F6":
		n := someNonRoot("forceNode")
		n.MatchRE = append(n.MatchRE, [2]string{"f6", ""})
		b.feat("F6-shape")
	case "F11":
		n := someNonRoot("forceNode")
		n.HasGroupBy, n.GroupBy = true, []string{}
		if !root.HasGroupBy || len(root.GroupBy) == 0 {
			root.HasGroupBy, root.GroupBy = true, []string{b.pick([]string{"a", "..."}, "forceRootGB")}
		}
		b.feat("F11-shape")
		b.feat("group-by-empty-list")
	}
	switch o.Breach {
	case "":
	case "root-matchers":
		root.Matchers = []string{b.matcherLine()}
	case "root-match":
		root.Match = [][2]string{{"a", "x"}}
	case "root-match-re":
		root.MatchRE = [][2]string{{"a", ".*"}}
	case "root-mute", "root-active":
		if len(b.tis) == 0 {
			tiNew = append(tiNew, c17m{c17kv("name", "tiX"), c17kv("time_intervals", []c17m{b.timeInterval()})})
			b.tis = append(b.tis, "tiX")
		}
		if o.Breach == "root-mute" {
			root.Mute = []string{b.tis[0]}
		} else {
			root.Active = []string{b.tis[0]}
		}
	case "root-no-receiver":
		root.Receiver = ""
	case "undefined-receiver":
		anyNode("breachNode").Receiver = "nope"
	case "undefined-receiver-leaf":
		someNonRoot("breachNode").Receiver = "ghost receiver"
	case "dup-receiver":
		i := b.intn(0, len(rms)-1, "dupRecv")
		rms = append(rms, recvModel{rms[i].name, c17m{c17kv("name", rms[i].name)}})
	case "group-by-dup":
		n := anyNode("breachNode")
		n.HasGroupBy = true
		n.GroupBy = strings.Split(b.pick([]string{"a,b,a", "a,a", "job,a,b,job"}, "dupShape"), ",")
	case "group-by-mixed":
		n := anyNode("breachNode")
		n.HasGroupBy = true
		n.GroupBy = strings.Split(b.pick([]string{"...,a", "a,...", "a,...,b"}, "mixShape"), ",")
	case "zero-gi":
		anyNode("breachNode").GI = b.pick([]string{"0s", "0m", "0h", "0ms", "0d"}, "zero")
	case "zero-ri":
		anyNode("breachNode").RI = b.pick([]string{"0s", "0m", "0h", "0ms", "0d"}, "zero")
	case "undefined-mute-interval":
		n := someNonRoot("breachNode")
		n.Mute = append(n.Mute, "ghost")
	case "undefined-active-interval":
		n := someNonRoot("breachNode")
		n.Active = append(n.Active, "ghost")
	case "dup-interval":
		dupInterval(false)
	case "dup-interval-across":
		dupInterval(true)
	case "null-route":
		n := anyNode("breachNode")
		n.NullChild = b.intn(0, len(n.Children), "nullPos")
	case "null-integration":
		i := b.intn(0, len(rms)-1, "nullRecv")
		kind := b.pick(C17Kinds, "nullKind")
		key := kind + "_configs"
		found := false
		for j := range rms[i].m {
			if rms[i].m[j].Key == key {
				l := rms[i].m[j].Value.([]c17m)
				var nl []any
				for _, e := range l {
					nl = append(nl, e)
				}
				nl = append(nl, nil)
				rms[i].m[j].Value = nl
				found = true
			}
		}
		if !found {
			rms[i].m = append(rms[i].m, c17kv(key, []any{nil}))
		}
	default:
		panic("unknown breach " + o.Breach)
	}

	for _, rm := range rms {
		receivers = append(receivers, rm.m)
	}

	// ---- assemble (section order varies)
	sections := map[string]any{}
	if len(b.global) > 0 || b.one(20, "emptyGlobal") {
		sections["global"] = b.global
	}
	sections["route"] = root.render()
	sections["receivers"] = receivers
	if len(rules) > 0 {
		sections["inhibit_rules"] = rules
	}
	if len(tiNew) > 0 {
		sections["time_intervals"] = tiNew
	}
	if len(tiOld) > 0 {
		sections["mute_time_intervals"] = tiOld
	}
	if b.coin("templates") {
		sections["templates"] = []string{"/etc/am/templates/*.tmpl", "rel/*.tmpl"}
	}
	if len(tracing) > 0 {
		sections["tracing"] = tracing
	}
	if len(recorder) > 0 {
		sections["event_recorder"] = recorder
	}
	var keys []string
	for k := range sections {
		keys = append(keys, k)
	}
	sort.Strings(keys)
	keys = rapid.Permutation(keys).Draw(t, "sectionOrder")
	var doc c17m
	for _, k := range keys {
		doc = append(doc, c17kv(k, sections[k]))
	}
	y, err := yaml.Marshal(doc)
	if err != nil {
		panic(fmt.Sprintf("c17 generator: cannot render: %v", err))
	}
	out.YAML = string(y)
	for k := range b.kinds {
		out.Kinds = append(out.Kinds, k)
	}
	sort.Strings(out.Kinds)
	for f := range b.feats {
		out.Features = append(out.Features, f)
	}
	sort.Strings(out.Features)
	return out
}

// C17SecretPaths lists every secret-typed YAML type-path the generator is able
// to set (cross-checked against a reflection walk of config.Config by the check).
func C17SecretPaths() []string {
	var out []string
	httpParents := []string{".global", ".event_recorder.webhook_outputs[]"}
	for _, k := range C17Kinds {
		if k != "email" {
			httpParents = append(httpParents, ".receivers[]."+k+"_configs[]")
		}
	}
	for _, p := range httpParents {
		for _, s := range C17HTTPSuffixes {
			out = append(out, p+".http_config"+s)
		}
	}
	out = append(out,
		".global.smtp_auth_password", ".global.smtp_auth_secret", ".global.smtp_tls_config.key", ".global.slack_api_url", ".global.slack_app_token",
		".global.opsgenie_api_key", ".global.wechat_api_secret", ".global.victorops_api_key", ".global.telegram_bot_token",
		".global.rocketchat_token", ".global.rocketchat_token_id", ".global.mattermost_webhook_url",
		".receivers[].discord_configs[].webhook_url", ".receivers[].email_configs[].auth_password", ".receivers[].email_configs[].auth_secret",
		".receivers[].email_configs[].tls_config.key", ".receivers[].incidentio_configs[].alert_source_token",
		".receivers[].pagerduty_configs[].service_key", ".receivers[].pagerduty_configs[].routing_key",
		".receivers[].slack_configs[].api_url", ".receivers[].slack_configs[].app_token", ".receivers[].webhook_configs[].url",
		".receivers[].opsgenie_configs[].api_key", ".receivers[].wechat_configs[].api_secret",
		".receivers[].pushover_configs[].user_key", ".receivers[].pushover_configs[].token", ".receivers[].victorops_configs[].api_key",
		".receivers[].sns_configs[].sigv4.secret_key", ".receivers[].telegram_configs[].bot_token",
		".receivers[].msteams_configs[].webhook_url", ".receivers[].msteamsv2_configs[].webhook_url",
		".receivers[].rocketchat_configs[].token_id", ".receivers[].rocketchat_configs[].token", ".receivers[].mattermost_configs[].webhook_url",
		".tracing.tls_config.key", ".tracing.headers{}.secrets[]",
		".event_recorder.webhook_outputs[].url", ".event_recorder.kafka_outputs[].tls_config.key",
	)
	sort.Strings(out)
	return out
}
