package gen

// Generators for C15: time_interval_spec values (as data + YAML rendering
// choices) and instants biased to the boundaries of a given spec.

import (
	"fmt"
	"regexp"
	"strings"
	"sync"
	"time"

	"pgregory.net/rapid"

	"verif/harness/ref"
)

// C15ZoneCandidates is the list from DESIGN §4 C15: DST zones, 30- and
// 45-minute offsets, a 30-minute DST shift (Lord_Howe), a date-line skip
// (Apia, 2011-12-30 does not exist), DST at midnight (Sao_Paulo), "negative"
// DST during Ramadan (Casablanca).
var C15ZoneCandidates = []string{
	"UTC", "America/New_York", "Europe/Berlin", "Australia/Lord_Howe", "Asia/Kathmandu",
	"Pacific/Apia", "America/Sao_Paulo", "Africa/Casablanca",
	// daylight saving that starts at local midnight, in some years on the first or last day of a month (that
	// day's 00:00 does not exist): Azores / Beirut 31 March, Cairo, Havana, Asuncion, Amman, Santiago
	"Atlantic/Azores", "Asia/Beirut", "Africa/Cairo", "America/Havana", "America/Asuncion", "Asia/Amman", "America/Santiago",
}

type c15YM struct{ Y, M int }

var (
	c15SkipMu    sync.Mutex
	c15SkipCache = map[string][]c15YM{}
)

// c15SkippedMidnightMonths lists the months of 1970..2100 in which the local midnight of the first or of the last
// day does not exist in loc (a generator bias only: the oracle does its own calendar arithmetic).
func c15SkippedMidnightMonths(loc *time.Location) []c15YM {
	c15SkipMu.Lock()
	defer c15SkipMu.Unlock()
	if v, ok := c15SkipCache[loc.String()]; ok {
		return v
	}
	out := []c15YM{}
	for y := C15MinYear; y <= C15MaxYear; y++ {
		for m := 1; m <= 12; m++ {
			first := time.Date(y, time.Month(m), 1, 0, 0, 0, 0, loc)
			last := time.Date(y, time.Month(m), ref.C15DaysIn(y, m), 0, 0, 0, 0, loc)
			if first.Hour() != 0 || first.Day() != 1 || last.Hour() != 0 || last.Day() != ref.C15DaysIn(y, m) {
				out = append(out, c15YM{y, m})
			}
		}
	}
	c15SkipCache[loc.String()] = out
	return out
}

var (
	c15ZonesOnce sync.Once
	c15Zones     []string
)

// C15Zones returns the candidates that load in this environment.
func C15Zones() []string {
	c15ZonesOnce.Do(func() {
		for _, z := range C15ZoneCandidates {
			if _, err := time.LoadLocation(z); err == nil {
				c15Zones = append(c15Zones, z)
			}
		}
	})
	return c15Zones
}

// 1970-01-01 … 2100-12-31, in minutes since the epoch.
const (
	C15MinYear   = 1970
	C15MaxYear   = 2100
	c15MaxMinute = 4133980800/60 - 1 // 2101-01-01T00:00Z minus one minute
)

var c15WeekdayNames = []string{"sunday", "monday", "tuesday", "wednesday", "thursday", "friday", "saturday"}
var c15MonthNames = []string{"", "january", "february", "march", "april", "may", "june", "july", "august", "september", "october", "november", "december"}

// ---------------------------------------------------------------- spec

func c15Minute(t *rapid.T, label string) int {
	switch rapid.IntRange(0, 3).Draw(t, label+"Kind") {
	case 0:
		return rapid.SampledFrom([]int{0, 1, 30, 59, 60, 90, 120, 150, 180, 240, 540, 720, 1020, 1380, 1410, 1438, 1439}).Draw(t, label)
	case 1:
		return 60 * rapid.IntRange(0, 23).Draw(t, label+"H")
	default:
		return rapid.IntRange(0, 1439).Draw(t, label)
	}
}

func c15DrawTimes(t *rapid.T) []ref.C15Range {
	n := rapid.IntRange(1, 3).Draw(t, "nTimes")
	var out []ref.C15Range
	for i := 0; i < n; i++ {
		s := c15Minute(t, "tStart")
		var e int
		switch rapid.IntRange(0, 3).Draw(t, "tEndKind") {
		case 0:
			e = 1440
		case 1:
			e = s + 1
		default:
			e = rapid.IntRange(s+1, 1440).Draw(t, "tEnd")
		}
		out = append(out, ref.C15Range{B: s, E: e})
	}
	return out
}

func c15DrawIncl(t *rapid.T, label string, lo, hi, maxN int) []ref.C15Range {
	n := rapid.IntRange(1, maxN).Draw(t, "n"+label)
	var out []ref.C15Range
	for i := 0; i < n; i++ {
		b := rapid.IntRange(lo, hi).Draw(t, label+"B")
		e := b
		if rapid.IntRange(0, 2).Draw(t, label+"Single") > 0 {
			e = rapid.IntRange(b, hi).Draw(t, label+"E")
		}
		out = append(out, ref.C15Range{B: b, E: e})
	}
	return out
}

func c15DrawDays(t *rapid.T) []ref.C15Range {
	n := rapid.IntRange(1, 3).Draw(t, "nDays")
	var out []ref.C15Range
	posDay := func(label string, lo int) int {
		if rapid.Bool().Draw(t, label+"Edge") {
			c := []int{}
			for _, v := range []int{1, 2, 15, 27, 28, 29, 30, 31} {
				if v >= lo {
					c = append(c, v)
				}
			}
			return rapid.SampledFrom(c).Draw(t, label)
		}
		return rapid.IntRange(lo, 31).Draw(t, label)
	}
	negDay := func(label string, lo int) int { // lo..-1
		if rapid.Bool().Draw(t, label+"Edge") {
			c := []int{}
			for _, v := range []int{-31, -30, -29, -28, -27, -15, -3, -2, -1} {
				if v >= lo {
					c = append(c, v)
				}
			}
			return rapid.SampledFrom(c).Draw(t, label)
		}
		return rapid.IntRange(lo, -1).Draw(t, label)
	}
	for i := 0; i < n; i++ {
		switch rapid.IntRange(0, 5).Draw(t, "dayKind") {
		case 0: // single positive
			b := posDay("dPos", 1)
			out = append(out, ref.C15Range{B: b, E: b})
		case 1: // single negative
			b := negDay("dNeg", -31)
			out = append(out, ref.C15Range{B: b, E: b})
		case 2: // positive range (may extend past the end of short months)
			b := posDay("dPosB", 1)
			out = append(out, ref.C15Range{B: b, E: posDay("dPosE", b)})
		case 3, 4: // negative range (may extend before the start of short months)
			b := negDay("dNegB", -31)
			out = append(out, ref.C15Range{B: b, E: negDay("dNegE", b)})
		default: // positive begin, negative end; non-empty in every month: b <= 28+e
			e := rapid.IntRange(-27, -1).Draw(t, "dMixE")
			b := rapid.IntRange(1, 28+e).Draw(t, "dMixB")
			out = append(out, ref.C15Range{B: b, E: e})
		}
	}
	return out
}

// C15DrawSpec draws a valid spec. Each field is present with probability
// one half.
func C15DrawSpec(t *rapid.T) ref.C15Spec {
	var s ref.C15Spec
	mask := rapid.IntRange(0, 31).Draw(t, "fields")
	if mask&1 != 0 {
		s.Times = c15DrawTimes(t)
	}
	if mask&2 != 0 {
		s.Weekdays = c15DrawIncl(t, "Wd", 0, 6, 3)
	}
	if mask&4 != 0 {
		s.Days = c15DrawDays(t)
	}
	if mask&8 != 0 {
		s.Months = c15DrawIncl(t, "Mo", 1, 12, 3)
	}
	if mask&16 != 0 {
		n := rapid.IntRange(1, 2).Draw(t, "nYears")
		for i := 0; i < n; i++ {
			b := rapid.IntRange(C15MinYear, C15MaxYear).Draw(t, "yB")
			e := b
			switch rapid.IntRange(0, 2).Draw(t, "yKind") {
			case 1:
				e = min(C15MaxYear, b+rapid.IntRange(0, 4).Draw(t, "ySpan"))
			case 2:
				e = rapid.IntRange(b, C15MaxYear).Draw(t, "yE")
			}
			s.Years = append(s.Years, ref.C15Range{B: b, E: e})
		}
	}
	if rapid.IntRange(0, 9).Draw(t, "hasLoc") >= 3 {
		s.Location = rapid.SampledFrom(C15Zones()).Draw(t, "loc")
	}
	return s
}

// ---------------------------------------------------------------- rendering

// C15Inject is one raw element added to a rendered spec to probe parser
// acceptance. Expect is "reject" (the stated validity rules exclude it) or
// "free" (the statement and docs are silent; only totality is checked).
type C15Inject struct {
	Field string `json:"field"` // times | weekdays | days_of_month | months | years | location
	Token string `json:"token,omitempty"`
	Start string `json:"start,omitempty"` // times only
	End   string `json:"end,omitempty"`   // times only
	// Raw: Token is emitted as is (unquoted YAML), e.g. "~" for a null element.
	Raw    bool   `json:"raw,omitempty"`
	Expect string `json:"expect"`
	Why    string `json:"why"`
}

type c15Styler struct {
	s []int
	i int
}

func (st *c15Styler) next(n int) int {
	if len(st.s) == 0 || n <= 1 {
		return 0
	}
	v := st.s[st.i%len(st.s)]
	st.i++
	if v < 0 {
		v = -v
	}
	return v % n
}

var (
	c15PlainWord = regexp.MustCompile(`^[A-Za-z]+$`)
	c15PlainInt  = regexp.MustCompile(`^-?[1-9][0-9]*$`)
	c15PlainTime = regexp.MustCompile(`^[0-9][0-9]:[0-9][0-9]$`)
)

// quote renders a scalar: single-quoted, double-quoted, or plain where plain
// is unambiguous YAML for that token (names, integers, HH:MM as in the docs'
// own example). Tokens never contain quotes or backslashes.
func (st *c15Styler) quote(tok string) string {
	if strings.HasPrefix(tok, "\x00") { // raw YAML
		return tok[1:]
	}
	plainOK := c15PlainWord.MatchString(tok) || c15PlainInt.MatchString(tok) || c15PlainTime.MatchString(tok)
	switch st.next(3) {
	case 1:
		return `"` + tok + `"`
	case 2:
		if plainOK {
			return tok
		}
	}
	return "'" + tok + "'"
}

func (st *c15Styler) caseOf(name string) string {
	switch st.next(4) {
	case 1:
		return strings.ToUpper(name[:1]) + name[1:]
	case 2:
		return strings.ToUpper(name)
	case 3: // mixed
		b := []byte(name)
		for i := range b {
			if i%2 == 1 {
				b[i] = byte(strings.ToUpper(string(b[i]))[0])
			}
		}
		return string(b)
	}
	return name
}

func c15HHMM(m int) string { return fmt.Sprintf("%02d:%02d", m/60, m%60) }

func (st *c15Styler) rangeTok(r ref.C15Range, member func(int) string) string {
	if r.B == r.E && st.next(3) != 0 {
		return member(r.B)
	}
	return member(r.B) + ":" + member(r.E)
}

func (st *c15Styler) list(key string, toks []string) string {
	var sb strings.Builder
	if len(toks) == 0 {
		return key + ": []\n"
	}
	flow := st.next(2) == 0
	for _, tk := range toks {
		if tk == "\x00" { // a dangling "-" exists in block style only
			flow = false
		}
	}
	if flow {
		sb.WriteString(key + ": [")
		for i, tk := range toks {
			if i > 0 {
				sb.WriteString(", ")
			}
			sb.WriteString(st.quote(tk))
		}
		sb.WriteString("]\n")
	} else {
		sb.WriteString(key + ":\n")
		for _, tk := range toks {
			sb.WriteString(strings.TrimRight("- "+st.quote(tk), " ") + "\n")
		}
	}
	return sb.String()
}

func c15InsertAt(toks []string, tok string, pos int) []string {
	pos %= len(toks) + 1
	out := append([]string{}, toks[:pos]...)
	out = append(out, tok)
	return append(out, toks[pos:]...)
}

func c15HasEmpty(s ref.C15Spec, f string) bool {
	for _, e := range s.EmptyFields {
		if e == f {
			return true
		}
	}
	return false
}

// C15Render renders the spec as the YAML text of one time_interval_spec
// mapping (no leading "- ", no indentation). style is a stream of rendering
// choices (quoting, case, names vs numbers, flow vs block, field order).
func C15Render(s ref.C15Spec, style []int, inj *C15Inject) string {
	st := &c15Styler{s: style}
	var fields []string

	// times
	type tr struct {
		start, end string
		raw        bool
	}
	var trs []tr
	for _, r := range s.Times {
		trs = append(trs, tr{start: c15HHMM(r.B), end: c15HHMM(r.E)})
	}
	if inj != nil && inj.Field == "times" {
		pos := st.next(len(trs) + 1)
		trs = append(trs[:pos:pos], append([]tr{{start: inj.Start, end: inj.End, raw: inj.Raw}}, trs[pos:]...)...)
	}
	if len(trs) > 0 {
		var sb strings.Builder
		flow := st.next(2) == 0
		if inj != nil && inj.Field == "times" && inj.Raw && inj.Token == "" {
			flow = false // a dangling "-" exists in block style only
		}
		if flow {
			sb.WriteString("times: [")
		} else {
			sb.WriteString("times:\n")
		}
		for i, r := range trs {
			if flow && i > 0 {
				sb.WriteString(", ")
			}
			if r.raw { // the whole element is raw YAML (inj.Token)
				if flow {
					sb.WriteString(inj.Token)
				} else {
					sb.WriteString(strings.TrimRight("- "+inj.Token, " ") + "\n")
				}
				continue
			}
			a, b := "start_time: "+st.quote(r.start), "end_time: "+st.quote(r.end)
			if st.next(4) == 0 {
				a, b = b, a
			}
			if flow {
				sb.WriteString("{" + a + ", " + b + "}")
			} else {
				sb.WriteString("- " + a + "\n  " + b + "\n")
			}
		}
		if flow {
			sb.WriteString("]\n")
		}
		fields = append(fields, sb.String())
	} else if c15HasEmpty(s, "times") {
		fields = append(fields, "times: []\n")
	}

	addList := func(key string, rs []ref.C15Range, member func(int) string) {
		var toks []string
		for _, r := range rs {
			toks = append(toks, st.rangeTok(r, member))
		}
		if inj != nil && inj.Field == key {
			tok := inj.Token
			if inj.Raw {
				tok = "\x00" + tok
			}
			toks = c15InsertAt(toks, tok, st.next(len(toks)+1))
		}
		if len(toks) > 0 || c15HasEmpty(s, key) {
			fields = append(fields, st.list(key, toks))
		}
	}
	addList("weekdays", s.Weekdays, func(v int) string { return st.caseOf(c15WeekdayNames[v]) })
	addList("days_of_month", s.Days, func(v int) string { return fmt.Sprint(v) })
	addList("months", s.Months, func(v int) string {
		if st.next(2) == 0 {
			return st.caseOf(c15MonthNames[v])
		}
		return fmt.Sprint(v)
	})
	addList("years", s.Years, func(v int) string { return fmt.Sprint(v) })

	if inj != nil && inj.Field == "location" {
		fields = append(fields, "location: '"+inj.Token+"'\n")
	} else if s.Location != "" {
		loc := s.Location
		q := "'" + loc + "'"
		switch st.next(3) {
		case 1:
			q = `"` + loc + `"`
		case 2:
			q = loc // Area/City is a plain YAML scalar
		}
		fields = append(fields, "location: "+q+"\n")
	}

	// field order: rotate and optionally reverse
	if n := len(fields); n > 1 {
		k := st.next(n)
		fields = append(fields[k:], fields[:k]...)
		if st.next(2) == 1 {
			for i, j := 0, n-1; i < j; i, j = i+1, j-1 {
				fields[i], fields[j] = fields[j], fields[i]
			}
		}
	}
	if len(fields) == 0 {
		return "{}\n"
	}
	return strings.Join(fields, "")
}

// C15Indent indents a rendered mapping as a block-sequence element.
func C15Indent(yamlText, indent string) string {
	lines := strings.Split(strings.TrimRight(yamlText, "\n"), "\n")
	var sb strings.Builder
	for i, l := range lines {
		if i == 0 {
			sb.WriteString(indent + "- " + l + "\n")
		} else {
			sb.WriteString(indent + "  " + l + "\n")
		}
	}
	return sb.String()
}

// C15DrawStyle draws a stream of rendering choices.
func C15DrawStyle(t *rapid.T) []int {
	return rapid.SliceOfN(rapid.IntRange(0, 11), 1, 24).Draw(t, "style")
}

// C15DrawInject draws one element probing parser acceptance.
func C15DrawInject(t *rapid.T) C15Inject {
	hhmm := func(label string) string { return c15HHMM(rapid.IntRange(0, 1440).Draw(t, label)) }
	switch rapid.IntRange(0, 5).Draw(t, "injField") {
	case 0:
		switch rapid.IntRange(0, 3).Draw(t, "injTimes") {
		case 0: // start >= end
			a := rapid.IntRange(0, 1440).Draw(t, "injS")
			b := rapid.IntRange(0, a).Draw(t, "injE")
			return C15Inject{Field: "times", Start: c15HHMM(a), End: c15HHMM(b), Expect: "reject", Why: "start >= end"}
		case 1: // malformed start
			bad := rapid.SampledFrom([]string{"25:00", "12:60", "24:01", "24:30", "1200", "ab:cd", "-1:00", "12:00:00", "12", "99:99", "12:5", "noon"}).Draw(t, "injBadT")
			return C15Inject{Field: "times", Start: bad, End: "24:00", Expect: "reject", Why: "start_time is not HH:MM within 00:00..24:00"}
		case 2: // malformed end
			bad := rapid.SampledFrom([]string{"25:00", "12:60", "24:01", "2400", "ab:cd", "12:00:00", "99:99", "23:5", "midnight"}).Draw(t, "injBadT")
			return C15Inject{Field: "times", Start: "00:00", End: bad, Expect: "reject", Why: "end_time is not HH:MM within 00:00..24:00"}
		default: // H:MM — not the documented HH:MM, but interpretable
			return C15Inject{Field: "times", Start: "9:00", End: hhmm("injE2"), Expect: "free", Why: "H:MM instead of HH:MM"}
		}
	case 1:
		tok := rapid.SampledFrom([]string{"funday", "mon", "monday:funday", "funday:friday", "monday:tuesday:friday", "monday-friday", "", "monday:", ":friday"}).Draw(t, "injWd")
		exp := "reject"
		if rapid.IntRange(0, 3).Draw(t, "injWdFree") == 0 {
			tok = rapid.SampledFrom([]string{"friday:monday", "1", "1:5", "saturday:sunday"}).Draw(t, "injWdF")
			exp = "free"
		}
		return C15Inject{Field: "weekdays", Token: tok, Expect: exp, Why: "weekday element"}
	case 2:
		if rapid.IntRange(0, 3).Draw(t, "injDayFree") == 0 {
			tok := rapid.SampledFrom([]string{"32", "-32", "5:3", "-1:-5", "29:-1", "28:-1", "31:-31", "1:32", "+5", "05"}).Draw(t, "injDayF")
			return C15Inject{Field: "days_of_month", Token: tok, Expect: "free", Why: "day element the statement is silent about"}
		}
		switch rapid.IntRange(0, 2).Draw(t, "injDay") {
		case 0:
			tok := rapid.SampledFrom([]string{"0", "0:5", "-5:0", "0:0", "0:-1"}).Draw(t, "injDay0")
			return C15Inject{Field: "days_of_month", Token: tok, Expect: "reject", Why: "day 0 (days begin at 1)"}
		case 1:
			b := rapid.IntRange(-31, -1).Draw(t, "injNegB")
			e := rapid.IntRange(1, 31).Draw(t, "injPosE")
			return C15Inject{Field: "days_of_month", Token: fmt.Sprintf("%d:%d", b, e), Expect: "reject", Why: "negative begin with positive end"}
		default:
			tok := rapid.SampledFrom([]string{"x", "1:2:3", "1.5", "first", "1:", ":5", "", "1-5"}).Draw(t, "injDayBad")
			return C15Inject{Field: "days_of_month", Token: tok, Expect: "reject", Why: "not a day or day range"}
		}
	case 3:
		if rapid.IntRange(0, 3).Draw(t, "injMoFree") == 0 {
			tok := rapid.SampledFrom([]string{"13", "0", "0:5", "december:january", "5:3", "jan", "-1"}).Draw(t, "injMoF")
			return C15Inject{Field: "months", Token: tok, Expect: "free", Why: "month element the statement is silent about"}
		}
		tok := rapid.SampledFrom([]string{"smarch", "1:2:3", "january:smarch", "", "may:", ":may", "1.5", "january-march"}).Draw(t, "injMo")
		return C15Inject{Field: "months", Token: tok, Expect: "reject", Why: "not a month or month range"}
	case 4:
		if rapid.IntRange(0, 3).Draw(t, "injYFree") == 0 {
			tok := rapid.SampledFrom([]string{"2022:2020", "-5", "0", "99999"}).Draw(t, "injYF")
			return C15Inject{Field: "years", Token: tok, Expect: "free", Why: "year element the statement is silent about"}
		}
		tok := rapid.SampledFrom([]string{"twenty", "2020:2021:2022", "2020:", ":2020", "", "20x0", "2020-2022", "2020.5"}).Draw(t, "injY")
		return C15Inject{Field: "years", Token: tok, Expect: "reject", Why: "not a year or year range"}
	default:
		tok := rapid.SampledFrom([]string{"Mars/Phobos", "Europe/Atlantis", "Not A Zone", "UTC+25", "America/New_York/Extra", "europe berlin"}).Draw(t, "injLoc")
		return C15Inject{Field: "location", Token: tok, Expect: "reject", Why: "not a location of the IANA database"}
	}
}

// C15DrawNullInject draws a YAML null as an element of one of the list fields
// ("~", "null", or a dangling "-" in block style).
func C15DrawNullInject(t *rapid.T) C15Inject {
	f := rapid.SampledFrom([]string{"times", "times", "weekdays", "days_of_month", "days_of_month", "months", "years"}).Draw(t, "nullField")
	tok := rapid.SampledFrom([]string{"~", "null", ""}).Draw(t, "nullTok")
	return C15Inject{Field: f, Token: tok, Raw: true, Expect: "null", Why: "null list element"}
}

// ---------------------------------------------------------------- instants

type c15TransKey struct {
	zone string
	year int
}

var (
	c15TransMu    sync.Mutex
	c15TransCache = map[c15TransKey][]int64{}
)

// C15Transitions returns the instants (unix seconds: first second with the new
// UTC offset) at which loc changes its offset during the given UTC year.
func C15Transitions(loc *time.Location, year int) []int64 {
	key := c15TransKey{loc.String(), year}
	c15TransMu.Lock()
	defer c15TransMu.Unlock()
	if v, ok := c15TransCache[key]; ok {
		return v
	}
	off := func(u int64) int {
		_, o := time.Unix(u, 0).In(loc).Zone()
		return o
	}
	out := []int64{}
	start := time.Date(year, 1, 1, 0, 0, 0, 0, time.UTC).Unix()
	end := time.Date(year+1, 1, 1, 0, 0, 0, 0, time.UTC).Unix()
	const step = 86400
	for a := start; a < end; a += step {
		b := min(a+step, end)
		if off(a) == off(b) {
			continue
		}
		lo, hi := a, b // off(lo) != off(hi)
		oa := off(lo)
		for hi-lo > 1 {
			mid := lo + (hi-lo)/2
			if off(mid) == oa {
				lo = mid
			} else {
				hi = mid
			}
		}
		out = append(out, hi)
	}
	c15TransCache[key] = out
	return out
}

func c15Clip(u int64) int64 {
	if u < 0 {
		return 0
	}
	if u > c15MaxMinute*60 {
		return c15MaxMinute * 60
	}
	return u - u%60
}

// c15Spread draws an instant of 1970..2100 on the minute grid. Year, day of
// the year and minute are separate draws so that rapid's preference for small
// numbers does not concentrate the instants at the epoch.
func c15Spread(t *rapid.T) int64 {
	y := rapid.IntRange(C15MinYear, C15MaxYear).Draw(t, "uY")
	doy := rapid.IntRange(0, 364).Draw(t, "uDoy")
	mi := rapid.IntRange(0, 1439).Draw(t, "uMin")
	return c15Clip(time.Date(y, 1, 1+doy, 0, mi, 0, 0, time.UTC).Unix())
}

func c15Around(t *rapid.T, label string, r ref.C15Range, exclusiveEnd bool) int {
	e := r.E
	if exclusiveEnd {
		e = r.E - 1 // last member
	}
	c := []int{r.B - 1, r.B, r.B + 1, e - 1, e, e + 1}
	k := rapid.IntRange(0, len(c)).Draw(t, label+"Edge")
	if k == len(c) {
		return rapid.IntRange(r.B, e).Draw(t, label+"In")
	}
	return c[k]
}

func c15Inside(t *rapid.T, label string, rs []ref.C15Range, lo, hi int, exclusiveEnd bool) int {
	if len(rs) == 0 {
		return rapid.IntRange(lo, hi).Draw(t, label+"Any")
	}
	r := rs[rapid.IntRange(0, len(rs)-1).Draw(t, label+"R")]
	e := r.E
	if exclusiveEnd {
		e--
	}
	return rapid.IntRange(r.B, max(r.B, e)).Draw(t, label+"In")
}

// c15Witness draws a civil date-time that satisfies the spec where that is
// possible (best effort), in the spec's zone.
func c15Witness(t *rapid.T, s ref.C15Spec) (y, m, d, minute int) {
	y = c15Inside(t, "wY", s.Years, C15MinYear, C15MaxYear, false)
	m = c15Inside(t, "wM", s.Months, 1, 12, false)
	m = min(12, max(1, m))
	dim := ref.C15DaysIn(y, m)
	var cands []int
	for day := 1; day <= dim; day++ {
		okD := len(s.Days) == 0
		for _, r := range s.Days {
			lo, hi := ref.C15DayRange(r, dim)
			if day >= lo && day <= hi {
				okD = true
			}
		}
		okW := len(s.Weekdays) == 0
		wd := ref.C15Weekday(y, m, day)
		for _, r := range s.Weekdays {
			if wd >= r.B && wd <= r.E {
				okW = true
			}
		}
		if okD && okW {
			cands = append(cands, day)
		}
	}
	if len(cands) > 0 {
		d = cands[rapid.IntRange(0, len(cands)-1).Draw(t, "wD")]
	} else {
		d = rapid.IntRange(1, dim).Draw(t, "wDAny")
	}
	minute = c15Inside(t, "wMin", s.Times, 0, 1439, true)
	return y, m, d, minute
}

// C15DrawInstants draws n instants (unix seconds on the minute grid, within
// 1970..2100): uniform ones, witnesses of the spec, witnesses with one field
// moved to a range edge ±1, month ends / 29 Feb / year ends, and instants
// around the zone's offset transitions.
func C15DrawInstants(t *rapid.T, s ref.C15Spec, n int) []int64 {
	loc, err := ref.C15Loc(s)
	if err != nil {
		loc = time.UTC
	}
	civil := func(y, m, d, minute int) int64 {
		return c15Clip(time.Date(y, time.Month(m), d, 0, minute, 0, 0, loc).Unix())
	}
	var out []int64
	for len(out) < n {
		switch rapid.IntRange(0, 9).Draw(t, "instKind") {
		case 0, 1: // spread over 1970..2100 (year, day of year and minute drawn separately)
			out = append(out, c15Spread(t))
		case 2, 3: // witness
			y, m, d, mi := c15Witness(t, s)
			out = append(out, civil(y, m, d, mi))
		case 4, 5, 6: // witness with one field at an edge
			y, m, d, mi := c15Witness(t, s)
			switch rapid.IntRange(0, 5).Draw(t, "edgeField") {
			case 0:
				if len(s.Times) > 0 {
					mi = c15Around(t, "eMin", s.Times[rapid.IntRange(0, len(s.Times)-1).Draw(t, "eMinR")], true)
				} else {
					mi = rapid.SampledFrom([]int{-1, 0, 1, 1438, 1439, 1440}).Draw(t, "eMinAny")
				}
			case 1:
				dim := ref.C15DaysIn(y, m)
				if len(s.Days) > 0 {
					lo, hi := ref.C15DayRange(s.Days[rapid.IntRange(0, len(s.Days)-1).Draw(t, "eDayR")], dim)
					d = rapid.SampledFrom([]int{lo - 1, lo, hi, hi + 1}).Draw(t, "eDay")
				} else {
					d = rapid.SampledFrom([]int{0, 1, dim, dim + 1}).Draw(t, "eDayAny")
				}
			case 2:
				if len(s.Months) > 0 {
					m = c15Around(t, "eMo", s.Months[rapid.IntRange(0, len(s.Months)-1).Draw(t, "eMoR")], false)
					d = min(d, 28)
				}
			case 3:
				if len(s.Years) > 0 {
					y = c15Around(t, "eY", s.Years[rapid.IntRange(0, len(s.Years)-1).Draw(t, "eYR")], false)
					if m == 2 {
						d = min(d, 28)
					}
				}
			case 4: // neighbouring weekday
				d += rapid.SampledFrom([]int{-1, 1}).Draw(t, "eWd")
			default: // one minute off
				mi += rapid.SampledFrom([]int{-1, 1}).Draw(t, "eOne")
			}
			out = append(out, civil(y, m, d, mi))
		case 7: // calendar specials with the spec's minutes
			y := c15Inside(t, "sY", s.Years, C15MinYear, C15MaxYear, false)
			if rapid.Bool().Draw(t, "sLeapish") {
				y = rapid.SampledFrom([]int{1972, 1999, 2000, 2001, 2023, 2024, 2096, 2100}).Draw(t, "sLeapY")
			}
			m := rapid.IntRange(1, 12).Draw(t, "sM")
			if rapid.Bool().Draw(t, "sFeb") {
				m = rapid.SampledFrom([]int{2, 3}).Draw(t, "sFebM")
			}
			if sk := c15SkippedMidnightMonths(loc); len(sk) > 0 && rapid.Bool().Draw(t, "sSkipped") {
				ym := sk[rapid.IntRange(0, len(sk)-1).Draw(t, "sSkippedI")]
				y, m = ym.Y, ym.M
			}
			dim := ref.C15DaysIn(y, m)
			d := rapid.SampledFrom([]int{1, 2, 27, 28, 29, 30, 31, dim - 2, dim - 1, dim, dim + 1}).Draw(t, "sD")
			mi := c15Inside(t, "sMin", s.Times, 0, 1439, true)
			if rapid.Bool().Draw(t, "sMidnight") {
				mi = rapid.SampledFrom([]int{0, 1, 1438, 1439}).Draw(t, "sMinEdge")
			}
			out = append(out, civil(y, m, d, mi))
		default: // around an offset transition of the zone
			y := rapid.IntRange(C15MinYear, C15MaxYear).Draw(t, "trY")
			if loc.String() == "Pacific/Apia" && rapid.Bool().Draw(t, "trApia") {
				y = 2011
			}
			trs := C15Transitions(loc, y)
			if len(trs) == 0 {
				out = append(out, c15Spread(t))
				continue
			}
			tr := trs[rapid.IntRange(0, len(trs)-1).Draw(t, "trI")]
			delta := rapid.SampledFrom([]int64{-7200, -3660, -3600, -1860, -1800, -120, -60, 0, 60, 120, 1800, 3540, 3600, 7200, 86400, -86400}).Draw(t, "trD")
			out = append(out, c15Clip(tr+delta))
		}
	}
	return out
}
