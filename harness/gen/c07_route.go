package gen

import (
	"sort"
	"strings"
	"unicode"

	"pgregory.net/rapid"

	"verif/harness/ref"
)

// C07TreeOpts bounds the routing-tree generator. Zero values select defaults.
type C07TreeOpts struct {
	MaxDepth  int // edges below the root, default 4
	MaxFanout int // children per node, default 4
	MaxNodes  int // total node budget (root included), default 24
	// Palettes of <duration> texts; defaults cover 0 … 1y and compound forms.
	GroupWaits      []string
	GroupIntervals  []string
	RepeatIntervals []string
	Receivers       []string // default r0…r4
	Intervals       []string // time interval names, default ti0…ti2
	GroupByNames    []string // default a b c d
	NoRouteLabels   bool
	// GuardedRootOneIn > 0: one tree in that many carries matchers on the root.
	GuardedRootOneIn int
}

var (
	C07GroupWaits      = []string{"0s", "0", "1s", "10s", "30s", "45s", "1m", "90s", "5m", "1h", "1h30m", "1500ms", "1d", "1w"}
	C07GroupIntervals  = []string{"1s", "30s", "1m", "2m30s", "5m", "10m", "1h", "4h", "1d", "1w"}
	C07RepeatIntervals = []string{"1s", "1m", "5m", "1h", "4h", "3h59m", "12h", "1d", "1w", "1y"}
	C07Receivers       = []string{"r0", "r1", "r2", "r3", "r4"}
	C07Intervals       = []string{"ti0", "ti1", "ti2"}
	C07GroupByNames    = []string{"a", "b", "c", "d"}
)

func (o C07TreeOpts) withDefaults() C07TreeOpts {
	if o.MaxDepth == 0 {
		o.MaxDepth = 4
	}
	if o.MaxFanout == 0 {
		o.MaxFanout = 4
	}
	if o.MaxNodes == 0 {
		o.MaxNodes = 24
	}
	if o.GroupWaits == nil {
		o.GroupWaits = C07GroupWaits
	}
	if o.GroupIntervals == nil {
		o.GroupIntervals = C07GroupIntervals
	}
	if o.RepeatIntervals == nil {
		o.RepeatIntervals = C07RepeatIntervals
	}
	if o.Receivers == nil {
		o.Receivers = C07Receivers
	}
	if o.Intervals == nil {
		o.Intervals = C07Intervals
	}
	if o.GroupByNames == nil {
		o.GroupByNames = C07GroupByNames
	}
	return o
}

// C07Tree generates a routing tree the way users write it: the root has a
// receiver and no matchers / continue / time intervals; every other setting of
// every node is independently present or absent.
func C07Tree(o C07TreeOpts) *rapid.Generator[*ref.RouteNode] {
	o = o.withDefaults()
	return rapid.Custom(func(t *rapid.T) *ref.RouteNode {
		budget := o.MaxNodes - 1
		root := &ref.RouteNode{}
		rcv := rapid.SampledFrom(o.Receivers).Draw(t, "rootReceiver")
		root.Receiver = &rcv
		c07Options(t, o, root, 2)
		if o.GuardedRootOneIn > 0 && c07Chance(t, o.GuardedRootOneIn, "guardedRoot") {
			// a root route that carries matchers of its own (any of the three
			// spellings): the loader is expected to refuse it; if it does not,
			// the root must still match everything.
			switch rapid.IntRange(0, 3).Draw(t, "rootGuardStyle") {
			case 0:
				root.Matchers = append(root.Matchers, UniMatcher().Draw(t, "m"))
			case 1:
				root.LegacyMatch = c07LegacyMatch(t)
			case 2:
				root.LegacyMatchRE = c07LegacyMatchRE(t)
			default:
				root.LegacyMatchRE = c07LegacyMatchRE(t)
				if rapid.Bool().Draw(t, "alsoMatch") {
					root.LegacyMatch = c07LegacyMatch(t)
				}
			}
		}
		c07Children(t, o, root, 0, &budget)
		return root
	})
}

func c07Chance(t *rapid.T, oneIn int, label string) bool {
	return rapid.IntRange(0, oneIn-1).Draw(t, label) == 0
}

// c07Options draws the inheritable settings; each is present with chance 1/oneIn.
func c07Options(t *rapid.T, o C07TreeOpts, n *ref.RouteNode, oneIn int) {
	if c07Chance(t, oneIn, "hasGroupBy") {
		var gb []string
		switch rapid.IntRange(0, 3).Draw(t, "groupByKind") {
		case 0:
			gb = []string{} // explicit empty list
		case 1:
			gb = []string{"..."}
		default:
			gb = []string{}
			for _, name := range o.GroupByNames {
				if rapid.Bool().Draw(t, "gb_"+name) {
					gb = append(gb, name)
				}
			}
			if len(gb) == 0 {
				gb = []string{rapid.SampledFrom(o.GroupByNames).Draw(t, "gbOne")}
			}
			// the written order is free
			if len(gb) > 1 && rapid.Bool().Draw(t, "gbReverse") {
				for i, j := 0, len(gb)-1; i < j; i, j = i+1, j-1 {
					gb[i], gb[j] = gb[j], gb[i]
				}
			}
		}
		n.GroupBy = &gb
	}
	if c07Chance(t, oneIn+1, "hasGroupWait") {
		s := rapid.SampledFrom(o.GroupWaits).Draw(t, "groupWait")
		n.GroupWait = &s
	}
	if c07Chance(t, oneIn+1, "hasGroupInterval") {
		s := rapid.SampledFrom(o.GroupIntervals).Draw(t, "groupInterval")
		n.GroupInterval = &s
	}
	if c07Chance(t, oneIn+1, "hasRepeatInterval") {
		s := rapid.SampledFrom(o.RepeatIntervals).Draw(t, "repeatInterval")
		n.RepeatInterval = &s
	}
	if !o.NoRouteLabels && c07Chance(t, oneIn+1, "hasLabels") {
		n.Labels = map[string]string{}
		for _, k := range []string{"team", "tier"} {
			if rapid.Bool().Draw(t, "rl_"+k) {
				n.Labels[k] = rapid.SampledFrom([]string{"p", "q", "plain text", ""}).Draw(t, "rlv")
			}
		}
		if len(n.Labels) == 0 {
			n.Labels = nil
		}
	}
}

func c07Children(t *rapid.T, o C07TreeOpts, n *ref.RouteNode, depth int, budget *int) {
	if depth >= o.MaxDepth || *budget <= 0 {
		return
	}
	lo := 0
	if depth == 0 {
		lo = 1
	}
	k := rapid.IntRange(lo, o.MaxFanout).Draw(t, "fanout")
	if k > *budget {
		k = *budget
	}
	*budget -= k
	for i := 0; i < k; i++ {
		n.Children = append(n.Children, &ref.RouteNode{})
	}
	for _, c := range n.Children {
		c07Child(t, o, c)
	}
	// descend after the whole level exists so that the budget is spread over
	// siblings before it is spent on depth
	for _, c := range n.Children {
		if rapid.IntRange(0, 2).Draw(t, "deeper") > 0 {
			c07Children(t, o, c, depth+1, budget)
		}
	}
}

func c07Child(t *rapid.T, o C07TreeOpts, c *ref.RouteNode) {
	// matchers: mostly one or two, sometimes none (a catch-all child)
	style := rapid.IntRange(0, 9).Draw(t, "matcherStyle")
	switch {
	case style == 0:
		// no matchers at all
	case style <= 5:
		nm := rapid.IntRange(1, 2).Draw(t, "nMatchers")
		for i := 0; i < nm; i++ {
			c.Matchers = append(c.Matchers, UniMatcher().Draw(t, "m"))
		}
	case style == 6:
		c.LegacyMatch = c07LegacyMatch(t)
	case style == 7:
		c.LegacyMatchRE = c07LegacyMatchRE(t)
	case style == 8:
		c.LegacyMatch = c07LegacyMatch(t)
		// 1-3 new-style matchers next to the legacy ones (three make a decoded slice with spare capacity)
		for i, n := 0, rapid.IntRange(1, 3).Draw(t, "nMixed"); i < n; i++ {
			c.Matchers = append(c.Matchers, UniMatcher().Draw(t, "m"))
		}
	default:
		c.LegacyMatchRE = c07LegacyMatchRE(t)
		if rapid.Bool().Draw(t, "alsoMatch") {
			c.LegacyMatch = c07LegacyMatch(t)
		}
		if rapid.Bool().Draw(t, "alsoMatchers") {
			for i, n := 0, rapid.IntRange(1, 3).Draw(t, "nMixed"); i < n; i++ {
				c.Matchers = append(c.Matchers, UniMatcher().Draw(t, "m"))
			}
		}
	}
	c.Continue = c07Chance(t, 3, "continue")
	if c07Chance(t, 2, "hasReceiver") {
		r := rapid.SampledFrom(o.Receivers).Draw(t, "receiver")
		c.Receiver = &r
	}
	c07Options(t, o, c, 3)
	if c07Chance(t, 5, "hasMute") {
		c.Mute = c07Subset(t, o.Intervals, "mute")
	}
	if c07Chance(t, 5, "hasActive") {
		c.Active = c07Subset(t, o.Intervals, "active")
	}
}

func c07Subset(t *rapid.T, from []string, label string) []string {
	var out []string
	for _, s := range from {
		if rapid.Bool().Draw(t, label+"_"+s) {
			out = append(out, s)
		}
	}
	if len(out) == 0 {
		out = []string{rapid.SampledFrom(from).Draw(t, label+"One")}
	}
	return out
}

func c07LegacyMatch(t *rapid.T) map[string]string {
	m := map[string]string{}
	n := rapid.IntRange(1, 2).Draw(t, "nMatch")
	for i := 0; i < n; i++ {
		m[rapid.SampledFrom(UniNames).Draw(t, "matchName")] = rapid.SampledFrom(append([]string{""}, UniValues...)).Draw(t, "matchValue")
	}
	return m
}

func c07LegacyMatchRE(t *rapid.T) map[string]*ref.Re {
	m := map[string]*ref.Re{}
	n := rapid.IntRange(1, 2).Draw(t, "nMatchRE")
	if rapid.IntRange(0, 7).Draw(t, "yamlNullish") == 0 {
		// a regexp that YAML reads as null unless quoted ("null", "~"): the loader takes a different decoding path for it
		m[rapid.SampledFrom(UniNames).Draw(t, "matchREName")] = &ref.Re{Op: "lit", Lit: rapid.SampledFrom([]string{"null", "~"}).Draw(t, "nullish")}
		return m
	}
	for i := 0; i < n; i++ {
		m[rapid.SampledFrom(UniNames).Draw(t, "matchREName")] = drawReRoot(t, uniAlphabet, rapid.IntRange(0, 2).Draw(t, "depth"))
	}
	return m
}

// C07ReceiversUsed lists the receiver names a tree refers to (sorted).
func C07ReceiversUsed(root *ref.RouteNode) []string {
	seen := map[string]struct{}{}
	root.Walk(func(_ []int, n *ref.RouteNode) {
		if n.Receiver != nil {
			seen[*n.Receiver] = struct{}{}
		}
	})
	out := make([]string, 0, len(seen))
	for r := range seen {
		out = append(out, r)
	}
	sort.Strings(out)
	return out
}

// C07SampleRe draws a string that is likely (not certainly) in the language.
func C07SampleRe(t *rapid.T, r *ref.Re, alphabet []rune) string {
	switch r.Op {
	case "lit", "esc":
		return r.Lit
	case "perl":
		return string(rapid.SampledFrom(append([]rune{'7', '_', ' '}, alphabet...)).Draw(t, "perlR"))
	case "any":
		return string(rapid.SampledFrom(alphabet).Draw(t, "anyR"))
	case "class":
		if r.Neg {
			return string(rapid.SampledFrom(alphabet).Draw(t, "negR"))
		}
		rs := []rune(r.Lit)
		return string(rs[rapid.IntRange(0, len(rs)-1).Draw(t, "classI")])
	case "cat":
		var sb strings.Builder
		for _, s := range r.Subs {
			sb.WriteString(C07SampleRe(t, s, alphabet))
		}
		return sb.String()
	case "alt":
		return C07SampleRe(t, r.Subs[rapid.IntRange(0, len(r.Subs)-1).Draw(t, "altI")], alphabet)
	case "group":
		return C07SampleRe(t, r.Subs[0], alphabet)
	case "fold", "foldall":
		return FlipCase(t, C07SampleRe(t, r.Subs[0], alphabet))
	case "opt":
		if rapid.Bool().Draw(t, "opt") {
			return C07SampleRe(t, r.Subs[0], alphabet)
		}
		return ""
	case "star", "plus":
		n := rapid.IntRange(0, 2).Draw(t, "rep")
		if r.Op == "plus" {
			n++
		}
		var sb strings.Builder
		for i := 0; i < n; i++ {
			sb.WriteString(C07SampleRe(t, r.Subs[0], alphabet))
		}
		return sb.String()
	}
	return ""
}

// FlipCase changes the case of each letter of s with probability 1/2.
func FlipCase(t *rapid.T, s string) string {
	rs := []rune(s)
	for i, c := range rs {
		if unicode.IsLetter(c) && rapid.Bool().Draw(t, "flip") {
			if unicode.IsUpper(c) {
				rs[i] = unicode.ToLower(c)
			} else {
				rs[i] = unicode.ToUpper(c)
			}
		}
	}
	return string(rs)
}

// C07LabelSet draws a label set biased to reach into the tree: half of the
// time it picks a node and bends a random label set towards the matchers on
// the path to it (later matchers may undo earlier ones; this is a bias, not a
// guarantee). Sometimes a label outside the matcher universe is added so that
// "group by all" differs from grouping by the universe.
func C07LabelSet(root *ref.RouteNode) *rapid.Generator[map[string]string] {
	type entry struct {
		path []int
	}
	var nodes []entry
	root.Walk(func(p []int, _ *ref.RouteNode) { nodes = append(nodes, entry{p}) })
	return rapid.Custom(func(t *rapid.T) map[string]string {
		ls := UniLabelSet().Draw(t, "base")
		if rapid.Bool().Draw(t, "aim") && len(nodes) > 1 {
			target := nodes[rapid.IntRange(1, len(nodes)-1).Draw(t, "target")]
			n := root
			for _, i := range target.path {
				n = n.Children[i]
				for _, m := range n.AllMatchers() {
					c07Bend(t, ls, m)
				}
			}
		}
		if c07Chance(t, 3, "extraLabel") {
			ls["d"] = rapid.SampledFrom(UniValues).Draw(t, "dv")
		}
		// a label value with a line feed in it (legal; "." does not match it, so =~".+" and =~".*" do not hold)
		if len(ls) > 0 && c07Chance(t, 6, "newlineValue") {
			names := make([]string, 0, len(ls))
			for n := range ls {
				names = append(names, n)
			}
			sort.Strings(names)
			n := names[rapid.IntRange(0, len(names)-1).Draw(t, "nlName")]
			ls[n] = ls[n] + "\n" + rapid.SampledFrom(UniValues).Draw(t, "nlTail")
		}
		if len(ls) == 0 {
			// an alert needs at least one label
			ls[rapid.SampledFrom(UniNames).Draw(t, "fillName")] = rapid.SampledFrom(UniValues).Draw(t, "fillValue")
		}
		return ls
	})
}

func c07Bend(t *rapid.T, ls map[string]string, m ref.Matcher) {
	set := func(v string) {
		if v == "" {
			delete(ls, m.Name)
		} else {
			ls[m.Name] = v
		}
	}
	switch m.Op {
	case "=":
		set(m.Value)
	case "!=":
		if ls[m.Name] == m.Value {
			set(rapid.SampledFrom(append([]string{""}, UniValues...)).Draw(t, "other"))
		}
	case "=~":
		if m.Re != nil {
			set(C07SampleRe(t, m.Re, uniAlphabet))
		}
	case "!~":
		if m.Re != nil && m.Re.Match(ls[m.Name]) {
			set(rapid.SampledFrom(append([]string{""}, UniValues...)).Draw(t, "otherRe"))
		}
	}
}
