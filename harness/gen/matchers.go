// Package gen holds the rapid generators shared by the checks.
package gen

import (
	"pgregory.net/rapid"
	"strings"

	"verif/harness/ref"
)

// Small label universe so that collisions (same group, same equal labels,
// same fingerprint, matcher hits) are frequent.
var (
	UniNames  = []string{"a", "b", "c"}
	UniValues = []string{"x", "y", "z"}
)

// Re generates a regex AST over a small alphabet; depth-bounded.
func Re(alphabet []rune, depth int) *rapid.Generator[*ref.Re] {
	return rapid.Custom(func(t *rapid.T) *ref.Re { return drawReRoot(t, alphabet, depth) })
}

// drawReRoot draws a whole pattern: drawRe, and one time in twelve the case-insensitive spellings people write,
// "(?i)…" in front of the whole pattern (only legal for the oracle as the root: the flag binds everything to its
// right) or "(?i:…)" around it; half of those over a plain literal, the shape an implementation might special-case.
func drawReRoot(t *rapid.T, alphabet []rune, depth int) *ref.Re {
	if rapid.IntRange(0, 11).Draw(t, "foldRoot") != 0 {
		return drawRe(t, alphabet, depth)
	}
	var sub *ref.Re
	if rapid.Bool().Draw(t, "foldLit") {
		n := rapid.IntRange(1, 3).Draw(t, "foldLitN")
		rs := make([]rune, n)
		for i := range rs {
			rs[i] = rapid.SampledFrom(alphabet).Draw(t, "foldLitR")
		}
		sub = &ref.Re{Op: "lit", Lit: string(rs)}
	} else {
		sub = drawRe(t, alphabet, depth)
	}
	if rapid.Bool().Draw(t, "foldAll") {
		return &ref.Re{Op: "foldall", Subs: []*ref.Re{sub}}
	}
	return &ref.Re{Op: "fold", Subs: []*ref.Re{sub}}
}

func drawRe(t *rapid.T, alphabet []rune, depth int) *ref.Re {
	// one case in eight: the catch-all shapes people actually write (and implementations like to special-case)
	if depth > 0 && rapid.IntRange(0, 7).Draw(t, "common") == 0 {
		anyRe := &ref.Re{Op: "any"}
		switch rapid.IntRange(0, 8).Draw(t, "commonShape") {
		case 5, 6, 7, 8:
			// anchors written out by the user, binding the whole expression or only one branch of an alternation:
			// ^x$, ^x|y$, ^x, y$, ^x|y
			lit := func(l string) *ref.Re {
				n := rapid.IntRange(1, 2).Draw(t, l+"N")
				rs := make([]rune, n)
				for i := range rs {
					rs[i] = rapid.SampledFrom(alphabet).Draw(t, l)
				}
				return &ref.Re{Op: "lit", Lit: string(rs)}
			}
			bol, eol := &ref.Re{Op: "bol"}, &ref.Re{Op: "eol"}
			switch rapid.IntRange(0, 4).Draw(t, "anchorShape") {
			case 0:
				return &ref.Re{Op: "cat", Subs: []*ref.Re{bol, lit("ax"), eol}}
			case 1:
				return &ref.Re{Op: "alt", Subs: []*ref.Re{{Op: "cat", Subs: []*ref.Re{bol, lit("ax")}}, {Op: "cat", Subs: []*ref.Re{lit("ay"), eol}}}}
			case 2:
				return &ref.Re{Op: "cat", Subs: []*ref.Re{bol, lit("ax")}}
			case 3:
				return &ref.Re{Op: "cat", Subs: []*ref.Re{lit("ay"), eol}}
			default:
				return &ref.Re{Op: "alt", Subs: []*ref.Re{{Op: "cat", Subs: []*ref.Re{bol, lit("ax")}}, lit("ay"), {Op: "cat", Subs: []*ref.Re{lit("az"), eol}}}}
			}
		case 0:
			return &ref.Re{Op: "star", Subs: []*ref.Re{anyRe}} // .*
		case 1:
			return &ref.Re{Op: "plus", Subs: []*ref.Re{anyRe}} // .+
		case 2:
			return &ref.Re{Op: "opt", Subs: []*ref.Re{anyRe}} // .?
		case 3:
			return &ref.Re{Op: "cat", Subs: []*ref.Re{{Op: "lit", Lit: string(rapid.SampledFrom(alphabet).Draw(t, "pre"))}, {Op: "star", Subs: []*ref.Re{anyRe}}}} // x.*
		default:
			return &ref.Re{Op: "cat", Subs: []*ref.Re{{Op: "star", Subs: []*ref.Re{anyRe}}, {Op: "lit", Lit: string(rapid.SampledFrom(alphabet).Draw(t, "post"))}}} // .*x
		}
	}
	leaf := func() *ref.Re {
		switch rapid.IntRange(0, 6).Draw(t, "leaf") {
		case 6:
			// syntax whose only special character is the backslash: a Perl class, or an escaped punctuation character
			var punct []rune
			for _, c := range alphabet {
				if strings.ContainsRune("-/ !\"',=~`", c) {
					punct = append(punct, c)
				}
			}
			if len(punct) > 0 && rapid.Bool().Draw(t, "escPunct") {
				return &ref.Re{Op: "esc", Lit: string(rapid.SampledFrom(punct).Draw(t, "escR"))}
			}
			return &ref.Re{Op: "perl", Lit: rapid.SampledFrom([]string{"w", "w", "d", "s", "W", "D", "S"}).Draw(t, "perl")}
		case 0:
			return &ref.Re{Op: "any"}
		case 1:
			n := rapid.IntRange(1, 3).Draw(t, "classN")
			rs := make([]rune, n)
			for i := range rs {
				rs[i] = rapid.SampledFrom(alphabet).Draw(t, "classR")
			}
			return &ref.Re{Op: "class", Lit: string(rs), Neg: rapid.Bool().Draw(t, "neg")}
		default:
			n := rapid.IntRange(0, 3).Draw(t, "litN")
			rs := make([]rune, n)
			for i := range rs {
				rs[i] = rapid.SampledFrom(alphabet).Draw(t, "litR")
			}
			return &ref.Re{Op: "lit", Lit: string(rs)}
		}
	}
	if depth <= 0 {
		return leaf()
	}
	switch rapid.IntRange(0, 8).Draw(t, "node") {
	case 0, 1:
		n := rapid.IntRange(2, 3).Draw(t, "catN")
		subs := make([]*ref.Re, n)
		for i := range subs {
			subs[i] = drawRe(t, alphabet, depth-1)
		}
		return &ref.Re{Op: "cat", Subs: subs}
	case 2, 3:
		n := rapid.IntRange(2, 3).Draw(t, "altN")
		subs := make([]*ref.Re, n)
		for i := range subs {
			subs[i] = drawRe(t, alphabet, depth-1)
		}
		return &ref.Re{Op: "alt", Subs: subs}
	case 4:
		return &ref.Re{Op: "star", Subs: []*ref.Re{drawRe(t, alphabet, depth-1)}}
	case 5:
		return &ref.Re{Op: "plus", Subs: []*ref.Re{drawRe(t, alphabet, depth-1)}}
	case 6:
		return &ref.Re{Op: "opt", Subs: []*ref.Re{drawRe(t, alphabet, depth-1)}}
	case 7:
		return &ref.Re{Op: "group", Subs: []*ref.Re{drawRe(t, alphabet, depth-1)}}
	default:
		return leaf()
	}
}

var uniAlphabet = []rune{'x', 'y', 'z'}

// HostileAlphabet is used where values may be arbitrary text.
var HostileAlphabet = []rune{'a', 'b', 'x', '"', '\\', '\n', ' ', '{', '}', ',', '=', '~', '!', '\'', '`', '.', '*', '世', 'é', '\t', '|', '(', ')', '[', ']', '$', '^', '+', '?', '-', 'n', '\uFFFD', '\r'} // U+FFFD: a valid code point that decoders also use as their error value

var Ops = []string{"=", "!=", "=~", "!~"}

// UniMatcher: matcher over the small universe with structural regex oracle.
func UniMatcher() *rapid.Generator[ref.Matcher] {
	return rapid.Custom(func(t *rapid.T) ref.Matcher {
		m := ref.Matcher{
			Op:   rapid.SampledFrom(Ops).Draw(t, "op"),
			Name: rapid.SampledFrom(UniNames).Draw(t, "name"),
		}
		if m.Op == "=" || m.Op == "!=" {
			m.Value = rapid.SampledFrom(append([]string{""}, UniValues...)).Draw(t, "value")
		} else {
			m.Re = drawReRoot(t, uniAlphabet, rapid.IntRange(0, 2).Draw(t, "depth"))
		}
		return m
	})
}

// UniLabelSet: label set over the universe; each name present with prob ~2/3.
func UniLabelSet() *rapid.Generator[map[string]string] {
	return rapid.Custom(func(t *rapid.T) map[string]string {
		ls := map[string]string{}
		for _, n := range UniNames {
			if v := rapid.SampledFrom(append([]string{""}, UniValues...)).Draw(t, "lv"); v != "" {
				ls[n] = v
			}
		}
		return ls
	})
}

// Text generates arbitrary valid UTF-8 strings biased to the hostile alphabet.
func Text(maxLen int) *rapid.Generator[string] {
	return rapid.OneOf(
		rapid.Custom(func(t *rapid.T) string {
			n := rapid.IntRange(0, maxLen).Draw(t, "n")
			rs := make([]rune, n)
			for i := range rs {
				rs[i] = rapid.SampledFrom(HostileAlphabet).Draw(t, "r")
			}
			return string(rs)
		}),
		rapid.StringN(0, maxLen, -1),
	)
}
