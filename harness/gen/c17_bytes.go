package gen

// C17: byte-level input generators for config.Load: mutation of corpus files,
// hostile YAML assembled around a small skeleton, and section/token-level
// recombination of valid configurations.

import (
	"regexp"
	"strings"

	"pgregory.net/rapid"
)

// C17HostileScalars are scalar (or inline collection) texts placed into value
// positions: nulls, wrong types, aliases/anchors, tags, huge and odd durations.
var C17HostileScalars = []string{
	"null", "~", "", "[]", "{}", "[null]", "[null, null]", "[~]", "[[]]", "[{}]", "{a: null}", "{null: null}", "{? [a] : b}",
	"\"\"", "''", "0", "-1", "1e400", ".inf", ".nan", "true", "no", "0x7fffffffffffffff", "99999999999999999999",
	"&a [*a]", "&b {k: *b}", "*undefined", "&x x", "*x", "<<", "{<<: *x}", "{<<: {a: b}}",
	"!!binary aGk=", "!!float 1", "!!int \"1\"", "!!str 5m", "!!null x", "!!map []", "!!seq {}", "!!set {a}", "!!timestamp 2001-01-01", "!custom x", "!!python/object:os.system x",
	"0s", "0m", "00s", "-5m", "5", "5m5", "1y1w1d1h1m1s1ms", "99999999999999999999y", "9223372036854775807ns", "292y", "293y", "106751d", "2562047h", "1.5h", "1h ", " 1h", "1H", "5µs", "١s",
	"...", "['...']", "['...', '...']", "['...', a]", "[a, a]", "[a, b, a]", "[\"\"]", "[1]", "[null, a]", "[a, null]", "[[a]]", "[{a: b}]", "[a b]", "[\"a\\nb\"]",
	"a=b", "[a=b]", "['a=']", "['=b']", "['{']", "['a=~\"(\"']", "['a!~\"[\"']", "['{a=\"b\",}']", "['a=\"b\",,']", "[\"a=\\\"\\xff\\\"\"]",
	"{a: \"\"}", "{a: ~}", "{\"\": x}", "{\"0a\": x}", "{a: \"(\"}", "{a: \"*\"}", "{a: [b]}", "{a: {b: c}}", "{a: 1}", "{1: a}", "{a: b, a: c}",
	"- a", "- ", "-", "|\n    text", ">\n    folded", "? a\n  : b", "\"unterminated", "'unterminated", "[unterminated", "{unterminated", "\t", "\"\\x00\"", "\"\\ud800\"", "\xff\xfe", "\xef\xbb\xbf",
}

// C17HostileLines are whole lines (without indentation) inserted into documents.
var C17HostileLines = []string{
	"routes: [null]", "routes: [null, null]", "routes: [~, {receiver: a}]", "routes: null", "routes: {}", "routes: [[]]", "routes:\n- null", "routes:\n-", "routes:\n- ~\n- receiver: a",
	"receivers: [null]", "receivers: null", "receivers: [{}]", "receivers: [{name: null}]", "receivers: [{name: a}, {name: a}]", "receivers: [{name: ''}]",
	"time_intervals: [null]", "time_intervals: [{name: a}, {name: a}]", "time_intervals: [{name: a, time_intervals: [null]}]", "mute_time_intervals: [null]", "mute_time_intervals: [{name: a, time_intervals: null}]",
	"inhibit_rules: [null]", "inhibit_rules: [{}]", "inhibit_rules: [{equal: [null]}]", "inhibit_rules: [{source_match_re: {a: null}}]", "inhibit_rules: [{target_matchers: [null]}]", "inhibit_rules: [{source_match: {a: null}}]",
	"webhook_configs: [null]", "email_configs: [null]", "slack_configs: [null]", "pagerduty_configs: [null]", "opsgenie_configs: [null]", "wechat_configs: [null]", "pushover_configs: [null]", "victorops_configs: [null]",
	"sns_configs: [null]", "telegram_configs: [null]", "discord_configs: [null]", "webex_configs: [null]", "msteams_configs: [null]", "msteamsv2_configs: [null]", "jira_configs: [null]", "rocketchat_configs: [null]",
	"mattermost_configs: [null]", "incidentio_configs: [null]", "slack_configs: [{}]", "opsgenie_configs: [{}]", "wechat_configs: [{}]", "rocketchat_configs: [{}]", "webhook_configs: [{}]", "email_configs: [{to: a}]",
	"slack_configs: [{fields: [null]}]", "slack_configs: [{actions: [null]}]", "opsgenie_configs: [{responders: [null]}]", "mattermost_configs: [{attachments: [null]}]", "mattermost_configs: [{fields: [null]}]",
	"pagerduty_configs: [{routing_key: x, images: [null], links: [null]}]", "rocketchat_configs: [{fields: [null], actions: [null]}]", "jira_configs: [{project: p, issue_type: t, labels: [null], fields: {a: null}}]",
	"matchers: [null]", "matchers: null", "matchers: ['']", "matchers: [a=b, null]", "match: {a: null}", "match: null", "match_re: {a: null}", "match_re: {a: ''}", "match_re: null", "match_re: {a: '('}",
	"group_by: [null]", "group_by: null", "group_by: []", "group_by: ['...']", "group_by: ['...', a]", "group_by: [a, a]", "group_by: ['']", "group_by: [a, null, a]", "group_by: ['...', '...']", "group_by: ...",
	"mute_time_intervals: [null]", "active_time_intervals: [null]", "mute_time_intervals: [ghost]", "active_time_intervals: [ghost]", "mute_time_intervals: ['']", "active_time_intervals: null",
	"group_wait: 0s", "group_interval: 0s", "repeat_interval: 0s", "group_interval: 0m", "repeat_interval: 0h", "group_interval: null", "repeat_interval: ~", "group_interval: -1s", "repeat_interval: 99999999999999999999y", "group_wait: 293y",
	"continue: true", "continue: null", "continue: yes", "receiver: null", "receiver: ''", "receiver: ghost", "receiver: [a]", "receiver: {a: b}", "labels: {a: null}", "labels: null", "labels: {'': x}", "labels: {a: {{ x }}}",
	"global: null", "global: {}", "global: []", "global: {http_config: null}", "global: {smtp_smarthost: ''}", "global: {smtp_smarthost: 'a'}", "global: {resolve_timeout: 0s}", "global: {slack_api_url: null}", "global: {smtp_tls_config: null}",
	"http_config: null", "http_config: {}", "http_config: {basic_auth: null}", "http_config: {authorization: null}", "http_config: {oauth2: null}", "http_config: {proxy_connect_header: {a: [null]}}", "http_config: {http_headers: {a: null}}", "http_config: {http_headers: null}", "http_config: {tls_config: null}", "http_config: {proxy_url: null}",
	"templates: [null]", "templates: null", "templates: {}", "tracing: null", "tracing: {}", "tracing: {endpoint: x, headers: null}", "tracing: {endpoint: x, tls_config: null}", "event_recorder: null", "event_recorder: {file_outputs: [null]}", "event_recorder: {webhook_outputs: [null]}", "event_recorder: {kafka_outputs: [null]}", "event_recorder: {stdout_outputs: [null]}", "event_recorder: {webhook_outputs: [{url: null}]}",
	"times: [null]", "times: [{start_time: '24:00', end_time: '00:00'}]", "times: [{start_time: null}]", "weekdays: [null]", "weekdays: ['monday:']", "weekdays: [':']", "days_of_month: [null]", "days_of_month: ['0']", "days_of_month: ['-32:31']", "days_of_month: ['1:-1:2']", "months: [null]", "months: ['0:13']", "years: [null]", "years: ['-1:1']", "location: null", "location: ''", "location: '../../etc/passwd'", "location: Local",
	"route: null", "route: []", "route: {}", "route: *r", "route: &r {receiver: a, routes: [*r]}", "<<: *r", "? [complex, key]\n: value", "---", "...", "--- !!map", "%YAML 1.1", "%TAG ! tag:x,2000:", "# comment", "- stray", "\tindented: tab",
}

var c17ScalarRe = regexp.MustCompile(`(?m)(:[ \t]+)([^\n#]+)$`)

func c17Lines(s string) []string { return strings.SplitAfter(s, "\n") }

func c17Indent(line string) string {
	i := 0
	for i < len(line) && (line[i] == ' ' || line[i] == '-') {
		i++
	}
	ind := line[:i]
	return strings.ReplaceAll(ind, "-", " ")
}

// c17LineFamilies groups the hostile lines by the top-level section in which
// their key is known, so that an inserted line gets past strict field checking.
var c17LineFamilies = func() map[string][]string {
	routeKeys := map[string]bool{"routes": true, "matchers": true, "match": true, "match_re": true, "group_by": true, "mute_time_intervals": true, "active_time_intervals": true,
		"group_wait": true, "group_interval": true, "repeat_interval": true, "continue": true, "receiver": true, "labels": true}
	tiKeys := map[string]bool{"times": true, "weekdays": true, "days_of_month": true, "months": true, "years": true, "location": true}
	out := map[string][]string{}
	for _, l := range C17HostileLines {
		key := l
		if i := strings.Index(l, ":"); i > 0 {
			key = l[:i]
		}
		switch {
		case routeKeys[key] && !strings.HasPrefix(l, "mute_time_intervals: [{") && !strings.HasPrefix(l, "mute_time_intervals: [null]"):
			out["route"] = append(out["route"], l)
		case strings.HasSuffix(key, "_configs") || key == "http_config":
			out["receivers"] = append(out["receivers"], l)
			if key == "http_config" {
				out["global"] = append(out["global"], l)
			}
		case tiKeys[key]:
			out["time_intervals"] = append(out["time_intervals"], l)
			out["mute_time_intervals"] = append(out["mute_time_intervals"], l)
		}
	}
	out["route"] = append(out["route"], "mute_time_intervals: [null]")
	return out
}()

// c17SectionOf returns the top-level key of the section line `at` belongs to.
func c17SectionOf(lines []string, at int) string {
	for i := at; i >= 0; i-- {
		if m := c17TopKeyRe.FindString(lines[i]); m != "" {
			return strings.TrimSuffix(m, ":")
		}
	}
	return ""
}

// C17Mutate applies n small mutations to a YAML text.
func C17Mutate(t *rapid.T, s string, n int, corpus []string) []byte {
	for i := 0; i < n; i++ {
		lines := c17Lines(s)
		if len(lines) == 0 {
			lines = []string{""}
		}
		at := rapid.IntRange(0, len(lines)-1).Draw(t, "line")
		switch rapid.IntRange(0, 11).Draw(t, "mutation") {
		case 3: // delete a line
			lines = append(lines[:at:at], lines[at+1:]...)
			s = strings.Join(lines, "")
		case 2: // duplicate a line (duplicate keys / list items)
			lines = append(lines[:at+1:at+1], append([]string{lines[at]}, lines[at+1:]...)...)
			s = strings.Join(lines, "")
		case 0: // replace the scalar of a `key: value` line
			loc := c17ScalarRe.FindStringSubmatchIndex(lines[at])
			h := rapid.SampledFrom(C17HostileScalars).Draw(t, "scalar")
			if loc != nil {
				lines[at] = lines[at][:loc[4]] + h + lines[at][loc[5]:]
			} else {
				lines[at] = strings.TrimRight(lines[at], "\n") + " " + h + "\n"
			}
			s = strings.Join(lines, "")
		case 1: // insert a hostile line as a sibling key of this line, chosen for the section it lands in
			fam := c17LineFamilies[c17SectionOf(lines, at)]
			if len(fam) == 0 || rapid.IntRange(0, 4).Draw(t, "anyLine") == 0 {
				fam = C17HostileLines
			}
			h := rapid.SampledFrom(fam).Draw(t, "hline")
			ind := c17Indent(lines[at])
			if rapid.IntRange(0, 3).Draw(t, "deeper") == 0 {
				ind += "  "
			}
			h = ind + strings.ReplaceAll(h, "\n", "\n"+ind) + "\n"
			lines = append(lines[:at+1:at+1], append([]string{h}, lines[at+1:]...)...)
			s = strings.Join(lines, "")
		case 4: // swap two lines
			o := rapid.IntRange(0, len(lines)-1).Draw(t, "other")
			lines[at], lines[o] = lines[o], lines[at]
			s = strings.Join(lines, "")
		case 5: // change indentation
			if rapid.Bool().Draw(t, "more") {
				lines[at] = "  " + lines[at]
			} else {
				lines[at] = strings.TrimPrefix(lines[at], "  ")
			}
			s = strings.Join(lines, "")
		case 10: // byte flip
			if len(s) > 0 {
				p := rapid.IntRange(0, len(s)-1).Draw(t, "pos")
				b := []byte(s)
				if rapid.IntRange(0, 3).Draw(t, "anyByte") == 0 {
					b[p] = rapid.Byte().Draw(t, "byte")
				} else {
					b[p] = rapid.SampledFrom([]byte(":-[]{}#&*!|>'\"%@, \n\t0a~?")).Draw(t, "ybyte")
				}
				s = string(b)
			}
		case 11: // truncate
			if len(s) > 0 {
				s = s[:rapid.IntRange(0, len(s)).Draw(t, "cut")]
			}
		case 9: // delete a byte range
			if len(s) > 1 {
				a := rapid.IntRange(0, len(s)-1).Draw(t, "from")
				l := rapid.IntRange(1, 12).Draw(t, "len")
				if a+l > len(s) {
					l = len(s) - a
				}
				s = s[:a] + s[a+l:]
			}
		case 6: // anchor the value of this line and alias it from another `key: value` line
			if loc := c17ScalarRe.FindStringSubmatchIndex(lines[at]); loc != nil {
				lines[at] = lines[at][:loc[4]] + "&anc " + lines[at][loc[4]:]
				for try := 0; try < 8; try++ {
					o := rapid.IntRange(0, len(lines)-1).Draw(t, "aliasLine")
					if lo := c17ScalarRe.FindStringSubmatchIndex(lines[o]); lo != nil && o > at {
						lines[o] = lines[o][:lo[4]] + "*anc" + lines[o][lo[5]:]
						break
					}
				}
			} else if strings.HasSuffix(strings.TrimRight(lines[at], "\n"), ":") {
				lines[at] = strings.TrimRight(lines[at], "\n") + " &anc\n"
				lines = append(lines, "templates: *anc\n")
			}
			s = strings.Join(lines, "")
		case 7: // splice: replace the tail by the tail of another corpus document
			if len(corpus) > 0 {
				o := c17Lines(rapid.SampledFrom(corpus).Draw(t, "donor"))
				oa := rapid.IntRange(0, len(o)).Draw(t, "donorLine")
				s = strings.Join(lines[:at], "") + strings.Join(o[oa:], "")
			}
		case 8: // insert raw fragment at a byte position
			p := rapid.IntRange(0, len(s)).Draw(t, "pos")
			f := rapid.SampledFrom(C17HostileScalars).Draw(t, "frag")
			s = s[:p] + f + s[p:]
		}
	}
	return []byte(s)
}

// C17HostileDoc assembles a small document around a valid skeleton in which
// slots are filled with hostile values.
func C17HostileDoc(t *rapid.T) []byte {
	hs := func(l string) string { return rapid.SampledFrom(C17HostileScalars).Draw(t, l) }
	or := func(normal string, l string) string {
		if rapid.IntRange(0, 3).Draw(t, l+"H") == 0 {
			return hs(l)
		}
		return normal
	}
	var sb strings.Builder
	if rapid.Bool().Draw(t, "global") {
		sb.WriteString("global:\n  resolve_timeout: " + or("5m", "rt") + "\n  smtp_smarthost: " + or("localhost:25", "sh") + "\n  smtp_from: " + or("a@b", "sf") + "\n")
		if rapid.Bool().Draw(t, "ghttp") {
			sb.WriteString("  http_config: " + hs("ghc") + "\n")
		}
	}
	sb.WriteString("route:\n  receiver: " + or("a", "recv") + "\n")
	if rapid.Bool().Draw(t, "gb") {
		sb.WriteString("  group_by: " + or("[alertname]", "gbv") + "\n")
	}
	if rapid.Bool().Draw(t, "timers") {
		sb.WriteString("  group_wait: " + or("30s", "gw") + "\n  group_interval: " + or("5m", "gi") + "\n  repeat_interval: " + or("4h", "ri") + "\n")
	}
	nh := rapid.IntRange(0, 3).Draw(t, "rootLines")
	for i := 0; i < nh; i++ {
		sb.WriteString("  " + strings.ReplaceAll(rapid.SampledFrom(C17HostileLines).Draw(t, "rootLine"), "\n", "\n  ") + "\n")
	}
	if rapid.Bool().Draw(t, "children") {
		sb.WriteString("  routes:\n")
		nc := rapid.IntRange(1, 3).Draw(t, "nchildren")
		for i := 0; i < nc; i++ {
			if rapid.IntRange(0, 4).Draw(t, "nullChild") == 0 {
				sb.WriteString("  - " + hs("child") + "\n")
				continue
			}
			sb.WriteString("  - receiver: " + or("a", "crecv") + "\n    matchers: " + or("[a=\"b\"]", "cm") + "\n")
			nl := rapid.IntRange(0, 2).Draw(t, "childLines")
			for j := 0; j < nl; j++ {
				sb.WriteString("    " + strings.ReplaceAll(rapid.SampledFrom(C17HostileLines).Draw(t, "childLine"), "\n", "\n    ") + "\n")
			}
		}
	}
	sb.WriteString("receivers:\n- name: " + or("a", "rname") + "\n")
	nr := rapid.IntRange(0, 2).Draw(t, "recvLines")
	for i := 0; i < nr; i++ {
		sb.WriteString("  " + strings.ReplaceAll(rapid.SampledFrom(C17HostileLines).Draw(t, "recvLine"), "\n", "\n  ") + "\n")
	}
	if rapid.Bool().Draw(t, "recv2") {
		sb.WriteString("- name: " + or("b", "rname2") + "\n")
	}
	if rapid.Bool().Draw(t, "ti") {
		sb.WriteString("time_intervals:\n- name: " + or("t", "tiname") + "\n  time_intervals:\n  - weekdays: " + or("[monday]", "tiwd") + "\n")
		nt := rapid.IntRange(0, 2).Draw(t, "tiLines")
		for i := 0; i < nt; i++ {
			sb.WriteString("    " + strings.ReplaceAll(rapid.SampledFrom(C17HostileLines).Draw(t, "tiLine"), "\n", "\n    ") + "\n")
		}
	}
	nt := rapid.IntRange(0, 2).Draw(t, "topLines")
	for i := 0; i < nt; i++ {
		sb.WriteString(rapid.SampledFrom(C17HostileLines).Draw(t, "topLine") + "\n")
	}
	if rapid.IntRange(0, 9).Draw(t, "deep") == 0 {
		d := rapid.SampledFrom([]int{10, 100, 1000, 9999, 10001, 20000}).Draw(t, "depth")
		switch rapid.IntRange(0, 2).Draw(t, "deepKind") {
		case 0:
			sb.WriteString("templates: " + strings.Repeat("[", d) + strings.Repeat("]", d) + "\n")
		case 1:
			sb.WriteString("x: " + strings.Repeat("{a: ", d) + "1" + strings.Repeat("}", d) + "\n")
		default:
			// nested routes
			sb.WriteString("route2: &deep\n")
			for i := 0; i < d && i < 2000; i++ {
				sb.WriteString(strings.Repeat(" ", i+1) + "routes:\n" + strings.Repeat(" ", i+1) + "- receiver: a\n")
			}
		}
	}
	if rapid.IntRange(0, 9).Draw(t, "bomb") == 0 {
		// alias expansion ("billion laughs")
		sb.WriteString("a0: &a0 [x,x,x,x,x,x,x,x,x]\n")
		n := rapid.IntRange(2, 9).Draw(t, "bombLevels")
		for i := 1; i <= n; i++ {
			p := "a" + string(rune('0'+i-1))
			c := "a" + string(rune('0'+i))
			sb.WriteString(c + ": &" + c + " [*" + p + ",*" + p + ",*" + p + ",*" + p + ",*" + p + ",*" + p + ",*" + p + ",*" + p + ",*" + p + "]\n")
		}
		sb.WriteString("templates: *a" + string(rune('0'+n)) + "\n")
	}
	return []byte(sb.String())
}

var c17TopKeyRe = regexp.MustCompile(`^[A-Za-z_]+:`)

// c17Sections splits a document into its top-level sections.
func c17Sections(doc string) map[string]string {
	out := map[string]string{}
	cur := ""
	for _, l := range c17Lines(doc) {
		if m := c17TopKeyRe.FindString(l); m != "" {
			cur = strings.TrimSuffix(m, ":")
			out[cur] += l
			continue
		}
		if cur != "" {
			out[cur] += l
		}
	}
	return out
}

// C17Recombine builds a document from top-level sections of different corpus
// documents and then exchanges scalar tokens between them.
func C17Recombine(t *rapid.T, corpus []string) []byte {
	if len(corpus) == 0 {
		return nil
	}
	names := []string{"global", "route", "receivers", "inhibit_rules", "templates", "time_intervals", "mute_time_intervals", "tracing"}
	var sb strings.Builder
	order := rapid.Permutation(names).Draw(t, "order")
	for _, n := range order {
		k := rapid.IntRange(0, 5).Draw(t, "take")
		if k == 0 && n != "route" && n != "receivers" {
			continue
		}
		reps := 1
		if k == 5 {
			reps = 2 // duplicate top-level key
		}
		for r := 0; r < reps; r++ {
			for try := 0; try < 4; try++ {
				sec := c17Sections(rapid.SampledFrom(corpus).Draw(t, "donor"))
				if s, ok := sec[n]; ok {
					sb.WriteString(s)
					if !strings.HasSuffix(s, "\n") {
						sb.WriteString("\n")
					}
					break
				}
			}
		}
	}
	doc := sb.String()
	// token exchange
	var pool []string
	for _, c := range corpus {
		for _, m := range c17ScalarRe.FindAllStringSubmatch(c, -1) {
			pool = append(pool, m[2])
		}
	}
	nx := rapid.IntRange(0, 4).Draw(t, "exchanges")
	for i := 0; i < nx && len(pool) > 0; i++ {
		locs := c17ScalarRe.FindAllStringSubmatchIndex(doc, -1)
		if len(locs) == 0 {
			break
		}
		loc := locs[rapid.IntRange(0, len(locs)-1).Draw(t, "tok")]
		doc = doc[:loc[4]] + rapid.SampledFrom(pool).Draw(t, "poolTok") + doc[loc[5]:]
	}
	return []byte(doc)
}
