package sim

import (
	"bytes"
	"fmt"
	"sort"
	"strconv"
	"strings"
	"sync"
	"testing"
	"testing/synctest"
	"time"

	"pgregory.net/rapid"

	"github.com/hashicorp/memberlist"
	"google.golang.org/protobuf/proto"

	amcluster "github.com/prometheus/alertmanager/cluster"
	"github.com/prometheus/alertmanager/cluster/clusterpb"
	"github.com/prometheus/alertmanager/featurecontrol"
	"github.com/prometheus/alertmanager/matcher/compat"
	"github.com/prometheus/alertmanager/verifhook"

	"verif/harness/pbt"
	"verif/harness/ref"
)

// ------------------------------------------------------------ scenario

// NetFate decides what happens to one gossip message on its way to one peer.
type NetFate struct {
	DelayMs int  `json:"delay_ms"`
	Drop    bool `json:"drop,omitempty"`
	Dup     bool `json:"dup,omitempty"`
}

type CStep struct {
	Dt      int         `json:"dt"`
	Op      string      `json:"op"`             // post | crash | start | link | behave | noop
	Inst    int         `json:"inst,omitempty"` // post: -1 = all live instances
	Alerts  []PostAlert `json:"alerts,omitempty"`
	Restart string      `json:"restart,omitempty"` // start: clean | stale | none (which snapshot the instance comes back with)
	A       int         `json:"a,omitempty"`
	B       int         `json:"b,omitempty"`
	Up      bool        `json:"up,omitempty"`
	Behave  *Behave     `json:"behave,omitempty"`
}

type ClusterScenario struct {
	Config    Config              `json:"config"`
	Opts      Options             `json:"opts"`
	N         int                 `json:"n"`
	Positions []int               `json:"positions"` // each instance's view of its own position
	Fates     []NetFate           `json:"fates"`     // consumed cyclically, one per (message, destination)
	PushPull  int                 `json:"push_pull"` // seconds between full-state exchanges over up links (0 = never)
	LabelSets []map[string]string `json:"label_sets"`
	Steps     []CStep             `json:"steps"`
	Tail      int                 `json:"tail"`
}

// ------------------------------------------------------------ runner

type cluster struct {
	sim   *Sim
	sc    *ClusterScenario
	mtx   sync.Mutex
	insts []*Instance // nil = down
	link  [][]bool
	msgs  int
	snaps [][2][]byte // per instance: silences, nflog snapshot for the next start
	wg    sync.WaitGroup
	stats struct{ sent, dropped, duplicated, blocked, storm, reliable, reliableFailed int }
	// identical broadcasts per instance: an entry is broadcast when it is logged and once more by every instance
	// that merges it for the first time (again after a restart rolled the log back); far beyond that is a
	// re-gossip loop, which the network cuts so that the run ends and the judge can report it
	same map[string]int
}

const gossipStormLimit = 24

func (c *cluster) alive(i, epoch int) *Instance {
	c.mtx.Lock()
	defer c.mtx.Unlock()
	in := c.insts[i]
	if in == nil || in.epoch != epoch {
		return nil
	}
	return in
}

// send distributes one broadcast of instance `from` to every other instance according to the fates.
func (c *cluster) send(from int, kind string, b []byte) {
	msg := append([]byte(nil), b...)
	c.mtx.Lock()
	if c.same == nil {
		c.same = map[string]int{}
	}
	k := fmt.Sprintf("%d|%s|%s", from, kind, msg)
	c.same[k]++
	storm := c.same[k] > gossipStormLimit
	if storm {
		c.stats.storm++
	}
	c.mtx.Unlock()
	if storm {
		return
	}
	for j := 0; j < c.sc.N; j++ {
		if j == from {
			continue
		}
		c.mtx.Lock()
		fate := NetFate{}
		if len(c.sc.Fates) > 0 {
			fate = c.sc.Fates[c.msgs%len(c.sc.Fates)]
		}
		c.msgs++
		c.stats.sent++
		dst := c.insts[j]
		c.mtx.Unlock()
		if fate.Drop {
			c.mtx.Lock()
			c.stats.dropped++
			c.mtx.Unlock()
			continue
		}
		if dst == nil {
			continue
		}
		copies := 1
		if fate.Dup {
			copies = 2
			c.mtx.Lock()
			c.stats.duplicated++
			c.mtx.Unlock()
		}
		for k := 0; k < copies; k++ {
			delay := time.Duration(fate.DelayMs*(k+1)) * time.Millisecond
			j, epoch := j, dst.epoch
			c.wg.Go(func() {
				time.Sleep(delay)
				c.mtx.Lock()
				up := c.link[from][j]
				c.mtx.Unlock()
				in := c.alive(j, epoch)
				if in == nil {
					return
				}
				if !up {
					c.mtx.Lock()
					c.stats.blocked++
					c.mtx.Unlock()
					return
				}
				var err error
				if kind == "nfl" {
					at := time.Now()
					for _, e := range decodeNflog(msg) {
						c.sim.mtx.Lock()
						c.sim.trace.Arrivals = append(c.sim.trace.Arrivals, Arrival{Inst: j, At: at, GroupKey: e.GroupKey, Receiver: e.Receiver, Idx: e.Idx, Timestamp: e.Timestamp})
						c.sim.mtx.Unlock()
					}
					err = in.nflog.Merge(msg)
				} else {
					err = in.silences.Merge(msg)
				}
				if err != nil {
					c.sim.errf("merge %s into %d: %v", kind, j, err)
				}
			})
		}
	}
}

// sendReliable is the per-peer reliable (TCP) send of an oversized update: it fails when the peer is down or the link is
// cut, otherwise the update arrives 50 ms later (no loss, no duplication).
func (c *cluster) sendReliable(from, j int, kind string, b []byte) error {
	msg := append([]byte(nil), b...)
	c.mtx.Lock()
	dst, up := c.insts[j], c.link[from][j]
	c.stats.reliable++
	c.mtx.Unlock()
	if dst == nil || !up {
		c.mtx.Lock()
		c.stats.reliableFailed++
		c.mtx.Unlock()
		return fmt.Errorf("peer %d unreachable", j)
	}
	epoch := dst.epoch
	c.wg.Go(func() {
		time.Sleep(50 * time.Millisecond)
		in := c.alive(j, epoch)
		if in == nil {
			return
		}
		var err error
		if kind == "nfl" {
			at := time.Now()
			for _, e := range decodeNflog(msg) {
				c.sim.mtx.Lock()
				c.sim.trace.Arrivals = append(c.sim.trace.Arrivals, Arrival{Inst: j, At: at, GroupKey: e.GroupKey, Receiver: e.Receiver, Idx: e.Idx, Timestamp: e.Timestamp})
				c.sim.mtx.Unlock()
			}
			err = in.nflog.Merge(msg)
		} else {
			err = in.silences.Merge(msg)
		}
		if err != nil {
			c.sim.errf("merge %s into %d: %v", kind, j, err)
		}
	})
	return nil
}

func (c *cluster) start(i, epoch int, spec *Config, sil, nfl []byte) error {
	in, err := c.sim.newInstanceWith(i, epoch, spec, sil, nfl, func(in *Instance) {
		in.clustered = true
		in.position = func() int { return c.sc.Positions[i] }
	})
	if err != nil {
		return err
	}
	// the real cluster.Channel decides between gossip (small updates: the harness network with its fates) and the
	// reliable per-peer send (oversized updates: delivered unless the peer is down or the link is cut, in which case the
	// send fails); every other instance is listed as a peer, a crashed one included (memberlist keeps listing it
	// for a while)
	peers := func() []*memberlist.Node {
		var ns []*memberlist.Node
		for j := 0; j < c.sc.N; j++ {
			if j != i {
				ns = append(ns, &memberlist.Node{Name: strconv.Itoa(j)})
			}
		}
		return ns
	}
	gossip := func(b []byte) {
		var p clusterpb.Part
		if err := proto.Unmarshal(b, &p); err == nil {
			c.send(i, p.Key, p.Data)
		}
	}
	reliable := func(n *memberlist.Node, b []byte) error {
		j, _ := strconv.Atoi(n.Name)
		var p clusterpb.Part
		if err := proto.Unmarshal(b, &p); err != nil {
			return err
		}
		return c.sendReliable(i, j, p.Key, p.Data)
	}
	chN := amcluster.NewChannel("nfl", gossip, peers, reliable, nopLog, in.stopc, in.reg)
	chS := amcluster.NewChannel("sil", gossip, peers, reliable, nopLog, in.stopc, in.reg)
	in.nflog.SetBroadcast(func(b []byte) {
		c.recordLogWrite(i, b)
		chN.Broadcast(b)
	})
	in.silences.SetBroadcast(chS.Broadcast)
	c.mtx.Lock()
	c.insts[i] = in
	c.mtx.Unlock()
	return nil
}

// recordLogWrite notes every entry instance i hands to the broadcast function whose timestamp is the
// current instant, i.e. the entries written by i's own pipeline (re-gossiped merges carry older timestamps).
func (c *cluster) recordLogWrite(i int, b []byte) {
	now := time.Now()
	for _, e := range decodeNflog(b) {
		if !e.Timestamp.Equal(now) {
			continue
		}
		c.sim.mtx.Lock()
		part, _ := proto.Marshal(&clusterpb.Part{Key: "nfl", Data: b})
		c.sim.trace.LogWrites = append(c.sim.trace.LogWrites, LogWrite{Inst: i, At: now, GroupKey: e.GroupKey, Receiver: e.Receiver, Idx: e.Idx, Firing: e.Firing, Resolved: e.Resolved,
			Oversize: amcluster.OversizedMessage(part)})
		c.sim.mtx.Unlock()
	}
}

// pushPull: full-state exchange over every up link, both directions (only: restrict to pairs that include that
// instance, as memberlist does for a node that joins; -1: all pairs, the periodic exchange).
func (c *cluster) pushPull(only int) {
	for i := 0; i < c.sc.N; i++ {
		for j := 0; j < c.sc.N; j++ {
			if only >= 0 && i != only && j != only {
				continue
			}
			c.mtx.Lock()
			a, b, up := c.insts[i], c.insts[j], i != j && c.link[i][j]
			c.mtx.Unlock()
			if a == nil || b == nil || !up {
				continue
			}
			// reference: what the sender holds (its snapshot form), not what it chooses to put on the wire; taken BEFORE
			// the wire form, so that an entry the sender logs at this very instant can only make the wire form larger
			var refSnap []byte
			var sb bytes.Buffer
			if _, err := a.nflog.Snapshot(&sb); err == nil {
				refSnap = sb.Bytes()
			}
			if st, err := a.nflog.MarshalBinary(); err == nil {
				at := time.Now()
				for _, e := range decodeNflog(st) {
					c.sim.mtx.Lock()
					c.sim.trace.Arrivals = append(c.sim.trace.Arrivals, Arrival{Inst: j, At: at, GroupKey: e.GroupKey, Receiver: e.Receiver, Idx: e.Idx, Timestamp: e.Timestamp})
					c.sim.mtx.Unlock()
				}
				_ = b.nflog.Merge(st)
				ref := st
				if refSnap != nil {
					ref = refSnap
				}
				if gaps := nflogNotCovered(ref, b.nflog, at); len(gaps) > 0 {
					c.sim.mtx.Lock()
					c.sim.trace.PushPullGaps = append(c.sim.trace.PushPullGaps, fmt.Sprintf("at %s instance %d merged the full state of instance %d but does not hold: %s", at.Format("15:04:05.000"), j, i, strings.Join(gaps, "; ")))
					c.sim.mtx.Unlock()
				}
			}
			if st, err := a.silences.MarshalBinary(); err == nil {
				_ = b.silences.Merge(st)
			}
		}
	}
}

// RunCluster executes a cluster scenario in one bubble (one clock: "clocks agree").
func RunCluster(t *testing.T, sc *ClusterScenario) *Trace {
	tr := &Trace{}
	synctest.Test(t, func(*testing.T) { runCluster(sc, tr) })
	type fk struct {
		inst int
		ag   string
		fl   uint64
	}
	entered := map[fk]time.Time{}
	for _, pe := range tr.PipelineEnters {
		k := fk{pe.Inst, pe.AggrGroupID, pe.FlushID}
		if _, ok := entered[k]; !ok {
			entered[k] = pe.At
		}
	}
	for i := range tr.Attempts {
		a := &tr.Attempts[i]
		a.Flush = a.T
		if at, ok := entered[fk{a.Inst, a.AggrGroupID, a.FlushID}]; ok {
			a.Flush = at
		}
	}
	return tr
}

func runCluster(sc *ClusterScenario, tr *Trace) {
	compat.InitFromFlags(nopLog, featurecontrol.NoopFlags{})
	ssc := &Scenario{Config: sc.Config, Opts: sc.Opts, LabelSets: sc.LabelSets}
	s := &Sim{sc: ssc, trace: tr, behave: map[string]Behave{}}
	g := &stormGuard{last: map[string]time.Time{}, count: map[string]int{}, tr: tr}
	verifhook.Set(g.handler)
	defer verifhook.Set(nil)
	c := &cluster{sim: s, sc: sc, insts: make([]*Instance, sc.N), snaps: make([][2][]byte, sc.N)}
	c.link = make([][]bool, sc.N)
	for i := range c.link {
		c.link[i] = make([]bool, sc.N)
		for j := range c.link[i] {
			c.link[i][j] = true
		}
	}
	tr.Start = time.Now()
	epochs := make([]int, sc.N)
	for i := 0; i < sc.N; i++ {
		if err := c.start(i, 0, &sc.Config, nil, nil); err != nil {
			tr.Errors = append(tr.Errors, "setup: "+err.Error())
			return
		}
	}
	stopPP := make(chan struct{})
	if sc.PushPull > 0 {
		c.wg.Go(func() {
			tk := time.NewTicker(time.Duration(sc.PushPull) * time.Second)
			defer tk.Stop()
			for {
				select {
				case <-tk.C:
					c.pushPull(-1)
				case <-stopPP:
					return
				}
			}
		})
	}
	synctest.Wait()
	for i, st := range sc.Steps {
		time.Sleep(time.Duration(st.Dt)*time.Second + time.Millisecond)
		synctest.Wait()
		now := time.Now()
		tr.StepAt = append(tr.StepAt, now)
		switch st.Op {
		case "post":
			for j := 0; j < sc.N; j++ {
				if st.Inst >= 0 && st.Inst != j {
					continue
				}
				if in := c.insts[j]; in != nil {
					in.postAlerts(now, ssc, st.Alerts)
				}
			}
		case "crash":
			if in := c.insts[st.Inst]; in != nil {
				c.mtx.Lock()
				c.insts[st.Inst] = nil
				c.mtx.Unlock()
				clean := st.Restart == "clean"
				sil, nfl := in.stop(clean)
				if st.Restart == "none" {
					sil, nfl = nil, nil
				}
				c.snaps[st.Inst] = [2][]byte{sil, nfl}
			}
		case "start":
			if c.insts[st.Inst] == nil {
				epochs[st.Inst]++
				if err := c.start(st.Inst, epochs[st.Inst], &sc.Config, c.snaps[st.Inst][0], c.snaps[st.Inst][1]); err != nil {
					s.errf("start %d: %v", st.Inst, err)
				} else {
					// a joining node exchanges its full state with the members it can reach
					c.pushPull(st.Inst)
				}
			}
		case "link":
			c.mtx.Lock()
			c.link[st.A][st.B], c.link[st.B][st.A] = st.Up, st.Up
			c.mtx.Unlock()
		case "behave":
			s.mtx.Lock()
			s.behave[fmt.Sprintf("%s/%d", st.Behave.Receiver, st.Behave.Idx)] = *st.Behave
			s.mtx.Unlock()
		}
		synctest.Wait()
		_ = i
	}
	time.Sleep(time.Duration(sc.Tail)*time.Second + time.Millisecond)
	synctest.Wait()
	tr.End = time.Now()
	close(stopPP)
	for i := 0; i < sc.N; i++ {
		if in := c.insts[i]; in != nil {
			c.mtx.Lock()
			c.insts[i] = nil
			c.mtx.Unlock()
			in.stop(false)
		}
	}
	c.wg.Wait()
	synctest.Wait()
	tr.Net = map[string]int{"sent": c.stats.sent, "dropped": c.stats.dropped, "duplicated": c.stats.duplicated, "blocked_by_link": c.stats.blocked, "storm": c.stats.storm,
		"reliable": c.stats.reliable, "reliable_failed": c.stats.reliableFailed}
}

// ------------------------------------------------------------ judge

type ClusterStats struct {
	Healthy             bool
	Attempts            int
	Deliveries          int
	CrossInstanceDedup  int // flushes of a later-positioned instance that stayed silent because of a merged entry
	FaultsThatMattered  int
	FiringObligations   int
	ResolvedObligations int
	ConditionalChecked  int
	Senders             int
	ReliableChecked     int // oversized log entries x reachable peers whose arrival was checked
}

// instance lifetime model
type life struct{ from, to time.Time }

func (sc *ClusterScenario) healthy() bool {
	seen := map[int]bool{}
	for _, p := range sc.Positions {
		if p < 0 || p >= sc.N || seen[p] {
			return false
		}
		seen[p] = true
	}
	for _, f := range sc.Fates {
		if f.Drop || f.DelayMs*2 >= sc.Opts.PeerTimeout*1000 {
			return false
		}
	}
	for i, st := range sc.Steps {
		switch st.Op {
		case "link":
			// one link of a three-instance cluster cut before anything happens: every update still reaches every
			// instance over the third one (each instance gossips what it merges for the first time), in two hops
			// of less than half the peer timeout each, so gossip still delivers faster than the peer timeout
			if i == 0 && sc.N == 3 && !st.Up && st.Dt == 0 && st.A != st.B {
				continue
			}
			return false
		case "crash", "start", "behave":
			return false
		case "post":
			if st.Inst >= 0 {
				return false
			}
		}
	}
	return true
}

func JudgeCluster(sc *ClusterScenario, tr *Trace) ([]pbt.Violation, ClusterStats) {
	var vs []pbt.Violation
	var st ClusterStats
	add := func(v pbt.Violation) { vs = append(vs, v) }
	for _, e := range tr.Errors {
		add(pbt.V("harness-or-api-error", "%s", e))
	}
	for _, e := range tr.FlushStorm {
		add(pbt.V("flush-storm", "%s", e))
	}
	if len(tr.StepAt) != len(sc.Steps) {
		return vs, st
	}
	st.Healthy = sc.healthy()
	if st.Healthy && len(sc.Steps) > 0 && sc.Steps[0].Op == "link" {
		// oversized entries go to each peer directly and are not passed on by the peers that merge them: with a cut
		// link they do not arrive, which is a fault that matters
		for _, lw := range tr.LogWrites {
			if lw.Oversize {
				st.Healthy = false
			}
		}
	}
	st.Attempts = len(tr.Attempts)
	cfg := &sc.Config
	rt0 := time.Duration(cfg.ResolveTimeout) * time.Second
	pt := time.Duration(sc.Opts.PeerTimeout) * time.Second

	// per-instance alert models and lifetimes
	models := make([]*AlertModel, sc.N)
	lives := make([][]life, sc.N)
	up := make([]bool, sc.N)
	gc := time.Duration(sc.Opts.AlertGC) * time.Second
	nextGC := make([]time.Time, sc.N)
	for i := range models {
		models[i] = NewAlertModel()
		lives[i] = []life{{from: tr.Start}}
		up[i] = true
		nextGC[i] = tr.Start.Add(gc)
	}
	adv := func(i int, to time.Time) {
		for up[i] && !nextGC[i].After(to) {
			models[i].GC(nextGC[i])
			nextGC[i] = nextGC[i].Add(gc)
		}
	}
	behave := map[string][]behaveRec{}
	for si, stp := range sc.Steps {
		now := tr.StepAt[si]
		for i := 0; i < sc.N; i++ {
			adv(i, now)
		}
		switch stp.Op {
		case "post":
			for i := 0; i < sc.N; i++ {
				if (stp.Inst >= 0 && stp.Inst != i) || !up[i] {
					continue
				}
				for _, a := range stp.Alerts {
					var sp, ep *time.Time
					if a.Start != nil {
						t := now.Add(time.Duration(*a.Start) * time.Second)
						sp = &t
					}
					if a.End != nil {
						t := now.Add(time.Duration(*a.End) * time.Second)
						ep = &t
					}
					models[i].Post(now, sc.LabelSets[a.LS], sp, ep, rt0)
				}
			}
		case "crash":
			if up[stp.Inst] {
				up[stp.Inst] = false
				lives[stp.Inst][len(lives[stp.Inst])-1].to = now
				for key := range models[stp.Inst].Versions {
					if models[stp.Inst].cur(key) != nil {
						models[stp.Inst].Versions[key] = append(models[stp.Inst].Versions[key], AlertVersion{From: now, Gone: true})
					}
				}
			}
		case "start":
			if !up[stp.Inst] {
				up[stp.Inst] = true
				lives[stp.Inst] = append(lives[stp.Inst], life{from: now})
				nextGC[stp.Inst] = now.Add(gc)
			}
		case "behave":
			k := fmt.Sprintf("%s/%d", stp.Behave.Receiver, stp.Behave.Idx)
			behave[k] = append(behave[k], behaveRec{From: now, B: *stp.Behave})
		}
	}
	for i := 0; i < sc.N; i++ {
		adv(i, tr.End)
		if up[i] {
			lives[i][len(lives[i])-1].to = tr.End
		}
	}
	upThroughout := func(i int, t1, t2 time.Time) bool {
		for _, l := range lives[i] {
			if !l.from.After(t1) && !l.to.Before(t2) {
				return true
			}
		}
		return false
	}
	accepts := func(receiver string, idx int, t1, t2 time.Time) bool {
		ok := func(b Behave) bool { return b.Kind == "ok" || (b.Kind == "slow" && b.Dur() <= 10*time.Second) }
		cur := Behave{Kind: "ok"}
		for _, r := range behave[fmt.Sprintf("%s/%d", receiver, idx)] {
			if !r.From.After(t1) {
				cur = r.B
			} else if !r.From.After(t2) && !ok(r.B) {
				return false
			}
		}
		return ok(cur)
	}
	sendResolvedOf := func(receiver string, idx int) bool {
		rc := cfg.ReceiverByName(receiver)
		return rc != nil && rc.ByID(idx) != nil && rc.ByID(idx).SendResolved
	}

	// staleWrite: the root-cause fact of finding F15. A later-positioned instance (wait > 0) wrote a log entry for
	// the key at w.At although another instance had delivered at `delivered`, inside that instance's wait window.
	// frozenAt: the instant at which the writer of log write w had frozen its view of the group: the tick of the
	// flush whose delivery ended at w.At (a delivery can be slow), else the write instant minus the cluster wait.
	frozenAt := func(w LogWrite) time.Time {
		wait := time.Duration(sc.Positions[w.Inst]) * pt
		best := w.At.Add(-wait - time.Second)
		for i := range tr.Attempts {
			a := &tr.Attempts[i]
			if a.Inst == w.Inst && a.GroupKey == w.GroupKey && a.Receiver == w.Receiver && a.Idx == w.Idx && a.Done.Equal(w.At) && a.Tick.Add(-time.Second).Before(best) {
				best = a.Tick.Add(-time.Second)
			}
		}
		return best
	}
	// waitedFull: the attempt was made after the instance had sat through its whole cluster wait (position x peer
	// timeout) counted from the start of the flush, as the stage order of the unchanged tree implies. A stale view sent
	// after a SHORTER wait is not the known finding F15 but a wait that is too short.
	waitedFull := func(a *Attempt) bool {
		return a.T.Sub(a.Flush) >= time.Duration(sc.Positions[a.Inst])*pt
	}
	writeWaitedFull := func(w LogWrite) bool {
		for i := range tr.Attempts {
			a := &tr.Attempts[i]
			if a.Inst == w.Inst && a.GroupKey == w.GroupKey && a.Receiver == w.Receiver && a.Idx == w.Idx && a.Done.Equal(w.At) {
				return waitedFull(a)
			}
		}
		return true
	}
	staleWrite := func(gk, receiver string, idx int, delivered time.Time) bool {
		for _, w := range tr.LogWrites {
			wait := time.Duration(sc.Positions[w.Inst]) * pt
			if w.GroupKey == gk && w.Receiver == receiver && w.Idx == idx && wait > 0 &&
				w.At.After(delivered) && delivered.After(frozenAt(w)) && writeWaitedFull(w) {
				return true
			}
		}
		return false
	}

	// uniform: every submission of the alert went to all instances while all of them were up, and no instance
	// (re)started after the alert's first submission and before `until` (a restarted instance has lost its alerts
	// until the next re-send: "every instance receives the alerts" no longer holds).
	uniform := func(key string, until time.Time) bool {
		live := make([]bool, sc.N)
		for i := range live {
			live[i] = true
		}
		seenKey := false
		for si, stp := range sc.Steps {
			at := tr.StepAt[si]
			if at.After(until) {
				break
			}
			switch stp.Op {
			case "crash":
				live[stp.Inst] = false
			case "start":
				if seenKey {
					return false
				}
				live[stp.Inst] = true
			case "post":
				has := false
				for _, a := range stp.Alerts {
					if ref.LabelKey(sc.LabelSets[a.LS]) == key {
						has = true
					}
				}
				if !has {
					continue
				}
				if !seenKey {
					// instances that are down at the first submission never learn about the alert: not uniform
					for _, l := range live {
						if !l {
							return false
						}
					}
				}
				seenKey = true
				if stp.Inst >= 0 && sc.N > 1 {
					return false
				}
			}
		}
		return true
	}

	// sequences
	type fk struct {
		inst     int
		ag       string
		id       uint64
		receiver string
		idx      int
	}
	first := map[fk]*Attempt{}
	union := map[seqKey][]*Attempt{}
	senders := map[int]bool{}
	for i := range tr.Attempts {
		a := &tr.Attempts[i]
		k := fk{a.Inst, a.AggrGroupID, a.FlushID, a.Receiver, a.Idx}
		if f, ok := first[k]; !ok || a.T.Before(f.T) {
			first[k] = a
		}
		if a.OK() {
			st.Deliveries++
			senders[a.Inst] = true
			sk := seqKey{a.GroupKey, a.Receiver, a.Idx}
			union[sk] = append(union[sk], a)
		}
	}
	st.Senders = len(senders)
	for _, s := range union {
		sort.SliceStable(s, func(i, j int) bool { return s[i].Done.Before(s[j].Done) })
	}
	hashOf := func(key string) uint64 {
		for _, ls := range sc.LabelSets {
			if ref.LabelKey(ls) == key {
				return AlertHash(ls)
			}
		}
		return 0
	}

	// ---- (iii) conditional form, all runs: the sender's own log entry must not cover the notification
	for _, a := range first {
		st.ConditionalChecked++
		e := a.Entry
		if e == nil || !e.Found {
			continue
		}
		// the entry is read when the attempt starts; if it reached this instance at that very instant it may have
		// arrived after the dedup decision (same virtual instant): undecidable, skip
		sameInstant := false
		for _, ar := range tr.Arrivals {
			if ar.Inst == a.Inst && ar.GroupKey == a.GroupKey && ar.Receiver == a.Receiver && ar.Idx == a.Idx && ar.Timestamp.Equal(e.Timestamp) && ar.At.Equal(a.T) {
				sameInstant = true
			}
		}
		if sameInstant {
			continue
		}
		sr := sendResolvedOf(a.Receiver, a.Idx)
		f, r := split(a)
		covered := true
		for k := range f {
			if !containsHash(e.Firing, hashOf(k)) {
				covered = false
			}
		}
		if sr {
			for k := range r {
				if !containsHash(e.Resolved, hashOf(k)) {
					covered = false
				}
			}
		}
		if a.Tick.Sub(e.Timestamp) > a.Repeat {
			covered = false
		}
		if len(e.Firing) == 0 && len(f) > 0 {
			covered = false
		}
		if len(f) == 0 && len(e.Firing) > 0 {
			covered = false // all alerts resolved: clears the log entry
		}
		if covered {
			add(pbt.V("sent-although-log-covers", "instance %d (position %d) sent %s/%d the state of group %s at %s (firing %v resolved %v) although its own log entry (timestamp %s, %d firing, %d resolved) already covers it within repeat_interval %s",
				a.Inst, sc.Positions[a.Inst], a.Receiver, a.Idx, a.GroupKey, a.T.Format(tf), keysOf(f), keysOf(r), e.Timestamp.Format(tf), len(e.Firing), len(e.Resolved), a.Repeat))
		}
	}

	// ---- (ii) healthy synchronised runs: the cluster looks like one instance (A.9 over the union)
	if st.Healthy {
		m := models[0]
		eligibleEmpty := func(routeID, gk string, t1, t2 time.Time) bool {
			var members []string
			for _, k := range m.Keys() {
				for _, rt := range cfg.Match(m.Labels[k]) {
					if rt.ID == routeID && rt.GroupKey(m.Labels[k]) == gk {
						members = append(members, k)
					}
				}
			}
			// probe step instants, alert boundaries
			probes := []time.Time{t1.Add(time.Nanosecond), t2.Add(-time.Nanosecond)}
			for _, k := range members {
				for _, v := range m.Versions[k] {
					for _, p := range []time.Time{v.From, v.End} {
						probes = append(probes, p.Add(-time.Nanosecond), p, p.Add(time.Nanosecond))
					}
				}
			}
			for _, p := range probes {
				if !p.After(t1) || !p.Before(t2) {
					continue
				}
				any := false
				for _, k := range members {
					if m.Firing(k, p) {
						any = true
					}
				}
				if !any {
					return true
				}
			}
			return false
		}
		for k, s := range union {
			var prev *Attempt
			for _, a := range s {
				fq, rq := split(a)
				if prev == nil {
					if len(fq) == 0 {
						add(pbt.V("first-notification-without-firing", "%v: first cluster-wide notification at %s lists no firing alert", k, a.T.Format(tf)))
					}
					prev = a
					continue
				}
				fp, rp := split(prev)
				sr := sendResolvedOf(a.Receiver, a.Idx)
				justified := !subset(fq, fp) || (sr && !subset(rq, rp)) || a.Tick.Sub(prev.Done) > a.Repeat
				// the previous delivery's log entry cannot have reached the sender yet: not a duplicate it could avoid
				maxDelay := time.Duration(0)
				for _, f := range sc.Fates {
					if d := time.Duration(2*f.DelayMs) * time.Millisecond; d > maxDelay {
						maxDelay = d
					}
				}
				// (the excuse is for an instance that sat through its whole cluster wait and still could not have
				// the entry yet; one that sends before its wait is over gets none)
				inFlight := a.Inst != prev.Inst && a.T.Sub(prev.Done) <= maxDelay && waitedFull(a)
				if !justified && !inFlight && !eligibleEmpty(a.RouteID, a.GroupKey, prev.Done, a.T) {
					// root-cause fact for finding F15: while a later-positioned instance sat in its cluster wait
					// another instance delivered, and after the wait the waiting instance wrote its (older)
					// view of the group over that delivery's log entry
					stale := false
					// ... or the duplicate itself comes from such an instance: it froze the group before the other
					// delivery and sends after its wait
					if wait := time.Duration(sc.Positions[a.Inst]) * pt; wait > 0 && !a.Tick.After(prev.Done) && prev.Done.After(a.T.Add(-wait-time.Second)) && waitedFull(a) {
						stale = true
					}
					// ... or it decides against a log entry that is newer than the view it froze at its tick
					if sc.Positions[a.Inst] > 0 && a.Entry != nil && a.Entry.Found && a.Entry.Timestamp.After(a.Tick) && waitedFull(a) {
						stale = true
					}
					// ... or the delivery it is compared with is itself such a stale view: prev's instance is a
					// later-positioned one that froze the group at its tick, and after its cluster wait decided against (and
					// then wrote over) a log entry another instance had made in the meantime; the "same group state" prev
					// announced is the state before that other delivery, not the one a reports
					if sc.Positions[prev.Inst] > 0 && prev.Entry != nil && prev.Entry.Found && prev.Entry.Timestamp.After(prev.Tick) && waitedFull(prev) {
						stale = true
					}
					for _, w := range tr.LogWrites {
						wait := time.Duration(sc.Positions[w.Inst]) * pt
						if w.GroupKey == a.GroupKey && w.Receiver == a.Receiver && w.Idx == a.Idx && wait > 0 &&
							w.At.After(prev.Done) && prev.Done.After(frozenAt(w)) && writeWaitedFull(w) &&
							(w.At.Before(a.T) || (w.At.Equal(a.T) && w.Inst != a.Inst && a.Entry != nil && a.Entry.Found && a.Entry.Timestamp.Equal(w.At))) {
							// (a write at the very instant of the duplicate counts when the duplicate's dedup read saw it)
							stale = true
						}
					}
					add(pbt.V("duplicate-in-healthy-cluster", "%v: instance %d (position %d) notified at %s (firing %v resolved %v) although instance %d had delivered the same group state at %s, %s <= repeat_interval %s, gossip delay < peer timeout and no fault",
						k, a.Inst, sc.Positions[a.Inst], a.T.Format(tf), keysOf(fq), keysOf(rq), prev.Inst, prev.Done.Format(tf), a.Tick.Sub(prev.Done), a.Repeat).With("stale_write_after_cluster_wait", stale))
				}
				prev = a
			}
		}
		// cross-instance dedup happened: a later-positioned instance flushed, waited and stayed silent
		flushByInst := map[string]map[int]bool{}
		for _, f := range tr.Flushes {
			if flushByInst[f.GroupKey+f.At.Format(time.RFC3339Nano)] == nil {
				flushByInst[f.GroupKey+f.At.Format(time.RFC3339Nano)] = map[int]bool{}
			}
		}
		if st.Senders == 1 && st.Deliveries > 0 && sc.N > 1 {
			st.CrossInstanceDedup = st.Deliveries
		}
	}
	for _, g := range tr.PushPullGaps {
		add(pbt.V("pushpull-incomplete", "%s", g))
	}
	// an oversized log entry goes to every peer over the reliable path: it must arrive at each peer that is up and
	// reachable while it is sent, whatever happened to earlier sends or to the other peers
	linkUpThroughout := func(a, b int, t1, t2 time.Time) bool {
		up := true
		for si, stp := range sc.Steps {
			if si >= len(tr.StepAt) || stp.Op != "link" || !((stp.A == a && stp.B == b) || (stp.A == b && stp.B == a)) {
				continue
			}
			at := tr.StepAt[si]
			if at.After(t2) {
				break
			}
			if at.Before(t1) {
				up = stp.Up
			} else {
				return false // the link changed inside the window
			}
		}
		return up
	}
	for _, w := range tr.LogWrites {
		if !w.Oversize {
			continue
		}
		t2 := w.At.Add(time.Second)
		if t2.After(tr.End) || !upThroughout(w.Inst, w.At.Add(-time.Nanosecond), t2) {
			continue
		}
		for j := 0; j < sc.N; j++ {
			if j == w.Inst || !upThroughout(j, w.At.Add(-time.Nanosecond), t2) || !linkUpThroughout(w.Inst, j, w.At.Add(-time.Nanosecond), t2) {
				continue
			}
			st.ReliableChecked++
			got := false
			for _, ar := range tr.Arrivals {
				if ar.Inst == j && ar.GroupKey == w.GroupKey && ar.Receiver == w.Receiver && ar.Idx == w.Idx && ar.Timestamp.Equal(w.At) && !ar.At.After(t2) {
					got = true
					break
				}
			}
			if !got {
				add(pbt.V("reliable-update-not-delivered", "instance %d logged an oversized entry for %s %s/%d at %s; instance %d was up and reachable from then on, but the entry had not arrived one second later (reliable sends so far: %d, failed: %d)",
					w.Inst, w.GroupKey, w.Receiver, w.Idx, w.At.Format(tf), j, tr.Net["reliable"], tr.Net["reliable_failed"]))
			}
		}
	}
	if tr.Net != nil && tr.Net["storm"] > 0 {
		add(pbt.V("gossip-storm", "one instance broadcast the same notification-log or silence update more than %d times (%d broadcasts cut): updates are re-gossiped without end instead of once per first merge", gossipStormLimit, tr.Net["storm"]))
	}
	if tr.Net != nil {
		st.FaultsThatMattered = tr.Net["dropped"] + tr.Net["blocked_by_link"]
	}

	// ---- (i) at least once: firing and resolved obligations over the union of all instances' deliveries
	for key, ls := range func() map[string]map[string]string {
		all := map[string]map[string]string{}
		for _, m := range models {
			for k, l := range m.Labels {
				all[k] = l
			}
		}
		return all
	}() {
		for _, rt := range cfg.Match(ls) {
			rc := cfg.ReceiverByName(rt.Receiver)
			if rc == nil {
				continue
			}
			gk := rt.GroupKey(ls)
			w := maxDur(rt.GroupWait, rt.GroupInterval) + time.Duration(sc.N-1)*pt + deliverySlack
			for _, idx := range rc.IDs() {
				sk := seqKey{gk, rt.Receiver, idx}
				for _, tau := range append(append([]time.Time{}, tr.StepAt...), tr.End) {
					t1 := tau.Add(-w)
					if t1.Before(tr.Start.Add(time.Duration(sc.Opts.EffDelay()) * time.Second)) {
						continue
					}
					// an instance that holds the alert, firing, for the whole window and has been up since before the alert's first submission
					witness := -1
					for i := 0; i < sc.N; i++ {
						vs := models[i].Versions[key]
						if len(vs) == 0 || !upThroughout(i, vs[0].From.Add(-time.Nanosecond), tau) {
							continue
						}
						firing := true
						for _, p := range probesFor(models[i], key, t1, tau) {
							if !models[i].Firing(key, p) {
								firing = false
							}
						}
						if firing {
							witness = i
						}
					}
					if witness < 0 || !accepts(rt.Receiver, idx, t1.Add(-rt.GroupInterval), tau) || !uniform(key, tau) {
						continue
					}
					st.FiringObligations++
					told := false
					for _, a := range union[sk] {
						if f, _ := split(a); f[key] && !a.Done.After(tau) {
							told = true
						}
					}
					if !told {
						add(pbt.V("cluster-notification-lost", "alert %s has been firing on instance %d (up all the time) during [%s, %s] and %s/%d accepted deliveries, but no instance ever delivered a notification for group %s listing it as firing (window: max(group_wait, group_interval) + %d x peer_timeout + %s)",
							key, witness, t1.Format(tf), tau.Format(tf), rt.Receiver, idx, gk, sc.N-1, deliverySlack))
					}
				}
				// resolved obligation
				if !rc.ByID(idx).SendResolved {
					continue
				}
				for i := 0; i < sc.N; i++ {
					vs := models[i].Versions[key]
					if len(vs) == 0 {
						continue
					}
					// the last delivery that told the receiver the alert fires
					toldFiring := false
					var toldAt time.Time
					var teller *Attempt
					for _, a := range union[sk] {
						if f, _ := split(a); f[key] {
							toldFiring = true
							toldAt = a.Done
							teller = a
						}
					}
					if !toldFiring {
						continue
					}
					// r: the first instant after that at which the alert does not fire on instance i
					// (single firing episode per alert: it never fires again afterwards)
					var r time.Time
					for _, p := range probesFor(models[i], key, toldAt, tr.End) {
						if p.After(toldAt) && !models[i].Firing(key, p) && (r.IsZero() || p.Before(r)) {
							r = p
						}
					}
					if r.IsZero() || models[i].Firing(key, toldAt) == false {
						continue
					}
					// single firing episode: the alert must not fire again after r (e.g. a heartbeat arriving
					// just after the timeout expired starts a new episode; such cases are not judged here)
					refired := false
					for _, p := range probesFor(models[i], key, r, tr.End) {
						if p.After(r) && models[i].Firing(key, p) {
							refired = true
						}
					}
					if refired {
						continue
					}
					// (a group re-created by a re-send waits group_wait before its first flush)
					end := r.Add(maxDur(rt.GroupWait, rt.GroupInterval) + time.Duration(sc.N-1)*pt + deliverySlack)
					if end.After(tr.End) || !upThroughout(i, vs[0].From.Add(-time.Nanosecond), end) {
						continue
					}
					if !accepts(rt.Receiver, idx, r.Add(-rt.GroupInterval), end) {
						continue
					}
					if !toldAt.Add(2*rt.RepeatInterval).After(end) || !uniform(key, end) {
						continue
					}
					// per C05 the resolved notification is owed by an instance whose log says the receiver was told:
					// the witness made that delivery itself or its log entry reached the witness before the alert
					// resolved (a partition plus a crash of the teller can keep it away for good)
					knows := teller.Inst == i
					for _, ar := range tr.Arrivals {
						if ar.Inst == i && ar.GroupKey == gk && ar.Receiver == rt.Receiver && ar.Idx == idx && !ar.At.After(r) {
							if d := ar.Timestamp.Sub(toldAt); d > -time.Microsecond && d < time.Microsecond {
								knows = true
							}
						}
					}
					if !knows {
						continue
					}
					st.ResolvedObligations++
					told := false
					for _, a := range union[sk] {
						if _, rs := split(a); rs[key] && a.Done.After(toldAt) && !a.Done.After(end) {
							told = true
						}
					}
					if !told {
						add(pbt.V("cluster-resolved-lost", "alert %s was reported firing at %s, resolved at %s on instance %d (up all the time); %s/%d accepted deliveries, but no instance delivered a notification listing it as resolved by %s", key, toldAt.Format(tf), r.Format(tf), i, rt.Receiver, idx, end.Format(tf)).
							With("stale_write_after_cluster_wait", staleWrite(gk, rt.Receiver, idx, toldAt)))
					}
				}
			}
		}
	}
	return vs, st
}

func probesFor(m *AlertModel, key string, t1, t2 time.Time) []time.Time {
	ps := []time.Time{t1, t2}
	for _, v := range m.Versions[key] {
		for _, p := range []time.Time{v.From, v.End} {
			for _, q := range []time.Time{p.Add(-time.Nanosecond), p, p.Add(time.Nanosecond)} {
				if !q.Before(t1) && !q.After(t2) {
					ps = append(ps, q)
				}
			}
		}
	}
	return ps
}

// ------------------------------------------------------------ generator

func GenClusterScenario(t *rapid.T, healthy bool) ClusterScenario {
	var sc ClusterScenario
	sc.LabelSets = genLabelSets(t)
	// a third of the runs: the gossip of each instance settles a while after its process started. Those runs have one
	// label set and one route, hence one flush at a time per instance: two flushes waiting in the settle stage at once
	// would hang a bubble as soon as an implementation serialises them with a mutex (a goroutine waiting for a mutex
	// whose holder waits for virtual time stops the bubble's clock), which says nothing about the property.
	settle := sampled(t, "settle", 0, 0, 0, 0, 25, 70)
	if settle > 0 {
		sc.LabelSets = sc.LabelSets[:1]
	}
	if rapid.IntRange(0, 2).Draw(t, "bigEntries") == 0 {
		// long label values make group keys, and with them the gossiped log entries, exceed the gossip
		// packet limit (700 bytes): such entries travel over the oversized path of the real transport
		long := strings.Repeat("x", sampled(t, "longLen", 400, 900))
		for _, ls := range sc.LabelSets {
			for k, v := range ls {
				if v == "x" {
					ls[k] = long
				}
			}
		}
	}
	cfg, maxRI, maxGI := GenConfig(t, sc.LabelSets, GenParams{})
	if settle > 0 {
		cfg.Route.Children = nil
	}
	sc.Config = cfg
	sc.N = rapid.IntRange(2, 3).Draw(t, "n")
	if !healthy && rapid.IntRange(0, 5).Draw(t, "single") == 0 {
		sc.N = 1
	}
	pt := sampled(t, "pt", 5, 15)
	sc.Opts = Options{Retention: 2*maxRI + maxGI + 3600, AlertGC: sampled(t, "agc", 300, 1800), DispMaint: 30, Maint: sampled(t, "maint", 300, 900), PeerTimeout: pt}
	// a third of the runs: the dispatchers start a while after the processes (cmd/alertmanager waits for the gossip to
	// settle); alerts posted before that are grouped but their flushes begin late, with the old timer expiry as tick
	sc.Opts.StartDelay = sampled(t, "startDelay", 0, 0, 0, 0, 20, 45)
	sc.Opts.Settle = settle
	perm := rapid.Permutation(func() []int {
		p := make([]int, sc.N)
		for i := range p {
			p[i] = i
		}
		return p
	}()).Draw(t, "positions")
	sc.Positions = perm
	if !healthy && rapid.IntRange(0, 3).Draw(t, "badpos") == 0 {
		// inconsistent membership views, e.g. two instances both believing they are first
		for i := range sc.Positions {
			sc.Positions[i] = rapid.IntRange(0, sc.N-1).Draw(t, "pos")
		}
	}
	nf := rapid.IntRange(1, 6).Draw(t, "nfates")
	for i := 0; i < nf; i++ {
		f := NetFate{DelayMs: sampled(t, "delay", 0, 5, 50, 300, 1000, 2000)}
		if f.DelayMs*2 >= pt*1000 {
			f.DelayMs = pt*1000/2 - 100
		}
		if !healthy {
			switch rapid.IntRange(0, 5).Draw(t, "fate") {
			case 0, 1:
				f.Drop = true
			case 2:
				f.DelayMs = sampled(t, "longdelay", 8000, 20000, 60000)
			}
		}
		f.Dup = rapid.IntRange(0, 4).Draw(t, "dup") == 0
		sc.Fates = append(sc.Fates, f)
	}
	sc.PushPull = sampled(t, "pp", 0, 60, 300)
	n := rapid.IntRange(3, 14).Draw(t, "nsteps")
	down := map[int]bool{}
	resolved := map[int]bool{} // single firing episode per label set (no re-fire after a resolve)
	for i := 0; i < n; i++ {
		st := CStep{Dt: sampled(t, "dt", 0, 1, 5, 10, 20, 30, 45, 60, 90, 120, 300, 600), Inst: -1}
		k := rapid.IntRange(0, 11).Draw(t, "op")
		switch {
		case k < 7 || i == 0 || healthy:
			st.Op = "post"
			na := rapid.IntRange(1, 3).Draw(t, "nalerts")
			used := map[int]bool{}
			for j := 0; j < na; j++ {
				a := PostAlert{LS: rapid.IntRange(0, len(sc.LabelSets)-1).Draw(t, "als")}
				if used[a.LS] || resolved[a.LS] {
					continue
				}
				used[a.LS] = true
				switch rapid.IntRange(0, 6).Draw(t, "aend") {
				case 0, 1, 2:
				case 3, 4:
					a.End = ip(sampled(t, "endpos", 60, 120, 600, 3600))
				default:
					a.End = ip(sampled(t, "endneg", -1, -30))
					resolved[a.LS] = true
				}
				st.Alerts = append(st.Alerts, a)
			}
			if !healthy && rapid.IntRange(0, 5).Draw(t, "skew") == 0 {
				st.Inst = rapid.IntRange(0, sc.N-1).Draw(t, "pinst")
			}
			if len(st.Alerts) == 0 {
				st.Op = "noop"
			}
		case k < 9:
			i := rapid.IntRange(0, sc.N-1).Draw(t, "cinst")
			if down[i] {
				st.Op, st.Inst = "start", i
				down[i] = false
			} else {
				st.Op, st.Inst, st.Restart = "crash", i, sampled(t, "rk", "clean", "stale", "none")
				down[i] = true
			}
		case k < 10 && sc.N > 1:
			st.Op = "link"
			st.A = rapid.IntRange(0, sc.N-1).Draw(t, "la")
			st.B = (st.A + 1 + rapid.IntRange(0, sc.N-2).Draw(t, "lb")) % sc.N
			st.Up = rapid.Bool().Draw(t, "lup")
		case k < 11:
			st.Op = "behave"
			r := sampled(t, "brcv", "r0", "r1")
			idx := 0
			if rc := cfg.ReceiverByName(r); rc != nil && len(rc.Integrations) > 1 {
				idx = rc.IDs()[rapid.IntRange(0, len(rc.Integrations)-1).Draw(t, "bidx")]
			}
			st.Behave = &Behave{Receiver: r, Idx: idx, Kind: sampled(t, "bk", "ok", "ok", "recoverable", "hang", "slow"), D: 5}
		default:
			st.Op = "noop"
		}
		sc.Steps = append(sc.Steps, st)
	}
	if healthy && sc.N == 3 && rapid.IntRange(0, 2).Draw(t, "relayOnly") == 0 {
		a := rapid.IntRange(0, 2).Draw(t, "cutA")
		b := (a + 1 + rapid.IntRange(0, 1).Draw(t, "cutB")) % 3
		sc.Steps = append([]CStep{{Op: "link", A: a, B: b, Up: false, Inst: -1}}, sc.Steps...)
	}
	sc.Tail = sampled(t, "tail", 600, 1500, maxRI+maxGI+300)
	return sc
}

// DumpCluster renders a cluster run for violation reports (runs are not fully reproducible: the order of
// goroutines at one virtual instant decides which fate a gossip message gets).
func DumpCluster(sc *ClusterScenario, tr *Trace) string {
	var sb []byte
	w := func(f string, a ...any) { sb = append(sb, fmt.Sprintf(f, a...)...) }
	w("n=%d positions=%v fates=%+v pp=%d opts=%+v\n", sc.N, sc.Positions, sc.Fates, sc.PushPull, sc.Opts)
	type ev struct {
		t time.Time
		s string
	}
	var evs []ev
	for i, st := range sc.Steps {
		if i < len(tr.StepAt) {
			evs = append(evs, ev{tr.StepAt[i], fmt.Sprintf("STEP %d %+v", i, st)})
		}
	}
	for _, a := range tr.Attempts {
		evs = append(evs, ev{a.T, fmt.Sprintf("  inst %d attempt %s/%d gk=%s tick=%s done=%s %s %q %v entry=%+v", a.Inst, a.Receiver, a.Idx, a.GroupKey, a.Tick.Format(tf), a.Done.Format(tf), a.Outcome, a.Reason, a.Alerts, a.Entry)})
	}
	for _, lw := range tr.LogWrites {
		evs = append(evs, ev{lw.At, fmt.Sprintf("  inst %d LOGS %s %s/%d firing=%d resolved=%d", lw.Inst, lw.GroupKey, lw.Receiver, lw.Idx, len(lw.Firing), len(lw.Resolved))})
	}
	for _, ar := range tr.Arrivals {
		evs = append(evs, ev{ar.At, fmt.Sprintf("  inst %d RECEIVES entry %s %s/%d ts=%s", ar.Inst, ar.GroupKey, ar.Receiver, ar.Idx, ar.Timestamp.Format(tf))})
	}
	sort.SliceStable(evs, func(i, j int) bool { return evs[i].t.Before(evs[j].t) })
	for _, e := range evs {
		w("%s %s\n", e.t.Format(tf), e.s)
	}
	if len(sb) > 30000 {
		sb = sb[:30000]
	}
	return string(sb)
}
