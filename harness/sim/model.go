// Package sim is the virtual-time whole-system simulator (engine E1): scenario
// types (plain data), the reference model, the interpreter over the real
// Alertmanager components inside a synctest bubble, and the oracles.
package sim

import (
	"fmt"
	"sort"
	"strings"
	"time"

	"verif/harness/ref"
)

// ---------------------------------------------------------------- scenario

type Integration struct {
	SendResolved bool `json:"send_resolved"`
	// Kind: "" = webhook_configs entry, "discord" = discord_configs entry (a second integration type, so that an
	// integration's identity "<type>[<index within the type>]" differs from its position in the receiver)
	Kind string `json:"kind,omitempty"`
}

type Receiver struct {
	Name         string        `json:"name"`
	Integrations []Integration `json:"integrations"`
}

// Integration ids used throughout the harness: webhook[k] = k, discord[k] = DiscordBase + k. This is the identity the
// notification log uses (integration name + index within its type), stable when other types gain or lose entries.
const DiscordBase = 100

// IDs lists the receiver's integrations in the order the receiver is built (all webhooks, then all discords).
func (r *Receiver) IDs() []int {
	var out []int
	for _, kind := range []string{"", "discord"} {
		k := 0
		for _, in := range r.Integrations {
			if in.Kind == kind {
				if kind == "" {
					out = append(out, k)
				} else {
					out = append(out, DiscordBase+k)
				}
				k++
			}
		}
	}
	return out
}

// ByID returns the integration with the given id, nil if the receiver has none.
func (r *Receiver) ByID(id int) *Integration {
	kind, want := "", id
	if id >= DiscordBase {
		kind, want = "discord", id-DiscordBase
	}
	k := 0
	for i := range r.Integrations {
		if r.Integrations[i].Kind == kind {
			if k == want {
				return &r.Integrations[i]
			}
			k++
		}
	}
	return nil
}

// IntegrationName splits an id into the integration type name and the index within the type.
func IntegrationName(id int) (string, int) {
	if id >= DiscordBase {
		return "discord", id - DiscordBase
	}
	return "webhook", id
}

// IntegrationID is the inverse of IntegrationName.
func IntegrationID(name string, idx int) int {
	if name == "discord" {
		return DiscordBase + idx
	}
	return idx
}

// Route is the routing node as the user writes it. Nil pointers = inherit.
type Route struct {
	Matchers       []ref.Matcher `json:"matchers,omitempty"`
	Continue       bool          `json:"continue,omitempty"`
	Receiver       string        `json:"receiver,omitempty"`
	GroupBy        *[]string     `json:"group_by,omitempty"` // nil inherit; [] none; ["..."] all
	GroupWait      *int          `json:"group_wait,omitempty"`
	GroupInterval  *int          `json:"group_interval,omitempty"`
	RepeatInterval *int          `json:"repeat_interval,omitempty"`
	Mute           []string      `json:"mute,omitempty"`
	Active         []string      `json:"active,omitempty"`
	Children       []*Route      `json:"children,omitempty"`
}

type InhibitRule struct {
	Name   string        `json:"name,omitempty"` // optional; the loader does not require names to be unique
	Source []ref.Matcher `json:"source"`
	Target []ref.Matcher `json:"target"`
	Equal  []string      `json:"equal,omitempty"`
}

// Interval: a named time interval consisting of minute-of-day ranges in UTC
// (the calendar itself is C15's subject; here only the gating is exercised).
type Interval struct {
	Name   string   `json:"name"`
	Ranges [][2]int `json:"ranges"` // [startMinute, endMinute) of the day, UTC
	// Twice: the definition lists the same entry twice (entries are alternatives, so the meaning is unchanged; the
	// implementation then reports the name once per matching entry)
	Twice bool `json:"twice,omitempty"`
}

type Config struct {
	ResolveTimeout int           `json:"resolve_timeout"` // seconds
	Route          *Route        `json:"route"`
	Receivers      []Receiver    `json:"receivers"`
	Inhibit        []InhibitRule `json:"inhibit,omitempty"`
	Intervals      []Interval    `json:"intervals,omitempty"`
}

// ------------------------------------------------------------ YAML rendering

func dur(sec int) string { return fmt.Sprintf("%ds", sec) }

func yamlQuote(s string) string {
	return "'" + strings.ReplaceAll(s, "'", "''") + "'"
}

// MatcherText renders a reference matcher in the UTF-8 matcher syntax.
func MatcherText(m ref.Matcher) string {
	v := m.Value
	if m.Op == "=~" || m.Op == "!~" {
		v = m.Pattern()
	}
	r := strings.NewReplacer(`\`, `\\`, "\n", `\n`, `"`, `\"`)
	return fmt.Sprintf(`%s%s"%s"`, m.Name, m.Op, r.Replace(v))
}

func matchersYAML(ms []ref.Matcher) string {
	parts := make([]string, len(ms))
	for i, m := range ms {
		parts[i] = yamlQuote(MatcherText(m))
	}
	return "[" + strings.Join(parts, ", ") + "]"
}

func (r *Route) yaml(sb *strings.Builder, indent string, root bool) {
	w := func(format string, a ...any) { sb.WriteString(indent + fmt.Sprintf(format, a...) + "\n") }
	if r.Receiver != "" {
		w("receiver: %s", r.Receiver)
	}
	if len(r.Matchers) > 0 {
		w("matchers: %s", matchersYAML(r.Matchers))
	}
	if r.Continue {
		w("continue: true")
	}
	if r.GroupBy != nil {
		qs := make([]string, len(*r.GroupBy))
		for i, g := range *r.GroupBy {
			qs[i] = yamlQuote(g)
		}
		w("group_by: [%s]", strings.Join(qs, ", "))
	}
	if r.GroupWait != nil {
		w("group_wait: %s", dur(*r.GroupWait))
	}
	if r.GroupInterval != nil {
		w("group_interval: %s", dur(*r.GroupInterval))
	}
	if r.RepeatInterval != nil {
		w("repeat_interval: %s", dur(*r.RepeatInterval))
	}
	if len(r.Mute) > 0 {
		w("mute_time_intervals: [%s]", strings.Join(r.Mute, ", "))
	}
	if len(r.Active) > 0 {
		w("active_time_intervals: [%s]", strings.Join(r.Active, ", "))
	}
	if len(r.Children) > 0 {
		w("routes:")
		for _, c := range r.Children {
			var cb strings.Builder
			c.yaml(&cb, indent+"  ", false)
			s := cb.String()
			// first line gets the list dash
			s = indent + "- " + strings.TrimPrefix(s, indent+"  ")
			sb.WriteString(s)
		}
	}
}

// YAML renders the configuration file text that is handed to config.Load.
// Receivers get webhook configs with an unreachable URL (the harness replaces
// the integrations by scripted ones; the text only has to load).
func (c *Config) YAML() string {
	var sb strings.Builder
	sb.WriteString("global:\n  resolve_timeout: " + dur(c.ResolveTimeout) + "\n")
	sb.WriteString("route:\n")
	c.Route.yaml(&sb, "  ", true)
	sb.WriteString("receivers:\n")
	for _, r := range c.Receivers {
		sb.WriteString("- name: " + r.Name + "\n")
		for _, kind := range []string{"", "discord"} {
			first := true
			for _, in := range r.Integrations {
				if in.Kind != kind {
					continue
				}
				if first {
					sb.WriteString(map[string]string{"": "  webhook_configs:\n", "discord": "  discord_configs:\n"}[kind])
					first = false
				}
				sb.WriteString(fmt.Sprintf("  - %s: http://127.0.0.1:1/\n    send_resolved: %v\n", map[string]string{"": "url", "discord": "webhook_url"}[kind], in.SendResolved))
			}
		}
	}
	if len(c.Inhibit) > 0 {
		sb.WriteString("inhibit_rules:\n")
		for _, r := range c.Inhibit {
			sb.WriteString("- source_matchers: " + matchersYAML(r.Source) + "\n")
			if r.Name != "" {
				sb.WriteString("  name: " + r.Name + "\n")
			}
			sb.WriteString("  target_matchers: " + matchersYAML(r.Target) + "\n")
			if len(r.Equal) > 0 {
				sb.WriteString("  equal: [" + strings.Join(r.Equal, ", ") + "]\n")
			}
		}
	}
	if len(c.Intervals) > 0 {
		sb.WriteString("time_intervals:\n")
		for _, iv := range c.Intervals {
			sb.WriteString("- name: " + iv.Name + "\n  time_intervals:\n")
			for n := 0; n < 1 || (n < 2 && iv.Twice); n++ {
				sb.WriteString("  - times:\n")
				for _, rg := range iv.Ranges {
					sb.WriteString(fmt.Sprintf("    - start_time: '%02d:%02d'\n      end_time: '%02d:%02d'\n", rg[0]/60, rg[0]%60, rg[1]/60, rg[1]%60))
				}
			}
		}
	}
	return sb.String()
}

// ------------------------------------------------------------ routing model

// Routed is one route chosen for a label set, with effective options.
type Routed struct {
	Path           []int // child indexes from the root
	ID             string
	Key            string // route key: matchers along the path
	Receiver       string
	GroupByAll     bool
	GroupBy        []string
	GroupWait      time.Duration
	GroupInterval  time.Duration
	RepeatInterval time.Duration
	Mute, Active   []string
}

type effOpts struct {
	receiver   string
	groupByAll bool
	groupBy    []string
	gw, gi, ri time.Duration
}

func sortedMatcherText(ms []ref.Matcher) string {
	type k struct {
		name, value, text string
		typ               int
	}
	ks := make([]k, len(ms))
	for i, m := range ms {
		v := m.Value
		if m.Op == "=~" || m.Op == "!~" {
			v = m.Pattern()
		}
		ks[i] = k{m.Name, v, MatcherText(m), map[string]int{"=": 0, "!=": 1, "=~": 2, "!~": 3}[m.Op]}
	}
	sort.SliceStable(ks, func(i, j int) bool {
		if ks[i].name != ks[j].name {
			return ks[i].name < ks[j].name
		}
		if ks[i].value != ks[j].value {
			return ks[i].value < ks[j].value
		}
		return ks[i].typ < ks[j].typ
	})
	parts := make([]string, len(ks))
	for i := range ks {
		parts[i] = ks[i].text
	}
	return "{" + strings.Join(parts, ",") + "}"
}

// Match returns the routes chosen for the label set (depth first, first match
// unless continue, self iff no child matched), with inherited options.
func (c *Config) Match(ls map[string]string) []Routed {
	root := effOpts{gw: 30 * time.Second, gi: 5 * time.Minute, ri: 4 * time.Hour}
	return matchRoute(c.Route, ls, root, nil, "", "", -1)
}

func matchRoute(r *Route, ls map[string]string, parent effOpts, path []int, parentID, parentKey string, idx int) []Routed {
	if !ref.MatchAll(r.Matchers, ls) {
		return nil
	}
	o := parent
	if r.Receiver != "" {
		o.receiver = r.Receiver
	}
	if r.GroupBy != nil {
		if len(*r.GroupBy) == 1 && (*r.GroupBy)[0] == "..." {
			o.groupByAll = true
			// an explicit '...' does not clear an inherited list in the code, but
			// with all labels grouped the list is irrelevant
		} else {
			o.groupByAll = false
			o.groupBy = append([]string(nil), (*r.GroupBy)...)
			sort.Strings(o.groupBy)
		}
	}
	if r.GroupWait != nil {
		o.gw = time.Duration(*r.GroupWait) * time.Second
	}
	if r.GroupInterval != nil {
		o.gi = time.Duration(*r.GroupInterval) * time.Second
	}
	if r.RepeatInterval != nil {
		o.ri = time.Duration(*r.RepeatInterval) * time.Second
	}
	mt := sortedMatcherText(r.Matchers)
	id, key := mt, mt
	if idx >= 0 {
		id = parentID + "/" + mt + "/" + fmt.Sprint(idx)
		key = parentKey + "/" + mt
	}
	var all []Routed
	for i, ch := range r.Children {
		m := matchRoute(ch, ls, o, append(append([]int(nil), path...), i), id, key, i)
		all = append(all, m...)
		if len(m) > 0 && !ch.Continue {
			break
		}
	}
	if len(all) == 0 {
		all = append(all, Routed{
			Path: path, ID: id, Key: key, Receiver: o.receiver, GroupByAll: o.groupByAll, GroupBy: o.groupBy,
			GroupWait: o.gw, GroupInterval: o.gi, RepeatInterval: o.ri, Mute: r.Mute, Active: r.Active,
		})
	}
	return all
}

// GroupLabels restricts the label set to the route's group_by.
func (rt Routed) GroupLabels(ls map[string]string) map[string]string {
	out := map[string]string{}
	for k, v := range ls {
		if rt.GroupByAll {
			out[k] = v
			continue
		}
		for _, g := range rt.GroupBy {
			if g == k {
				out[k] = v
			}
		}
	}
	return out
}

// LabelSetString mirrors model.LabelSet.String(): {a="x", b="y"} sorted by name.
func LabelSetString(ls map[string]string) string {
	ks := make([]string, 0, len(ls))
	for k := range ls {
		ks = append(ks, k)
	}
	sort.Strings(ks)
	parts := make([]string, len(ks))
	for i, k := range ks {
		parts[i] = fmt.Sprintf("%s=%q", k, ls[k])
	}
	return "{" + strings.Join(parts, ", ") + "}"
}

// GroupKey = route key + ":" + group label set.
func (rt Routed) GroupKey(ls map[string]string) string {
	return rt.Key + ":" + LabelSetString(rt.GroupLabels(ls))
}

// AllRoutes walks the tree and returns every node with its effective options
// (as if matched), used to enumerate receivers/integrations.
func (c *Config) ReceiverByName(name string) *Receiver {
	for i := range c.Receivers {
		if c.Receivers[i].Name == name {
			return &c.Receivers[i]
		}
	}
	return nil
}

// ------------------------------------------------------------ interval model

func (c *Config) intervalContains(name string, t time.Time) bool {
	for _, iv := range c.Intervals {
		if iv.Name != name {
			continue
		}
		u := t.UTC()
		m := u.Hour()*60 + u.Minute()
		for _, rg := range iv.Ranges {
			if m >= rg[0] && m < rg[1] {
				return true
			}
		}
	}
	return false
}

// TimeMuted: muted iff some mute interval contains t, or active intervals are
// set and none contains t. Returns the muting interval names.
func (c *Config) TimeMuted(rt Routed, t time.Time) (bool, []string) {
	var by []string
	for _, n := range rt.Mute {
		if c.intervalContains(n, t) {
			by = append(by, n)
		}
	}
	if len(by) > 0 {
		return true, by
	}
	if len(rt.Active) > 0 {
		for _, n := range rt.Active {
			if c.intervalContains(n, t) {
				return false, nil
			}
		}
		return true, append([]string(nil), rt.Active...)
	}
	return false, nil
}

// ------------------------------------------------------------- alert model (A.1)

type AlertVersion struct {
	From    time.Time // instant this version became the stored one
	Start   time.Time
	End     time.Time
	Timeout bool
	Gone    bool // removed by provider GC at From
}

// AlertModel is the per-instance reference alert store with full history.
type AlertModel struct {
	Labels   map[string]map[string]string // key -> labels
	Versions map[string][]AlertVersion    // key -> history (ascending From)
}

func NewAlertModel() *AlertModel {
	return &AlertModel{Labels: map[string]map[string]string{}, Versions: map[string][]AlertVersion{}}
}

func (m *AlertModel) cur(key string) *AlertVersion {
	vs := m.Versions[key]
	if len(vs) == 0 || vs[len(vs)-1].Gone {
		return nil
	}
	return &vs[len(vs)-1]
}

// Post applies one valid alert submission at now. start/end nil = missing.
func (m *AlertModel) Post(now time.Time, ls map[string]string, start, end *time.Time, resolveTimeout time.Duration) {
	key := ref.LabelKey(ls)
	m.Labels[key] = ls
	n := AlertVersion{From: now}
	switch {
	case start != nil:
		n.Start = *start
	case end != nil:
		n.Start = *end
	default:
		n.Start = now
	}
	if end != nil {
		n.End = *end
	} else {
		n.End = now.Add(resolveTimeout)
		n.Timeout = true
	}
	if o := m.cur(key); o != nil {
		overlap := (n.End.After(o.Start) && n.End.Before(o.End)) || (n.Start.After(o.Start) && n.Start.Before(o.End))
		if overlap {
			if o.Start.Before(n.Start) {
				n.Start = o.Start
			}
			if !n.End.After(now) { // the newer submission is resolved
				if !o.End.After(now) && o.End.After(n.End) {
					n.End = o.End
				}
			} else if o.End.After(n.End) && !o.Timeout {
				n.End = o.End
			}
		}
	}
	m.Versions[key] = append(m.Versions[key], n)
}

// GC removes resolved alerts (end <= now) at a provider GC tick.
func (m *AlertModel) GC(now time.Time) {
	for key := range m.Versions {
		if c := m.cur(key); c != nil && !c.End.After(now) {
			m.Versions[key] = append(m.Versions[key], AlertVersion{From: now, Gone: true})
		}
	}
}

// At returns the version stored at instant t (nil if none / collected).
func (m *AlertModel) At(key string, t time.Time) *AlertVersion {
	vs := m.Versions[key]
	var cur *AlertVersion
	for i := range vs {
		if vs[i].From.After(t) {
			break
		}
		cur = &vs[i]
	}
	if cur == nil || cur.Gone {
		return nil
	}
	return cur
}

// LastKnown returns the latest non-collected version with From <= t, even if
// the provider has collected it since (aggregation groups keep their copy).
func (m *AlertModel) LastKnown(key string, t time.Time) *AlertVersion {
	vs := m.Versions[key]
	var cur *AlertVersion
	for i := range vs {
		if vs[i].From.After(t) {
			break
		}
		if !vs[i].Gone {
			cur = &vs[i]
		}
	}
	return cur
}

// Firing: stored at t and end > t.
func (m *AlertModel) Firing(key string, t time.Time) bool {
	v := m.At(key, t)
	return v != nil && v.End.After(t)
}

// Keys returns all alert keys ever posted, sorted.
func (m *AlertModel) Keys() []string {
	ks := make([]string, 0, len(m.Labels))
	for k := range m.Labels {
		ks = append(ks, k)
	}
	sort.Strings(ks)
	return ks
}

// ----------------------------------------------------------- silence model (A.2, the part SIM uses)

type SilenceModel struct {
	ID       string
	Matchers [][]ref.Matcher
	Start    time.Time
	End      time.Time
	From     time.Time // creation instant
}

// Active at t: start <= t <= end (pending before start, expired strictly after end).
func (s *SilenceModel) Active(t time.Time) bool {
	return !t.Before(s.From) && !t.Before(s.Start) && !t.After(s.End)
}
