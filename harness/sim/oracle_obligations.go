package sim

import (
	"fmt"
	"regexp"
	"slices"
	"sort"
	"time"

	"verif/harness/pbt"
	"verif/harness/ref"
)

func containsHash(hs []uint64, h uint64) bool {
	for _, x := range hs {
		if x == h {
			return true
		}
	}
	return false
}

func maxDur(a, b time.Duration) time.Duration {
	if a > b {
		return a
	}
	return b
}

// judgeObligations: timed obligations (C01 knowledge, C04 on-time, C05 resolved), and the
// log/delivery cross-check (a failed delivery never creates or advances the log entry).
func judgeObligations(m *Model, seqs map[seqKey][]*Attempt, sendResolvedOf func(*Config, string, int) bool, st *Stats) []pbt.Violation {
	var vs []pbt.Violation
	add := func(v pbt.Violation) { vs = append(vs, v) }
	tr, sc := m.tr, m.sc

	lastOKBefore := func(k seqKey, t time.Time) *Attempt {
		var best *Attempt
		for _, a := range seqs[k] {
			if a.OK() && !a.Done.After(t) && (best == nil || a.Done.After(best.Done)) {
				best = a
			}
		}
		return best
	}
	stateLoss := func(t1, t2 time.Time) bool {
		for _, r := range m.Restarts {
			if !r.At.Before(t1) && !r.At.After(t2) {
				return true
			}
		}
		return false
	}

	// ---- C01 knowledge obligation at every sample instant
	for _, smp := range tr.Samples {
		tau := smp.At
		cfg := m.CfgAt(tau)
		for _, key := range m.Alerts.Keys() {
			ls := m.Alerts.Labels[key]
			for _, rt := range cfg.Match(ls) {
				w := maxDur(rt.GroupWait, rt.GroupInterval) + deliverySlack
				t1 := tau.Add(-w)
				if t1.Before(tr.Start) || !m.noDisruption(t1, tau) {
					continue
				}
				rt := rt
				if !m.During(t1, tau, func(t time.Time) bool { return m.Eligible(key, rt, t) }) {
					continue
				}
				rc := cfg.ReceiverByName(rt.Receiver)
				if rc == nil {
					continue
				}
				gk := rt.GroupKey(ls)
				for _, idx := range rc.IDs() {
					if !m.accepts(rt.Receiver, idx, t1.Add(-rt.GroupInterval), tau, slowSlack) || m.longInFlight(gk, t1, tau) {
						continue
					}
					st.KnowledgeObligations++
					var ent *NflogEntry
					for i := range smp.Nflog {
						e := &smp.Nflog[i]
						if e.GroupKey == gk && e.Receiver == rt.Receiver && e.Idx == idx {
							ent = e
						}
					}
					h := AlertHash(ls)
					if ent == nil || !ent.Found {
						// the entry of the last delivery may have expired (min(retention, 2×repeat_interval in force
						// when it was written): reachable after a reload that raises repeat_interval) and been
						// collected by a maintenance run inside the window: the bound then runs from that collection
						if last := lastOKBefore(seqKey{gk, rt.Receiver, idx}, tau); last != nil {
							expiry := 2 * last.Repeat
							if ret := time.Duration(sc.Opts.Retention) * time.Second; ret < expiry {
								expiry = ret
							}
							if last.Done.Add(expiry + time.Duration(sc.Opts.Maint)*time.Second).After(t1) {
								st.KnowledgeObligations--
								continue
							}
						}
					}
					if ent == nil || !ent.Found || !containsHash(ent.Firing, h) {
						add(pbt.V("knowledge-missing", "alert %s was firing and unsuppressed during [%s, %s] (max(group_wait, group_interval)+%s for route %s) and %s/%d accepted deliveries, but at %s the notification log entry of group %s for that integration does not list it as firing (entry %+v)",
							key, t1.Format(tf), tau.Format(tf), deliverySlack, rt.ID, rt.Receiver, idx, tau.Format(tf), gk, ent).With("key", key))
						continue
					}
					last := lastOKBefore(seqKey{gk, rt.Receiver, idx}, tau)
					if last == nil {
						add(pbt.V("knowledge-missing", "alert %s eligible during [%s, %s] but no notification for group %s was ever delivered to %s/%d", key, t1.Format(tf), tau.Format(tf), gk, rt.Receiver, idx))
					} else if f, _ := split(last); !f[key] && !rolledBack(m, last.Done, tau) {
						add(pbt.V("knowledge-missing", "alert %s eligible during [%s, %s] but the latest notification delivered to %s/%d for group %s (at %s) does not list it as firing", key, t1.Format(tf), tau.Format(tf), rt.Receiver, idx, gk, last.Done.Format(tf)))
					}
				}
			}
		}
	}

	// ---- log / delivery cross-check: the entry is only written after a successful delivery
	for _, smp := range tr.Samples {
		cfg := m.CfgAt(smp.At)
		for _, e := range smp.Nflog {
			if !e.Found {
				continue
			}
			sr := sendResolvedOf(cfg, e.Receiver, e.Idx)
			// several flushes of one group can complete at one instant (a timer reset to zero by an
			// alert that is old enough): any of them may be the one that wrote the entry
			var match *Attempt
			for _, a := range seqs[seqKey{e.GroupKey, e.Receiver, e.Idx}] {
				if a.OK() && a.Done.Equal(e.Timestamp) {
					if f, _ := split(a); match == nil || len(f) == len(e.Firing) {
						match = a
					}
				}
			}
			if match == nil {
				// without send_resolved an all-resolved flush updates the log without calling the notifier;
				// with send_resolved an all-muted/empty flush never reaches the log stage
				if len(e.Firing) == 0 && !sr {
					continue
				}
				// an integration whose config changed on reload may have flipped send_resolved: accept firing-free entries then
				if len(e.Firing) == 0 && len(m.Reloads) > 0 {
					continue
				}
				add(pbt.V("log-advanced-without-delivery", "at %s the notification log entry of %s for %s/%d has timestamp %s and %d firing alert(s), but no delivery to that integration succeeded at that instant",
					smp.At.Format(tf), e.GroupKey, e.Receiver, e.Idx, e.Timestamp.Format(tf), len(e.Firing)))
				continue
			}
			f, _ := split(match)
			if len(f) != len(e.Firing) {
				add(pbt.V("log-advanced-without-delivery", "log entry of %s for %s/%d written at %s lists %d firing alerts but the delivery at that instant listed %v", e.GroupKey, e.Receiver, e.Idx, e.Timestamp.Format(tf), len(e.Firing), keysOf(f)))
			}
		}
	}

	// ---- C04 on time: an unchanged firing group is re-notified within ri + gi (+ slack)
	for k, s := range seqs {
		for i, a := range s {
			if !a.OK() {
				continue
			}
			f, _ := split(a)
			if len(f) == 0 {
				continue
			}
			cfg := m.CfgAt(a.T)
			rt, members := m.GroupMembers(cfg, a.RouteID, a.GroupKey)
			if len(members) == 0 {
				continue
			}
			end := a.Done.Add(rt.RepeatInterval + rt.GroupInterval + deliverySlack)
			if end.After(tr.End) || stateLoss(a.Flush, end) {
				continue
			}
			if !m.noDisruption(a.Flush, end) {
				// one config reload R in the window (no restart), same timers for this route before and after: the new
				// dispatcher rebuilds the group from the provider's alerts; its first flush comes at once when the
				// alerts are older than group_wait, else after group_wait, and then every group_interval. The repeat is
				// therefore due by max(previous delivery + repeat_interval, R + that wait) + group_interval.
				var rl []time.Time
				for _, r := range m.Reloads {
					if !r.Before(a.Flush) && !r.After(end) {
						rl = append(rl, r)
					}
				}
				if len(rl) != 1 || !m.noDisruption(a.Flush, rl[0].Add(-time.Nanosecond)) {
					continue
				}
				R := rl[0]
				rt2, members2 := m.GroupMembers(m.CfgAt(R), a.RouteID, a.GroupKey)
				if rt2.ID == "" || rt2.GroupWait != rt.GroupWait || rt2.GroupInterval != rt.GroupInterval || rt2.RepeatInterval != rt.RepeatInterval || len(members2) != len(members) {
					continue
				}
				if rc := m.CfgAt(R).ReceiverByName(a.Receiver); rc == nil || rc.ByID(a.Idx) == nil {
					continue
				}
				wait := time.Duration(0)
				for mk := range f {
					if v := m.Alerts.At(mk, R); v == nil || !v.Start.Add(rt.GroupWait).Before(R) {
						wait = rt.GroupWait
					}
				}
				// whichever alert of the group the new dispatcher loads first creates the group and alone decides
				// between the immediate flush and group_wait: a resolved member the provider may still hold counts too
				for _, mk := range members2 {
					if v := m.Alerts.LastKnown(mk, R); v != nil && !v.Start.Add(rt.GroupWait).Before(R) {
						wait = rt.GroupWait
					}
				}
				if e2 := R.Add(wait + rt.GroupInterval + deliverySlack); e2.After(end) {
					end = e2
				}
				if end.After(tr.End) || !m.noDisruption(R.Add(time.Nanosecond), end) {
					continue
				}
				st.RepeatAcrossReload++
			}
			if !m.accepts(a.Receiver, a.Idx, a.Flush, end, slowSlack) || m.longInFlight(a.GroupKey, a.Done, end) {
				continue
			}
			unchanged := m.During(a.Flush, end, func(t time.Time) bool {
				for _, mk := range members {
					if m.Eligible(mk, rt, t) != f[mk] {
						return false
					}
				}
				return true
			})
			if !unchanged {
				continue
			}
			st.RepeatObligations++
			found := false
			for _, b := range s[i+1:] {
				if b.OK() && !b.Done.After(end) {
					found = true
					break
				}
			}
			if !found {
				add(pbt.V("repeat-late", "%v: group unchanged (firing %v) and %s/%d accepting during [%s, %s], but no repeat notification within repeat_interval %s + group_interval %s + %s after the one delivered at %s",
					k, keysOf(f), a.Receiver, a.Idx, a.Flush.Format(tf), end.Format(tf), rt.RepeatInterval, rt.GroupInterval, deliverySlack, a.Done.Format(tf)))
			}
		}
	}

	// ---- C05: a resolved, unsuppressed alert the receiver was told is firing is reported resolved at the next flush
	retention := time.Duration(sc.Opts.Retention) * time.Second
	for k, s := range seqs {
		if len(s) == 0 {
			continue
		}
		cfg0 := m.CfgAt(s[0].T)
		if !sendResolvedOf(cfg0, k.Receiver, k.Idx) {
			continue
		}
		rt, members := m.GroupMembers(cfg0, s[0].RouteID, k.GroupKey)
		for _, mk := range members {
			// every resolution instant r of mk
			for _, v := range m.Alerts.Versions[mk] {
				if v.Gone {
					continue
				}
				// the resolution instant: the end time, or the submission instant for an explicit end in the past
				r := v.End
				if v.From.After(r) {
					r = v.From
				}
				if cur := m.Alerts.LastKnown(mk, r); cur == nil || !cur.End.Equal(v.End) {
					continue // superseded before it ended
				}
				cands := []time.Time{r}
				for _, t := range tr.StepAt {
					if t.After(r) && t.Before(r.Add(maxDur(4*rt.GroupInterval, 10*time.Minute))) {
						cands = append(cands, t)
					}
				}
				for _, u := range cands {
					// the options in force at u (a reload may have changed the timers; the routing structure persists)
					rt := rt
					if rtu, _ := m.GroupMembers(m.CfgAt(u), s[0].RouteID, k.GroupKey); rtu.ID != "" {
						rt = rtu
					}
					// the next flush: one group_interval away, or group_wait when the group was just re-created by a re-send
					end := u.Add(maxDur(rt.GroupWait, rt.GroupInterval) + deliverySlack)
					if end.After(tr.End) || m.longInFlight(k.GroupKey, u, end) {
						continue
					}
					// the integration still exists (a reload may have removed it from the receiver) and still sends resolved
					if !sendResolvedOf(m.CfgAt(u), k.Receiver, k.Idx) || !sendResolvedOf(m.CfgAt(end), k.Receiver, k.Idx) {
						continue
					}
					p := lastOKBefore(k, u)
					if p == nil {
						continue
					}
					if fp, _ := split(p); !fp[mk] {
						// the latest notification does not mention the alert (it was muted when that one went out). The
						// receiver's last word on it is an earlier "firing". Its resolution is still reported at the next
						// flush as long as the log entry of the latest notification lists some firing alert (a resolved alert
						// that the entry does not list as resolved forces a notification; with an entry without firing alerts
						// and no firing alert left nothing is sent: the long-standing upstream loss, see DESIGN 11.4)
						var pm *Attempt
						for _, b := range s {
							if b.OK() && !b.Done.After(u) {
								if fb, rb := split(b); fb[mk] || rb[mk] {
									pm = b
								}
							}
						}
						if pm == nil || len(fp) == 0 {
							continue
						}
						if fm, _ := split(pm); !fm[mk] {
							continue
						}
					}
					// "told is firing" = the latest notification lists it as firing. A delivery that began before u, is
					// still in flight at u and succeeds later without listing the alert as firing (it was muted when that
					// flush began) becomes the latest word, and its log entry no longer knows the alert
					superseded := false
					for _, b := range s {
						if b.OK() && !b.T.After(u) && b.Done.After(u) {
							if fb, _ := split(b); !fb[mk] {
								superseded = true
							}
						}
					}
					if superseded {
						continue
					}
					if !p.Done.Before(r) && !p.Flush.Before(r) {
						continue
					}
					if stateLoss(p.Flush, end) || !m.started(p.Flush) {
						continue
					}
					// a reload creates a new dispatcher that loads the provider's alerts: the resolved alert is still
					// known to it iff the provider has not collected it by then; the obligation then counts from the reload
					reloadOK, lastReload := true, time.Time{}
					for _, rl := range m.Reloads {
						if !rl.Before(p.Flush) && !rl.After(end) {
							// (a delivery still in flight across the reload belongs to the old pipeline: the new
							// dispatcher may have reported the resolution before that delivery returned)
							if rl.After(u) || m.Alerts.At(mk, rl) == nil || rl.Before(p.Done) {
								reloadOK = false
							}
							lastReload = rl
						}
					}
					if !reloadOK {
						continue
					}
					_ = lastReload
					// the entry was written with the repeat_interval in force at that delivery
					exp := 2 * p.Repeat
					if retention < exp {
						exp = retention
					}
					if !p.Done.Add(exp).After(end) {
						continue // the log entry may have expired: outside the stated domain (see finding F10)
					}
					quiet := m.During(r, end, func(t time.Time) bool {
						if m.Alerts.Firing(mk, t) {
							return false
						}
						if len(m.Silenced(mk, t)) > 0 || m.Inhibited(mk, t) {
							return false
						}
						muted, _ := m.CfgAt(t).TimeMuted(rt, t)
						return !muted
					})
					// a flush hanging or retrying at u ends at its deadline (one group_interval after it began),
					// the next one starts on schedule: accepting from u on is enough
					if !quiet || !m.accepts(k.Receiver, k.Idx, u, end, slowSlack) {
						continue
					}
					st.ResolvedObligations++
					found := false
					for _, b := range s {
						if b.OK() && b.Done.After(p.Done) && !b.Done.After(end) {
							if _, rb := split(b); rb[mk] {
								found = true
							}
						}
					}
					if !found {
						// fact for C06 ("never a delta"): a notification of the same group went to this integration after the
						// resolution, from a flush that began after it, and leaves the owed resolution out
						delta := false
						for _, b := range s {
							if b.OK() && b.Flush.After(r) && !b.Done.After(end) {
								delta = true
							}
						}
						add(pbt.V("resolved-not-reported", "%v: %s was reported firing at %s, resolved at %s and stayed resolved and unsuppressed; %s/%d accepted deliveries from %s, but no notification listing it as resolved was delivered by %s (max(group_wait, group_interval) %s + %s)",
							k, mk, p.Done.Format(tf), r.Format(tf), k.Receiver, k.Idx, u.Format(tf), end.Format(tf), maxDur(rt.GroupWait, rt.GroupInterval), deliverySlack).With("key", mk).With("later_notification_omits_it", delta))
					}
				}
			}
		}
	}

	// ---- statistics for the non-triviality rules
	flushHasAttempt := map[string]bool{}
	for _, a := range tr.Attempts {
		flushHasAttempt[a.GroupKey+"|"+a.Flush.Format(time.RFC3339Nano)] = true
	}
	for _, f := range tr.Flushes {
		if !flushHasAttempt[f.GroupKey+"|"+f.At.Format(time.RFC3339Nano)] {
			st.DedupedFlushes++
		}
	}
	ags := map[string]map[string]bool{}
	for _, a := range tr.Attempts {
		if ags[a.GroupKey] == nil {
			ags[a.GroupKey] = map[string]bool{}
		}
		ags[a.GroupKey][a.AggrGroupID] = true
	}
	for _, ids := range ags {
		if len(ids) > 1 {
			st.GroupsRecreated++
		}
	}
	for i, stp := range sc.Steps {
		if stp.Op != "post" || i >= len(tr.StepAt) {
			continue
		}
		at := tr.StepAt[i]
		for _, pa := range stp.Alerts {
			if pa.End != nil && *pa.End <= 0 {
				continue
			}
			key := ref.LabelKey(sc.LabelSets[pa.LS])
			for _, a := range tr.Attempts {
				if a.T.Before(at) && a.Done.After(at) {
					for _, al := range a.Alerts {
						if al.Key == key && al.Resolved {
							st.RefireInFlight++
						}
					}
				}
			}
		}
	}
	for _, s := range m.Silences {
		if s.End.Before(tr.End) {
			st.SuppressionEnded = true
		}
		for _, e := range s.eras {
			if !e.Expire.IsZero() && e.Expire.Before(tr.End) {
				st.SuppressionEnded = true
			}
		}
	}
	return vs
}

func reloadIn(m *Model, t1, t2 time.Time) bool {
	for _, r := range m.Reloads {
		if !r.Before(t1) && !r.After(t2) {
			return true
		}
	}
	return false
}

// judgeAPI: GET /alerts and GET /alerts/groups agree with the model (C02, C03, C06, C13, C15 parts).
func judgeAPI(m *Model, st *Stats) []pbt.Violation {
	var vs []pbt.Violation
	add := func(v pbt.Violation) { vs = append(vs, v) }
	tr := m.tr
	silID := map[int]string{}
	for _, smp := range tr.Samples {
		if smp.SilenceID != "" {
			silID[smp.Step] = smp.SilenceID
		}
	}
	for _, smp := range tr.Samples {
		tau := smp.At
		cfg := m.CfgAt(tau)
		// filtered request at the same instant: exactly the alerts of the unfiltered answer whose status passes the
		// flags (active: neither silenced nor inhibited) and that route to a receiver matching the anchored expression
		if smp.FilteredOK && smp.Step < len(m.sc.Steps) && m.sc.Steps[smp.Step].Flags != nil {
			f := *m.sc.Steps[smp.Step].Flags
			want := map[string]bool{}
			for _, a := range smp.Alerts {
				if !f.Active && a.State == "active" {
					continue
				}
				if !f.Silenced && len(a.SilencedBy) > 0 {
					continue
				}
				if !f.Inhibited && len(a.InhibitedBy) > 0 {
					continue
				}
				if f.Receiver != "" {
					re := regexp.MustCompile("^(?:" + f.Receiver + ")$")
					hit := false
					for _, r := range a.Receivers {
						if re.MatchString(r) {
							hit = true
						}
					}
					if !hit {
						continue
					}
				}
				want[a.Key] = true
			}
			gotF := map[string]bool{}
			for _, a := range smp.Filtered {
				gotF[a.Key] = true
			}
			for k := range want {
				if !gotF[k] {
					add(pbt.V("api-alerts-filter", "GET /alerts at %s with %+v omits %s, which the unfiltered answer of the same instant shows with a status that passes the flags", tau.Format(tf), f, k))
				}
			}
			for k := range gotF {
				if !want[k] {
					add(pbt.V("api-alerts-filter", "GET /alerts at %s with %+v returns %s, which the flags exclude according to the unfiltered answer of the same instant", tau.Format(tf), f, k))
				}
			}
		}
		if smp.Alerts != nil || smp.Step == len(m.sc.Steps) {
			got := map[string]APIAlert{}
			for _, a := range smp.Alerts {
				got[a.Key] = a
			}
			for _, key := range m.Alerts.Keys() {
				v := m.Alerts.At(key, tau)
				a, ok := got[key]
				if v == nil || v.End.Before(tau) {
					if ok {
						add(pbt.V("api-alerts", "GET /alerts at %s returns %s although it %s", tau.Format(tf), key, map[bool]string{true: "was never stored or was collected", false: "ended before"}[v == nil]))
					}
					continue
				}
				if !ok {
					add(pbt.V("api-alerts", "GET /alerts at %s does not return %s (model: start %s end %s)", tau.Format(tf), key, v.Start.Format(tf), v.End.Format(tf)))
					continue
				}
				if !a.Start.Equal(v.Start) || !a.End.Equal(v.End) {
					add(pbt.V("api-alerts", "GET /alerts at %s: %s has start %s end %s, the submitted history says start %s end %s", tau.Format(tf), key, a.Start.Format(tf), a.End.Format(tf), v.Start.Format(tf), v.End.Format(tf)))
				}
				var want []string
				for _, rt := range cfg.Match(m.Alerts.Labels[key]) {
					want = append(want, rt.Receiver)
				}
				sort.Strings(want)
				if fmt.Sprint(want) != fmt.Sprint(a.Receivers) {
					add(pbt.V("api-receivers", "GET /alerts at %s: %s has receivers %v, routing says %v", tau.Format(tf), key, a.Receivers, want))
				}
				var wantSil []string
				for _, s := range m.Silenced(key, tau) {
					wantSil = append(wantSil, silID[s.Step])
				}
				sort.Strings(wantSil)
				if fmt.Sprint(wantSil) != fmt.Sprint(append([]string{}, a.SilencedBy...)) && !(len(wantSil) == 0 && len(a.SilencedBy) == 0) {
					add(pbt.V("api-silence-status", "GET /alerts at %s: %s silencedBy %v, the stored silences say %v", tau.Format(tf), key, a.SilencedBy, wantSil))
				}
				if inh := m.Inhibited(key, tau); inh != (len(a.InhibitedBy) > 0) {
					add(pbt.V("api-inhibit-status", "GET /alerts at %s: %s inhibitedBy %v, the inhibition rule says inhibited=%v", tau.Format(tf), key, a.InhibitedBy, inh))
				}
				wantState := "active"
				if len(wantSil) > 0 || m.Inhibited(key, tau) {
					wantState = "suppressed"
				}
				if a.State != wantState {
					kind := "api-silence-status"
					if len(wantSil) == 0 {
						kind = "api-inhibit-status"
					}
					add(pbt.V(kind, "GET /alerts at %s: %s state %q, expected %q", tau.Format(tf), key, a.State, wantState))
				}
			}
		}
		if smp.DispGroups != nil || smp.Groups != nil {
			// no two live groups with the same (route, labels)
			seen := map[string]bool{}
			for _, g := range smp.DispGroups {
				k := g.RouteID + "|" + ref.LabelKey(g.Labels)
				if seen[k] {
					add(pbt.V("api-groups", "at %s two live aggregation groups for route %s labels %v", tau.Format(tf), g.RouteID, g.Labels))
				}
				seen[k] = true
			}
			// the partition of the currently firing alerts
			want := map[string]int{}
			type gk struct{ id, r, l string }
			part := map[gk][]string{}
			for _, key := range m.Alerts.Keys() {
				if !m.Alerts.Firing(key, tau) {
					continue
				}
				ls := m.Alerts.Labels[key]
				for _, rt := range cfg.Match(ls) {
					k := gk{rt.ID, rt.Receiver, ref.LabelKey(rt.GroupLabels(ls))}
					part[k] = append(part[k], key)
				}
			}
			for k, keys := range part {
				sort.Strings(keys)
				want[k.r+"|"+k.l+"|"+fmt.Sprint(keys)]++
			}
			gotAPI := map[string]int{}
			for _, g := range smp.Groups {
				var keys []string
				for _, a := range g.Alerts {
					if a.End.After(tau) {
						keys = append(keys, a.Key)
					}
				}
				if len(keys) == 0 {
					continue
				}
				sort.Strings(keys)
				gotAPI[g.Receiver+"|"+ref.LabelKey(g.Labels)+"|"+fmt.Sprint(keys)]++
			}
			gotDisp := map[string]int{}
			for _, g := range smp.DispGroups {
				var keys []string
				for _, k := range g.Alerts {
					if m.Alerts.Firing(k, tau) {
						keys = append(keys, k)
					}
				}
				if len(keys) == 0 {
					continue
				}
				gotDisp[g.Receiver+"|"+ref.LabelKey(g.Labels)+"|"+fmt.Sprint(keys)]++
			}
			if !m.noDisruption(tau.Add(-time.Second), tau) {
				continue
			}
			// mutedBy: the names the time-interval stages recorded at the group's last flush
			if m.sc.Opts.EffDelay() == 0 && len(m.Restarts) == 0 && len(m.Reloads) == 0 {
				for _, g := range smp.Groups {
					if len(g.Alerts) == 0 {
						continue
					}
					ls := m.Alerts.Labels[g.Alerts[0].Key]
					for _, rt := range cfg.Match(ls) {
						if rt.Receiver != g.Receiver || ref.LabelKey(rt.GroupLabels(ls)) != ref.LabelKey(g.Labels) {
							continue
						}
						gk := rt.GroupKey(ls)
						var last, next time.Time
						var lastG, nextG string
						for _, f := range tr.Flushes {
							if f.GroupKey != gk {
								continue
							}
							if !f.At.After(tau) && f.At.After(last) {
								last, lastG = f.At, f.Group
							}
							if f.At.After(tau) && (next.IsZero() || f.At.Before(next)) {
								next, nextG = f.At, f.Group
							}
						}
						// the marker belongs to one incarnation of the group: judge only when the flushes before and after
						// the request are by the same aggregation group object
						if last.IsZero() || next.IsZero() || lastG != nextG || len(cfg.Match(ls)) > 1 {
							continue
						}
						var wantMute, wantActive []string
						for _, n := range rt.Mute {
							if cfg.intervalContains(n, last) {
								wantMute = append(wantMute, n)
							}
						}
						activeOK := len(rt.Active) == 0
						for _, n := range rt.Active {
							if cfg.intervalContains(n, last) {
								activeOK = true
							}
						}
						if !activeOK {
							wantActive = append([]string(nil), rt.Active...)
						}
						// (a name is listed once per matching entry of its definition: compared as a set)
						got := append([]string(nil), g.Alerts[0].MutedBy...)
						sort.Strings(got)
						got = slices.Compact(got)
						sort.Strings(wantMute)
						sort.Strings(wantActive)
						union := append(append([]string(nil), wantMute...), wantActive...)
						sort.Strings(union)
						ok := false
						for _, w := range [][]string{wantMute, wantActive, union} {
							if fmt.Sprint(w) == fmt.Sprint(got) && (len(w) > 0) == (len(wantMute)+len(wantActive) > 0) {
								ok = true
							}
						}
						if len(wantMute)+len(wantActive) == 0 && len(got) == 0 {
							ok = true
						}
						if !ok {
							add(pbt.V("api-muted-by", "GET /alerts/groups at %s: group %s mutedBy %v, but at its last flush (%s) the muting intervals were %v and the unsatisfied active intervals %v", tau.Format(tf), gk, got, last.Format(tf), wantMute, wantActive))
						}
					}
				}
			}
			if fmt.Sprint(sortedCounts(want)) != fmt.Sprint(sortedCounts(gotAPI)) {
				add(pbt.V("api-groups", "GET /alerts/groups at %s shows %v, the partition of the firing alerts by route and group_by is %v", tau.Format(tf), sortedCounts(gotAPI), sortedCounts(want)))
			}
			if fmt.Sprint(sortedCounts(want)) != fmt.Sprint(sortedCounts(gotDisp)) {
				add(pbt.V("api-groups", "Dispatcher.Groups at %s shows %v, the partition of the firing alerts by route and group_by is %v", tau.Format(tf), sortedCounts(gotDisp), sortedCounts(want)))
			}
		}
	}
	return vs
}

func sortedCounts(m map[string]int) []string {
	var out []string
	for k, n := range m {
		out = append(out, fmt.Sprintf("%s x%d", k, n))
	}
	sort.Strings(out)
	return out
}

// rolledBack: a restart from the last maintenance snapshot (or without one) lies in (t1, t2): the log has
// forgotten what the receiver was told since that snapshot, so "the latest delivered notification" and the
// log may legitimately disagree until the next repeat.
func rolledBack(m *Model, t1, t2 time.Time) bool {
	for _, r := range m.Restarts {
		if r.Kind != "clean" && r.At.After(t1) && r.At.Before(t2) {
			return true
		}
	}
	return false
}

// started: t is not inside the dispatch start delay of the process incarnation running at t.
func (m *Model) started(t time.Time) bool {
	start := m.tr.Start
	for _, r := range m.Restarts {
		if !r.At.After(t) {
			start = r.At
		}
	}
	return !t.Before(start.Add(time.Duration(m.sc.Opts.EffDelay()) * time.Second))
}

// longInFlight: some delivery attempt of the group lasts longer than the slow slack and overlaps [t1, t2]: the
// group's flushes are serialised, so one integration's long delivery (a notifier that ignores cancellation)
// holds up every later flush of the group, for all of its integrations.
func (m *Model) longInFlight(groupKey string, t1, t2 time.Time) bool {
	for i := range m.tr.Attempts {
		a := &m.tr.Attempts[i]
		if a.GroupKey == groupKey && !a.T.After(t2) && a.Done.After(t1) && a.Done.Sub(a.T) > slowSlack {
			return true
		}
	}
	return false
}
