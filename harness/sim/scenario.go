package sim

import (
	"time"

	"verif/harness/ref"
)

// Options mirrors the command-line options of alertmanager that matter here (seconds).
type Options struct {
	Retention   int `json:"retention"`    // data.retention
	AlertGC     int `json:"alert_gc"`     // alerts.gc-interval
	DispMaint   int `json:"disp_maint"`   // dispatch.maintenance-interval
	Maint       int `json:"maint"`        // data.maintenance-interval (nflog + silences GC/snapshot)
	StartDelay  int `json:"start_delay"`  // dispatch.start-delay
	PeerTimeout int `json:"peer_timeout"` // cluster.peer-timeout
	// Settle (cluster mode): the gossip of an instance counts as settled that many seconds after its process started
	// (cluster.Peer.WaitReady blocks until then); flushes that begin earlier wait in the first pipeline stage, up to
	// their deadline. For the oracles it acts like a longer dispatch start delay.
	Settle int `json:"settle,omitempty"`
	// GroupLimit: run the dispatcher with an aggregation-group limit that can never legitimately bind: the number of
	// distinct (route, group labels) pairs the scenario's configurations and label sets can produce, plus two
	// (the counter may transiently run ahead of the map by the groups a maintenance sweep is just removing)
	GroupLimit bool `json:"group_limit,omitempty"`
}

// EffDelay: seconds after a process start before which no delivery is expected of it.
func (o Options) EffDelay() int { return max(o.StartDelay, o.Settle) }

// GetFlags are the query parameters of a filtered GET /alerts.
type GetFlags struct {
	Active    bool   `json:"active"`
	Silenced  bool   `json:"silenced"`
	Inhibited bool   `json:"inhibited"`
	Receiver  string `json:"receiver,omitempty"` // regular expression, anchored by the API
}

type PostAlert struct {
	LS    int  `json:"ls"`              // index into Scenario.LabelSets
	Start *int `json:"start,omitempty"` // startsAt = now + seconds (nil: missing)
	End   *int `json:"end,omitempty"`   // endsAt = now + seconds (nil: missing → resolve_timeout)
}

type SilenceSpec struct {
	Matchers []ref.Matcher `json:"matchers"`
	StartOff int           `json:"start_off"` // seconds from now (<=0: now)
	EndOff   int           `json:"end_off"`   // seconds from now
}

// Behave sets how an integration reacts to attempts from now on.
type Behave struct {
	Receiver string `json:"receiver"`
	Idx      int    `json:"idx"`
	Kind     string `json:"kind"` // ok | recoverable | unrecoverable | slow | hang
	D        int    `json:"d,omitempty"`
	Us       int    `json:"us,omitempty"` // slow: extra microseconds on top of D seconds (a delivery accepted a moment before the next tick)
}

// Dur: how long a slow delivery takes.
func (b Behave) Dur() time.Duration {
	return time.Duration(b.D)*time.Second + time.Duration(b.Us)*time.Microsecond
}

type Step struct {
	Dt      int          `json:"dt"` // whole seconds since the previous step
	Op      string       `json:"op"` // post | silence | expire | behave | reload | restart | get-alerts | get-groups | noop
	Inst    int          `json:"inst,omitempty"`
	Alerts  []PostAlert  `json:"alerts,omitempty"`
	Silence *SilenceSpec `json:"silence,omitempty"`
	SilRef  int          `json:"sil_ref,omitempty"` // expire: index of the creating step
	Behave  *Behave      `json:"behave,omitempty"`
	Config  *Config      `json:"config,omitempty"`  // reload
	Restart string       `json:"restart,omitempty"` // clean | stale | none
	Flags   *GetFlags    `json:"flags,omitempty"`   // get-alerts: a second, filtered request
}

type Scenario struct {
	Config    Config              `json:"config"`
	Opts      Options             `json:"opts"`
	LabelSets []map[string]string `json:"label_sets"`
	Steps     []Step              `json:"steps"`
	Tail      int                 `json:"tail"` // seconds simulated after the last step
}

// ------------------------------------------------------------------- trace

type AttemptAlert struct {
	Key      string    `json:"key"` // ref.LabelKey of the labels
	Resolved bool      `json:"resolved"`
	Start    time.Time `json:"start"`
	End      time.Time `json:"end"`
}

type Attempt struct {
	Inst        int               `json:"inst"`
	T           time.Time         `json:"t"`     // attempt start
	Done        time.Time         `json:"done"`  // attempt end
	Tick        time.Time         `json:"tick"`  // flush tick carried as Now in the context (may be older than the flush: the timer may have fired while the group was not running)
	Flush       time.Time         `json:"flush"` // instant at which the flush that made this attempt started (hook flush.enter)
	Deadline    time.Time         `json:"deadline"`
	Receiver    string            `json:"receiver"`
	Idx         int               `json:"idx"`
	GroupKey    string            `json:"group_key"`
	GroupLabels map[string]string `json:"group_labels"`
	RouteID     string            `json:"route_id"`
	AggrGroupID string            `json:"aggr_group_id"`
	FlushID     uint64            `json:"flush_id"`
	Reason      string            `json:"reason"`
	Repeat      time.Duration     `json:"repeat"`
	Alerts      []AttemptAlert    `json:"alerts"`
	Outcome     string            `json:"outcome"`            // ok | recoverable | unrecoverable | ctx
	Epoch       int               `json:"epoch"`              // instance incarnation (restart counter)
	Entry       *NflogEntry       `json:"entry,omitempty"`    // cluster mode: the sending instance's own log entry for (group, integration) at the attempt
	Replaced    bool              `json:"replaced,omitempty"` // made by the pipeline of a dispatcher that had already been stopped and replaced (config reload)
}

func (a *Attempt) OK() bool { return a.Outcome == "ok" }

type NflogEntry struct {
	GroupKey  string    `json:"group_key"`
	Receiver  string    `json:"receiver"`
	Idx       int       `json:"idx"`
	Found     bool      `json:"found"`
	Timestamp time.Time `json:"timestamp"`
	Firing    []uint64  `json:"firing"`
	Resolved  []uint64  `json:"resolved"`
}

type APIAlert struct {
	Key         string    `json:"key"`
	Start       time.Time `json:"start"`
	End         time.Time `json:"end"`
	Receivers   []string  `json:"receivers"`
	State       string    `json:"state"`
	SilencedBy  []string  `json:"silenced_by"`
	InhibitedBy []string  `json:"inhibited_by"`
	MutedBy     []string  `json:"muted_by"`
}

type APIGroup struct {
	Receiver string            `json:"receiver"`
	Labels   map[string]string `json:"labels"`
	Alerts   []APIAlert        `json:"alerts"`
}

type DispGroup struct {
	RouteID  string            `json:"route_id"`
	GroupKey string            `json:"group_key"`
	Receiver string            `json:"receiver"`
	Labels   map[string]string `json:"labels"`
	Alerts   []string          `json:"alerts"` // keys of alerts with end >= now
}

// Sample is what the interpreter observes at a step instant (after the step's
// action was performed and the system quiesced).
type Sample struct {
	Step       int          `json:"step"` // len(steps) = final sample
	At         time.Time    `json:"at"`
	Nflog      []NflogEntry `json:"nflog"`
	PostStatus int          `json:"post_status,omitempty"`
	SilenceID  string       `json:"silence_id,omitempty"`
	Alerts     []APIAlert   `json:"alerts,omitempty"`      // get-alerts
	Filtered   []APIAlert   `json:"filtered,omitempty"`    // get-alerts with Step.Flags, same instant
	FilteredOK bool         `json:"filtered_ok,omitempty"` // the filtered request was made and answered 200
	Groups     []APIGroup   `json:"groups,omitempty"`      // get-groups (API)
	DispGroups []DispGroup  `json:"disp_groups,omitempty"` // get-groups (Dispatcher.Groups)
	GroupGauge float64      `json:"group_gauge,omitempty"`
}

type Trace struct {
	Start  time.Time   `json:"start"`
	StepAt []time.Time `json:"step_at"`
	// RestartSilSnap: per restart step in order, the instant of the silence snapshot the new process started
	// from (the stop instant for a clean restart, the last maintenance run for a stale one, zero for none)
	RestartSilSnap []time.Time     `json:"restart_sil_snap,omitempty"`
	End            time.Time       `json:"end"`
	Attempts       []Attempt       `json:"attempts"`
	Samples        []Sample        `json:"samples"`
	Starts         []time.Time     `json:"starts"`      // instants at which the instance (re)started its process-lifetime components
	DispStarts     []time.Time     `json:"disp_starts"` // instants at which a dispatcher was (re)created (reload or restart)
	Errors         []string        `json:"errors,omitempty"`
	FlushStorm     []string        `json:"flush_storm,omitempty"`
	Flushes        []FlushEnter    `json:"flushes,omitempty"`
	PipelineEnters []PipelineEnter `json:"pipeline_enters,omitempty"`
	HookLog        []string        `json:"hook_log,omitempty"`
	Net            map[string]int  `json:"net,omitempty"`            // cluster mode: message counters of the harness network
	PushPullGaps   []string        `json:"push_pull_gaps,omitempty"` // cluster mode: entries a full-state exchange failed to hand over
	Arrivals       []Arrival       `json:"arrivals,omitempty"`       // cluster mode: gossip deliveries of notification-log entries
	LogWrites      []LogWrite      `json:"log_writes,omitempty"`     // cluster mode: notification-log entries written locally by each instance
}

// PipelineEnter: a flush of one instance handed its alerts to the notification pipeline.
type PipelineEnter struct {
	Inst        int       `json:"inst"`
	AggrGroupID string    `json:"aggr_group_id"`
	FlushID     uint64    `json:"flush_id"`
	At          time.Time `json:"at"`
}

// FlushEnter is recorded by the flush.enter hook point.
type FlushEnter struct {
	GroupKey string    `json:"group_key"`
	Group    string    `json:"group"` // identity of the aggregation group object (one incarnation of the group)
	At       time.Time `json:"at"`
}

// LogWrite is one locally written notification-log entry (cluster mode).
type LogWrite struct {
	Inst     int       `json:"inst"`
	At       time.Time `json:"at"`
	GroupKey string    `json:"group_key"`
	Receiver string    `json:"receiver"`
	Idx      int       `json:"idx"`
	Firing   []uint64  `json:"firing"`
	Resolved []uint64  `json:"resolved"`
	Oversize bool      `json:"oversize,omitempty"` // the broadcast exceeds the gossip limit: sent reliably, peer by peer
}

// Arrival is one notification-log entry delivered by the harness network to an instance.
type Arrival struct {
	Inst      int       `json:"inst"`
	At        time.Time `json:"at"`
	GroupKey  string    `json:"group_key"`
	Receiver  string    `json:"receiver"`
	Idx       int       `json:"idx"`
	Timestamp time.Time `json:"timestamp"`
}
