package sim

import (
	"bytes"
	"context"
	"encoding/json"
	"errors"
	"fmt"
	"log/slog"
	"net/http/httptest"
	"net/url"
	"sort"
	"strings"
	"sync"
	"time"

	"github.com/cespare/xxhash/v2"
	"github.com/prometheus/client_golang/prometheus"
	"github.com/prometheus/common/model"
	"github.com/prometheus/common/promslog"

	"github.com/prometheus/alertmanager/alert"
	apiv2 "github.com/prometheus/alertmanager/api/v2"
	"github.com/prometheus/alertmanager/config"
	"github.com/prometheus/alertmanager/dispatch"
	"github.com/prometheus/alertmanager/eventrecorder"
	"github.com/prometheus/alertmanager/featurecontrol"
	"github.com/prometheus/alertmanager/inhibit"
	"github.com/prometheus/alertmanager/marker"
	"github.com/prometheus/alertmanager/nflog"
	"github.com/prometheus/alertmanager/nflog/nflogpb"
	"github.com/prometheus/alertmanager/notify"
	"github.com/prometheus/alertmanager/provider/mem"
	"github.com/prometheus/alertmanager/silence"
	"github.com/prometheus/alertmanager/template"
	"github.com/prometheus/alertmanager/timeinterval"

	"verif/harness/ref"
)

var nopLog = promslog.NewNopLogger()

// AlertHash mirrors the hash the notification log uses for an alert (xxhash
// over sorted name\xffvalue\xff pairs).
func AlertHash(ls map[string]string) uint64 {
	names := make([]string, 0, len(ls))
	for n := range ls {
		names = append(names, n)
	}
	sort.Strings(names)
	var b []byte
	for _, n := range names {
		b = append(b, n...)
		b = append(b, 0xff)
		b = append(b, ls[n]...)
		b = append(b, 0xff)
	}
	return xxhash.Sum64(b)
}

type sendResolved bool

func (s sendResolved) SendResolved() bool { return bool(s) }

// Sim is one running scenario: instances + shared trace.
type Sim struct {
	sc    *Scenario
	mtx   sync.Mutex
	trace *Trace
	// behaviour per "receiver/idx"
	behave map[string]Behave
	insts  []*Instance
	seq    int
}

// Instance is one in-process Alertmanager built like app.setup + reloader.reload do.
type Instance struct {
	sim   *Sim
	idx   int
	epoch int

	spec *Config
	conf *config.Config

	reg      *prometheus.Registry
	silences *silence.Silences
	silencer *silence.Silencer
	nflog    *nflog.Log
	alerts   *mem.Alerts
	gmarker  marker.GroupMarker
	api      *apiv2.API
	pbuilder *notify.PipelineBuilder
	gen      int // pipeline generation in force (incremented once the previous dispatcher has been stopped)
	genMtx   sync.Mutex
	oldDisps []*dispatch.Dispatcher
	dmetrics *dispatch.DispatcherMetrics

	disp *dispatch.Dispatcher
	inh  *inhibit.Inhibitor

	startTime time.Time
	stopc     chan struct{}
	wg        sync.WaitGroup
	cancel    context.CancelFunc

	snapMtx   sync.Mutex
	silSnap   []byte // snapshot taken by the last maintenance run
	silSnapAt time.Time
	nflogSnap []byte

	dead chan struct{} // closed when the process (instance) stops

	// cluster mode (nil / zero in single-instance scenarios)
	position  func() int // this instance's view of its position among the peers
	clustered bool
}

// settlingPeer is the notify.Peer of cluster mode: like cluster.Peer.WaitReady it blocks until the mesh counts as
// settled (ready) or the context ends.
type settlingPeer struct{ ready time.Time }

func (p settlingPeer) WaitReady(ctx context.Context) error {
	d := time.Until(p.ready)
	if d <= 0 {
		return nil
	}
	tm := time.NewTimer(d)
	defer tm.Stop()
	select {
	case <-tm.C:
		return nil
	case <-ctx.Done():
		return ctx.Err()
	}
}

type scripted struct {
	inst     *Instance
	receiver string
	idx      int
	gen      int // the pipeline generation (configuration load) this integration belongs to
}

func mapOf(ls model.LabelSet) map[string]string {
	m := make(map[string]string, len(ls))
	for k, v := range ls {
		m[string(k)] = string(v)
	}
	return m
}

func (n *scripted) Notify(ctx context.Context, alerts ...*alert.Alert) (bool, error) {
	s := n.inst.sim
	at := Attempt{Inst: n.inst.idx, T: time.Now(), Receiver: n.receiver, Idx: n.idx, Epoch: n.inst.epoch}
	n.inst.genMtx.Lock()
	at.Replaced = n.gen != n.inst.gen
	n.inst.genMtx.Unlock()
	at.GroupKey, _ = notify.GroupKey(ctx)
	if gl, ok := notify.GroupLabels(ctx); ok {
		at.GroupLabels = mapOf(gl)
	}
	at.RouteID, _ = notify.RouteID(ctx)
	at.AggrGroupID, _ = notify.AggrGroupID(ctx)
	at.FlushID, _ = notify.FlushID(ctx)
	at.Tick, _ = notify.Now(ctx)
	at.Repeat, _ = notify.RepeatInterval(ctx)
	if r, ok := notify.NotificationReason(ctx); ok {
		at.Reason = r.String()
	}
	at.Deadline, _ = ctx.Deadline()
	for _, a := range alerts {
		at.Alerts = append(at.Alerts, AttemptAlert{Key: ref.LabelKey(mapOf(a.Labels)), Resolved: a.Resolved(), Start: a.StartsAt, End: a.EndsAt})
	}
	if n.inst.clustered {
		iname, iidx := IntegrationName(n.idx)
		if es, err := n.inst.nflog.Query(nflog.QGroupKey(at.GroupKey), nflog.QReceiver(&nflogpb.Receiver{GroupName: n.receiver, Integration: iname, Idx: uint32(iidx)})); err == nil && len(es) == 1 {
			at.Entry = &NflogEntry{Found: true, Timestamp: es[0].Timestamp.AsTime(), Firing: append([]uint64(nil), es[0].FiringAlerts...), Resolved: append([]uint64(nil), es[0].ResolvedAlerts...)}
		}
	}
	s.mtx.Lock()
	b, ok := s.behave[fmt.Sprintf("%s/%d", n.receiver, n.idx)]
	s.mtx.Unlock()
	if !ok {
		b = Behave{Kind: "ok"}
	}
	var (
		retry bool
		err   error
	)
	switch b.Kind {
	case "ok":
		// A real delivery takes time. A unique number of nanoseconds per attempt keeps the
		// instants at which deliveries complete (= notification-log timestamps) distinct, as
		// they are with a real clock: with equal timestamps the log keeps the first of two
		// writes, which is an artefact of virtual time.
		s.mtx.Lock()
		s.seq++
		d := time.Duration(s.seq%997+1) * time.Nanosecond
		s.mtx.Unlock()
		select {
		case <-time.After(d):
			at.Outcome = "ok"
		case <-ctx.Done():
			at.Outcome, retry, err = "ctx", true, ctx.Err()
		}
	case "recoverable":
		at.Outcome, retry, err = "recoverable", true, errors.New("scripted recoverable failure")
	case "unrecoverable":
		at.Outcome, retry, err = "unrecoverable", false, errors.New("scripted unrecoverable failure")
	case "slow":
		select {
		case <-time.After(b.Dur()):
			at.Outcome = "ok"
		case <-ctx.Done():
			at.Outcome, retry, err = "ctx", true, ctx.Err()
		}
	case "slowx":
		// a receiver that does not abort on cancellation: the request completes (successfully) after D
		// seconds even if the flush context has ended meanwhile (e.g. an SMTP exchange in progress)
		select {
		case <-time.After(time.Duration(b.D) * time.Second):
			at.Outcome = "ok"
		case <-n.inst.dead:
			// the process was stopped or killed: the request dies with it
			at.Outcome, retry, err = "killed", true, errors.New("process stopped")
		}
	case "hang":
		<-ctx.Done()
		at.Outcome, retry, err = "ctx", true, ctx.Err()
	default:
		at.Outcome = "ok"
	}
	at.Done = time.Now()
	s.mtx.Lock()
	s.trace.Attempts = append(s.trace.Attempts, at)
	s.mtx.Unlock()
	return retry, err
}

func (s *Sim) errf(format string, a ...any) {
	s.mtx.Lock()
	s.trace.Errors = append(s.trace.Errors, fmt.Sprintf(format, a...))
	s.mtx.Unlock()
}

// newInstance builds the long-lived components (app.setup). Snapshots may be nil.
func (s *Sim) newInstance(idx, epoch int, spec *Config, silSnap, nflogSnap []byte) (*Instance, error) {
	return s.newInstanceWith(idx, epoch, spec, silSnap, nflogSnap, nil)
}

func (s *Sim) newInstanceWith(idx, epoch int, spec *Config, silSnap, nflogSnap []byte, prepare func(*Instance)) (*Instance, error) {
	in := &Instance{sim: s, idx: idx, epoch: epoch, reg: prometheus.NewRegistry(), startTime: time.Now(), stopc: make(chan struct{}), dead: make(chan struct{})}
	if prepare != nil {
		prepare(in)
	}
	o := s.sc.Opts
	retention := time.Duration(o.Retention) * time.Second

	nopts := nflog.Options{Retention: retention, Logger: nopLog, Metrics: in.reg}
	if nflogSnap != nil {
		nopts.SnapshotReader = bytes.NewReader(nflogSnap)
	}
	nl, err := nflog.New(nopts)
	if err != nil {
		return nil, fmt.Errorf("nflog.New: %w", err)
	}
	in.nflog = nl
	in.nflogSnap = nflogSnap
	maint := time.Duration(o.Maint) * time.Second
	in.wg.Go(func() {
		nl.Maintenance(maint, "", in.stopc, func() (int64, error) {
			if _, err := nl.GC(); err != nil {
				return 0, err
			}
			var buf bytes.Buffer
			n, err := nl.Snapshot(&buf)
			if err == nil {
				in.snapMtx.Lock()
				in.nflogSnap = buf.Bytes()
				in.snapMtx.Unlock()
			}
			return n, err
		})
	})

	in.gmarker = marker.NewGroupMarker()
	sopts := silence.Options{Retention: retention, Logger: nopLog, Metrics: in.reg, EventRecorder: eventrecorder.NopRecorder(),
		Limits: silence.Limits{MaxSilences: func() int { return 0 }, MaxSilenceSizeBytes: func() int { return 0 }}}
	if silSnap != nil {
		sopts.SnapshotReader = bytes.NewReader(silSnap)
	}
	sil, err := silence.New(sopts)
	if err != nil {
		return nil, fmt.Errorf("silence.New: %w", err)
	}
	in.silences = sil
	in.silSnap = silSnap
	in.wg.Go(func() {
		sil.Maintenance(maint, "", in.stopc, func() (int64, error) {
			if _, err := sil.GC(); err != nil {
				return 0, err
			}
			var buf bytes.Buffer
			n, err := sil.Snapshot(&buf)
			if err == nil {
				in.snapMtx.Lock()
				in.silSnap = buf.Bytes()
				in.silSnapAt = time.Now()
				in.snapMtx.Unlock()
			}
			return n, err
		})
	})
	in.silencer = silence.NewSilencer(sil, nopLog, eventrecorder.NopRecorder())

	ctx, cancel := context.WithCancel(context.Background())
	in.cancel = cancel
	in.alerts, err = mem.NewAlerts(ctx, time.Duration(o.AlertGC)*time.Second, 0, in.silencer, nopLog, eventrecorder.NopRecorder(), in.reg, featurecontrol.NoopFlags{})
	if err != nil {
		return nil, err
	}
	groupFn := func(ctx context.Context, rf func(*dispatch.Route) bool, af func(*alert.Alert, time.Time) bool) (dispatch.AlertGroups, map[model.Fingerprint][]string, error) {
		return in.disp.Groups(ctx, rf, af)
	}
	in.api, err = apiv2.NewAPI(in.alerts, groupFn, in.gmarker.Muted, sil, nil, nopLog, in.reg)
	if err != nil {
		return nil, err
	}
	in.pbuilder = notify.NewPipelineBuilder(in.reg, featurecontrol.NoopFlags{}, eventrecorder.NopRecorder())
	in.dmetrics = dispatch.NewDispatcherMetrics(false, in.reg, featurecontrol.NoopFlags{})
	if err := in.reload(spec); err != nil {
		return nil, err
	}
	s.mtx.Lock()
	s.trace.Starts = append(s.trace.Starts, in.startTime)
	s.mtx.Unlock()
	return in, nil
}

// reload mirrors app/reloader.go: reload().
func (in *Instance) reload(spec *Config) error {
	conf, err := config.Load(spec.YAML())
	if err != nil {
		return fmt.Errorf("config.Load: %w\n%s", err, spec.YAML())
	}
	tmpl, err := template.FromGlobs(conf.Templates)
	if err != nil {
		return err
	}
	routes := dispatch.NewRoute(conf.Route, nil)
	active := map[string]struct{}{}
	routes.Walk(func(rt *dispatch.Route) { active[rt.RouteOpts.Receiver] = struct{}{} })
	receivers := map[string][]notify.Integration{}
	for _, rcv := range conf.Receivers {
		if _, ok := active[rcv.Name]; !ok {
			continue
		}
		var ins []notify.Integration
		// same order as config/receiver.BuildReceiverIntegrations: all webhooks, then all discords
		for i, wc := range rcv.WebhookConfigs {
			ins = append(ins, notify.NewIntegration(&scripted{inst: in, receiver: rcv.Name, idx: i, gen: in.gen + 1}, sendResolved(wc.SendResolved()), "webhook", i, rcv.Name))
		}
		for i, dc := range rcv.DiscordConfigs {
			ins = append(ins, notify.NewIntegration(&scripted{inst: in, receiver: rcv.Name, idx: DiscordBase + i, gen: in.gen + 1}, sendResolved(dc.SendResolved()), "discord", i, rcv.Name))
		}
		receivers[rcv.Name] = ins
	}
	tis := map[string][]timeinterval.TimeInterval{}
	for _, ti := range conf.MuteTimeIntervals {
		tis[ti.Name] = ti.TimeIntervals
	}
	for _, ti := range conf.TimeIntervals {
		tis[ti.Name] = ti.TimeIntervals
	}
	intervener := timeinterval.NewIntervener(tis)

	if in.inh != nil {
		in.inh.Stop()
	}
	if in.disp != nil {
		in.disp.Stop()
		in.oldDisps = append(in.oldDisps, in.disp)
	}
	// from here on the previous dispatcher has returned from Stop: nothing of its pipeline may notify any more
	in.genMtx.Lock()
	in.gen++
	in.genMtx.Unlock()
	newInh := inhibit.NewInhibitor(in.alerts, conf.InhibitRules, nopLog, eventrecorder.NopRecorder())
	wait := func() time.Duration { return 0 }
	var peer notify.Peer
	if in.clustered {
		// app/cluster.go clusterWait: one peer timeout per position
		pt := time.Duration(in.sim.sc.Opts.PeerTimeout) * time.Second
		wait = func() time.Duration { return time.Duration(in.position()) * pt }
		peer = settlingPeer{ready: in.startTime.Add(time.Duration(in.sim.sc.Opts.Settle) * time.Second)}
	}
	timeoutFunc := func(d time.Duration) time.Duration {
		if d < notify.MinTimeout {
			d = notify.MinTimeout
		}
		return d + wait()
	}
	var pipeline notify.Stage = in.pbuilder.New(receivers, wait, newInh, in.silencer, intervener, in.gmarker, in.nflog, peer)
	// note when each flush hands its alerts to the pipeline (= the start of the flush, per instance: the global hook
	// point flush.enter does not say which instance flushes)
	inner := pipeline
	idx := in.idx
	pipeline = notify.StageFunc(func(ctx context.Context, l *slog.Logger, as ...*alert.Alert) (context.Context, []*alert.Alert, error) {
		pe := PipelineEnter{Inst: idx, At: time.Now()}
		pe.AggrGroupID, _ = notify.AggrGroupID(ctx)
		pe.FlushID, _ = notify.FlushID(ctx)
		in.sim.mtx.Lock()
		in.sim.trace.PipelineEnters = append(in.sim.trace.PipelineEnters, pe)
		in.sim.mtx.Unlock()
		return inner.Exec(ctx, l, as...)
	})
	in.api.Update(conf, func(ctx context.Context, labels model.LabelSet) {
		in.inh.Mutes(ctx, labels)
		in.silencer.Mutes(ctx, labels)
	})
	var limits dispatch.Limits
	if in.sim.sc.Opts.GroupLimit {
		limits = groupLimit(groupLimitOf(in.sim.sc))
	}
	newDisp := dispatch.NewDispatcher(in.alerts, routes, pipeline, in.gmarker, timeoutFunc,
		time.Duration(in.sim.sc.Opts.DispMaint)*time.Second, limits, nopLog, eventrecorder.NopRecorder(), in.dmetrics, tmpl)
	in.wg.Go(newInh.Run)
	newInh.WaitForLoading()
	in.inh = newInh
	in.wg.Go(func() { newDisp.Run(in.startTime.Add(time.Duration(in.sim.sc.Opts.StartDelay) * time.Second)) })
	newDisp.WaitForLoading()
	in.disp = newDisp
	in.spec, in.conf = spec, conf
	in.sim.mtx.Lock()
	in.sim.trace.DispStarts = append(in.sim.trace.DispStarts, time.Now())
	in.sim.mtx.Unlock()
	return nil
}

// stop shuts everything down; clean=true takes the shutdown snapshots.
func (in *Instance) stop(clean bool) (silSnap, nflogSnap []byte) {
	close(in.dead)
	if in.inh != nil {
		in.inh.Stop()
	}
	if in.disp != nil {
		in.disp.Stop()
	}
	// (a replaced dispatcher that survived its Stop is stopped again so that the bubble can end; what it did in the
	// meantime is in the trace)
	for _, d := range in.oldDisps {
		d.Stop()
	}
	if clean {
		var b1, b2 bytes.Buffer
		if _, err := in.silences.Snapshot(&b1); err == nil {
			silSnap = b1.Bytes()
		}
		if _, err := in.nflog.Snapshot(&b2); err == nil {
			nflogSnap = b2.Bytes()
		}
	} else {
		in.snapMtx.Lock()
		silSnap, nflogSnap = in.silSnap, in.nflogSnap
		in.snapMtx.Unlock()
	}
	close(in.stopc)
	in.alerts.Close()
	in.cancel()
	in.wg.Wait()
	return silSnap, nflogSnap
}

// ------------------------------------------------------------------ HTTP

func (in *Instance) do(method, path string, body any) (int, []byte) {
	var rd *bytes.Reader
	if body != nil {
		b, _ := json.Marshal(body)
		rd = bytes.NewReader(b)
	} else {
		rd = bytes.NewReader(nil)
	}
	req := httptest.NewRequest(method, "/api/v2"+path, rd)
	req.Header.Set("Content-Type", "application/json")
	rec := httptest.NewRecorder()
	in.api.Handler.ServeHTTP(rec, req)
	return rec.Code, rec.Body.Bytes()
}

func fmtTime(t time.Time) string { return t.UTC().Format("2006-01-02T15:04:05.000Z07:00") }

func (in *Instance) postAlerts(now time.Time, sc *Scenario, alerts []PostAlert) int {
	var body []map[string]any
	for _, a := range alerts {
		m := map[string]any{"labels": sc.LabelSets[a.LS]}
		if a.Start != nil {
			m["startsAt"] = fmtTime(now.Add(time.Duration(*a.Start) * time.Second))
		}
		if a.End != nil {
			m["endsAt"] = fmtTime(now.Add(time.Duration(*a.End) * time.Second))
		}
		body = append(body, m)
	}
	code, resp := in.do("POST", "/alerts", body)
	if code != 200 {
		in.sim.errf("POST /alerts -> %d %s", code, resp)
	}
	return code
}

func (in *Instance) postSilence(now time.Time, sp *SilenceSpec) string {
	var ms []map[string]any
	for _, m := range sp.Matchers {
		v := m.Value
		if m.Op == "=~" || m.Op == "!~" {
			v = m.Pattern()
		}
		ms = append(ms, map[string]any{"name": m.Name, "value": v, "isRegex": m.Op == "=~" || m.Op == "!~", "isEqual": m.Op == "=" || m.Op == "=~"})
	}
	start := now
	if sp.StartOff > 0 {
		start = now.Add(time.Duration(sp.StartOff) * time.Second)
	}
	body := map[string]any{"matchers": ms, "startsAt": fmtTime(start), "endsAt": fmtTime(now.Add(time.Duration(sp.EndOff) * time.Second)), "createdBy": "sim", "comment": "sim"}
	code, resp := in.do("POST", "/silences", body)
	if code != 200 {
		in.sim.errf("POST /silences -> %d %s", code, resp)
		return ""
	}
	var r struct {
		SilenceID string `json:"silenceID"`
	}
	json.Unmarshal(resp, &r)
	return r.SilenceID
}

func (in *Instance) expireSilence(id string) {
	code, resp := in.do("DELETE", "/silence/"+id, nil)
	// 404: the silence was garbage collected after its retention (C12 decides that precisely)
	if code != 200 && code != 404 {
		in.sim.errf("DELETE /silence/%s -> %d %s", id, code, resp)
	}
}

type apiAlertJSON struct {
	Labels    map[string]string `json:"labels"`
	StartsAt  time.Time         `json:"startsAt"`
	EndsAt    time.Time         `json:"endsAt"`
	Receivers []struct {
		Name string `json:"name"`
	} `json:"receivers"`
	Status struct {
		State       string   `json:"state"`
		SilencedBy  []string `json:"silencedBy"`
		InhibitedBy []string `json:"inhibitedBy"`
		MutedBy     []string `json:"mutedBy"`
	} `json:"status"`
}

func (a apiAlertJSON) conv() APIAlert {
	out := APIAlert{Key: ref.LabelKey(a.Labels), Start: a.StartsAt, End: a.EndsAt, State: a.Status.State,
		SilencedBy: a.Status.SilencedBy, InhibitedBy: a.Status.InhibitedBy, MutedBy: a.Status.MutedBy}
	for _, r := range a.Receivers {
		out.Receivers = append(out.Receivers, r.Name)
	}
	sort.Strings(out.Receivers)
	sort.Strings(out.SilencedBy)
	return out
}

func (in *Instance) getAlerts() []APIAlert {
	code, resp := in.do("GET", "/alerts?active=true&silenced=true&inhibited=true&unprocessed=true", nil)
	if code != 200 {
		in.sim.errf("GET /alerts -> %d %s", code, resp)
		return nil
	}
	var as []apiAlertJSON
	if err := json.Unmarshal(resp, &as); err != nil {
		in.sim.errf("GET /alerts decode: %v", err)
	}
	out := make([]APIAlert, 0, len(as))
	for _, a := range as {
		out = append(out, a.conv())
	}
	return out
}

func (in *Instance) getAlertsFiltered(f GetFlags) ([]APIAlert, bool) {
	q := fmt.Sprintf("/alerts?active=%v&silenced=%v&inhibited=%v", f.Active, f.Silenced, f.Inhibited)
	if f.Receiver != "" {
		q += "&receiver=" + url.QueryEscape(f.Receiver)
	}
	code, resp := in.do("GET", q, nil)
	if code != 200 {
		in.sim.errf("GET %s -> %d %s", q, code, resp)
		return nil, false
	}
	var as []apiAlertJSON
	if err := json.Unmarshal(resp, &as); err != nil {
		in.sim.errf("GET %s decode: %v", q, err)
		return nil, false
	}
	out := make([]APIAlert, 0, len(as))
	for _, a := range as {
		out = append(out, a.conv())
	}
	return out, true
}

// normGroups: a GET /alerts/groups body with the inhibiting alerts' identities blanked and silencedBy sorted.
func normGroups(body []byte) string {
	var gs []map[string]any
	if json.Unmarshal(body, &gs) != nil {
		return string(body)
	}
	for _, g := range gs {
		as, _ := g["alerts"].([]any)
		for _, a := range as {
			am, _ := a.(map[string]any)
			st, _ := am["status"].(map[string]any)
			if st == nil {
				continue
			}
			if ib, _ := st["inhibitedBy"].([]any); len(ib) > 0 {
				st["inhibitedBy"] = "some"
			}
			if sb, _ := st["silencedBy"].([]any); len(sb) > 1 {
				ss := make([]string, len(sb))
				for i, x := range sb {
					ss[i] = fmt.Sprint(x)
				}
				sort.Strings(ss)
				st["silencedBy"] = ss
			}
		}
	}
	out, _ := json.Marshal(gs)
	return string(out)
}

func (in *Instance) getGroups() ([]APIGroup, []DispGroup) {
	code, resp := in.do("GET", "/alerts/groups?active=true&silenced=true&inhibited=true&muted=true", nil)
	if code != 200 {
		in.sim.errf("GET /alerts/groups -> %d %s", code, resp)
		return nil, nil
	}
	// a read changes nothing: the same request again, at the same instant, is answered the same (which of several
	// inhibiting alerts is named is the inhibitor's free choice per evaluation: only "some" or "none" is compared)
	if code2, resp2 := in.do("GET", "/alerts/groups?active=true&silenced=true&inhibited=true&muted=true", nil); code2 != 200 || normGroups(resp) != normGroups(resp2) {
		in.sim.errf("GET /alerts/groups twice at the same instant: first answer %s, second answer (%d) %s", resp, code2, resp2)
	}
	var gs []struct {
		Labels   map[string]string `json:"labels"`
		Receiver struct {
			Name string `json:"name"`
		} `json:"receiver"`
		Alerts []apiAlertJSON `json:"alerts"`
	}
	if err := json.Unmarshal(resp, &gs); err != nil {
		in.sim.errf("GET /alerts/groups decode: %v", err)
	}
	var out []APIGroup
	for _, g := range gs {
		ag := APIGroup{Receiver: g.Receiver.Name, Labels: g.Labels}
		for _, a := range g.Alerts {
			ag.Alerts = append(ag.Alerts, a.conv())
		}
		out = append(out, ag)
	}
	now := time.Now()
	dgs, _, err := in.disp.Groups(context.Background(), func(*dispatch.Route) bool { return true }, func(a *alert.Alert, _ time.Time) bool {
		return a.EndsAt.IsZero() || !a.EndsAt.Before(now)
	})
	if err != nil {
		in.sim.errf("Dispatcher.Groups: %v", err)
	}
	var dout []DispGroup
	for _, g := range dgs {
		dg := DispGroup{RouteID: g.RouteID, GroupKey: g.GroupKey, Receiver: g.Receiver, Labels: mapOf(g.Labels)}
		for _, a := range g.Alerts {
			dg.Alerts = append(dg.Alerts, ref.LabelKey(mapOf(a.Labels)))
		}
		sort.Strings(dg.Alerts)
		dout = append(dout, dg)
	}
	return out, dout
}

func (in *Instance) gauge(name string) float64 {
	mfs, err := in.reg.Gather()
	if err != nil {
		return -1
	}
	for _, mf := range mfs {
		if mf.GetName() == name {
			var sum float64
			for _, m := range mf.GetMetric() {
				if m.Gauge != nil {
					sum += m.Gauge.GetValue()
				}
				if m.Counter != nil {
					sum += m.Counter.GetValue()
				}
			}
			return sum
		}
	}
	return -1
}

// nflogSample queries the log for every (group key, integration) the scenario can produce.
func (in *Instance) nflogSample(keys []NflogEntry) []NflogEntry {
	out := make([]NflogEntry, 0, len(keys))
	for _, k := range keys {
		e := k
		iname, iidx := IntegrationName(k.Idx)
		es, err := in.nflog.Query(nflog.QGroupKey(k.GroupKey), nflog.QReceiver(&nflogpb.Receiver{GroupName: k.Receiver, Integration: iname, Idx: uint32(iidx)}))
		if err == nil && len(es) == 1 {
			e.Found = true
			e.Timestamp = es[0].Timestamp.AsTime()
			e.Firing = append([]uint64(nil), es[0].FiringAlerts...)
			e.Resolved = append([]uint64(nil), es[0].ResolvedAlerts...)
		} else if err != nil && !errors.Is(err, nflog.ErrNotFound) {
			in.sim.errf("nflog.Query: %v", err)
		}
		out = append(out, e)
	}
	return out
}

// ScenarioKeys enumerates every (group key, receiver, integration) that the
// scenario's label sets can produce under cfg.
func ScenarioKeys(cfg *Config, lss []map[string]string) []NflogEntry {
	seen := map[string]bool{}
	var out []NflogEntry
	for _, ls := range lss {
		for _, rt := range cfg.Match(ls) {
			rc := cfg.ReceiverByName(rt.Receiver)
			if rc == nil {
				continue
			}
			gk := rt.GroupKey(ls)
			for _, i := range rc.IDs() {
				k := fmt.Sprintf("%s|%s|%d", gk, rt.Receiver, i)
				if !seen[k] {
					seen[k] = true
					out = append(out, NflogEntry{GroupKey: gk, Receiver: rt.Receiver, Idx: i})
				}
			}
		}
	}
	return out
}

type groupLimit int

func (g groupLimit) MaxNumberOfAggregationGroups() int { return int(g) }

// groupLimitOf: distinct (route, group labels) pairs over every configuration of the scenario, plus two.
func groupLimitOf(sc *Scenario) int {
	seen := map[string]bool{}
	cfgs := []*Config{&sc.Config}
	for i := range sc.Steps {
		if sc.Steps[i].Op == "reload" && sc.Steps[i].Config != nil {
			cfgs = append(cfgs, sc.Steps[i].Config)
		}
	}
	for _, cfg := range cfgs {
		for _, ls := range sc.LabelSets {
			for _, rt := range cfg.Match(ls) {
				seen[rt.GroupKey(ls)] = true
			}
		}
	}
	return len(seen) + 2
}

var _ = strings.Join
