package sim

import (
	"encoding/json"
	"fmt"
	"testing"

	"verif/harness/ref"
)

func TestSmoke(t *testing.T) {
	gb := []string{"a"}
	sc := &Scenario{
		Config: Config{ResolveTimeout: 300,
			Route: &Route{Receiver: "r0", GroupBy: &gb, GroupWait: ip(10), GroupInterval: ip(60), RepeatInterval: ip(600),
				Children: []*Route{{Matchers: []ref.Matcher{{Op: "=", Name: "b", Value: "y"}}, Receiver: "r1"}}},
			Receivers: []Receiver{{Name: "r0", Integrations: []Integration{{SendResolved: true}}}, {Name: "r1", Integrations: []Integration{{SendResolved: false}, {SendResolved: true}}}},
		},
		Opts:      Options{Retention: 7200, AlertGC: 1800, DispMaint: 30, Maint: 900, StartDelay: 0},
		LabelSets: []map[string]string{{"a": "x"}, {"a": "x", "b": "y"}},
		Steps: []Step{
			{Dt: 5, Op: "post", Alerts: []PostAlert{{LS: 0}, {LS: 1, End: ip(120)}}},
			{Dt: 100, Op: "get-alerts"},
			{Dt: 100, Op: "get-groups"},
			{Dt: 100, Op: "post", Alerts: []PostAlert{{LS: 0, End: ip(-1)}}},
		},
		Tail: 1800,
	}
	fmt.Println(sc.Config.YAML())
	tr := Run(t, sc)
	for _, a := range tr.Attempts {
		fmt.Printf("%s tick=%s %s/%d gk=%s rid=%s reason=%q %v %s\n", a.T.Format("15:04:05.000"), a.Tick.Format("15:04:05.000"), a.Receiver, a.Idx, a.GroupKey, a.RouteID, a.Reason, a.Alerts, a.Outcome)
	}
	b, _ := json.Marshal(tr.Samples[1:3])
	fmt.Println(string(b))
	fmt.Println(tr.Errors)
}
