package sim

import (
	"fmt"
	"sort"
	"strings"
)

// Dump renders a human-readable timeline of a run (for debugging and replay output).
func Dump(sc *Scenario, tr *Trace) string {
	var sb strings.Builder
	sb.WriteString(sc.Config.YAML())
	fmt.Fprintf(&sb, "opts %+v tail %d\nlabel sets %v\n", sc.Opts, sc.Tail, sc.LabelSets)
	type ev struct {
		t int64
		s string
	}
	var evs []ev
	for i, st := range sc.Steps {
		if i >= len(tr.StepAt) {
			break
		}
		d := st.Op
		switch st.Op {
		case "post":
			for _, a := range st.Alerts {
				e, s := "timeout", ""
				if a.End != nil {
					e = fmt.Sprintf("end%+ds", *a.End)
				}
				if a.Start != nil {
					s = fmt.Sprintf(" start%+ds", *a.Start)
				}
				d += fmt.Sprintf(" [%v %s%s]", sc.LabelSets[a.LS], e, s)
			}
		case "silence":
			d += fmt.Sprintf(" %+v", *st.Silence)
		case "expire":
			d += fmt.Sprintf(" silence of step %d", st.SilRef)
		case "behave":
			d += fmt.Sprintf(" %+v", *st.Behave)
		case "restart":
			d += " " + st.Restart
		}
		evs = append(evs, ev{tr.StepAt[i].UnixNano(), fmt.Sprintf("%s STEP %d %s", tr.StepAt[i].Format(tf), i, d)})
	}
	for _, a := range tr.Attempts {
		var as []string
		for _, al := range a.Alerts {
			s := "F"
			if al.Resolved {
				s = "R"
			}
			as = append(as, al.Key+s)
		}
		evs = append(evs, ev{a.T.UnixNano(), fmt.Sprintf("%s   attempt %s/%d gk=%s flush=%d tick=%s done=%s %s %q %v", a.T.Format(tf), a.Receiver, a.Idx, a.GroupKey, a.FlushID, a.Tick.Format(tf), a.Done.Format(tf), a.Outcome, a.Reason, as)})
	}
	sort.SliceStable(evs, func(i, j int) bool { return evs[i].t < evs[j].t })
	for _, e := range evs {
		sb.WriteString(e.s + "\n")
	}
	fmt.Fprintf(&sb, "end %s\n", tr.End.Format(tf))
	return sb.String()
}
