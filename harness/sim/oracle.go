package sim

import (
	"fmt"
	"sort"
	"time"

	"verif/harness/pbt"
	"verif/harness/ref"
)

// Model is the reference view of a scenario: what the alert store, silences,
// inhibition, routing and time gating are at any instant, computed from the
// scenario and the step instants only (never from the system's answers).
type Model struct {
	sc *Scenario
	tr *Trace

	Alerts   *AlertModel
	Silences []*silenceRec
	cfgs     []cfgEpoch
	behave   map[string][]behaveRec
	Restarts []restartRec
	Reloads  []time.Time
	critical []time.Time
}

type silenceRec struct {
	SilenceModel
	Step int
	// eras: the stored state of the silence over time. A new era starts when the silence is expired through the
	// API and at every restart (a restart without snapshot loses it; one from the last maintenance snapshot
	// rolls it back to what that snapshot held: an expiry after the snapshot is undone, a silence created
	// after it is gone).
	eras []silEra
}

type silEra struct {
	From   time.Time
	Exists bool
	Expire time.Time // zero: not expired through the API
}

func (s *silenceRec) eraAt(t time.Time) silEra {
	e := silEra{}
	for _, x := range s.eras {
		if x.From.After(t) {
			break
		}
		e = x
	}
	return e
}

func (s *silenceRec) active(t time.Time) bool {
	if t.Before(s.From) || t.Before(s.Start) || t.After(s.End) {
		return false
	}
	e := s.eraAt(t)
	return e.Exists && (e.Expire.IsZero() || t.Before(e.Expire))
}

type cfgEpoch struct {
	From time.Time
	Cfg  *Config
}

type behaveRec struct {
	From time.Time
	B    Behave
}

type restartRec struct {
	At   time.Time
	Kind string
}

func BuildModel(sc *Scenario, tr *Trace) *Model {
	m := &Model{sc: sc, tr: tr, Alerts: NewAlertModel(), behave: map[string][]behaveRec{}}
	m.cfgs = []cfgEpoch{{From: tr.Start, Cfg: &sc.Config}}
	gc := time.Duration(sc.Opts.AlertGC) * time.Second
	nextGC := tr.Start.Add(gc)
	advance := func(to time.Time) {
		for !nextGC.After(to) {
			m.Alerts.GC(nextGC)
			nextGC = nextGC.Add(gc)
		}
	}
	cfg := &sc.Config
	silByStep := map[int]*silenceRec{}
	for i, st := range sc.Steps {
		if i >= len(tr.StepAt) {
			break
		}
		now := tr.StepAt[i]
		advance(now)
		switch st.Op {
		case "post":
			for _, a := range st.Alerts {
				var sp, ep *time.Time
				if a.Start != nil {
					t := now.Add(time.Duration(*a.Start) * time.Second)
					sp = &t
				}
				if a.End != nil {
					t := now.Add(time.Duration(*a.End) * time.Second)
					ep = &t
				}
				m.Alerts.Post(now, sc.LabelSets[a.LS], sp, ep, time.Duration(cfg.ResolveTimeout)*time.Second)
			}
		case "silence":
			s := &silenceRec{Step: i}
			s.From = now
			s.Start = now
			if st.Silence.StartOff > 0 {
				s.Start = now.Add(time.Duration(st.Silence.StartOff) * time.Second)
			}
			s.End = now.Add(time.Duration(st.Silence.EndOff) * time.Second)
			s.Matchers = [][]ref.Matcher{st.Silence.Matchers}
			s.eras = []silEra{{From: now, Exists: true}}
			m.Silences = append(m.Silences, s)
			silByStep[i] = s
		case "expire":
			if s := silByStep[st.SilRef]; s != nil && !now.After(s.End) {
				if e := s.eraAt(now); e.Exists && e.Expire.IsZero() {
					s.eras = append(s.eras, silEra{From: now, Exists: true, Expire: now})
				}
			}
		case "behave":
			k := fmt.Sprintf("%s/%d", st.Behave.Receiver, st.Behave.Idx)
			m.behave[k] = append(m.behave[k], behaveRec{From: now, B: *st.Behave})
		case "reload":
			if st.Config != nil {
				cfg = st.Config
			}
			m.cfgs = append(m.cfgs, cfgEpoch{From: now, Cfg: cfg})
			m.Reloads = append(m.Reloads, now)
		case "restart":
			m.Restarts = append(m.Restarts, restartRec{At: now, Kind: st.Restart})
			if st.Restart != "clean" {
				var snapAt time.Time // zero: started without a snapshot
				if st.Restart == "stale" && len(m.Restarts)-1 < len(tr.RestartSilSnap) {
					snapAt = tr.RestartSilSnap[len(m.Restarts)-1]
				}
				for _, s := range m.Silences {
					if snapAt.IsZero() || s.From.After(snapAt) {
						s.eras = append(s.eras, silEra{From: now})
						continue
					}
					e := s.eraAt(snapAt)
					s.eras = append(s.eras, silEra{From: now, Exists: e.Exists, Expire: e.Expire})
				}
			}
			// the provider is memory only: everything is gone; GC phase restarts
			for key := range m.Alerts.Versions {
				if m.Alerts.cur(key) != nil {
					m.Alerts.Versions[key] = append(m.Alerts.Versions[key], AlertVersion{From: now, Gone: true})
				}
			}
			nextGC = now.Add(gc)
		}
	}
	advance(tr.End)
	// critical instants
	add := func(t time.Time) {
		if !t.IsZero() {
			m.critical = append(m.critical, t)
		}
	}
	for _, t := range tr.StepAt {
		add(t)
	}
	for _, vs := range m.Alerts.Versions {
		for _, v := range vs {
			add(v.From)
			if !v.Gone {
				add(v.End)
				add(v.Start)
			}
		}
	}
	for _, s := range m.Silences {
		add(s.From)
		add(s.Start)
		add(s.End)
		for _, e := range s.eras {
			add(e.From)
			add(e.Expire)
		}
	}
	hasIntervals := false
	for _, c := range m.cfgs {
		if len(c.Cfg.Intervals) > 0 {
			hasIntervals = true
		}
	}
	if hasIntervals {
		for t := tr.Start.Truncate(time.Minute); !t.After(tr.End); t = t.Add(time.Minute) {
			add(t)
		}
	}
	sort.Slice(m.critical, func(i, j int) bool { return m.critical[i].Before(m.critical[j]) })
	return m
}

func (m *Model) CfgAt(t time.Time) *Config {
	c := m.cfgs[0].Cfg
	for _, e := range m.cfgs {
		if !e.From.After(t) {
			c = e.Cfg
		}
	}
	return c
}

func (m *Model) BehaveAt(receiver string, idx int, t time.Time) Behave {
	b := Behave{Kind: "ok"}
	for _, r := range m.behave[fmt.Sprintf("%s/%d", receiver, idx)] {
		if !r.From.After(t) {
			b = r.B
		}
	}
	return b
}

func (m *Model) Silenced(key string, t time.Time) []*silenceRec {
	ls := m.Alerts.Labels[key]
	var out []*silenceRec
	for _, s := range m.Silences {
		if s.active(t) && ref.MatchAny(s.Matchers, ls) {
			out = append(out, s)
		}
	}
	return out
}

func (m *Model) Inhibited(key string, t time.Time) bool {
	cfg := m.CfgAt(t)
	ls := m.Alerts.Labels[key]
	for _, r := range cfg.Inhibit {
		if !ref.MatchAll(r.Target, ls) {
			continue
		}
		both := ref.MatchAll(r.Source, ls)
		for _, sk := range m.Alerts.Keys() {
			if !m.Alerts.Firing(sk, t) {
				continue
			}
			s := m.Alerts.Labels[sk]
			if !ref.MatchAll(r.Source, s) {
				continue
			}
			eq := true
			for _, l := range r.Equal {
				if s[l] != ls[l] {
					eq = false
				}
			}
			if !eq || (both && ref.MatchAll(r.Target, s)) {
				continue
			}
			return true
		}
	}
	return false
}

// Eligible: firing, not silenced, not inhibited, route not time-muted at t.
func (m *Model) Eligible(key string, rt Routed, t time.Time) bool {
	if !m.Alerts.Firing(key, t) {
		return false
	}
	if len(m.Silenced(key, t)) > 0 || m.Inhibited(key, t) {
		return false
	}
	if muted, _ := m.CfgAt(t).TimeMuted(rt, t); muted {
		return false
	}
	return true
}

// During reports whether pred holds at every instant of [t1, t2] (piecewise
// constant between critical instants; both sides of every critical instant
// are probed).
func (m *Model) During(t1, t2 time.Time, pred func(time.Time) bool) bool {
	if t2.Before(t1) {
		return false
	}
	if !pred(t1) || !pred(t2) {
		return false
	}
	i := sort.Search(len(m.critical), func(i int) bool { return !m.critical[i].Before(t1) })
	for ; i < len(m.critical) && !m.critical[i].After(t2); i++ {
		c := m.critical[i]
		for _, p := range []time.Time{c.Add(-time.Nanosecond), c, c.Add(time.Nanosecond)} {
			if p.Before(t1) || p.After(t2) {
				continue
			}
			if !pred(p) {
				return false
			}
		}
	}
	return true
}

// Sometime reports whether pred holds at some instant of the open interval (t1, t2).
func (m *Model) Sometime(t1, t2 time.Time, pred func(time.Time) bool) bool {
	if !t2.After(t1) {
		return false
	}
	probe := []time.Time{t1.Add(time.Nanosecond), t2.Add(-time.Nanosecond)}
	i := sort.Search(len(m.critical), func(i int) bool { return m.critical[i].After(t1) })
	for ; i < len(m.critical) && m.critical[i].Before(t2); i++ {
		c := m.critical[i]
		probe = append(probe, c.Add(-time.Nanosecond), c, c.Add(time.Nanosecond))
	}
	for _, p := range probe {
		if p.After(t1) && p.Before(t2) && pred(p) {
			return true
		}
	}
	return false
}

// noDisruption: no reload/restart in [t1, t2] and the dispatcher is running.
func (m *Model) noDisruption(t1, t2 time.Time) bool {
	for _, r := range m.Reloads {
		if !r.Before(t1) && !r.After(t2) {
			return false
		}
	}
	for _, r := range m.Restarts {
		if !r.At.Before(t1) && !r.At.After(t2) {
			return false
		}
	}
	// dispatch start delay counts from the (re)start of the process
	start := m.tr.Start
	for _, r := range m.Restarts {
		if !r.At.After(t1) {
			start = r.At
		}
	}
	return !t1.Before(start.Add(time.Duration(m.sc.Opts.EffDelay()) * time.Second))
}

// accepts: the integration succeeds (possibly slowly, at most slack) for attempts started anywhere in [t1,t2].
func (m *Model) accepts(receiver string, idx int, t1, t2 time.Time, slack time.Duration) bool {
	ok := func(b Behave) bool {
		return b.Kind == "ok" || (b.Kind == "slow" && b.Dur() <= slack)
	}
	if !ok(m.BehaveAt(receiver, idx, t1)) {
		return false
	}
	for _, r := range m.behave[fmt.Sprintf("%s/%d", receiver, idx)] {
		if r.From.After(t1) && !r.From.After(t2) && !ok(r.B) {
			return false
		}
	}
	return true
}

// GroupMembers: keys of all alerts (ever posted) that the config at t routes to (routeID, groupKey).
func (m *Model) GroupMembers(cfg *Config, routeID, groupKey string) (Routed, []string) {
	var rt Routed
	var keys []string
	for _, k := range m.Alerts.Keys() {
		ls := m.Alerts.Labels[k]
		for _, r := range cfg.Match(ls) {
			if r.ID == routeID && r.GroupKey(ls) == groupKey {
				rt = r
				keys = append(keys, k)
			}
		}
	}
	return rt, keys
}

// ------------------------------------------------------------------ judge

type Stats struct {
	Attempts, Deliveries        int
	KnowledgeObligations        int
	RepeatObligations           int
	ResolvedObligations         int
	DedupedFlushes              int
	SuppressionChecked          int
	RefireInFlight              int
	GroupsRecreated             int
	Failures                    int
	MultiAlertGroups            int
	SuppressionEnded, Restarted bool
	RepeatAcrossReload          int // repeat obligations judged across one config reload
}

const slowSlack = 30 * time.Second
const deliverySlack = 120 * time.Second // largest backoff step (90 s) + slow deliveries

type seqKey struct {
	GroupKey, Receiver string
	Idx                int
}

func Judge(sc *Scenario, tr *Trace) ([]pbt.Violation, Stats) {
	var vs []pbt.Violation
	var st Stats
	add := func(v pbt.Violation) { vs = append(vs, v) }
	for _, e := range tr.Errors {
		add(pbt.V("harness-or-api-error", "%s", e))
	}
	for _, e := range tr.FlushStorm {
		add(pbt.V("flush-storm", "%s", e))
	}
	if len(tr.StepAt) != len(sc.Steps) {
		return vs, st
	}
	m := BuildModel(sc, tr)
	st.Attempts = len(tr.Attempts)
	st.Restarted = len(m.Restarts) > 0

	seqs := map[seqKey][]*Attempt{}
	type flushKey struct {
		ag       string
		id       uint64
		receiver string
		idx      int
	}
	firstOfFlush := map[flushKey]*Attempt{}
	for i := range tr.Attempts {
		a := &tr.Attempts[i]
		k := seqKey{a.GroupKey, a.Receiver, a.Idx}
		seqs[k] = append(seqs[k], a)
		fk := flushKey{a.AggrGroupID, a.FlushID, a.Receiver, a.Idx}
		if f, ok := firstOfFlush[fk]; !ok || a.T.Before(f.T) {
			firstOfFlush[fk] = a
		}
		if a.Outcome != "ok" {
			st.Failures++
		}
	}
	for _, s := range seqs {
		sort.SliceStable(s, func(i, j int) bool { return s[i].T.Before(s[j].T) })
	}
	sendResolvedOf := func(cfg *Config, receiver string, idx int) bool {
		rc := cfg.ReceiverByName(receiver)
		if rc == nil || rc.ByID(idx) == nil {
			return false
		}
		return rc.ByID(idx).SendResolved
	}

	// ---- per-attempt structure (C06), suppression (C02, C03, C15), truthfulness (C05)
	for _, a := range firstOfFlush {
		cfg := m.CfgAt(a.T)
		rt, members := m.GroupMembers(cfg, a.RouteID, a.GroupKey)
		if len(a.Alerts) > 1 {
			st.MultiAlertGroups++
		}
		memberSet := map[string]bool{}
		for _, k := range members {
			memberSet[k] = true
		}
		sr := sendResolvedOf(cfg, a.Receiver, a.Idx)
		if len(members) > 0 && rt.Receiver != a.Receiver {
			add(pbt.V("wrong-receiver", "flush of %s (route %s) went to receiver %s, routing says %s", a.GroupKey, a.RouteID, a.Receiver, rt.Receiver))
		}
		if a.Replaced {
			add(pbt.V("notification-from-replaced-dispatcher", "notification to %s/%d for group %s at %s was made by the pipeline of a dispatcher that a configuration reload had already stopped and replaced: two dispatchers are grouping the same alerts", a.Receiver, a.Idx, a.GroupKey, a.T.Format(tf)))
		}
		listedFiring := map[string]bool{}
		listedOnce := map[string]bool{}
		for _, al := range a.Alerts {
			// one notification carries each alert of its group once
			if listedOnce[al.Key] {
				add(pbt.V("duplicate-alert-in-notification", "notification to %s/%d for group %s flushed at %s lists alert %s more than once", a.Receiver, a.Idx, a.GroupKey, a.Flush.Format(tf), al.Key))
			}
			listedOnce[al.Key] = true
			ls := m.Alerts.Labels[al.Key]
			if !memberSet[al.Key] {
				add(pbt.V("foreign-alert", "notification for group %s (route %s) at %s lists alert %s which routing does not place in that group", a.GroupKey, a.RouteID, a.Flush.Format(tf), al.Key))
				continue
			}
			if gl := ref.LabelKey(rt.GroupLabels(ls)); gl != ref.LabelKey(a.GroupLabels) {
				add(pbt.V("group-labels", "group %s carries group labels %v but alert %s has %s for the route's group_by", a.GroupKey, a.GroupLabels, al.Key, gl))
			}
			st.SuppressionChecked++
			// suppression must have been in force before the flush instant: a flush released by the
			// very action that posts the source alert races with the inhibitor learning about it
			before := a.Flush.Add(-time.Nanosecond)
			if sil := m.Silenced(al.Key, a.Flush); len(sil) > 0 && len(m.Silenced(al.Key, before)) > 0 {
				add(pbt.V("silenced-alert-notified", "notification to %s/%d for %s flushed at %s lists %s, which silence of step %d mutes at that instant", a.Receiver, a.Idx, a.GroupKey, a.Flush.Format(tf), al.Key, sil[0].Step))
			}
			if m.Inhibited(al.Key, a.Flush) && m.Inhibited(al.Key, before) {
				add(pbt.V("inhibited-alert-notified", "notification to %s/%d for %s flushed at %s lists %s, which is inhibited at that instant", a.Receiver, a.Idx, a.GroupKey, a.Flush.Format(tf), al.Key))
			}
			if al.Resolved {
				if !sr {
					add(pbt.V("resolved-sent-without-send-resolved", "attempt to %s/%d (send_resolved off) at %s lists resolved alert %s", a.Receiver, a.Idx, a.T.Format(tf), al.Key))
				}
				if al.End.After(a.Flush) {
					add(pbt.V("resolved-before-end", "alert %s reported resolved at %s but its end %s has not passed", al.Key, a.Flush.Format(tf), al.End.Format(tf)))
				}
				// a flush released by the very action that posts an update (timer reset to zero) may
				// still hold the previous version: both versions are acceptable at that instant
				vPrev := m.Alerts.LastKnown(al.Key, a.Flush.Add(-time.Nanosecond))
				prevOK := vPrev != nil && !vPrev.End.After(a.Flush) && vPrev.End.Equal(al.End)
				if v := m.Alerts.LastKnown(al.Key, a.Flush); v != nil && (v.End.After(a.Flush) || !v.End.Equal(al.End)) && !prevOK {
					add(pbt.V("resolved-not-true", "alert %s reported resolved (end %s) at %s but the submitted history says end %s", al.Key, al.End.Format(tf), a.Flush.Format(tf), v.End.Format(tf)))
				}
			} else {
				listedFiring[al.Key] = true
				if !m.Alerts.Firing(al.Key, a.Flush) && !m.Alerts.Firing(al.Key, a.Flush.Add(-time.Nanosecond)) {
					if v := m.Alerts.LastKnown(al.Key, a.Flush); v == nil || !v.End.After(a.Flush) {
						add(pbt.V("firing-not-true", "alert %s reported firing at %s but the submitted history says it ended", al.Key, a.Flush.Format(tf)))
					}
				}
			}
		}
		if muted, by := cfg.TimeMuted(rt, a.Tick); muted && len(members) > 0 {
			add(pbt.V("time-muted-flush-notified", "group %s notified at flush %s although interval(s) %v mute the route", a.GroupKey, a.Flush.Format(tf), by))
		}
		// completeness: every eligible firing member is listed (never a delta)
		for _, k := range members {
			// "known at flush time": eligible just before the tick as well (an alert posted by the
			// very action that releases the flush is still being ingested)
			if m.Eligible(k, rt, a.Flush) && m.Eligible(k, rt, a.Flush.Add(-time.Nanosecond)) && !listedFiring[k] {
				add(pbt.V("missing-alert-in-notification", "notification to %s/%d for %s flushed at %s omits %s although it is firing and not suppressed", a.Receiver, a.Idx, a.GroupKey, a.Flush.Format(tf), k))
			}
		}
	}

	// ---- every attempt of one flush carries the list frozen at the flush (alerts do not change state while retrying)
	for i := range tr.Attempts {
		a := &tr.Attempts[i]
		f := firstOfFlush[flushKey{a.AggrGroupID, a.FlushID, a.Receiver, a.Idx}]
		if f == nil || f == a {
			continue
		}
		same := len(f.Alerts) == len(a.Alerts)
		if same {
			for j := range f.Alerts {
				if f.Alerts[j].Key != a.Alerts[j].Key || f.Alerts[j].Resolved != a.Alerts[j].Resolved {
					same = false
				}
			}
		}
		if !same {
			add(pbt.V("resolved-not-true", "attempt at %s of the flush of %s begun at %s lists %v, the first attempt listed %v: the notification content changed while retrying", a.T.Format(tf), a.GroupKey, a.Flush.Format(tf), a.Alerts, f.Alerts))
		}
	}

	// ---- C04 "only if" (A.9) over consecutive successful deliveries
	// a restart without snapshot empties the log; one with the last maintenance snapshot rolls it back
	// (what the receiver was told since then is forgotten): both break the delivery sequence
	stateLoss := func(t1, t2 time.Time) (lost, rolledBack bool) {
		for _, r := range m.Restarts {
			if r.At.After(t1) && r.At.Before(t2) && r.Kind != "clean" {
				lost = true
				if r.Kind == "stale" {
					rolledBack = true
				}
			}
		}
		return lost, rolledBack
	}
	for k, s := range seqs {
		var prev *Attempt
		for _, a := range s {
			if !a.OK() {
				continue
			}
			st.Deliveries++
			cfg := m.CfgAt(a.T)
			sr := sendResolvedOf(cfg, a.Receiver, a.Idx)
			fq, rq := split(a)
			lost, rolledBack := false, false
			if prev != nil {
				lost, rolledBack = stateLoss(prev.Done, a.Flush)
			}
			if prev == nil || lost {
				if len(fq) == 0 && !rolledBack {
					add(pbt.V("first-notification-without-firing", "first notification of %v at %s lists no firing alert", k, a.T.Format(tf)))
				}
				prev = a
				continue
			}
			if prev.Done.After(a.Flush) {
				// the previous delivery was still in flight when this flush decided (a receiver that does not abort on
				// cancellation, an old dispatcher's flush finishing after a reload): it could not be known yet
				if a.Done.After(prev.Done) {
					prev = a
				}
				continue
			}
			fp, rp := split(prev)
			// the entry of the previous delivery lives min(retention, 2 x the repeat_interval in force then): after a
			// reload that raised repeat_interval it can be gone although the new repeat_interval has not passed
			expiry := 2 * prev.Repeat
			if ret := time.Duration(sc.Opts.Retention) * time.Second; ret < expiry {
				expiry = ret
			}
			justified := !subset(fq, fp) || (sr && !subset(rq, rp)) || a.Flush.Sub(prev.Done) > a.Repeat || a.Flush.Sub(prev.Done) > expiry
			if !justified {
				rt, members := m.GroupMembers(cfg, a.RouteID, a.GroupKey)
				none := func(t time.Time) bool {
					for _, mk := range members {
						if m.Eligible(mk, rt, t) {
							return false
						}
					}
					return true
				}
				// ... at some instant since the previous delivery, the flush instant included (a flush that starts
				// the moment a slow delivery of the previous one returns decides at that very instant)
				empty := m.Sometime(prev.Done, a.Flush, none) || none(a.Flush) || none(a.Flush.Add(-time.Nanosecond))
				// a reload in between creates a new dispatcher; the log persists, so it does not justify by itself
				if !empty {
					add(pbt.V("unjustified-notification", "%v: notification at %s (firing %v resolved %v, reason %q) follows the one delivered at %s (firing %v resolved %v) without new firing/resolved alerts, %s <= repeat_interval %s, and the group always had an eligible firing alert", k, a.Tick.Format(tf), keysOf(fq), keysOf(rq), a.Reason, prev.Done.Format(tf), keysOf(fp), keysOf(rp), a.Tick.Sub(prev.Done), a.Repeat))
				}
			}
			if len(fq) == 0 && len(fp) == 0 {
				add(pbt.V("resolved-only-after-resolved-only", "%v: notification at %s lists no firing alert and follows one that listed none either", k, a.T.Format(tf)))
			}
			prev = a
		}
	}
	vs = append(vs, judgeObligations(m, seqs, sendResolvedOf, &st)...)
	vs = append(vs, judgeAPI(m, &st)...)
	return vs, st
}

const tf = "15:04:05.000"

func split(a *Attempt) (firing, resolved map[string]bool) {
	firing, resolved = map[string]bool{}, map[string]bool{}
	for _, al := range a.Alerts {
		if al.Resolved {
			resolved[al.Key] = true
		} else {
			firing[al.Key] = true
		}
	}
	return firing, resolved
}

func subset(a, b map[string]bool) bool {
	for k := range a {
		if !b[k] {
			return false
		}
	}
	return true
}

func keysOf(m map[string]bool) []string {
	out := make([]string, 0, len(m))
	for k := range m {
		out = append(out, k)
	}
	sort.Strings(out)
	return out
}
