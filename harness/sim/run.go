package sim

import (
	"fmt"
	"os"
	"runtime"
	"sync"
	"testing"
	"testing/synctest"
	"time"

	"github.com/prometheus/alertmanager/featurecontrol"
	"github.com/prometheus/alertmanager/matcher/compat"
	"github.com/prometheus/alertmanager/verifhook"
)

// Run executes the scenario against the real components inside a fresh
// synctest bubble and returns the trace. It is deterministic up to the retry
// jitter inside the backoff library (oracles treat retry instants as windows).
func Run(t *testing.T, sc *Scenario) *Trace {
	tr := &Trace{}
	synctest.Test(t, func(*testing.T) { run(sc, tr) })
	// attribute every attempt to the flush that made it
	for i := range tr.Attempts {
		a := &tr.Attempts[i]
		a.Flush = a.T
		var best time.Time
		for _, f := range tr.Flushes {
			if f.GroupKey == a.GroupKey && !f.At.After(a.T) && f.At.After(best) {
				best = f.At
			}
		}
		if !best.IsZero() {
			a.Flush = best
		}
	}
	return tr
}

// flush-storm guard: a group that flushes in a tight loop at one virtual
// instant would keep the bubble from ever advancing time.
type stormGuard struct {
	mtx   sync.Mutex
	last  map[string]time.Time
	count map[string]int
	tr    *Trace
}

func (g *stormGuard) handler(name string, arg any) {
	if os.Getenv("VERIF_HOOKLOG") != "" {
		g.mtx.Lock()
		g.tr.HookLog = append(g.tr.HookLog, fmt.Sprintf("%s %s %p %v", time.Now().Format("15:04:05.000"), name, arg, arg))
		g.mtx.Unlock()
	}
	if name != "flush.enter" {
		return
	}
	key := fmt.Sprintf("%p", arg)
	now := time.Now()
	g.mtx.Lock()
	g.tr.Flushes = append(g.tr.Flushes, FlushEnter{GroupKey: fmt.Sprint(arg), Group: key, At: now})
	if g.last[key].Equal(now) {
		g.count[key]++
	} else {
		g.last[key] = now
		g.count[key] = 1
	}
	n := g.count[key]
	if n == 50 {
		g.tr.FlushStorm = append(g.tr.FlushStorm, fmt.Sprintf("%v flushed %d times at %s", arg, n, now.Format(time.RFC3339Nano)))
	}
	g.mtx.Unlock()
	if n >= 50 {
		// end this group's goroutine: the history already violates the invariant
		runtime.Goexit()
	}
}

func run(sc *Scenario, tr *Trace) {
	compat.InitFromFlags(nopLog, featurecontrol.NoopFlags{})
	s := &Sim{sc: sc, trace: tr, behave: map[string]Behave{}}
	g := &stormGuard{last: map[string]time.Time{}, count: map[string]int{}, tr: tr}
	verifhook.Set(g.handler)
	defer verifhook.Set(nil)

	tr.Start = time.Now()
	cfg := &sc.Config
	in, err := s.newInstance(0, 0, cfg, nil, nil)
	if err != nil {
		tr.Errors = append(tr.Errors, "setup: "+err.Error())
		return
	}
	s.insts = []*Instance{in}
	keys := ScenarioKeys(cfg, sc.LabelSets)
	silIDs := map[int]string{}
	synctest.Wait()

	for i, st := range sc.Steps {
		// the i-th step happens at a whole-second offset plus (i+1) ms
		time.Sleep(time.Duration(st.Dt)*time.Second + time.Millisecond)
		synctest.Wait()
		now := time.Now()
		tr.StepAt = append(tr.StepAt, now)
		smp := Sample{Step: i, At: now}
		in := s.insts[0]
		switch st.Op {
		case "post":
			smp.PostStatus = in.postAlerts(now, sc, st.Alerts)
		case "silence":
			id := in.postSilence(now, st.Silence)
			silIDs[i] = id
			smp.SilenceID = id
		case "expire":
			if id := silIDs[st.SilRef]; id != "" {
				in.expireSilence(id)
			}
		case "behave":
			s.mtx.Lock()
			s.behave[fmt.Sprintf("%s/%d", st.Behave.Receiver, st.Behave.Idx)] = *st.Behave
			s.mtx.Unlock()
		case "reload":
			c := st.Config
			if c == nil {
				c = cfg
			}
			if err := in.reload(c); err != nil {
				s.errf("reload: %v", err)
			} else {
				cfg = c
				keys = mergeKeys(keys, ScenarioKeys(cfg, sc.LabelSets))
			}
		case "restart":
			var sil, nfl []byte
			in.snapMtx.Lock()
			snapAt := in.silSnapAt
			in.snapMtx.Unlock()
			switch st.Restart {
			case "clean":
				snapAt = now
			case "stale":
			default:
				snapAt = time.Time{}
			}
			tr.RestartSilSnap = append(tr.RestartSilSnap, snapAt)
			switch st.Restart {
			case "clean":
				sil, nfl = in.stop(true)
			case "stale":
				sil, nfl = in.stop(false)
			default:
				in.stop(false)
			}
			synctest.Wait()
			nin, err := s.newInstance(0, in.epoch+1, cfg, sil, nfl)
			if err != nil {
				s.errf("restart: %v", err)
				return
			}
			nin.snapMtx.Lock()
			if nin.silSnapAt.IsZero() { // no maintenance run of its own yet: it holds what it started from
				nin.silSnapAt = snapAt
			}
			nin.snapMtx.Unlock()
			s.insts[0] = nin
		case "get-alerts":
			synctest.Wait()
			smp.Alerts = in.getAlerts()
			if st.Flags != nil {
				smp.Filtered, smp.FilteredOK = in.getAlertsFiltered(*st.Flags)
			}
		case "get-groups":
			synctest.Wait()
			smp.Groups, smp.DispGroups = in.getGroups()
			smp.GroupGauge = in.gauge("alertmanager_dispatcher_aggregation_groups")
		}
		synctest.Wait()
		smp.Nflog = s.insts[0].nflogSample(keys)
		tr.Samples = append(tr.Samples, smp)
	}
	time.Sleep(time.Duration(sc.Tail)*time.Second + time.Millisecond)
	synctest.Wait()
	tr.End = time.Now()
	fin := Sample{Step: len(sc.Steps), At: tr.End, Nflog: s.insts[0].nflogSample(keys)}
	fin.Alerts = s.insts[0].getAlerts()
	fin.Groups, fin.DispGroups = s.insts[0].getGroups()
	tr.Samples = append(tr.Samples, fin)
	s.insts[0].stop(false)
	synctest.Wait()
	// a delivery that ignores cancellation (behaviour slowx, up to 400 s) may still be in flight: virtual time
	// only advances while this goroutine lives, so outwait it before the bubble ends
	time.Sleep(500 * time.Second)
	synctest.Wait()
}

func mergeKeys(a, b []NflogEntry) []NflogEntry {
	seen := map[string]bool{}
	for _, k := range a {
		seen[fmt.Sprintf("%s|%s|%d", k.GroupKey, k.Receiver, k.Idx)] = true
	}
	for _, k := range b {
		if !seen[fmt.Sprintf("%s|%s|%d", k.GroupKey, k.Receiver, k.Idx)] {
			a = append(a, k)
		}
	}
	return a
}
