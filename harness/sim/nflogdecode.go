package sim

import (
	"bytes"
	"fmt"
	"io"
	"time"

	"google.golang.org/protobuf/encoding/protodelim"

	"github.com/prometheus/alertmanager/nflog"
	"github.com/prometheus/alertmanager/nflog/nflogpb"
)

// nflogNotCovered: the unexpired entries of the full-state blob src for which dst holds no entry at least as new.
// After dst merged src there must be none (a full-state exchange hands over the complete log, newest wins).
func nflogNotCovered(src []byte, dst *nflog.Log, now time.Time) []string {
	var out []string
	r := bytes.NewReader(src)
	for {
		var e nflogpb.MeshEntry
		if err := protodelim.UnmarshalFrom(r, &e); err != nil {
			return out
		}
		if e.Entry == nil || e.Entry.Receiver == nil || !e.ExpiresAt.AsTime().After(now) {
			continue
		}
		es, err := dst.Query(nflog.QGroupKey(string(e.Entry.GroupKey)), nflog.QReceiver(e.Entry.Receiver))
		if err != nil || len(es) != 1 || es[0].Timestamp.AsTime().Before(e.Entry.Timestamp.AsTime()) {
			out = append(out, fmt.Sprintf("%s %s/%d ts=%s", e.Entry.GroupKey, e.Entry.Receiver.GroupName, e.Entry.Receiver.Idx, e.Entry.Timestamp.AsTime().Format("15:04:05.000")))
		}
	}
}

// decodeNflog decodes a gossip blob of the notification log (length-delimited MeshEntry records).
func decodeNflog(b []byte) []NflogEntry {
	var out []NflogEntry
	r := bytes.NewReader(b)
	for {
		var e nflogpb.MeshEntry
		if err := protodelim.UnmarshalFrom(r, &e); err != nil {
			if err == io.EOF {
				return out
			}
			return out
		}
		if e.Entry == nil || e.Entry.Receiver == nil {
			continue
		}
		out = append(out, NflogEntry{GroupKey: string(e.Entry.GroupKey), Receiver: e.Entry.Receiver.GroupName, Idx: IntegrationID(e.Entry.Receiver.Integration, int(e.Entry.Receiver.Idx)), Found: true,
			Timestamp: e.Entry.Timestamp.AsTime(), Firing: e.Entry.FiringAlerts, Resolved: e.Entry.ResolvedAlerts})
	}
}
