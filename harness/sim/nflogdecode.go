package sim

import (
	"bytes"
	"io"

	"google.golang.org/protobuf/encoding/protodelim"

	"github.com/prometheus/alertmanager/nflog/nflogpb"
)

// decodeNflog decodes a gossip blob of the notification log (length-delimited MeshEntry records).
func decodeNflog(b []byte) []NflogEntry {
	var out []NflogEntry
	r := bytes.NewReader(b)
	for {
		var e nflogpb.MeshEntry
		if err := protodelim.UnmarshalFrom(r, &e); err != nil {
			if err == io.EOF {
				return out
			}
			return out
		}
		if e.Entry == nil || e.Entry.Receiver == nil {
			continue
		}
		out = append(out, NflogEntry{GroupKey: string(e.Entry.GroupKey), Receiver: e.Entry.Receiver.GroupName, Idx: int(e.Entry.Receiver.Idx), Found: true,
			Timestamp: e.Entry.Timestamp.AsTime(), Firing: e.Entry.FiringAlerts, Resolved: e.Entry.ResolvedAlerts})
	}
}
