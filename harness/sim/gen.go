package sim

import (
	"encoding/json"
	"pgregory.net/rapid"
	"strconv"

	"verif/harness/gen"
	"verif/harness/ref"
)

// GenParams selects which features the generated scenarios exercise.
type GenParams struct {
	GroupLimit bool // sometimes run with an aggregation-group limit that can never legitimately bind
	Silences   bool
	Inhibit    bool
	Intervals  bool
	Faults     bool
	Reload     bool
	Restart    bool
	Gets       bool
	MaxSteps   int
	LongTail   bool // tail long enough for repeat_interval obligations
	DeepTree   bool
	Flap       bool // prefix: resolve, then re-fire while the (slow) resolved notification is in flight
	MuteGap    bool // sometimes start with the "muted during an intermediate notification, then resolved" prefix
}

func ip(i int) *int { return &i }

func sampled[T any](t *rapid.T, label string, vs ...T) T { return rapid.SampledFrom(vs).Draw(t, label) }

func genLabelSets(t *rapid.T) []map[string]string {
	n := rapid.IntRange(2, 5).Draw(t, "nls")
	seen := map[string]bool{}
	var out []map[string]string
	for i := 0; i < n; i++ {
		ls := map[string]string{}
		for _, name := range gen.UniNames {
			if v := sampled(t, "lv", "x", "x", "y", "z", ""); v != "" {
				ls[name] = v
			}
		}
		if len(ls) == 0 {
			ls["a"] = "x"
		}
		if k := ref.LabelKey(ls); !seen[k] {
			seen[k] = true
			out = append(out, ls)
		}
	}
	return out
}

// matcher that hits one of the label sets (equality), or a free one.
func genHitMatcher(t *rapid.T, lss []map[string]string, label string) ref.Matcher {
	if rapid.IntRange(0, 4).Draw(t, label+"free") == 0 {
		return gen.UniMatcher().Draw(t, label+"m")
	}
	ls := lss[rapid.IntRange(0, len(lss)-1).Draw(t, label+"ls")]
	var names []string
	for _, n := range gen.UniNames {
		if _, ok := ls[n]; ok {
			names = append(names, n)
		}
	}
	n := rapid.SampledFrom(names).Draw(t, label+"n")
	return ref.Matcher{Op: "=", Name: n, Value: ls[n]}
}

func genGroupBy(t *rapid.T, allowInherit bool) *[]string {
	k := rapid.IntRange(0, 5).Draw(t, "gbk")
	switch k {
	case 0:
		if allowInherit {
			return nil
		}
		return &[]string{"a"}
	case 1:
		return &[]string{}
	case 2:
		return &[]string{"a"}
	case 3:
		return &[]string{"a", "b"}
	case 4:
		return &[]string{"..."}
	default:
		return &[]string{"b"}
	}
}

type timers struct{ gw, gi, ri int }

func genRouteNode(t *rapid.T, lss []map[string]string, parent timers, depth int, p GenParams, intervals []Interval, maxRI *int) *Route {
	r := &Route{}
	r.Matchers = []ref.Matcher{genHitMatcher(t, lss, "rm")}
	if rapid.IntRange(0, 5).Draw(t, "rm2") == 0 {
		r.Matchers = append(r.Matchers, genHitMatcher(t, lss, "rm2"))
	}
	r.Continue = rapid.IntRange(0, 2).Draw(t, "cont") == 0
	if rapid.Bool().Draw(t, "rcv") {
		r.Receiver = sampled(t, "rcvn", "r0", "r1")
	}
	r.GroupBy = genGroupBy(t, true)
	eff := parent
	if rapid.IntRange(0, 2).Draw(t, "ogw") == 0 {
		eff.gw = sampled(t, "gw", 0, 10, 30, 30, 300)
		r.GroupWait = ip(eff.gw)
	}
	if rapid.IntRange(0, 2).Draw(t, "ogi") == 0 {
		eff.gi = sampled(t, "gi", 30, 60, 300)
		r.GroupInterval = ip(eff.gi)
	}
	if rapid.IntRange(0, 2).Draw(t, "ori") == 0 {
		eff.ri = sampled(t, "ri", 120, 600, 3600, 14400)
		r.RepeatInterval = ip(eff.ri)
	}
	if eff.ri < eff.gi {
		// keep repeat_interval >= group_interval (the complement is finding F10's region)
		eff.ri = eff.gi * 2
		r.RepeatInterval = ip(eff.ri)
	}
	if eff.ri > *maxRI {
		*maxRI = eff.ri
	}
	if p.Intervals && len(intervals) > 0 && rapid.IntRange(0, 1).Draw(t, "tiuse") == 0 {
		iv := intervals[rapid.IntRange(0, len(intervals)-1).Draw(t, "tiidx")].Name
		if rapid.Bool().Draw(t, "timute") {
			r.Mute = []string{iv}
		} else {
			r.Active = []string{iv}
		}
		// several names on one route: the other interval joins the same list (before or after) or the other list
		if len(intervals) > 1 {
			other := intervals[0].Name
			if other == iv {
				other = intervals[1].Name
			}
			switch rapid.IntRange(0, 5).Draw(t, "ti2nd") {
			case 0:
				if len(r.Mute) > 0 {
					r.Mute = append(r.Mute, other)
				} else {
					r.Active = append(r.Active, other)
				}
			case 1:
				if len(r.Mute) > 0 {
					r.Mute = append([]string{other}, r.Mute...)
				} else {
					r.Active = append([]string{other}, r.Active...)
				}
			case 2:
				if len(r.Mute) > 0 {
					r.Active = []string{other}
				} else {
					r.Mute = []string{other}
				}
			}
		}
	}
	if depth > 0 {
		nc := rapid.IntRange(0, 2).Draw(t, "ngc")
		seen := map[string]bool{}
		for i := 0; i < nc; i++ {
			c := genRouteNode(t, lss, eff, depth-1, p, intervals, maxRI)
			k := sortedMatcherText(c.Matchers)
			if seen[k] {
				continue // sibling routes with identical matchers collide on the group key (upstream issue, not a listed property)
			}
			seen[k] = true
			r.Children = append(r.Children, c)
		}
	}
	return r
}

func GenConfig(t *rapid.T, lss []map[string]string, p GenParams) (Config, int, int) {
	var c Config
	c.ResolveTimeout = sampled(t, "rt", 60, 300)
	c.Receivers = []Receiver{
		{Name: "r0", Integrations: []Integration{{SendResolved: rapid.Bool().Draw(t, "sr00")}}},
		{Name: "r1", Integrations: []Integration{{SendResolved: rapid.Bool().Draw(t, "sr10")}}},
	}
	if rapid.Bool().Draw(t, "r1two") {
		c.Receivers[1].Integrations = append(c.Receivers[1].Integrations, Integration{SendResolved: rapid.Bool().Draw(t, "sr11")})
	}
	// an integration of a second type: its identity (discord[0]) is not its position in the receiver
	if rapid.IntRange(0, 2).Draw(t, "discord") == 0 {
		ri := rapid.IntRange(0, 1).Draw(t, "discordRecv")
		c.Receivers[ri].Integrations = append(c.Receivers[ri].Integrations, Integration{Kind: "discord", SendResolved: rapid.Bool().Draw(t, "srd")})
	}
	if p.Intervals {
		n := rapid.IntRange(0, 2).Draw(t, "nti")
		for i := 0; i < n; i++ {
			s := sampled(t, "tis", 0, 5, 10, 20, 40, 60)
			l := sampled(t, "til", 5, 10, 30, 90)
			iv := Interval{Name: []string{"tiA", "tiB"}[i], Ranges: [][2]int{{s, s + l}}}
			if rapid.IntRange(0, 3).Draw(t, "ti2") == 0 {
				iv.Ranges = append(iv.Ranges, [2]int{s + l + 15, s + l + 45})
			}
			iv.Twice = rapid.IntRange(0, 3).Draw(t, "tiTwice") == 0
			c.Intervals = append(c.Intervals, iv)
		}
	}
	// (group_wait above group_interval is unusual but valid)
	root := timers{gw: sampled(t, "rgw", 0, 10, 30, 30, 300), gi: sampled(t, "rgi", 30, 60, 300), ri: sampled(t, "rri", 120, 600, 3600, 14400)}
	if root.ri < root.gi {
		root.ri = root.gi * 2
	}
	maxRI := root.ri
	c.Route = &Route{Receiver: "r0", GroupBy: genGroupBy(t, false), GroupWait: ip(root.gw), GroupInterval: ip(root.gi), RepeatInterval: ip(root.ri)}
	// one tree in three has grandchildren (options and time intervals of an intermediate route meet a child without)
	depth := 1
	if p.DeepTree || rapid.IntRange(0, 2).Draw(t, "deep") == 0 {
		depth = 2
	}
	nc := rapid.IntRange(0, 3).Draw(t, "nchildren")
	seen := map[string]bool{}
	for i := 0; i < nc; i++ {
		ch := genRouteNode(t, lss, root, depth-1, p, c.Intervals, &maxRI)
		k := sortedMatcherText(ch.Matchers)
		if seen[k] {
			continue
		}
		seen[k] = true
		c.Route.Children = append(c.Route.Children, ch)
	}
	if p.Inhibit {
		n := rapid.IntRange(0, 2).Draw(t, "ninh")
		for i := 0; i < n; i++ {
			r := InhibitRule{Source: []ref.Matcher{genHitMatcher(t, lss, "is")}, Target: []ref.Matcher{genHitMatcher(t, lss, "it")}}
			r.Name = sampled(t, "iname", "", "", "outage", "outage", "other")
			for _, n := range gen.UniNames {
				if rapid.IntRange(0, 3).Draw(t, "ieq") == 0 {
					r.Equal = append(r.Equal, n)
				}
			}
			c.Inhibit = append(c.Inhibit, r)
		}
	}
	maxGI := 300
	return c, maxRI, maxGI
}

// GenScenario draws a whole scenario.
func GenScenario(t *rapid.T, p GenParams) Scenario {
	var sc Scenario
	sc.LabelSets = genLabelSets(t)
	// one scenario in ten has a crowd: 17-28 alerts that differ from one label set only in a label no route or
	// group_by list names, so that they share its groups (a notification-log entry with dozens of alert hashes)
	var crowd []int
	if rapid.IntRange(0, 9).Draw(t, "crowd") == 0 {
		b := sc.LabelSets[rapid.IntRange(0, len(sc.LabelSets)-1).Draw(t, "crowdBase")]
		k := rapid.IntRange(17, 28).Draw(t, "crowdN")
		for j := 0; j < k; j++ {
			ls := map[string]string{"crowd": strconv.Itoa(j)}
			for n, v := range b {
				ls[n] = v
			}
			crowd = append(crowd, len(sc.LabelSets))
			sc.LabelSets = append(sc.LabelSets, ls)
		}
	}
	cfg, maxRI, maxGI := GenConfig(t, sc.LabelSets, p)
	sc.Config = cfg
	minRet := 2*maxRI + maxGI
	sc.Opts = Options{
		Retention:  sampled(t, "ret", minRet, minRet+3600, 432000),
		AlertGC:    sampled(t, "agc", 60, 300, 1800),
		DispMaint:  sampled(t, "dm", 15, 30),
		Maint:      sampled(t, "maint", 300, 900),
		StartDelay: sampled(t, "sd", 0, 0, 0, 20),
	}
	if p.GroupLimit {
		sc.Opts.GroupLimit = rapid.Bool().Draw(t, "groupLimit")
	}
	maxSteps := p.MaxSteps
	if maxSteps == 0 {
		maxSteps = 20
	}
	n := rapid.IntRange(3, maxSteps).Draw(t, "nsteps")
	var silSteps []int
	nrecv := func() (string, int) {
		r := sampled(t, "brcv", "r0", "r1")
		idx := 0
		if rc := cfg.ReceiverByName(r); rc != nil && len(rc.Integrations) > 1 {
			idx = rc.IDs()[rapid.IntRange(0, len(rc.Integrations)-1).Draw(t, "bidx")]
		}
		return r, idx
	}
	if p.Flap && rapid.Bool().Draw(t, "flap") {
		// A targeted prefix: the focus alert fires, its receiver becomes slow, the alert resolves, and it
		// fires again a few seconds after the flush tick that reports the resolution (delivery in flight).
		ls := rapid.IntRange(0, len(sc.LabelSets)-1).Draw(t, "flapls")
		rts := cfg.Match(sc.LabelSets[ls])
		rt := rts[0]
		gw, gi := int(rt.GroupWait.Seconds()), int(rt.GroupInterval.Seconds())
		t0 := sc.Opts.StartDelay + sampled(t, "flapt0", 1, 5, 30)
		idx := 0
		if rc := cfg.ReceiverByName(rt.Receiver); rc != nil && len(rc.Integrations) > 1 {
			idx = rc.IDs()[rapid.IntRange(0, len(rc.Integrations)-1).Draw(t, "flapidx")]
		}
		slow, slowUs := sampled(t, "flapslow", 5, 20, -1), 0
		if slow < 0 {
			// accepted half a millisecond before the next tick: the delivery of that tick is recorded within the same
			// wall-clock second
			slow, slowUs = gi-1, 999_500
		}
		sc.Steps = append(sc.Steps,
			Step{Dt: t0, Op: "post", Alerts: []PostAlert{{LS: ls, End: ip(3600)}}},
			Step{Dt: 1, Op: "behave", Behave: &Behave{Receiver: rt.Receiver, Idx: idx, Kind: "slow", D: slow, Us: slowUs}},
		)
		// resolve somewhere after the first flush
		rAt := t0 + 1 + gw + sampled(t, "flapres", 2, 10, 40)
		at := t0 + 1
		if slowUs > 0 {
			// only the first delivery is slow: the receiver answers promptly again from one second after it began
			sc.Steps = append(sc.Steps, Step{Dt: gw + 1, Op: "behave", Behave: &Behave{Receiver: rt.Receiver, Idx: idx, Kind: "ok"}})
			at += gw + 1
		}
		sc.Steps = append(sc.Steps, Step{Dt: rAt - at, Op: "post", Alerts: []PostAlert{{LS: ls, End: ip(-1)}}})
		// next tick at t0 + gw + k*gi >= rAt
		kk := 0
		for t0+gw+kk*gi < rAt {
			kk++
		}
		tick := t0 + gw + kk*gi
		delta := sampled(t, "flapdelta", 0, 1, 3)
		if delta >= slow {
			delta = slow - 1
		}
		var end *int
		if rapid.Bool().Draw(t, "flapend") {
			end = ip(600)
		}
		sc.Steps = append(sc.Steps, Step{Dt: tick + delta - rAt, Op: "post", Alerts: []PostAlert{{LS: ls, End: end}}})
		if end != nil && rapid.IntRange(0, 3).Draw(t, "flapprobe") > 0 {
			// a sample instant while the re-fired alert is still firing and the knowledge obligation is due
			w := gw
			if gi > w {
				w = gi
			}
			if w+125 < 590 {
				sc.Steps = append(sc.Steps, Step{Dt: w + 125, Op: "get-groups"})
			}
		} else if rapid.Bool().Draw(t, "flapok") {
			sc.Steps = append(sc.Steps, Step{Dt: sampled(t, "flapokdt", 1, 30, 90), Op: "behave", Behave: &Behave{Receiver: rt.Receiver, Idx: idx, Kind: "ok"}})
		}
	}
	if p.MuteGap && p.Silences && rapid.IntRange(0, 2).Draw(t, "mutegap") == 0 {
		// A targeted prefix: two alerts of one group are reported firing; one of them is silenced while a third alert
		// makes the group notify again (the log entry then no longer lists the silenced one); the silence ends, and the
		// alert resolves while the others still fire: its resolution must be reported at the next flush.
		type cand struct{ a, b, c int }
		var cs []cand
		key := func(i int) string {
			rts := cfg.Match(sc.LabelSets[i])
			if len(rts) == 0 {
				return ""
			}
			return rts[0].ID + "|" + rts[0].GroupKey(sc.LabelSets[i])
		}
		for b := range sc.LabelSets {
			for a := range sc.LabelSets {
				for c := range sc.LabelSets {
					if a != b && a != c && b != c && key(b) != "" && key(a) == key(b) && key(c) == key(b) {
						cs = append(cs, cand{a, b, c})
					}
				}
			}
		}
		if len(cs) > 0 {
			x := cs[rapid.IntRange(0, len(cs)-1).Draw(t, "mgpick")]
			// an equality that holds for b only
			var only *ref.Matcher
			for n, v := range sc.LabelSets[x.b] {
				if sc.LabelSets[x.a][n] != v && sc.LabelSets[x.c][n] != v {
					only = &ref.Matcher{Op: "=", Name: n, Value: v}
				}
			}
			if only != nil {
				rt := cfg.Match(sc.LabelSets[x.b])[0]
				gw, gi := int(rt.GroupWait.Seconds()), int(rt.GroupInterval.Seconds())
				t0 := sc.Opts.StartDelay + sampled(t, "mgt0", 1, 5, 30)
				sc.Steps = append(sc.Steps,
					Step{Dt: t0, Op: "post", Alerts: []PostAlert{{LS: x.a, End: ip(7200)}, {LS: x.b, End: ip(7200)}}},
					Step{Dt: gw + gi + 5, Op: "silence", Silence: &SilenceSpec{Matchers: []ref.Matcher{*only}, EndOff: 3600}})
				silSteps = append(silSteps, len(sc.Steps)-1)
				sc.Steps = append(sc.Steps,
					Step{Dt: 5, Op: "post", Alerts: []PostAlert{{LS: x.c, End: ip(7200)}}},
					Step{Dt: gw + gi + 10, Op: "expire", SilRef: len(sc.Steps) - 1},
					Step{Dt: sampled(t, "mgdt", 1, 5, 40), Op: "post", Alerts: []PostAlert{{LS: x.b, End: ip(-1)}}},
					Step{Dt: gi + 130, Op: "noop"})
			}
		}
	}
	if len(crowd) > 0 {
		st := Step{Dt: 1, Op: "post"}
		for _, c := range crowd {
			st.Alerts = append(st.Alerts, PostAlert{LS: c, End: ip(3600)})
		}
		sc.Steps = append(sc.Steps, st)
	}
	base := len(sc.Steps)
	for i := base; i < base+n; i++ {
		st := Step{Dt: sampled(t, "dt", 0, 1, 5, 10, 20, 30, 45, 60, 90, 120, 300, 600, 1000)}
		k := rapid.IntRange(0, 19).Draw(t, "op")
		switch {
		case k < 9 || i == 0:
			st.Op = "post"
			na := rapid.IntRange(1, 3).Draw(t, "nalerts")
			used := map[int]bool{}
			for j := 0; j < na; j++ {
				a := PostAlert{LS: rapid.IntRange(0, len(sc.LabelSets)-1).Draw(t, "als")}
				if used[a.LS] {
					// two versions of one alert in one batch are back-to-back updates: the
					// ingestion-order defect (C14, finding F3) is excluded here by construction
					continue
				}
				used[a.LS] = true
				switch rapid.IntRange(0, 9).Draw(t, "aend") {
				case 0, 1, 2, 3:
					// no end: timeout alert
				case 4, 5:
					a.End = ip(sampled(t, "endpos", 20, 45, 60, 120, 600))
				case 6, 7, 8:
					a.End = ip(sampled(t, "endneg", -1, -30, -120))
				default:
					a.End = ip(3600)
				}
				if rapid.IntRange(0, 5).Draw(t, "astart") == 0 {
					s := sampled(t, "startoff", -600, -60, -5)
					if a.End == nil || *a.End > s {
						a.Start = ip(s)
					}
				}
				st.Alerts = append(st.Alerts, a)
			}
		case k < 11 && p.Silences:
			st.Op = "silence"
			sp := &SilenceSpec{Matchers: []ref.Matcher{genSilenceMatcher(t, sc.LabelSets)}}
			if rapid.IntRange(0, 3).Draw(t, "sm2") == 0 {
				sp.Matchers = append(sp.Matchers, gen.UniMatcher().Draw(t, "sm2m"))
			}
			sp.StartOff = sampled(t, "sstart", 0, 0, 0, 30, 120)
			sp.EndOff = sp.StartOff + sampled(t, "slen", 30, 120, 600, 3600)
			st.Silence = sp
			silSteps = append(silSteps, i)
		case k < 12 && p.Silences && len(silSteps) > 0:
			st.Op = "expire"
			st.SilRef = silSteps[rapid.IntRange(0, len(silSteps)-1).Draw(t, "sref")]
		case k < 15 && p.Faults:
			st.Op = "behave"
			r, idx := nrecv()
			b := &Behave{Receiver: r, Idx: idx}
			switch rapid.IntRange(0, 7).Draw(t, "bk") {
			case 0, 1, 2:
				b.Kind = "ok"
			case 3:
				b.Kind = "recoverable"
			case 4:
				b.Kind = "unrecoverable"
			case 5:
				b.Kind, b.D = "slow", sampled(t, "bd", 2, 5, 20)
			case 6:
				// completes successfully after D seconds, whatever happens to the flush context (D may exceed group_interval)
				b.Kind, b.D = "slowx", sampled(t, "bdx", 3, 40, 70, 400)
			default:
				b.Kind = "hang"
			}
			st.Behave = b
		case k < 16 && p.Gets:
			st.Op = "get-alerts"
			if rapid.Bool().Draw(t, "getFiltered") {
				st.Flags = &GetFlags{Active: rapid.Bool().Draw(t, "fActive"), Silenced: rapid.Bool().Draw(t, "fSilenced"), Inhibited: rapid.Bool().Draw(t, "fInhibited"),
					Receiver: sampled(t, "fReceiver", "", "", "r0", "r1", "r.*", "r[1-9]|x")}
			}
		case k < 17 && p.Gets:
			st.Op = "get-groups"
		case k < 18 && p.Reload:
			st.Op = "reload"
			if rapid.Bool().Draw(t, "reloadChange") {
				// a changed configuration: same routing structure (so groups and their keys persist), other timers
				c := cloneConfig(&cfg)
				changeTimers(t, c.Route, timers{gw: 30, gi: 300, ri: 14400}, maxRI)
				// ... and sometimes another make-up of a receiver: a webhook is appended or the last one removed, which
				// moves the integrations of the other type to another position but leaves their identity alone
				if rapid.IntRange(0, 2).Draw(t, "reloadIntegrations") == 0 {
					rc := &c.Receivers[rapid.IntRange(0, len(c.Receivers)-1).Draw(t, "riRecv")]
					last := -1
					for i, in := range rc.Integrations {
						if in.Kind == "" {
							last = i
						}
					}
					nweb := 0
					for _, in := range rc.Integrations {
						if in.Kind == "" {
							nweb++
						}
					}
					if nweb >= 2 && rapid.Bool().Draw(t, "riRemove") {
						rc.Integrations = append(rc.Integrations[:last:last], rc.Integrations[last+1:]...)
					} else if nweb < 3 {
						ins := Integration{SendResolved: rapid.Bool().Draw(t, "riSR")}
						rc.Integrations = append(rc.Integrations[:last+1:last+1], append([]Integration{ins}, rc.Integrations[last+1:]...)...)
					}
				}
				st.Config = c
			}
		case k < 19 && p.Restart:
			st.Op = "restart"
			st.Restart = sampled(t, "rk", "clean", "stale", "none")
		default:
			st.Op = "noop"
		}
		sc.Steps = append(sc.Steps, st)
	}
	if p.LongTail {
		sc.Tail = sampled(t, "tail", 600, maxRI+maxGI+300, 2*maxRI+600)
	} else {
		sc.Tail = sampled(t, "tail", 400, 900, 2000)
	}
	return sc
}

// silence matchers must not all match the empty string: an equality on a
// present label value qualifies.
func genSilenceMatcher(t *rapid.T, lss []map[string]string) ref.Matcher {
	ls := lss[rapid.IntRange(0, len(lss)-1).Draw(t, "sls")]
	var names []string
	for _, n := range gen.UniNames {
		if _, ok := ls[n]; ok {
			names = append(names, n)
		}
	}
	n := rapid.SampledFrom(names).Draw(t, "sn")
	return ref.Matcher{Op: "=", Name: n, Value: ls[n]}
}

func cloneConfig(c *Config) *Config {
	b, _ := json.Marshal(c)
	var out Config
	_ = json.Unmarshal(b, &out)
	return &out
}

// changeTimers redraws repeat_interval (and sometimes group_interval) of nodes that set them, keeping
// repeat_interval >= group_interval for the effective values and never above the original maximum of the
// value set (retention was chosen for 14400 s at most).
func changeTimers(t *rapid.T, r *Route, parent timers, maxRI int) {
	eff := parent
	if r.GroupWait != nil {
		eff.gw = *r.GroupWait
	}
	if r.GroupInterval != nil {
		if rapid.IntRange(0, 3).Draw(t, "chgi") == 0 {
			r.GroupInterval = ip(sampled(t, "ngi", 30, 60, 300))
		}
		eff.gi = *r.GroupInterval
	}
	if r.RepeatInterval != nil {
		if rapid.IntRange(0, 1).Draw(t, "chri") == 0 {
			if v := sampled(t, "nri", 120, 600, 3600, 14400); v <= maxRI {
				// retention was chosen for the original largest repeat_interval: stay within it
				r.RepeatInterval = ip(v)
			}
		}
		eff.ri = *r.RepeatInterval
	}
	if eff.ri < eff.gi {
		// keep repeat_interval >= group_interval by lowering group_interval (never raise repeat_interval above maxRI)
		eff.gi = 30
		r.GroupInterval = ip(30)
	}
	for _, c := range r.Children {
		changeTimers(t, c, eff, maxRI)
	}
}
