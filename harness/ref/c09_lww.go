package ref

// Reference model for C09 (DESIGN Appendix A.3): a replicated last-writer-wins
// store with retention. Written from the property statement:
//
//   - "for every id the version with the latest update time among those not
//     yet past retention"
//   - "Merging never replaces a newer version by an older one, never
//     resurrects a version past its retention"
//
// All instants are int64 nanoseconds on one common axis. Equal stamps and
// Expires == now are outside the property's quantifier ("distinct update
// times"); the generators make them unreachable, the model resolves them
// arbitrarily (keep the stored one / accept).

// C09Version is one version of one key (silence id).
type C09Version struct {
	Key     string // silence id
	Stamp   int64  // updated_at
	Expires int64  // expires_at (= end + retention of the authoring instance)
	Ref     int    // index into the caller's version table (content lives there)
}

// C09Store is the state of one instance: key -> stored version.
type C09Store map[string]C09Version

// Merge offers v to the store at instant now and reports whether the store
// changed. A version past its retention is ignored; otherwise it is taken iff
// the key is absent or the stored version is strictly older.
func (s C09Store) Merge(v C09Version, now int64) bool {
	if v.Expires < now {
		return false
	}
	cur, ok := s[v.Key]
	if ok && cur.Stamp >= v.Stamp {
		return false
	}
	s[v.Key] = v
	return true
}

// GC removes every entry whose retention has run out at now.
func (s C09Store) GC(now int64) int {
	n := 0
	for k, v := range s {
		if v.Expires <= now {
			delete(s, k)
			n++
		}
	}
	return n
}

// Clone returns a copy.
func (s C09Store) Clone() C09Store {
	out := make(C09Store, len(s))
	for k, v := range s {
		out[k] = v
	}
	return out
}

// C09Converged is the order-independent closed form of the statement: given
// the set of all versions two instances have received while the clock stood
// at now (more precisely: while no version's Expires lay between the first and
// the last merge instant), each holds per key the version with the greatest
// stamp among those with Expires >= now — irrespective of order, multiplicity
// and batching of the deliveries.
func C09Converged(all []C09Version, now int64) C09Store {
	out := C09Store{}
	for _, v := range all {
		if v.Expires < now {
			continue
		}
		if cur, ok := out[v.Key]; !ok || cur.Stamp < v.Stamp {
			out[v.Key] = v
		}
	}
	return out
}

// C09Sil is what the mute oracle needs of a stored silence.
type C09Sil struct {
	Start, End int64 // ns
	Sets       [][]Matcher
}

// C09Muted: a label set is silenced at now iff some stored silence is active
// (start <= now <= end; the generators keep now off the boundaries) and one of
// its matcher sets matches (A.2 / A.4).
func C09Muted(sils []C09Sil, lset map[string]string, now int64) bool {
	for _, s := range sils {
		if now < s.Start || now > s.End {
			continue
		}
		if MatchAny(s.Sets, lset) {
			return true
		}
	}
	return false
}
