package ref

import (
	"sort"
	"time"
)

// C18Admitted is the reference of DESIGN Appendix A.8, written from the
// property statement: per alert name, the set of fingerprints the system has
// accepted ("admitted") together with the end time it holds for each of them.
//
// The reference does not decide admissions itself. It records the decisions the
// system under test announced (accepted / refused) and judges them:
//
//   - at any instant at most N admitted alerts of one name are unexpired;
//   - a refusal is legitimate only if the alert is not an unexpired admitted one
//     and N other alerts of that name are admitted and unexpired;
//   - an admitted alert stays admitted until its end has passed (room is made
//     only by expiry), so GC may forget a name only if all its members expired.
//
// "Expired at now" means end < now; the checks never produce end == now.
type C18Admitted struct {
	N     int
	names map[string]map[string]time.Time
}

func NewC18Admitted(n int) *C18Admitted {
	return &C18Admitted{N: n, names: map[string]map[string]time.Time{}}
}

// Accept records that the system accepted fp under name and now holds end for it.
func (a *C18Admitted) Accept(name, fp string, end time.Time) {
	m := a.names[name]
	if m == nil {
		m = map[string]time.Time{}
		a.names[name] = m
	}
	m[fp] = end
}

// Unexpired returns the sorted fingerprints admitted under name with end > now.
func (a *C18Admitted) Unexpired(name string, now time.Time) []string {
	var out []string
	for fp, end := range a.names[name] {
		if end.After(now) {
			out = append(out, fp)
		}
	}
	sort.Strings(out)
	return out
}

// End returns the end the system holds for an admitted fingerprint.
func (a *C18Admitted) End(name, fp string) (time.Time, bool) {
	e, ok := a.names[name][fp]
	return e, ok
}

// IsUnexpired reports whether fp is admitted under name and not expired at now.
func (a *C18Admitted) IsUnexpired(name, fp string, now time.Time) bool {
	e, ok := a.names[name][fp]
	return ok && e.After(now)
}

// RefusalAllowed: the statement allows refusing fp at now only if fp is not an
// admitted unexpired alert (re-sends are always accepted) and N unexpired
// alerts of that name are admitted (a new alert is refused only when full).
func (a *C18Admitted) RefusalAllowed(name, fp string, now time.Time) bool {
	if a.IsUnexpired(name, fp, now) {
		return false
	}
	return len(a.Unexpired(name, now)) >= a.N
}

// Names returns the sorted alert names that have (or had) admitted members.
func (a *C18Admitted) Names() []string {
	var out []string
	for n := range a.names {
		out = append(out, n)
	}
	sort.Strings(out)
	return out
}

// AnyUnexpired reports whether some name has an unexpired admitted member.
func (a *C18Admitted) AnyUnexpired(now time.Time) bool {
	for n := range a.names {
		if len(a.Unexpired(n, now)) > 0 {
			return true
		}
	}
	return false
}
