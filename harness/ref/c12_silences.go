package ref

// Reference model of the silence store (DESIGN Appendix A.2), written from the
// statement of property C12 and the openapi description, not from
// silence/silence.go. It is plain data (round-trips through encoding/json) so
// that the whole-system simulator can embed it in its own model state.
//
// Time is passed in by the caller (`now`); the model never reads a clock.
//
// Boundary convention. `C12StateAt` treats t == EndsAt as expired ("expiring
// takes effect immediately": right after an expire at `now` the silence has
// EndsAt == now and must already read as expired) and t == StartsAt as active.
// Callers that can reach other exact boundary instants must treat them as
// either-way (`(*C12Silence).OnBoundary`).

import (
	"fmt"
	"regexp"
	"sort"
	"time"
	"unicode/utf8"
)

const (
	C12Pending = "pending"
	C12Active  = "active"
	C12Expired = "expired"
)

// C12Silence is one stored silence (or, with ID == "" / an existing ID, the
// submitted form handed to Set).
type C12Silence struct {
	ID          string      `json:"id,omitempty"`
	MatcherSets [][]Matcher `json:"matcherSets"`
	// StartsAt zero means "not given" in a submitted silence.
	StartsAt  time.Time `json:"startsAt"`
	EndsAt    time.Time `json:"endsAt"`
	UpdatedAt time.Time `json:"updatedAt"`
	// ExpiresAt = EndsAt + retention: the instant from which GC removes it.
	ExpiresAt time.Time `json:"expiresAt"`
	Comment   string    `json:"comment"`
	CreatedBy string    `json:"createdBy"`
}

func (s *C12Silence) clone() *C12Silence {
	c := *s
	c.MatcherSets = make([][]Matcher, len(s.MatcherSets))
	for i, set := range s.MatcherSets {
		c.MatcherSets[i] = append([]Matcher(nil), set...)
	}
	return &c
}

// C12StateAt is the lifecycle state of s at instant t.
func C12StateAt(s *C12Silence, t time.Time) string {
	switch {
	case t.Before(s.StartsAt):
		return C12Pending
	case !t.Before(s.EndsAt):
		return C12Expired
	default:
		return C12Active
	}
}

// OnBoundary reports whether t coincides with the start or the end of s or its
// removal instant (the instants at which an oracle must accept either side).
func (s *C12Silence) OnBoundary(t time.Time) bool {
	return t.Equal(s.StartsAt) || t.Equal(s.EndsAt) || t.Equal(s.ExpiresAt)
}

// C12Limits mirrors --silences.max-silences / --silences.max-silence-size-bytes.
// Zero means unlimited. The model cannot compute the stored size of a silence;
// the caller supplies Oversize (nil = nothing is oversize).
type C12Limits struct {
	MaxSilences int `json:"maxSilences,omitempty"`
}

// C12Silences is the model store.
type C12Silences struct {
	Retention    time.Duration          `json:"retention"`
	Limits       C12Limits              `json:"limits"`
	ClassicNames bool                   `json:"classicNames,omitempty"` // label names restricted to [a-zA-Z_][a-zA-Z0-9_]* (classic parser mode)
	NextID       int                    `json:"nextId"`
	Sils         map[string]*C12Silence `json:"sils"`
}

func NewC12Silences(retention time.Duration) *C12Silences {
	return &C12Silences{Retention: retention, Sils: map[string]*C12Silence{}}
}

// Outcomes of Set.
const (
	C12Created  = "created"   // no id submitted: fresh id
	C12Updated  = "updated"   // id kept, edited in place
	C12Replaced = "replaced"  // history would be rewritten: old one left expired, fresh id
	C12NotFound = "not-found" // unknown non-empty id
	C12Invalid  = "invalid"   // rejected, nothing changes
)

type C12SetResult struct {
	Outcome string `json:"outcome"`
	ID      string `json:"id,omitempty"`     // id under which the submitted silence is now stored
	Reason  string `json:"reason,omitempty"` // for invalid
	// For replaced: the previous id, its state before the call, and whether the
	// call had to expire it.
	PrevID      string `json:"prevId,omitempty"`
	PrevState   string `json:"prevState,omitempty"`
	PrevExpired bool   `json:"prevExpired,omitempty"`
}

var c12ClassicName = regexp.MustCompile(`^[a-zA-Z_][a-zA-Z0-9_]*$`)

// C12MatchesEmpty: does the matcher accept the empty string (= a missing label)?
// Only decided for the positive operators; the statement's "matchers that only
// match the empty string" is about `a=""` / `a=~".*"`; whether a negative
// matcher counts is not specified and reported as false here (callers must not
// rely on sets made of negative matchers only).
func C12MatchesEmpty(m Matcher) bool {
	switch m.Op {
	case "=":
		return m.Value == ""
	case "=~":
		if m.Re != nil {
			return m.Re.Match("")
		}
		re, err := regexp.Compile("^(?:" + m.Value + ")$")
		return err == nil && re.MatchString("")
	}
	return false
}

// C12ValidateMatchers returns "" or the reason the matcher sets are unacceptable.
func C12ValidateMatchers(sets [][]Matcher, classicNames bool) string {
	if len(sets) == 0 {
		return "no matcher set"
	}
	for _, set := range sets {
		if len(set) == 0 {
			return "empty matcher set"
		}
		allEmpty := true
		for _, m := range set {
			if m.Name == "" || !utf8.ValidString(m.Name) || (classicNames && !c12ClassicName.MatchString(m.Name)) {
				return fmt.Sprintf("invalid label name %q", m.Name)
			}
			switch m.Op {
			case "=", "!=":
				if !utf8.ValidString(m.Value) {
					return "invalid label value"
				}
			case "=~", "!~":
				if m.Re == nil {
					// Pattern given as text: RE2 syntax is defined by Go's regexp package.
					if _, err := regexp.Compile(m.Value); err != nil {
						return fmt.Sprintf("bad regex %q", m.Value)
					}
				}
			default:
				return "unknown operator " + m.Op
			}
			if !C12MatchesEmpty(m) {
				allEmpty = false
			}
		}
		if allEmpty {
			return "matcher set matches only the empty string"
		}
	}
	return ""
}

func c12SameMatchers(a, b [][]Matcher) bool {
	if len(a) != len(b) {
		return false
	}
	for i := range a {
		if len(a[i]) != len(b[i]) {
			return false
		}
		for j := range a[i] {
			x, y := a[i][j], b[i][j]
			if x.Op != y.Op || x.Name != y.Name || x.Pattern() != y.Pattern() {
				return false
			}
		}
	}
	return true
}

func (s *C12Silences) freshID() string {
	s.NextID++
	return fmt.Sprintf("m%d", s.NextID)
}

// Set is POST /api/v2/silences (or Silences.Set) at instant now. `oversize`
// tells the model that the stored form of `in` exceeds the configured size
// limit (the model has no notion of bytes).
func (s *C12Silences) Set(now time.Time, in C12Silence, oversize bool) C12SetResult {
	in = *in.clone()
	if in.StartsAt.IsZero() {
		in.StartsAt = now // "a missing start means now"
	}
	if r := C12ValidateMatchers(in.MatcherSets, s.ClassicNames); r != "" {
		return C12SetResult{Outcome: C12Invalid, Reason: r}
	}
	if in.EndsAt.IsZero() {
		return C12SetResult{Outcome: C12Invalid, Reason: "no end"}
	}
	if !in.EndsAt.After(in.StartsAt) {
		return C12SetResult{Outcome: C12Invalid, Reason: "end not after start"}
	}
	if in.EndsAt.Before(now) {
		return C12SetResult{Outcome: C12Invalid, Reason: "end in the past"}
	}
	var prev *C12Silence
	if in.ID != "" {
		p, ok := s.Sils[in.ID]
		if !ok {
			return C12SetResult{Outcome: C12NotFound}
		}
		prev = p
	}
	if oversize {
		return C12SetResult{Outcome: C12Invalid, Reason: "oversize"}
	}
	if prev != nil {
		st := C12StateAt(prev, now)
		inPlace := c12SameMatchers(prev.MatcherSets, in.MatcherSets) &&
			((st == C12Pending && !in.StartsAt.Before(now)) ||
				(st == C12Active && in.StartsAt.Unix() == prev.StartsAt.Unix() && !in.EndsAt.Before(now)))
		if inPlace {
			in.UpdatedAt = now
			in.ExpiresAt = in.EndsAt.Add(s.Retention)
			s.Sils[in.ID] = &in
			return C12SetResult{Outcome: C12Updated, ID: in.ID}
		}
	}
	// A new silence comes into existence: the count limit (which includes
	// expired, not yet collected silences) applies before anything changes.
	if s.Limits.MaxSilences > 0 && len(s.Sils)+1 > s.Limits.MaxSilences {
		return C12SetResult{Outcome: C12Invalid, Reason: "count limit"}
	}
	res := C12SetResult{Outcome: C12Created}
	if prev != nil {
		res.Outcome = C12Replaced
		res.PrevID = prev.ID
		res.PrevState = C12StateAt(prev, now)
		if res.PrevState != C12Expired {
			s.expire(prev, now)
			res.PrevExpired = true
		}
	}
	in.ID = s.freshID()
	if in.StartsAt.Before(now) {
		in.StartsAt = now // never starts in the past
	}
	in.UpdatedAt = now
	in.ExpiresAt = in.EndsAt.Add(s.Retention)
	s.Sils[in.ID] = &in
	res.ID = in.ID
	return res
}

func (s *C12Silences) expire(p *C12Silence, now time.Time) {
	if C12StateAt(p, now) == C12Pending {
		p.StartsAt = now
	}
	p.EndsAt = now
	p.UpdatedAt = now
	p.ExpiresAt = now.Add(s.Retention)
}

// Outcomes of Expire.
const (
	C12ExpNotFound = "not-found"
	C12ExpNoop     = "already-expired"
	C12ExpDone     = "expired"
)

// Expire is DELETE /api/v2/silence/{id} at instant now. The second result is
// the state the silence had before the call.
func (s *C12Silences) Expire(now time.Time, id string) (outcome, before string) {
	p, ok := s.Sils[id]
	if !ok {
		return C12ExpNotFound, ""
	}
	before = C12StateAt(p, now)
	if before == C12Expired {
		return C12ExpNoop, before
	}
	s.expire(p, now)
	return C12ExpDone, before
}

// Collectable lists (sorted) the ids a GC at now removes: exactly those whose
// end plus retention has passed. Never a pending or active one (their end is
// not in the past).
func (s *C12Silences) Collectable(now time.Time) []string {
	var ids []string
	for id, p := range s.Sils {
		if !p.ExpiresAt.After(now) {
			ids = append(ids, id)
		}
	}
	sort.Strings(ids)
	return ids
}

// GC removes and returns the collectable ids.
func (s *C12Silences) GC(now time.Time) []string {
	ids := s.Collectable(now)
	for _, id := range ids {
		delete(s.Sils, id)
	}
	return ids
}

func (s *C12Silences) Get(id string) (*C12Silence, bool) {
	p, ok := s.Sils[id]
	return p, ok
}

// IDs returns the stored ids in creation order.
func (s *C12Silences) IDs() []string {
	ids := make([]string, 0, len(s.Sils))
	for id := range s.Sils {
		ids = append(ids, id)
	}
	sort.Slice(ids, func(i, j int) bool {
		if len(ids[i]) != len(ids[j]) {
			return len(ids[i]) < len(ids[j])
		}
		return ids[i] < ids[j]
	})
	return ids
}

// Silencing returns (sorted) the ids of the stored silences that are active at
// now and have a matcher set matching lset (missing label = ""). Requires
// matchers with a structural oracle (regex matchers with Re != nil).
func (s *C12Silences) Silencing(now time.Time, lset map[string]string) []string {
	var ids []string
	for _, id := range s.IDs() {
		p := s.Sils[id]
		if C12StateAt(p, now) == C12Active && MatchAny(p.MatcherSets, lset) {
			ids = append(ids, id)
		}
	}
	return ids
}

// Clone returns a deep copy of the model.
func (s *C12Silences) Clone() *C12Silences {
	c := *s
	c.Sils = make(map[string]*C12Silence, len(s.Sils))
	for id, p := range s.Sils {
		c.Sils[id] = p.clone()
	}
	return &c
}
