package ref

// C13AlertStore is the reference model of the alert store behind
// POST/GET /api/v2/alerts (DESIGN Appendix A.1). It is written from the
// statement of property C13 and docs/alerts_api.md:
//
//   - labels with an empty value are dropped before anything else;
//   - an alert is invalid iff it has no labels, a label/annotation name or
//     value that is not valid for the active name rules, or an end before its
//     start; invalid alerts are skipped, the rest of the batch is stored;
//   - a missing start becomes the receive time, or the given end;
//   - a missing end becomes receive time + resolve_timeout ("timeout" end) and
//     every re-send without an end pushes it forward;
//   - a submission whose activity range overlaps the stored range of the same
//     label set is merged: earliest start, the newer submission's other fields,
//     end by the resolved / timeout rules; otherwise it replaces the stored one;
//   - an explicit end in the past resolves the alert immediately;
//   - an alert is visible while its end has not passed; GC removes exactly the
//     alerts whose end has passed.
//
// The type is plain data (JSON round-trips) and has no dependency on the code
// under test.

import (
	"regexp"
	"sort"
	"strconv"
	"strings"
	"time"
	"unicode/utf8"
)

// C13Alert is one submitted alert. A zero StartsAt / EndsAt means "omitted".
type C13Alert struct {
	Labels      map[string]string `json:"labels"`
	Annotations map[string]string `json:"annotations,omitempty"`
	StartsAt    time.Time         `json:"starts_at"`
	EndsAt      time.Time         `json:"ends_at"`
}

// C13Stored is the merged state kept per label set.
type C13Stored struct {
	Labels      map[string]string `json:"labels"`
	Annotations map[string]string `json:"annotations,omitempty"`
	Start       time.Time         `json:"start"`
	End         time.Time         `json:"end"`
	Updated     time.Time         `json:"updated"`
	Timeout     bool              `json:"timeout"` // End was derived from resolve_timeout by the newest submission
}

// Outcome kinds of C13AlertStore.Post.
const (
	C13Invalid = "invalid" // rejected, store unchanged
	C13New     = "new"     // nothing stored under this label set
	C13Replace = "replace" // stored range does not overlap: the submission replaces it
	C13Merge   = "merge"   // stored range overlaps: merged
)

// C13Outcome describes what one submission did.
type C13Outcome struct {
	Kind     string    `json:"kind"`
	Reason   string    `json:"reason,omitempty"` // why invalid
	Key      string    `json:"key,omitempty"`    // canonical label-set key (after stripping)
	Stripped int       `json:"stripped,omitempty"`
	Result   C13Stored `json:"result"` // stored value afterwards (valid outcomes)
	Previous C13Stored `json:"previous"`
	// Ambiguous is non-empty when the statement and the documentation do not
	// decide the outcome of this submission (the model then follows DESIGN
	// A.1, and a caller that wants a sound oracle does not submit it):
	//   "missing-start-future-end": no startsAt, explicit endsAt in the future —
	//       the statement says "receive time (or endsAt)", the docs "current time";
	//   "touching": the submitted range only touches the stored one in a point
	//       (overlap or not is not decided);
	//   "timeout-vs-later-explicit-end": no endsAt while the stored alert has a
	//       later explicit end — docs: "update the existing endsAt to the current
	//       time + resolve_timeout", statement: "pushed forward".
	Ambiguous string `json:"ambiguous,omitempty"`
	// Facts for class histograms.
	PastEnd       bool `json:"past_end,omitempty"`       // explicit end not after the receive time
	PushedForward bool `json:"pushed_forward,omitempty"` // merge of two timeout ends that moved the end forward
	OldResolved   bool `json:"old_resolved,omitempty"`   // stored alert's end had passed (not yet collected)
}

// C13AlertStore: label-set key -> merged alert.
type C13AlertStore struct {
	ResolveTimeout time.Duration         `json:"resolve_timeout"`
	ClassicNames   bool                  `json:"classic_names"` // classic-mode name rules instead of UTF-8
	Alerts         map[string]*C13Stored `json:"alerts"`
}

func NewC13AlertStore(resolveTimeout time.Duration, classicNames bool) *C13AlertStore {
	return &C13AlertStore{ResolveTimeout: resolveTimeout, ClassicNames: classicNames, Alerts: map[string]*C13Stored{}}
}

// C13LabelKey is the canonical identity of a label set.
func C13LabelKey(ls map[string]string) string {
	names := make([]string, 0, len(ls))
	for n := range ls {
		names = append(names, n)
	}
	sort.Strings(names)
	var sb strings.Builder
	for _, n := range names {
		sb.WriteString(strconv.Quote(n))
		sb.WriteByte('=')
		sb.WriteString(strconv.Quote(ls[n]))
		sb.WriteByte(',')
	}
	return sb.String()
}

var c13ClassicName = regexp.MustCompile(`^[a-zA-Z_][a-zA-Z0-9_]*$`)

func (s *C13AlertStore) nameOK(n string) bool {
	if s.ClassicNames {
		return c13ClassicName.MatchString(n)
	}
	return n != "" && utf8.ValidString(n)
}

func (s *C13AlertStore) pairsOK(m map[string]string) (string, bool) {
	names := make([]string, 0, len(m))
	for n := range m {
		names = append(names, n)
	}
	sort.Strings(names)
	for _, n := range names {
		if !s.nameOK(n) {
			return "name " + strconv.Quote(n), false
		}
		if !utf8.ValidString(m[n]) {
			return "value of " + strconv.Quote(n), false
		}
	}
	return "", true
}

func copyMap(m map[string]string) map[string]string {
	out := make(map[string]string, len(m))
	for k, v := range m {
		out[k] = v
	}
	return out
}

// Peek computes the outcome of Post without changing the store.
func (s *C13AlertStore) Peek(now time.Time, a C13Alert) C13Outcome {
	out, _ := s.eval(now, a)
	return out
}

// Post applies one submission received at now.
func (s *C13AlertStore) Post(now time.Time, a C13Alert) C13Outcome {
	out, st := s.eval(now, a)
	if st != nil {
		s.Alerts[out.Key] = st
	}
	return out
}

// PostBatch applies a batch in order; ok is false iff some alert was invalid
// (the API answers 400 then, 200 otherwise).
func (s *C13AlertStore) PostBatch(now time.Time, batch []C13Alert) (outs []C13Outcome, ok bool) {
	ok = true
	for _, a := range batch {
		o := s.Post(now, a)
		if o.Kind == C13Invalid {
			ok = false
		}
		outs = append(outs, o)
	}
	return outs, ok
}

func (s *C13AlertStore) eval(now time.Time, a C13Alert) (C13Outcome, *C13Stored) {
	var out C13Outcome
	// 1. strip empty-valued labels
	labels := map[string]string{}
	for n, v := range a.Labels {
		if v == "" {
			out.Stripped++
			continue
		}
		labels[n] = v
	}
	// 2. defaults
	n := C13Stored{Labels: labels, Annotations: copyMap(a.Annotations), Start: a.StartsAt, End: a.EndsAt, Updated: now}
	if n.Start.IsZero() {
		if n.End.IsZero() {
			n.Start = now
		} else {
			n.Start = n.End
			if n.End.After(now) {
				out.Ambiguous = "missing-start-future-end"
			}
		}
	}
	if n.End.IsZero() {
		n.End = now.Add(s.ResolveTimeout)
		n.Timeout = true
	}
	// 3. validity
	switch {
	case len(labels) == 0:
		out.Reason = "no labels"
	case n.End.Before(n.Start):
		out.Reason = "end before start"
	default:
		if why, ok := s.pairsOK(labels); !ok {
			out.Reason = "label " + why
		} else if why, ok := s.pairsOK(a.Annotations); !ok {
			out.Reason = "annotation " + why
		}
	}
	if out.Reason != "" {
		out.Kind = C13Invalid
		out.Ambiguous = ""
		return out, nil
	}
	out.Key = C13LabelKey(labels)
	nResolved := !n.End.After(now)
	out.PastEnd = nResolved && !n.Timeout
	o, stored := s.Alerts[out.Key]
	if !stored {
		out.Kind = C13New
		out.Result = n
		return out, &n
	}
	out.Previous = *o
	oResolved := !o.End.After(now)
	out.OldResolved = oResolved
	// 4. overlap of the activity ranges: the later start lies before the
	// earlier end (so a zero-length range overlaps iff it lies strictly inside
	// the other range).
	if n.Start.Equal(o.End) || n.End.Equal(o.Start) {
		if out.Ambiguous == "" {
			out.Ambiguous = "touching"
		}
	}
	overlap := n.Start.Before(o.End) && o.Start.Before(n.End)
	if !overlap {
		out.Kind = C13Replace
		out.Result = n
		return out, &n
	}
	// 5. merge: earliest start; everything else from the newer submission;
	// end by the resolved / timeout rules.
	out.Kind = C13Merge
	m := n
	if o.Start.Before(m.Start) {
		m.Start = o.Start
	}
	if nResolved {
		// an end in the past resolves the alert now; when the stored alert is
		// already over as well, the later of the two ends stands.
		if oResolved && o.End.After(n.End) {
			m.End = o.End
		}
	} else {
		// still firing: a later explicit end of the stored alert is not
		// shortened; a stored timeout end never outlives the newer end.
		if !o.Timeout && o.End.After(n.End) {
			m.End = o.End
			if n.Timeout && out.Ambiguous == "" {
				out.Ambiguous = "timeout-vs-later-explicit-end"
			}
		}
		if o.Timeout && n.Timeout && n.End.After(o.End) {
			out.PushedForward = true
		}
	}
	out.Result = m
	return out, &m
}

// GC removes (and returns, ordered by key) the alerts whose end has passed.
func (s *C13AlertStore) GC(now time.Time) []C13Stored {
	var removed []C13Stored
	for _, k := range s.keys() {
		if a := s.Alerts[k]; !a.End.After(now) {
			removed = append(removed, *a)
			delete(s.Alerts, k)
		}
	}
	return removed
}

// Visible: what GET /api/v2/alerts shows at now (end not passed), by key.
func (s *C13AlertStore) Visible(now time.Time) []C13Stored {
	var out []C13Stored
	for _, k := range s.keys() {
		if a := s.Alerts[k]; !a.End.Before(now) {
			out = append(out, *a)
		}
	}
	return out
}

// Firing: alerts with end strictly after now, by key.
func (s *C13AlertStore) Firing(now time.Time) []C13Stored {
	var out []C13Stored
	for _, k := range s.keys() {
		if a := s.Alerts[k]; a.End.After(now) {
			out = append(out, *a)
		}
	}
	return out
}

// Get returns the stored alert of a label set.
func (s *C13AlertStore) Get(labels map[string]string) (C13Stored, bool) {
	a, ok := s.Alerts[C13LabelKey(labels)]
	if !ok {
		return C13Stored{}, false
	}
	return *a, true
}

func (s *C13AlertStore) keys() []string {
	ks := make([]string, 0, len(s.Alerts))
	for k := range s.Alerts {
		ks = append(ks, k)
	}
	sort.Strings(ks)
	return ks
}
