// Package ref holds independent reference implementations ("oracles") written
// from the property statements and the documentation, not from the code.
package ref

import (
	"strings"
	"unicode"
)

// Re is a tiny regular-expression AST. Only shapes whose printed form is a
// valid RE2 expression on its own are representable, and matching is decided
// by an independent backtracking matcher over runes (whole-string semantics).
type Re struct {
	Op   string `json:"op"`             // lit, any, class, cat, alt, star, plus, opt, group, bol (^), eol ($), fold ((?i:…)), foldall ((?i)… — only as the root), perl (\d \w \s \D \W \S: Lit holds the letter), esc (one punctuation character written with a backslash: Lit)
	Lit  string `json:"lit,omitempty"`  // lit: literal text (printed quoted); class: the member runes
	Neg  bool   `json:"neg,omitempty"`  // class: negated
	Subs []*Re  `json:"subs,omitempty"` // cat, alt: n; star, plus, opt, group: 1
}

const reMeta = `\.+*?()|[]{}^$`

func quoteMeta(s string) string {
	var sb strings.Builder
	for _, r := range s {
		if strings.ContainsRune(reMeta, r) {
			sb.WriteByte('\\')
		}
		sb.WriteRune(r)
	}
	return sb.String()
}

func (r *Re) String() string {
	switch r.Op {
	case "lit":
		return quoteMeta(r.Lit)
	case "any":
		return "."
	case "bol":
		return "^"
	case "eol":
		return "$"
	case "class":
		var sb strings.Builder
		sb.WriteByte('[')
		if r.Neg {
			sb.WriteByte('^')
		}
		for _, c := range r.Lit {
			if strings.ContainsRune(`\]^-[`, c) {
				sb.WriteByte('\\')
			}
			sb.WriteRune(c)
		}
		sb.WriteByte(']')
		return sb.String()
	case "cat":
		var sb strings.Builder
		for _, s := range r.Subs {
			if s.Op == "alt" || s.Op == "foldall" {
				// "(?i)" binds everything to its right up to the end of the enclosing group: fence it in
				sb.WriteString("(?:" + s.String() + ")")
			} else {
				sb.WriteString(s.String())
			}
		}
		return sb.String()
	case "alt":
		parts := make([]string, len(r.Subs))
		for i, s := range r.Subs {
			parts[i] = s.String()
			if s.Op == "foldall" {
				parts[i] = "(?:" + parts[i] + ")"
			}
		}
		return strings.Join(parts, "|")
	case "star", "plus", "opt":
		suffix := map[string]string{"star": "*", "plus": "+", "opt": "?"}[r.Op]
		// an atom is repeated as written (".*", "[ab]+", "x?": the forms people write, and the ones an
		// implementation might special-case); anything else is wrapped in a non-capturing group
		if sub := r.Subs[0]; sub.Op == "any" || sub.Op == "class" || sub.Op == "group" || sub.Op == "perl" || sub.Op == "esc" || (sub.Op == "lit" && len([]rune(sub.Lit)) == 1) {
			return sub.String() + suffix
		}
		return "(?:" + r.Subs[0].String() + ")" + suffix
	case "group":
		return "(" + r.Subs[0].String() + ")"
	case "perl", "esc":
		return "\\" + r.Lit
	case "fold":
		return "(?i:" + r.Subs[0].String() + ")"
	case "foldall":
		return "(?i)" + r.Subs[0].String()
	}
	panic("bad re op " + r.Op)
}

// sameFold: a and b are equal under Unicode simple case folding (the relation RE2's (?i) uses): b lies on the
// SimpleFold orbit of a.
func sameFold(a, b rune) bool {
	if a == b {
		return true
	}
	for c := unicode.SimpleFold(a); c != a; c = unicode.SimpleFold(c) {
		if c == b {
			return true
		}
	}
	return false
}

// perlHas: the Perl classes of RE2 are ASCII-only: \d [0-9], \w [0-9A-Za-z_], \s [\t\n\f\r ]; upper case negates.
// Under (?i) a class contains every character whose case-folding orbit meets it.
func perlHas(letter string, c rune, fold bool) bool {
	in := func(c rune) bool {
		switch letter {
		case "d", "D":
			return c >= '0' && c <= '9'
		case "w", "W":
			return (c >= '0' && c <= '9') || (c >= 'a' && c <= 'z') || (c >= 'A' && c <= 'Z') || c == '_'
		default:
			return c == '\t' || c == '\n' || c == '\f' || c == '\r' || c == ' '
		}
	}
	has := in(c)
	if !has && fold {
		for f := unicode.SimpleFold(c); f != c; f = unicode.SimpleFold(f) {
			if in(f) {
				has = true
			}
		}
	}
	if letter == "D" || letter == "W" || letter == "S" {
		return !has
	}
	return has
}

func classHas(members string, c rune, fold bool) bool {
	for _, m := range members {
		if m == c || (fold && sameFold(m, c)) {
			return true
		}
	}
	return false
}

// Match reports whether the whole of s is in the language of r. The decision is denotational: ends(r, S) is the
// set of positions reachable by matching r from some position in S, so matching costs polynomial time whatever the
// nesting of stars (a backtracking search is exponential on e.g. (x*)* over a long run of x).
func (r *Re) Match(s string) bool {
	rs := []rune(s)
	start := make([]bool, len(rs)+1)
	start[0] = true
	return r.ends(rs, start, false)[len(rs)]
}

func anySet(a []bool) bool {
	for _, b := range a {
		if b {
			return true
		}
	}
	return false
}

// ends returns the set of end positions of matches of r that start at a position of `from`.
func (r *Re) ends(s []rune, from []bool, fold bool) []bool {
	out := make([]bool, len(s)+1)
	switch r.Op {
	case "lit":
		l := []rune(r.Lit)
		for i, ok := range from {
			if !ok || i+len(l) > len(s) {
				continue
			}
			eq := true
			for j, c := range l {
				if s[i+j] != c && !(fold && sameFold(s[i+j], c)) {
					eq = false
					break
				}
			}
			if eq {
				out[i+len(l)] = true
			}
		}
		return out
	case "bol":
		// no multi-line flag: ^ holds at the beginning of the text only, $ at its end only
		out[0] = from[0]
		return out
	case "eol":
		out[len(s)] = from[len(s)]
		return out
	case "any":
		// RE2 default: '.' does not match newline.
		for i, ok := range from {
			if ok && i < len(s) && s[i] != '\n' {
				out[i+1] = true
			}
		}
		return out
	case "class":
		for i, ok := range from {
			if ok && i < len(s) && classHas(r.Lit, s[i], fold) != r.Neg {
				out[i+1] = true
			}
		}
		return out
	case "esc":
		c := []rune(r.Lit)[0]
		for i, ok := range from {
			if ok && i < len(s) && (s[i] == c || (fold && sameFold(s[i], c))) {
				out[i+1] = true
			}
		}
		return out
	case "perl":
		for i, ok := range from {
			if ok && i < len(s) && perlHas(r.Lit, s[i], fold) {
				out[i+1] = true
			}
		}
		return out
	case "cat":
		cur := from
		for _, sub := range r.Subs {
			cur = sub.ends(s, cur, fold)
			if !anySet(cur) {
				return out
			}
		}
		copy(out, cur)
		return out
	case "alt":
		for _, sub := range r.Subs {
			for i, ok := range sub.ends(s, from, fold) {
				if ok {
					out[i] = true
				}
			}
		}
		return out
	case "group":
		return r.Subs[0].ends(s, from, fold)
	case "fold", "foldall":
		return r.Subs[0].ends(s, from, true)
	case "opt":
		copy(out, from)
		for i, ok := range r.Subs[0].ends(s, from, fold) {
			if ok {
				out[i] = true
			}
		}
		return out
	case "star":
		return starEnds(r.Subs[0], s, from, fold)
	case "plus":
		return starEnds(r.Subs[0], s, r.Subs[0].ends(s, from, fold), fold)
	}
	panic("bad re op " + r.Op)
}

// starEnds: least fixed point of R = from ∪ ends(sub, R), computed on the frontier of new positions.
func starEnds(sub *Re, s []rune, from []bool, fold bool) []bool {
	out := make([]bool, len(s)+1)
	copy(out, from)
	frontier := from
	for anySet(frontier) {
		next := make([]bool, len(s)+1)
		for i, ok := range sub.ends(s, frontier, fold) {
			if ok && !out[i] {
				out[i] = true
				next[i] = true
			}
		}
		frontier = next
	}
	return out
}

// Matcher is the reference form of one label matcher.
type Matcher struct {
	Op    string `json:"op"` // = != =~ !~
	Name  string `json:"name"`
	Value string `json:"value,omitempty"` // =, != : literal; =~, !~ : pattern text when Re is nil
	Re    *Re    `json:"re,omitempty"`    // =~, !~ with structural oracle
}

// Pattern returns the text handed to the code under test as matcher value.
func (m Matcher) Pattern() string {
	if m.Re != nil {
		return m.Re.String()
	}
	return m.Value
}

// Holds evaluates the matcher on a label value (missing label = "").
// Only valid for matchers with a structural oracle (= / != always; regex iff Re != nil).
func (m Matcher) Holds(v string) bool {
	switch m.Op {
	case "=":
		return v == m.Value
	case "!=":
		return v != m.Value
	case "=~":
		return m.Re.Match(v)
	case "!~":
		return !m.Re.Match(v)
	}
	panic("bad matcher op")
}

// MatchAll: conjunction over a label set given as map (missing = "").
func MatchAll(ms []Matcher, lset map[string]string) bool {
	for _, m := range ms {
		if !m.Holds(lset[m.Name]) {
			return false
		}
	}
	return true
}

// MatchAny: disjunction of conjunctions.
func MatchAny(sets [][]Matcher, lset map[string]string) bool {
	for _, ms := range sets {
		if MatchAll(ms, lset) {
			return true
		}
	}
	return false
}
