// Package ref holds independent reference implementations ("oracles") written
// from the property statements and the documentation, not from the code.
package ref

import (
	"strings"
)

// Re is a tiny regular-expression AST. Only shapes whose printed form is a
// valid RE2 expression on its own are representable, and matching is decided
// by an independent backtracking matcher over runes (whole-string semantics).
type Re struct {
	Op   string `json:"op"`             // lit, any, class, cat, alt, star, plus, opt, group
	Lit  string `json:"lit,omitempty"`  // lit: literal text (printed quoted); class: the member runes
	Neg  bool   `json:"neg,omitempty"`  // class: negated
	Subs []*Re  `json:"subs,omitempty"` // cat, alt: n; star, plus, opt, group: 1
}

const reMeta = `\.+*?()|[]{}^$`

func quoteMeta(s string) string {
	var sb strings.Builder
	for _, r := range s {
		if strings.ContainsRune(reMeta, r) {
			sb.WriteByte('\\')
		}
		sb.WriteRune(r)
	}
	return sb.String()
}

func (r *Re) String() string {
	switch r.Op {
	case "lit":
		return quoteMeta(r.Lit)
	case "any":
		return "."
	case "class":
		var sb strings.Builder
		sb.WriteByte('[')
		if r.Neg {
			sb.WriteByte('^')
		}
		for _, c := range r.Lit {
			if strings.ContainsRune(`\]^-[`, c) {
				sb.WriteByte('\\')
			}
			sb.WriteRune(c)
		}
		sb.WriteByte(']')
		return sb.String()
	case "cat":
		var sb strings.Builder
		for _, s := range r.Subs {
			if s.Op == "alt" {
				sb.WriteString("(?:" + s.String() + ")")
			} else {
				sb.WriteString(s.String())
			}
		}
		return sb.String()
	case "alt":
		parts := make([]string, len(r.Subs))
		for i, s := range r.Subs {
			parts[i] = s.String()
		}
		return strings.Join(parts, "|")
	case "star", "plus", "opt":
		suffix := map[string]string{"star": "*", "plus": "+", "opt": "?"}[r.Op]
		return "(?:" + r.Subs[0].String() + ")" + suffix
	case "group":
		return "(" + r.Subs[0].String() + ")"
	}
	panic("bad re op " + r.Op)
}

// Match reports whether the whole of s is in the language of r.
func (r *Re) Match(s string) bool {
	rs := []rune(s)
	budget := 200000
	ok := false
	r.m(rs, 0, func(j int) bool {
		if j == len(rs) {
			ok = true
			return true
		}
		return false
	}, &budget)
	return ok
}

// m calls k with every end position reachable by matching r at i; k returns
// true to stop the search.
func (r *Re) m(s []rune, i int, k func(int) bool, budget *int) bool {
	*budget--
	if *budget < 0 {
		panic("ref.Re: step budget exhausted")
	}
	switch r.Op {
	case "lit":
		l := []rune(r.Lit)
		if i+len(l) > len(s) {
			return false
		}
		for j, c := range l {
			if s[i+j] != c {
				return false
			}
		}
		return k(i + len(l))
	case "any":
		// RE2 default: '.' does not match newline.
		if i < len(s) && s[i] != '\n' {
			return k(i + 1)
		}
		return false
	case "class":
		if i >= len(s) {
			return false
		}
		in := strings.ContainsRune(r.Lit, s[i])
		if in != r.Neg {
			return k(i + 1)
		}
		return false
	case "cat":
		return catM(r.Subs, s, i, k, budget)
	case "alt":
		for _, sub := range r.Subs {
			if sub.m(s, i, k, budget) {
				return true
			}
		}
		return false
	case "group":
		return r.Subs[0].m(s, i, k, budget)
	case "opt":
		if r.Subs[0].m(s, i, k, budget) {
			return true
		}
		return k(i)
	case "star":
		return starM(r.Subs[0], s, i, k, budget)
	case "plus":
		return r.Subs[0].m(s, i, func(j int) bool {
			if j == i {
				return k(j)
			}
			return starM(r.Subs[0], s, j, k, budget)
		}, budget)
	}
	panic("bad re op " + r.Op)
}

func catM(subs []*Re, s []rune, i int, k func(int) bool, budget *int) bool {
	if len(subs) == 0 {
		return k(i)
	}
	return subs[0].m(s, i, func(j int) bool { return catM(subs[1:], s, j, k, budget) }, budget)
}

func starM(sub *Re, s []rune, i int, k func(int) bool, budget *int) bool {
	if k(i) {
		return true
	}
	return sub.m(s, i, func(j int) bool {
		if j == i { // empty iteration: no progress
			return false
		}
		return starM(sub, s, j, k, budget)
	}, budget)
}

// Matcher is the reference form of one label matcher.
type Matcher struct {
	Op    string `json:"op"` // = != =~ !~
	Name  string `json:"name"`
	Value string `json:"value,omitempty"` // =, != : literal; =~, !~ : pattern text when Re is nil
	Re    *Re    `json:"re,omitempty"`    // =~, !~ with structural oracle
}

// Pattern returns the text handed to the code under test as matcher value.
func (m Matcher) Pattern() string {
	if m.Re != nil {
		return m.Re.String()
	}
	return m.Value
}

// Holds evaluates the matcher on a label value (missing label = "").
// Only valid for matchers with a structural oracle (= / != always; regex iff Re != nil).
func (m Matcher) Holds(v string) bool {
	switch m.Op {
	case "=":
		return v == m.Value
	case "!=":
		return v != m.Value
	case "=~":
		return m.Re.Match(v)
	case "!~":
		return !m.Re.Match(v)
	}
	panic("bad matcher op")
}

// MatchAll: conjunction over a label set given as map (missing = "").
func MatchAll(ms []Matcher, lset map[string]string) bool {
	for _, m := range ms {
		if !m.Holds(lset[m.Name]) {
			return false
		}
	}
	return true
}

// MatchAny: disjunction of conjunctions.
func MatchAny(sets [][]Matcher, lset map[string]string) bool {
	for _, ms := range sets {
		if MatchAll(ms, lset) {
			return true
		}
	}
	return false
}
