package ref

// Reference pieces for C20 (delivery contract), written from the property
// statement and docs/notifications.md, not from the code under test.

import (
	"fmt"
	"strings"
	"unicode/utf8"
)

// C20Common returns the (key, value) pairs present with the same value in
// every map ("the labels common to all of the alerts"). For an empty list the
// result is empty.
func C20Common(ms []map[string]string) map[string]string {
	out := map[string]string{}
	if len(ms) == 0 {
		return out
	}
	for k, v := range ms[0] {
		all := true
		for _, m := range ms[1:] {
			if w, ok := m[k]; !ok || w != v {
				all = false
				break
			}
		}
		if all {
			out[k] = v
		}
	}
	return out
}

// C20Status: "firing if at least one alert is firing, otherwise resolved".
func C20Status(firing []bool) string {
	for _, f := range firing {
		if f {
			return "firing"
		}
	}
	return "resolved"
}

// C20TruncIssue is one broken clause of the truncation contract.
type C20TruncIssue struct {
	Kind string
	Msg  string
}

const c20Marker = "…"

// c20RunePrefix reports whether the rune sequence of p (Go's conversion:
// every invalid byte is one U+FFFD) is a prefix of the rune sequence of s.
func c20RunePrefix(p, s string) bool {
	pr, sr := []rune(p), []rune(s)
	if len(pr) > len(sr) {
		return false
	}
	for i := range pr {
		if pr[i] != sr[i] {
			return false
		}
	}
	return true
}

// C20JudgeTruncate judges one call of a truncation function.
//
//	unit "runes": size(x) = number of runes of x (an invalid byte counts as one)
//	unit "bytes": size(x) = len(x)
//
// Clauses (DESIGN §4 C20 / property text "text truncation never exceeds its
// limit or splits a character"):
//
//	limit      size(out) <= n
//	fits       size(s) <= n  =>  out == s and truncated == false
//	reports    size(s) >  n  =>  truncated == true
//	prefix     out, minus at most one trailing marker "…", is a prefix of s
//	           (byte-wise when s is valid UTF-8, rune-wise otherwise); when no
//	           part of the string can be kept next to the marker the byte
//	           variant may return only dots ("." / "..") instead
//	valid      s valid UTF-8  =>  out valid UTF-8 (no split character)
func C20JudgeTruncate(unit string, s []byte, n int, out string, truncated bool) []C20TruncIssue {
	var is []C20TruncIssue
	in := string(s)
	size := func(x string) int {
		if unit == "runes" {
			return utf8.RuneCountInString(x)
		}
		return len(x)
	}
	if size(out) > n {
		is = append(is, C20TruncIssue{"limit", fmt.Sprintf("result has %d %s, limit %d", size(out), unit, n)})
	}
	if size(in) <= n {
		if out != in || truncated {
			is = append(is, C20TruncIssue{"fits-changed", fmt.Sprintf("input fits (%d %s <= %d) but result %q, truncated=%v", size(in), unit, n, out, truncated)})
		}
		return is
	}
	if !truncated {
		is = append(is, C20TruncIssue{"not-reported", fmt.Sprintf("input has %d %s > %d but truncated=false", size(in), unit, n)})
	}
	valid := utf8.Valid(s)
	if valid && !utf8.ValidString(out) {
		is = append(is, C20TruncIssue{"split-character", fmt.Sprintf("valid UTF-8 input, result %q is not valid UTF-8", out)})
	}
	isPrefix := func(p string) bool {
		if valid {
			return strings.HasPrefix(in, p)
		}
		return c20RunePrefix(p, in)
	}
	ok := isPrefix(out) || (strings.HasSuffix(out, c20Marker) && isPrefix(strings.TrimSuffix(out, c20Marker)))
	if !ok && unit == "bytes" && (out == "." || out == "..") {
		ok = true
	}
	if !ok {
		is = append(is, C20TruncIssue{"not-prefix", fmt.Sprintf("result %q is not a prefix of the input (plus marker)", out)})
	}
	return is
}
