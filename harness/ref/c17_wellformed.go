package ref

// C17: the well-formedness conditions the property statement promises for every
// configuration that config.Load accepts. Written from the statement of C17
// ("the root route has a receiver and no matchers, mute or active intervals,
// every route's receiver and every referenced time interval is defined,
// receiver and interval names are unique, group_by has no duplicates and does
// not mix '...' with labels, and group_interval and repeat_interval are
// non-zero"), not from config.(*Config).UnmarshalYAML: it walks the *result*
// and never looks at how the loader validates.

import (
	"fmt"
	"reflect"

	"github.com/prometheus/alertmanager/config"
)

// C17Issue is one breach of the well-formedness conditions.
type C17Issue struct {
	Kind string // stable identifier, used as the violation kind suffix
	Path string // route path ("root", "root/0/2") or a name
	Item string // the field concerned, where that narrows the breach (e.g. "SlackConfigs")
	Msg  string
}

// C17WellFormed returns every breach found in an accepted configuration.
func C17WellFormed(cfg *config.Config) []C17Issue {
	var out []C17Issue
	add := func(kind, path, format string, a ...any) {
		out = append(out, C17Issue{Kind: kind, Path: path, Msg: fmt.Sprintf(format, a...)})
	}
	if cfg == nil {
		add("nil-config", "", "Load returned a nil config and a nil error")
		return out
	}

	// receiver names are unique
	receivers := map[string]int{}
	for _, r := range cfg.Receivers {
		receivers[r.Name]++
	}
	for n, c := range receivers {
		if c > 1 {
			add("duplicate-receiver", n, "receiver name %q is defined %d times", n, c)
		}
	}

	// interval names are unique (both sections feed the one namespace routes refer to)
	intervals := map[string]int{}
	for _, ti := range cfg.MuteTimeIntervals {
		intervals[ti.Name]++
	}
	for _, ti := range cfg.TimeIntervals {
		intervals[ti.Name]++
	}
	for n, c := range intervals {
		if c > 1 {
			add("duplicate-interval", n, "time interval name %q is defined %d times", n, c)
		}
	}

	root := cfg.Route
	if root == nil {
		add("no-root", "root", "accepted configuration has no root route")
		return out
	}
	if root.Receiver == "" {
		add("root-no-receiver", "root", "root route has no receiver")
	}
	if len(root.Match) > 0 || len(root.MatchRE) > 0 || len(root.Matchers) > 0 {
		add("root-matchers", "root", "root route has matchers (match=%d match_re=%d matchers=%d)", len(root.Match), len(root.MatchRE), len(root.Matchers))
	}
	if len(root.MuteTimeIntervals) > 0 {
		add("root-mute-intervals", "root", "root route has mute_time_intervals %v", root.MuteTimeIntervals)
	}
	if len(root.ActiveTimeIntervals) > 0 {
		add("root-active-intervals", "root", "root route has active_time_intervals %v", root.ActiveTimeIntervals)
	}

	var walk func(r *config.Route, path, inherited string, depth int)
	walk = func(r *config.Route, path, inherited string, depth int) {
		if r == nil {
			add("nil-route", path, "nil route in the routing tree")
			return
		}
		if depth > 10000 {
			add("route-cycle", path, "routing tree deeper than 10000 (cycle?)")
			return
		}
		eff := inherited
		if r.Receiver != "" {
			eff = r.Receiver
		}
		if eff != "" {
			if _, ok := receivers[eff]; !ok {
				add("undefined-receiver", path, "route %s uses receiver %q which is not defined", path, eff)
			}
		}
		for _, n := range r.MuteTimeIntervals {
			if _, ok := intervals[n]; !ok {
				add("undefined-interval", path, "route %s refers to undefined mute time interval %q", path, n)
			}
		}
		for _, n := range r.ActiveTimeIntervals {
			if _, ok := intervals[n]; !ok {
				add("undefined-interval", path, "route %s refers to undefined active time interval %q", path, n)
			}
		}
		// group_by: as written ...
		seen := map[string]bool{}
		dots, names := false, 0
		for _, l := range r.GroupByStr {
			if l == "..." {
				dots = true
				continue
			}
			names++
			if seen[l] {
				add("group-by-duplicate", path, "route %s: group_by lists %q twice", path, l)
			}
			seen[l] = true
		}
		if dots && names > 0 {
			add("group-by-mixed", path, "route %s: group_by mixes '...' with labels %v", path, r.GroupByStr)
		}
		// ... and as the dispatcher will read it
		seenLN := map[string]bool{}
		for _, l := range r.GroupBy {
			if seenLN[string(l)] {
				add("group-by-duplicate", path, "route %s: parsed GroupBy lists %q twice", path, l)
			}
			seenLN[string(l)] = true
		}
		if r.GroupByAll && len(r.GroupBy) > 0 {
			add("group-by-mixed", path, "route %s: GroupByAll together with GroupBy %v", path, r.GroupBy)
		}
		if r.GroupInterval != nil && *r.GroupInterval == 0 {
			add("zero-group-interval", path, "route %s: group_interval is zero", path)
		}
		if r.RepeatInterval != nil && *r.RepeatInterval == 0 {
			add("zero-repeat-interval", path, "route %s: repeat_interval is zero", path)
		}
		for i, c := range r.Routes {
			walk(c, fmt.Sprintf("%s/%d", path, i), eff, depth+1)
		}
	}
	walk(root, "root", "", 0)

	// Every caller (config/receiver.BuildReceiverIntegrations) dereferences each
	// entry of the per-integration lists: a nil entry is a delayed panic.
	for i := range cfg.Receivers {
		rv := reflect.ValueOf(&cfg.Receivers[i]).Elem()
		for f := 0; f < rv.NumField(); f++ {
			fv := rv.Field(f)
			if fv.Kind() != reflect.Slice || fv.Type().Elem().Kind() != reflect.Ptr {
				continue
			}
			for k := 0; k < fv.Len(); k++ {
				if fv.Index(k).IsNil() {
					add("nil-integration-config", cfg.Receivers[i].Name, "receiver %q: %s[%d] is nil", cfg.Receivers[i].Name, rv.Type().Field(f).Name, k)
					out[len(out)-1].Item = rv.Type().Field(f).Name
				}
			}
		}
	}
	return out
}
