package ref

// Reference calendar for C15 (DESIGN Appendix A.7), written from the property
// statement and docs/configuration.md "<time_interval_spec>":
//
//   - the instant is converted to the interval's location (UTC by default);
//   - minute-of-day ∈ some [start, end)                       (end exclusive);
//   - weekday, month, year ∈ some inclusive range;
//   - day of month ∈ some inclusive range, negative values counting from the
//     month's end (-1 = last day), the range intersected with [1, days-in-month];
//   - a field without ranges matches everything;
//   - all fields must match.
//
// The Go time package is trusted for the zone conversion only (time.In +
// Date/Clock). Month lengths, leap years and the weekday are computed here.

import (
	"fmt"
	"time"
)

// C15Range is one range of a field. Times: minutes of the day, [B, E).
// Everything else: inclusive [B, E]. Weekdays: 0 = Sunday … 6 = Saturday.
type C15Range struct {
	B int `json:"b"`
	E int `json:"e"`
}

// C15Spec is one time_interval_spec as the generator meant it.
type C15Spec struct {
	Times    []C15Range `json:"times,omitempty"`
	Weekdays []C15Range `json:"weekdays,omitempty"`
	Days     []C15Range `json:"days,omitempty"`
	Months   []C15Range `json:"months,omitempty"`
	Years    []C15Range `json:"years,omitempty"`
	Location string     `json:"location,omitempty"` // "" = field absent (UTC)
	// EmptyFields names fields ("times", "weekdays", "days_of_month", "months",
	// "years") written as an explicit empty list. Per the statement an empty
	// field matches everything, exactly like an absent one.
	EmptyFields []string `json:"empty_fields,omitempty"`
}

// C15Civil is a civil date-time in some zone.
type C15Civil struct {
	Year, Month, Day, Minute, Weekday int
}

// C15IsLeap is the Gregorian leap-year rule.
func C15IsLeap(y int) bool {
	if y%400 == 0 {
		return true
	}
	if y%100 == 0 {
		return false
	}
	return y%4 == 0
}

var c15MonthLen = [13]int{0, 31, 28, 31, 30, 31, 30, 31, 31, 30, 31, 30, 31}

// C15DaysIn returns the number of days of month m (1..12) in year y.
func C15DaysIn(y, m int) int {
	if m == 2 && C15IsLeap(y) {
		return 29
	}
	return c15MonthLen[m]
}

// c15DayNumber counts days since 0001-01-01 (= day 0, a Monday in the
// proleptic Gregorian calendar).
func c15DayNumber(y, m, d int) int {
	yy := y - 1
	n := yy*365 + yy/4 - yy/100 + yy/400
	for i := 1; i < m; i++ {
		n += C15DaysIn(y, i)
	}
	return n + d - 1
}

// C15Weekday returns 0 = Sunday … 6 = Saturday for a civil date (y >= 1).
func C15Weekday(y, m, d int) int {
	return (c15DayNumber(y, m, d) + 1) % 7 // day 0 is a Monday
}

// C15CivilOf converts an instant to civil fields in loc.
func C15CivilOf(t time.Time, loc *time.Location) C15Civil {
	c := t.In(loc)
	y, mo, d := c.Date()
	h, mi, _ := c.Clock()
	return C15Civil{Year: y, Month: int(mo), Day: d, Minute: h*60 + mi, Weekday: C15Weekday(y, int(mo), d)}
}

// C15Loc resolves the spec's location.
func C15Loc(s C15Spec) (*time.Location, error) {
	if s.Location == "" {
		return time.UTC, nil
	}
	return time.LoadLocation(s.Location)
}

// C15DayRange resolves one days_of_month range for a month with dim days:
// negative values count from the end, the result is clipped to [1, dim].
// lo > hi means the range selects no day of that month.
func C15DayRange(r C15Range, dim int) (lo, hi int) {
	lo, hi = r.B, r.E
	if lo < 0 {
		lo = dim + lo + 1
	}
	if hi < 0 {
		hi = dim + hi + 1
	}
	if lo < 1 {
		lo = 1
	}
	if hi > dim {
		hi = dim
	}
	return lo, hi
}

func c15InAny(rs []C15Range, v int) bool {
	for _, r := range rs {
		if v >= r.B && v <= r.E {
			return true
		}
	}
	return false
}

// C15ContainsCivil decides containment for civil fields already in the
// interval's zone. emptyMatchesNothing selects the *alternative* reading in
// which an explicitly empty list can never be satisfied (used only to
// attribute a disagreement to that root cause, never as the oracle).
func C15ContainsCivil(s C15Spec, c C15Civil, emptyMatchesNothing bool) bool {
	if emptyMatchesNothing && len(s.EmptyFields) > 0 {
		return false
	}
	if len(s.Times) > 0 {
		in := false
		for _, r := range s.Times {
			if c.Minute >= r.B && c.Minute < r.E {
				in = true
			}
		}
		if !in {
			return false
		}
	}
	if len(s.Days) > 0 {
		dim := C15DaysIn(c.Year, c.Month)
		in := false
		for _, r := range s.Days {
			lo, hi := C15DayRange(r, dim)
			if c.Day >= lo && c.Day <= hi {
				in = true
			}
		}
		if !in {
			return false
		}
	}
	if len(s.Weekdays) > 0 && !c15InAny(s.Weekdays, c.Weekday) {
		return false
	}
	if len(s.Months) > 0 && !c15InAny(s.Months, c.Month) {
		return false
	}
	if len(s.Years) > 0 && !c15InAny(s.Years, c.Year) {
		return false
	}
	return true
}

// C15Contains is the oracle: does the instant lie in the interval?
func C15Contains(s C15Spec, t time.Time) (bool, error) {
	loc, err := C15Loc(s)
	if err != nil {
		return false, fmt.Errorf("reference cannot load location %q: %w", s.Location, err)
	}
	return C15ContainsCivil(s, C15CivilOf(t, loc), false), nil
}

// C15ContainsAlt is the alternative reading (explicit empty list = nothing).
func C15ContainsAlt(s C15Spec, t time.Time) bool {
	loc, err := C15Loc(s)
	if err != nil {
		return false
	}
	return C15ContainsCivil(s, C15CivilOf(t, loc), true)
}

// C15Gate is the route gate of A.7: muted iff some mute interval contains the
// instant, or the active list is non-empty and no active interval contains it.
// intervals maps a name to its specs (a named interval contains the instant
// iff one of its specs does). It returns the verdict, whether the active list
// is what mutes, and the names of the mute intervals containing the instant.
func C15Gate(intervals map[string][]C15Spec, mute, active []string, t time.Time) (muted, byActive bool, muteNames []string, err error) {
	containsNamed := func(name string) (bool, error) {
		for _, s := range intervals[name] {
			in, err := C15Contains(s, t)
			if err != nil {
				return false, err
			}
			if in {
				return true, nil
			}
		}
		return false, nil
	}
	if len(active) > 0 {
		any := false
		for _, n := range active {
			in, err := containsNamed(n)
			if err != nil {
				return false, false, nil, err
			}
			any = any || in
		}
		byActive = !any
	}
	for _, n := range mute {
		in, err := containsNamed(n)
		if err != nil {
			return false, false, nil, err
		}
		if in {
			muteNames = append(muteNames, n)
		}
	}
	return byActive || len(muteNames) > 0, byActive, muteNames, nil
}
