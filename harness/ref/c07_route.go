package ref

// Reference model of the routing tree (DESIGN Appendix A.5), written from the
// property statement of C07 and docs/configuration.md "<route>":
//
//   - every alert enters at the root, which matches everything;
//   - a node whose matchers hold hands the alert to its children in order and
//     stops after the first child that yields a match unless that child has
//     `continue: true`;
//   - the node itself is the result only when no child matched;
//   - receiver, group_by, group_wait, group_interval, repeat_interval are
//     inherited from the parent unless set on the node, route labels are merged
//     child-over-parent; mute/active time interval lists belong to the node that
//     names them (they are not in the property's list of inherited options).
//
// The tree is plain data (JSON round-trips) and can render itself as the YAML a
// user writes, so the same value drives the code under test and this model.

import (
	"fmt"
	"sort"
	"strconv"
	"strings"
	"time"
)

// RouteNode is one node of a routing tree as the user writes it.
// Optional settings are pointers / nil-able: nil means "not written".
type RouteNode struct {
	// Matchers is the `matchers:` list (new style, all four operators).
	Matchers []Matcher `json:"matchers,omitempty"`
	// LegacyMatch is the deprecated `match:` map (equality).
	LegacyMatch map[string]string `json:"match,omitempty"`
	// LegacyMatchRE is the deprecated `match_re:` map (whole-value regex).
	LegacyMatchRE map[string]*Re `json:"match_re,omitempty"`
	Continue      bool           `json:"continue,omitempty"`

	Receiver *string `json:"receiver,omitempty"`
	// GroupBy: nil = not written (inherit); pointer to an empty slice =
	// `group_by: []`; ["..."] = group by all labels; otherwise label names.
	GroupBy        *[]string `json:"group_by,omitempty"`
	GroupWait      *string   `json:"group_wait,omitempty"`
	GroupInterval  *string   `json:"group_interval,omitempty"`
	RepeatInterval *string   `json:"repeat_interval,omitempty"`
	// Labels are the route labels (values are plain text here, no templates).
	Labels map[string]string `json:"labels,omitempty"`
	Mute   []string          `json:"mute_time_intervals,omitempty"`
	Active []string          `json:"active_time_intervals,omitempty"`

	Children []*RouteNode `json:"routes,omitempty"`
}

// Documented defaults of the root route (docs/configuration.md: group_wait
// default 30s, group_interval default 5m, repeat_interval default 4h; no
// group_by means no grouping labels).
const (
	DefaultGroupWait      = 30 * time.Second
	DefaultGroupInterval  = 5 * time.Minute
	DefaultRepeatInterval = 4 * time.Hour
)

// RoutedTo is one element of the routing result: the chosen node and the
// options in effect there.
type RoutedTo struct {
	Path           []int             `json:"path"` // child indexes from the root; empty = root
	Receiver       string            `json:"receiver"`
	GroupByAll     bool              `json:"group_by_all"`
	GroupBy        []string          `json:"group_by"` // sorted; meaningless when GroupByAll
	GroupWait      time.Duration     `json:"group_wait"`
	GroupInterval  time.Duration     `json:"group_interval"`
	RepeatInterval time.Duration     `json:"repeat_interval"`
	Labels         map[string]string `json:"labels"`
	Mute           []string          `json:"mute"`
	Active         []string          `json:"active"`
	// RouteKey is the path of matcher lists, each printed sorted, joined by "/".
	// RouteKeyPlain differs only when a node on the path uses match_re: the
	// pinned tree prints those patterns in their anchored form `^(?:p)$`
	// (RouteKey), the plain form prints `p`. The property is silent on which.
	RouteKey      string `json:"route_key"`
	RouteKeyPlain string `json:"route_key_plain"`
}

// ParseDuration parses the documented <duration> syntax
// ((([0-9]+)y)?(([0-9]+)w)?(([0-9]+)d)?(([0-9]+)h)?(([0-9]+)m)?(([0-9]+)s)?(([0-9]+)ms)?|0).
func ParseDuration(s string) (time.Duration, error) {
	if s == "0" {
		return 0, nil
	}
	if s == "" {
		return 0, fmt.Errorf("empty duration")
	}
	units := []struct {
		u string
		d time.Duration
	}{
		{"y", 365 * 24 * time.Hour}, {"w", 7 * 24 * time.Hour}, {"d", 24 * time.Hour},
		{"h", time.Hour}, {"m", time.Minute}, {"s", time.Second}, {"ms", time.Millisecond},
	}
	var total time.Duration
	rest := s
	next := 0 // units must appear in descending order, each at most once
	for rest != "" {
		i := 0
		for i < len(rest) && rest[i] >= '0' && rest[i] <= '9' {
			i++
		}
		if i == 0 {
			return 0, fmt.Errorf("bad duration %q", s)
		}
		n, err := strconv.ParseInt(rest[:i], 10, 64)
		if err != nil {
			return 0, err
		}
		rest = rest[i:]
		// longest unit first: "ms" before "m"
		unit := ""
		switch {
		case strings.HasPrefix(rest, "ms"):
			unit = "ms"
		case rest != "":
			unit = rest[:1]
		}
		found := false
		for k := next; k < len(units); k++ {
			if units[k].u == unit {
				total += time.Duration(n) * units[k].d
				next = k + 1
				found = true
				break
			}
		}
		if !found {
			return 0, fmt.Errorf("bad duration %q", s)
		}
		rest = rest[len(unit):]
	}
	return total, nil
}

// AllMatchers returns every matcher of the node (legacy `match` as equality,
// legacy `match_re` as whole-value regex, then the `matchers` list) in
// reference form.
func (n *RouteNode) AllMatchers() []Matcher {
	var out []Matcher
	for _, k := range sortedKeys(n.LegacyMatch) {
		out = append(out, Matcher{Op: "=", Name: k, Value: n.LegacyMatch[k]})
	}
	for _, k := range sortedKeys(n.LegacyMatchRE) {
		out = append(out, Matcher{Op: "=~", Name: k, Re: n.LegacyMatchRE[k]})
	}
	out = append(out, n.Matchers...)
	return out
}

func sortedKeys[V any](m map[string]V) []string {
	ks := make([]string, 0, len(m))
	for k := range m {
		ks = append(ks, k)
	}
	sort.Strings(ks)
	return ks
}

// Accepts reports whether the node's own matchers hold on the label set
// (conjunction; a missing label reads as "").
func (n *RouteNode) Accepts(lset map[string]string) bool {
	return MatchAll(n.AllMatchers(), lset)
}

// Route returns the ordered routing result for a label set.
func Route(root *RouteNode, lset map[string]string) []RoutedTo {
	// The root matches every alert by definition, whatever it carries.
	paths := descend(root, lset, nil)
	out := make([]RoutedTo, 0, len(paths))
	for _, p := range paths {
		out = append(out, RouteOptions(root, p))
	}
	return out
}

// descend assumes n itself already accepted the label set.
func descend(n *RouteNode, lset map[string]string, path []int) [][]int {
	var res [][]int
	for i, c := range n.Children {
		if !c.Accepts(lset) {
			continue
		}
		sub := descend(c, lset, append(append([]int{}, path...), i))
		// a child that accepts always yields at least itself
		res = append(res, sub...)
		if !c.Continue {
			break
		}
	}
	if len(res) == 0 {
		res = [][]int{append([]int{}, path...)}
	}
	return res
}

// NodeAt returns the node reached by following child indexes from the root.
func NodeAt(root *RouteNode, path []int) *RouteNode {
	n := root
	for _, i := range path {
		n = n.Children[i]
	}
	return n
}

// RouteOptions computes the options in effect at the node at path: documented
// defaults overridden along the path, field by field.
func RouteOptions(root *RouteNode, path []int) RoutedTo {
	r := RoutedTo{
		Path:           append([]int{}, path...),
		GroupBy:        []string{},
		GroupWait:      DefaultGroupWait,
		GroupInterval:  DefaultGroupInterval,
		RepeatInterval: DefaultRepeatInterval,
		Labels:         map[string]string{},
	}
	var keys, keysPlain []string
	n := root
	for depth := 0; ; depth++ {
		if n.Receiver != nil && *n.Receiver != "" {
			r.Receiver = *n.Receiver
		}
		if n.GroupBy != nil {
			gb := *n.GroupBy
			if len(gb) == 1 && gb[0] == "..." {
				r.GroupByAll = true
			} else {
				r.GroupByAll = false
				r.GroupBy = append([]string{}, gb...)
				sort.Strings(r.GroupBy)
			}
		}
		if n.GroupWait != nil {
			r.GroupWait = mustDuration(*n.GroupWait)
		}
		if n.GroupInterval != nil {
			r.GroupInterval = mustDuration(*n.GroupInterval)
		}
		if n.RepeatInterval != nil {
			r.RepeatInterval = mustDuration(*n.RepeatInterval)
		}
		for k, v := range n.Labels {
			r.Labels[k] = v
		}
		keys = append(keys, matchersKey(n, true))
		keysPlain = append(keysPlain, matchersKey(n, false))
		if depth == len(path) {
			break
		}
		n = n.Children[path[depth]]
	}
	// time interval lists are the node's own
	r.Mute = append([]string{}, n.Mute...)
	r.Active = append([]string{}, n.Active...)
	r.RouteKey = strings.Join(keys, "/")
	r.RouteKeyPlain = strings.Join(keysPlain, "/")
	return r
}

func mustDuration(s string) time.Duration {
	d, err := ParseDuration(s)
	if err != nil {
		panic(err)
	}
	return d
}

var opRank = map[string]int{"=": 0, "!=": 1, "=~": 2, "!~": 3}

// matchersKey prints the node's matcher list `{m1,m2,…}` in canonical order
// (by name, then value text, then operator), so that the key is a function of
// the matcher *set*, not of the order or style they were written in.
func matchersKey(n *RouteNode, legacyAnchored bool) string {
	type pm struct{ name, op, val string }
	var ms []pm
	for _, k := range sortedKeys(n.LegacyMatch) {
		ms = append(ms, pm{k, "=", n.LegacyMatch[k]})
	}
	for _, k := range sortedKeys(n.LegacyMatchRE) {
		p := n.LegacyMatchRE[k].String()
		if legacyAnchored {
			p = "^(?:" + p + ")$"
		}
		ms = append(ms, pm{k, "=~", p})
	}
	for _, m := range n.Matchers {
		v := m.Value
		if m.Op == "=~" || m.Op == "!~" {
			v = m.Pattern()
		}
		ms = append(ms, pm{m.Name, m.Op, v})
	}
	sort.SliceStable(ms, func(i, j int) bool {
		if ms[i].name != ms[j].name {
			return ms[i].name < ms[j].name
		}
		if ms[i].val != ms[j].val {
			return ms[i].val < ms[j].val
		}
		return opRank[ms[i].op] < opRank[ms[j].op]
	})
	parts := make([]string, len(ms))
	for i, m := range ms {
		parts[i] = m.name + m.op + `"` + escapeMatcherValue(m.val) + `"`
	}
	return "{" + strings.Join(parts, ",") + "}"
}

// escapeMatcherValue: backslash, double quote and newline are escaped in the
// printed form of a matcher value.
func escapeMatcherValue(s string) string {
	var sb strings.Builder
	for _, r := range s {
		switch r {
		case '\\':
			sb.WriteString(`\\`)
		case '"':
			sb.WriteString(`\"`)
		case '\n':
			sb.WriteString(`\n`)
		default:
			sb.WriteRune(r)
		}
	}
	return sb.String()
}

// GroupLabels restricts the alert's labels to the route's group_by (all labels
// when grouping by all).
func (r RoutedTo) GroupLabels(lset map[string]string) map[string]string {
	out := map[string]string{}
	if r.GroupByAll {
		for k, v := range lset {
			out[k] = v
		}
		return out
	}
	for _, k := range r.GroupBy {
		if v, ok := lset[k]; ok {
			out[k] = v
		}
	}
	return out
}

// GroupKey = route key + ":" + the group's label set printed `{a="x", b="y"}`
// (names sorted, values Go-quoted).
func GroupKey(routeKey string, groupLabels map[string]string) string {
	parts := make([]string, 0, len(groupLabels))
	for _, k := range sortedKeys(groupLabels) {
		parts = append(parts, k+"="+strconv.Quote(groupLabels[k]))
	}
	return routeKey + ":{" + strings.Join(parts, ", ") + "}"
}

// ---------------------------------------------------------------- rendering

func yamlQuote(s string) string {
	// single-quoted YAML scalar; only valid for text without line breaks
	return "'" + strings.ReplaceAll(s, "'", "''") + "'"
}

// MatcherText prints a reference matcher the way a user writes it in a
// `matchers:` entry: name, operator, double-quoted value.
func MatcherText(m Matcher) string {
	v := m.Value
	if m.Op == "=~" || m.Op == "!~" {
		v = m.Pattern()
	}
	return m.Name + m.Op + `"` + escapeMatcherValue(v) + `"`
}

// YAML renders the node as a block mapping whose lines start at the given
// indentation (number of spaces). Child routes are rendered recursively.
func (n *RouteNode) YAML(indent int) string {
	var sb strings.Builder
	n.yaml(&sb, strings.Repeat(" ", indent))
	return sb.String()
}

func flowList(items []string) string {
	q := make([]string, len(items))
	for i, s := range items {
		q[i] = yamlQuote(s)
	}
	return "[" + strings.Join(q, ", ") + "]"
}

func (n *RouteNode) yaml(sb *strings.Builder, pad string) {
	line := func(format string, a ...any) {
		sb.WriteString(pad)
		fmt.Fprintf(sb, format, a...)
		sb.WriteByte('\n')
	}
	if n.Receiver != nil {
		line("receiver: %s", yamlQuote(*n.Receiver))
	}
	if n.GroupBy != nil {
		line("group_by: %s", flowList(*n.GroupBy))
	}
	if n.Continue {
		line("continue: true")
	}
	if len(n.LegacyMatch) > 0 {
		line("match:")
		for _, k := range sortedKeys(n.LegacyMatch) {
			line("  %s: %s", k, yamlQuote(n.LegacyMatch[k]))
		}
	}
	if len(n.LegacyMatchRE) > 0 {
		line("match_re:")
		for _, k := range sortedKeys(n.LegacyMatchRE) {
			line("  %s: %s", k, yamlQuote(n.LegacyMatchRE[k].String()))
		}
	}
	if len(n.Matchers) > 0 {
		line("matchers:")
		for _, m := range n.Matchers {
			line("- %s", yamlQuote(MatcherText(m)))
		}
	}
	if len(n.Labels) > 0 {
		line("labels:")
		for _, k := range sortedKeys(n.Labels) {
			line("  %s: %s", k, yamlQuote(n.Labels[k]))
		}
	}
	if n.GroupWait != nil {
		line("group_wait: %s", *n.GroupWait)
	}
	if n.GroupInterval != nil {
		line("group_interval: %s", *n.GroupInterval)
	}
	if n.RepeatInterval != nil {
		line("repeat_interval: %s", *n.RepeatInterval)
	}
	if len(n.Mute) > 0 {
		line("mute_time_intervals: %s", flowList(n.Mute))
	}
	if len(n.Active) > 0 {
		line("active_time_intervals: %s", flowList(n.Active))
	}
	if len(n.Children) > 0 {
		line("routes:")
		for _, c := range n.Children {
			var sub strings.Builder
			c.yaml(&sub, pad+"  ")
			s := sub.String()
			if s == "" {
				// a child with nothing written: an empty mapping
				line("- {}")
				continue
			}
			// turn the first line's indentation into the list dash
			sb.WriteString(pad + "- " + s[len(pad)+2:])
		}
	}
}

// Walk visits every node with its path (pre-order).
func (n *RouteNode) Walk(visit func(path []int, n *RouteNode)) {
	var rec func(path []int, n *RouteNode)
	rec = func(path []int, n *RouteNode) {
		visit(path, n)
		for i, c := range n.Children {
			rec(append(append([]int{}, path...), i), c)
		}
	}
	rec(nil, n)
}

// Depth is the number of edges on the longest root-to-leaf path.
func (n *RouteNode) Depth() int {
	d := 0
	for _, c := range n.Children {
		if cd := c.Depth() + 1; cd > d {
			d = cd
		}
	}
	return d
}

// ConfigYAML embeds the tree in a minimal complete configuration: the route,
// a receiver without integrations for every given name, and a trivially
// defined time interval for every given interval name.
func ConfigYAML(root *RouteNode, receivers, intervals []string) string {
	var sb strings.Builder
	sb.WriteString("route:\n")
	sb.WriteString(root.YAML(2))
	sb.WriteString("receivers:\n")
	for _, r := range receivers {
		sb.WriteString("- name: " + yamlQuote(r) + "\n")
	}
	if len(intervals) > 0 {
		sb.WriteString("time_intervals:\n")
		for _, ti := range intervals {
			sb.WriteString("- name: " + yamlQuote(ti) + "\n  time_intervals:\n  - weekdays: ['monday']\n")
		}
	}
	return sb.String()
}
