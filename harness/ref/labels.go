package ref

import (
	"sort"
	"strings"
)

// LabelKey is a canonical string for a label set.
func LabelKey(ls map[string]string) string {
	ks := make([]string, 0, len(ls))
	for k := range ls {
		ks = append(ks, k)
	}
	sort.Strings(ks)
	var sb strings.Builder
	for _, k := range ks {
		sb.WriteString(k)
		sb.WriteByte('=')
		sb.WriteString(ls[k])
		sb.WriteByte(';')
	}
	return sb.String()
}
