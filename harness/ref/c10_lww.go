package ref

import "sort"

// Reference model of the notification log as a last-writer-wins store
// (DESIGN Appendix A.3), written from the statement of C10:
//
//   - merge ignores a version whose expiry lies before "now"; otherwise the
//     version is stored iff its key is absent or the stored stamp is older;
//   - a local Log at "now" is skipped when the stored stamp lies in the future
//     ("never goes backwards"), else it writes stamp = now and
//     expires = now + (expiry > 0 ? min(retention, expiry) : retention);
//   - GC removes exactly the versions with expires <= now;
//   - Query returns the stored version regardless of its expiry.
//
// Instants are integers (milliseconds on the harness' virtual clock). Equal
// stamps and expires == now are outside the property ("either"): the model
// reports them as C10Boundary so the harness can prove that its generator
// never reaches them.

// C10Rec is one version of the entry of one (group, receiver) key. ID names the
// payload (hashes, receiver data) the harness associates with the version.
type C10Rec struct {
	ID      int
	Key     string
	Stamp   int64
	Expires int64
}

// C10Verdict is the outcome of one reference operation on one version.
type C10Verdict string

const (
	C10Stored   C10Verdict = "stored"
	C10Expired  C10Verdict = "expired-rejected"
	C10Older    C10Verdict = "older-rejected"
	C10Dup      C10Verdict = "duplicate"
	C10Skipped  C10Verdict = "skipped-future"
	C10Boundary C10Verdict = "boundary"
)

// C10Log is the reference state: key -> stored version.
type C10Log struct {
	S map[string]C10Rec
}

func NewC10Log() *C10Log { return &C10Log{S: map[string]C10Rec{}} }

// Merge applies one received version at instant now.
func (l *C10Log) Merge(v C10Rec, now int64) C10Verdict {
	if v.Expires == now {
		return C10Boundary
	}
	if v.Expires < now {
		return C10Expired
	}
	cur, ok := l.S[v.Key]
	if ok && cur.ID == v.ID {
		// the very same version again (duplicate delivery): nothing to decide
		return C10Dup
	}
	if ok && cur.Stamp == v.Stamp {
		return C10Boundary
	}
	if !ok || cur.Stamp < v.Stamp {
		l.S[v.Key] = v
		return C10Stored
	}
	return C10Older
}

// C10Lifetime is the time a locally logged entry is kept.
func C10Lifetime(retention, expiry int64) int64 {
	if expiry > 0 && expiry < retention {
		return expiry
	}
	return retention
}

// Log applies a local Log call for key at instant now; id names the payload.
func (l *C10Log) Log(key string, id int, now, retention, expiry int64) (C10Rec, C10Verdict) {
	if cur, ok := l.S[key]; ok {
		if cur.Stamp == now {
			return C10Rec{}, C10Boundary
		}
		if cur.Stamp > now {
			return cur, C10Skipped
		}
	}
	r := C10Rec{ID: id, Key: key, Stamp: now, Expires: now + C10Lifetime(retention, expiry)}
	l.S[key] = r
	return r, C10Stored
}

// GC removes the versions that have expired at now and returns them (sorted
// by key). The bool is false if some version expires exactly at now.
func (l *C10Log) GC(now int64) ([]C10Rec, bool) {
	var out []C10Rec
	clean := true
	for k, r := range l.S {
		if r.Expires == now {
			clean = false
		}
		if r.Expires <= now {
			out = append(out, r)
			delete(l.S, k)
		}
	}
	sort.Slice(out, func(i, j int) bool { return out[i].Key < out[j].Key })
	return out, clean
}

// Query returns the stored version of key, expired or not.
func (l *C10Log) Query(key string) (C10Rec, bool) {
	r, ok := l.S[key]
	return r, ok
}

// Clone copies the state (a snapshot reload is the identity on it).
func (l *C10Log) Clone() *C10Log {
	c := NewC10Log()
	for k, v := range l.S {
		c.S[k] = v
	}
	return c
}

// C10Converged is the order-free description of the state after merging a
// multiset of versions at ONE instant into a store that held pre: per key the
// greatest stamp among the pre-existing version and the delivered versions that
// had not expired at now. ok is false when a boundary (equal stamps of
// different versions, expires == now) makes the outcome unspecified.
func C10Converged(pre map[string]C10Rec, delivered []C10Rec, now int64) (map[string]C10Rec, bool) {
	out := map[string]C10Rec{}
	for k, v := range pre {
		out[k] = v
	}
	ok := true
	for _, v := range delivered {
		if v.Expires == now {
			ok = false
		}
		if v.Expires < now {
			continue
		}
		cur, have := out[v.Key]
		if have && cur.ID != v.ID && cur.Stamp == v.Stamp {
			ok = false
		}
		if !have || cur.Stamp < v.Stamp {
			out[v.Key] = v
		}
	}
	return out, ok
}
