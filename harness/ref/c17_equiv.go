package ref

// C17: equivalence of two loaded configurations in the three aspects the
// property names (routing tree, inhibition rules, time intervals), and the
// reflection walks that find every secret-typed field of the configuration
// types.

import (
	"fmt"
	"reflect"
	"sort"
	"strings"

	"github.com/prometheus/alertmanager/config"
	amcommoncfg "github.com/prometheus/alertmanager/config/common"
	"github.com/prometheus/alertmanager/dispatch"
	"github.com/prometheus/alertmanager/timeinterval"
)

// C17TreeDiff is one difference between two routing trees.
type C17TreeDiff struct {
	Path  string // "root/0/1"
	Field string // receiver, group_by, group_wait, ...
	A, B  string
}

func c17Set(m map[string]struct{}) string {
	var s []string
	for k := range m {
		s = append(s, k)
	}
	sort.Strings(s)
	return strings.Join(s, ",")
}

// C17CompareTrees compares two dispatch trees node by node on everything the
// dispatcher reads from a node (A.5): matchers, continue, receiver, group_by
// set / group-by-all, the three timers, mute/active interval names, labels.
func C17CompareTrees(a, b *dispatch.Route) []C17TreeDiff {
	var out []C17TreeDiff
	var walk func(a, b *dispatch.Route, path string)
	walk = func(a, b *dispatch.Route, path string) {
		d := func(field string, x, y any) {
			xs, ys := fmt.Sprint(x), fmt.Sprint(y)
			if xs != ys {
				out = append(out, C17TreeDiff{Path: path, Field: field, A: xs, B: ys})
			}
		}
		var ma, mb []string
		for _, m := range a.Matchers {
			ma = append(ma, fmt.Sprintf("%s|%s|%q", m.Name, m.Type, m.Value))
		}
		for _, m := range b.Matchers {
			mb = append(mb, fmt.Sprintf("%s|%s|%q", m.Name, m.Type, m.Value))
		}
		sort.Strings(ma)
		sort.Strings(mb)
		d("matchers", ma, mb)
		d("continue", a.Continue, b.Continue)
		d("receiver", a.RouteOpts.Receiver, b.RouteOpts.Receiver)
		ga, gb := map[string]struct{}{}, map[string]struct{}{}
		for k := range a.RouteOpts.GroupBy {
			ga[string(k)] = struct{}{}
		}
		for k := range b.RouteOpts.GroupBy {
			gb[string(k)] = struct{}{}
		}
		// what grouping does: all labels, or the named set
		ea, eb := "by:"+c17Set(ga), "by:"+c17Set(gb)
		if a.RouteOpts.GroupByAll {
			ea = "all"
		}
		if b.RouteOpts.GroupByAll {
			eb = "all"
		}
		d("group_by", ea, eb)
		d("group_wait", a.RouteOpts.GroupWait, b.RouteOpts.GroupWait)
		d("group_interval", a.RouteOpts.GroupInterval, b.RouteOpts.GroupInterval)
		d("repeat_interval", a.RouteOpts.RepeatInterval, b.RouteOpts.RepeatInterval)
		d("mute_time_intervals", strings.Join(a.RouteOpts.MuteTimeIntervals, "\x00"), strings.Join(b.RouteOpts.MuteTimeIntervals, "\x00"))
		d("active_time_intervals", strings.Join(a.RouteOpts.ActiveTimeIntervals, "\x00"), strings.Join(b.RouteOpts.ActiveTimeIntervals, "\x00"))
		la, lb := []string{}, []string{}
		for k, v := range a.RouteOpts.Labels {
			la = append(la, fmt.Sprintf("%q=%q", k, v))
		}
		for k, v := range b.RouteOpts.Labels {
			lb = append(lb, fmt.Sprintf("%q=%q", k, v))
		}
		sort.Strings(la)
		sort.Strings(lb)
		d("labels", la, lb)
		if len(a.Routes) != len(b.Routes) {
			d("children", len(a.Routes), len(b.Routes))
			return
		}
		for i := range a.Routes {
			walk(a.Routes[i], b.Routes[i], fmt.Sprintf("%s/%d", path, i))
		}
	}
	walk(a, b, "root")
	return out
}

// c17RuleKey renders what an inhibition rule means: the source and target
// matcher sets (legacy equality and regex maps folded in) and the equal set.
func c17RuleKey(r amcommoncfg.InhibitRule) string {
	side := func(eq map[string]string, re amcommoncfg.MatchRegexps, ms amcommoncfg.Matchers) string {
		var s []string
		for k, v := range eq {
			s = append(s, fmt.Sprintf("%s|=|%q", k, v))
		}
		for k, v := range re {
			orig := "<nil>"
			if v.Regexp != nil {
				orig = v.Original
			}
			s = append(s, fmt.Sprintf("%s|=~|%q", k, orig))
		}
		for _, m := range ms {
			s = append(s, fmt.Sprintf("%s|%s|%q", m.Name, m.Type, m.Value))
		}
		sort.Strings(s)
		return strings.Join(s, ";")
	}
	eq := append([]string(nil), r.Equal...)
	sort.Strings(eq)
	return fmt.Sprintf("name=%q src[%s] tgt[%s] equal[%s]", r.Name, side(r.SourceMatch, r.SourceMatchRE, r.SourceMatchers), side(r.TargetMatch, r.TargetMatchRE, r.TargetMatchers), strings.Join(eq, ","))
}

// C17CompareInhibitRules returns a description of the first difference, or "".
func C17CompareInhibitRules(a, b []amcommoncfg.InhibitRule) string {
	if len(a) != len(b) {
		return fmt.Sprintf("%d rules vs %d rules", len(a), len(b))
	}
	for i := range a {
		if ka, kb := c17RuleKey(a[i]), c17RuleKey(b[i]); ka != kb {
			return fmt.Sprintf("rule %d: %s vs %s", i, ka, kb)
		}
	}
	return ""
}

func c17IntervalKey(ti timeinterval.TimeInterval) string {
	var sb strings.Builder
	for _, t := range ti.Times {
		fmt.Fprintf(&sb, "T%d-%d;", t.StartMinute, t.EndMinute)
	}
	for _, r := range ti.Weekdays {
		fmt.Fprintf(&sb, "W%d-%d;", r.Begin, r.End)
	}
	for _, r := range ti.DaysOfMonth {
		fmt.Fprintf(&sb, "D%d-%d;", r.Begin, r.End)
	}
	for _, r := range ti.Months {
		fmt.Fprintf(&sb, "M%d-%d;", r.Begin, r.End)
	}
	for _, r := range ti.Years {
		fmt.Fprintf(&sb, "Y%d-%d;", r.Begin, r.End)
	}
	if ti.Location != nil && ti.Location.Location != nil {
		fmt.Fprintf(&sb, "L%s", ti.Location.String())
	} else {
		sb.WriteString("L<none>")
	}
	return sb.String()
}

// C17CompareIntervals compares the named interval definitions of both sections.
func C17CompareIntervals(a, b *config.Config) string {
	type named struct {
		section, name string
		tis           []timeinterval.TimeInterval
	}
	flat := func(c *config.Config) []named {
		var out []named
		for _, m := range c.MuteTimeIntervals {
			out = append(out, named{"mute_time_intervals", m.Name, m.TimeIntervals})
		}
		for _, m := range c.TimeIntervals {
			out = append(out, named{"time_intervals", m.Name, m.TimeIntervals})
		}
		return out
	}
	fa, fb := flat(a), flat(b)
	if len(fa) != len(fb) {
		return fmt.Sprintf("%d named intervals vs %d", len(fa), len(fb))
	}
	for i := range fa {
		if fa[i].section != fb[i].section || fa[i].name != fb[i].name {
			return fmt.Sprintf("interval %d: %s/%q vs %s/%q", i, fa[i].section, fa[i].name, fb[i].section, fb[i].name)
		}
		if len(fa[i].tis) != len(fb[i].tis) {
			return fmt.Sprintf("interval %q: %d entries vs %d", fa[i].name, len(fa[i].tis), len(fb[i].tis))
		}
		for j := range fa[i].tis {
			if ka, kb := c17IntervalKey(fa[i].tis[j]), c17IntervalKey(fb[i].tis[j]); ka != kb {
				return fmt.Sprintf("interval %q entry %d: %s vs %s", fa[i].name, j, ka, kb)
			}
		}
	}
	return ""
}

// ---------------------------------------------------------------- secret walk

// c17IsSecretType: the secret-bearing types of the tree are exactly the named
// types whose name contains "Secret" (commoncfg.Secret, config/common.SecretURL,
// both SecretTemplateURL types).
func c17IsSecretType(t reflect.Type) bool {
	return strings.Contains(t.Name(), "Secret")
}

func c17YAMLName(f reflect.StructField) (name string, inline, skip bool) {
	tag := f.Tag.Get("yaml")
	parts := strings.Split(tag, ",")
	for _, p := range parts[1:] {
		if p == "inline" {
			inline = true
		}
	}
	if parts[0] == "-" {
		return "", false, true
	}
	name = parts[0]
	if name == "" {
		name = strings.ToLower(f.Name)
	}
	return name, inline, false
}

// C17SecretTypePaths lists the YAML type-paths (".receivers[].slack_configs[].api_url")
// of every secret-typed field reachable from t.
func C17SecretTypePaths(t reflect.Type) []string {
	var out []string
	seen := map[reflect.Type]int{}
	var walk func(t reflect.Type, path string)
	walk = func(t reflect.Type, path string) {
		if c17IsSecretType(t) {
			out = append(out, path)
			return
		}
		switch t.Kind() {
		case reflect.Ptr, reflect.Array:
			walk(t.Elem(), path)
		case reflect.Slice:
			walk(t.Elem(), path+"[]")
		case reflect.Map:
			walk(t.Elem(), path+"{}")
		case reflect.Struct:
			if seen[t] > 0 {
				return
			}
			seen[t]++
			defer func() { seen[t]-- }()
			for i := 0; i < t.NumField(); i++ {
				f := t.Field(i)
				if !f.IsExported() {
					continue
				}
				name, inline, skip := c17YAMLName(f)
				if skip {
					continue
				}
				if inline {
					walk(f.Type, path)
				} else {
					walk(f.Type, path+"."+name)
				}
			}
		}
	}
	walk(t, "")
	sort.Strings(out)
	return out
}

// C17SecretValue is one non-empty secret-typed value found in a loaded config.
type C17SecretValue struct {
	Path  string
	Value string
}

// C17SecretValues walks a loaded value and returns every non-empty
// secret-typed value with its type-path.
func C17SecretValues(v any) []C17SecretValue {
	var out []C17SecretValue
	var walk func(v reflect.Value, path string, depth int)
	walk = func(v reflect.Value, path string, depth int) {
		if depth > 64 {
			return
		}
		t := v.Type()
		if c17IsSecretType(t) {
			var s string
			switch t.Kind() {
			case reflect.String:
				s = v.String()
			case reflect.Struct:
				// SecretURL{*url.URL}
				if v.CanInterface() {
					if su, ok := v.Interface().(amcommoncfg.SecretURL); ok && su.URL != nil {
						s = su.URL.String()
					}
				}
			}
			if s != "" {
				out = append(out, C17SecretValue{Path: path, Value: s})
			}
			return
		}
		switch t.Kind() {
		case reflect.Ptr, reflect.Interface:
			if !v.IsNil() {
				walk(v.Elem(), path, depth+1)
			}
		case reflect.Array:
			for i := 0; i < v.Len(); i++ {
				walk(v.Index(i), path, depth+1)
			}
		case reflect.Slice:
			for i := 0; i < v.Len(); i++ {
				walk(v.Index(i), path+"[]", depth+1)
			}
		case reflect.Map:
			it := v.MapRange()
			for it.Next() {
				walk(it.Value(), path+"{}", depth+1)
			}
		case reflect.Struct:
			for i := 0; i < t.NumField(); i++ {
				f := t.Field(i)
				if !f.IsExported() {
					continue
				}
				name, inline, skip := c17YAMLName(f)
				if skip {
					continue
				}
				if inline {
					walk(v.Field(i), path, depth+1)
				} else {
					walk(v.Field(i), path+"."+name, depth+1)
				}
			}
		}
	}
	walk(reflect.ValueOf(v), "", 0)
	return out
}
