package checks

// C18 part 2: silence limits (--silences.max-silences, --silences.max-silence-size-bytes)
// driven through POST /api/v2/silences and DELETE /api/v2/silence/{id}.

import (
	"bufio"
	"bytes"
	"context"
	"encoding/json"
	"errors"
	"fmt"
	"io"
	"net/http"
	"net/http/httptest"
	"sort"
	"strings"
	"testing"
	"time"

	"github.com/prometheus/client_golang/prometheus"
	"google.golang.org/protobuf/encoding/protodelim"
	"google.golang.org/protobuf/proto"
	"google.golang.org/protobuf/types/known/timestamppb"
	"pgregory.net/rapid"

	apiv2 "github.com/prometheus/alertmanager/api/v2"
	"github.com/prometheus/alertmanager/eventrecorder"
	"github.com/prometheus/alertmanager/featurecontrol"
	"github.com/prometheus/alertmanager/matcher/compat"
	"github.com/prometheus/alertmanager/silence"
	"github.com/prometheus/alertmanager/silence/silencepb"

	"verif/harness/pbt"
)

type c18SilMatcher struct {
	Name    string `json:"name"`
	Value   string `json:"value"`
	IsRegex bool   `json:"is_regex,omitempty"`
	IsEqual bool   `json:"is_equal"`
}

type c18SilOp struct {
	Kind       string          `json:"kind"`                  // create | edit | replace | expire | gc | advance | merge (CommentLen foreign silences arrive by gossip: the limits do not apply to them)
	Target     int             `json:"target,omitempty"`      // index into the ids returned so far (mod their number)
	Matchers   []c18SilMatcher `json:"matchers,omitempty"`    // create, replace
	StartSec   int             `json:"start_sec,omitempty"`   // create/replace: start relative to the op instant (0 = now)
	EndSec     int             `json:"end_sec,omitempty"`     // end relative to the op instant
	CommentLen int             `json:"comment_len,omitempty"` // size knob
	DtSec      int             `json:"dt_sec,omitempty"`
}

type c18SilScenario struct {
	MaxSilences  int        `json:"max_silences"`   // 0 = no limit
	MaxSizeBytes int        `json:"max_size_bytes"` // 0 = no limit
	RetentionSec int        `json:"retention_sec"`
	Ops          []c18SilOp `json:"ops"`
}

func c18GenSilMatchers(t *rapid.T) []c18SilMatcher {
	n := rapid.IntRange(1, 3).Draw(t, "nm")
	var out []c18SilMatcher
	for i := 0; i < n; i++ {
		m := c18SilMatcher{
			Name:    rapid.SampledFrom([]string{"a", "job", "instance"}).Draw(t, "mname"),
			Value:   rapid.SampledFrom([]string{"x", "api", "node-[0-9]+", "prod|stage"}).Draw(t, "mvalue"),
			IsEqual: rapid.IntRange(0, 3).Draw(t, "eq") > 0,
		}
		m.IsRegex = strings.ContainsAny(m.Value, "[|") || rapid.IntRange(0, 4).Draw(t, "re") == 0
		out = append(out, m)
	}
	// at least one matcher that does not match the empty string: a positive one
	out[0].IsEqual = true
	return out
}

func c18GenSil(t *rapid.T) c18SilScenario {
	sc := c18SilScenario{
		MaxSilences:  rapid.SampledFrom([]int{1, 1, 2, 2, 3, 4, 0}).Draw(t, "maxSilences"),
		RetentionSec: rapid.SampledFrom([]int{60, 600}).Draw(t, "retention"),
	}
	if rapid.IntRange(0, 7).Draw(t, "sizeOff") > 0 {
		sc.MaxSizeBytes = rapid.IntRange(125, 260).Draw(t, "maxSize")
	}
	maxOps := 24
	if pbt.Thorough() {
		maxOps = 50
	}
	n := rapid.IntRange(4, maxOps).Draw(t, "nops")
	for i := 0; i < n; i++ {
		op := c18SilOp{}
		switch k := rapid.IntRange(0, 16).Draw(t, "kind"); {
		case k <= 4 || i == 0:
			op.Kind = "create"
		case k <= 7:
			op.Kind = "edit"
		case k <= 10:
			op.Kind = "replace"
		case k <= 12:
			op.Kind = "expire"
		case k <= 14:
			op.Kind = "gc"
		default:
			op.Kind = "advance"
			if rapid.IntRange(0, 2).Draw(t, "mergeInstead") == 0 {
				op.Kind = "merge"
			}
		}
		switch op.Kind {
		case "create", "replace":
			op.Matchers = c18GenSilMatchers(t)
			if rapid.IntRange(0, 3).Draw(t, "pending") == 0 {
				op.StartSec = rapid.SampledFrom([]int{30, 120}).Draw(t, "start")
			}
			op.EndSec = op.StartSec + rapid.SampledFrom([]int{20, 60, 300, 3600}).Draw(t, "end")
			op.CommentLen = c18GenCommentLen(t)
		case "edit":
			op.EndSec = rapid.SampledFrom([]int{20, 60, 300, 3600}).Draw(t, "end")
			op.CommentLen = c18GenCommentLen(t)
		case "advance":
			op.DtSec = rapid.SampledFrom([]int{1, 15, 45, 100, 700, 4000}).Draw(t, "dt")
		case "merge":
			op.CommentLen = rapid.IntRange(1, 3).Draw(t, "nForeign")
			op.EndSec = rapid.SampledFrom([]int{20, 300, 3600}).Draw(t, "end")
		}
		if op.Kind == "edit" || op.Kind == "replace" || op.Kind == "expire" {
			op.Target = rapid.IntRange(0, 7).Draw(t, "target")
		}
		sc.Ops = append(sc.Ops, op)
	}
	return sc
}

func c18GenCommentLen(t *rapid.T) int {
	if rapid.IntRange(0, 2).Draw(t, "short") == 0 {
		return rapid.IntRange(0, 8).Draw(t, "clen")
	}
	return rapid.IntRange(0, 140).Draw(t, "clenLong")
}

// c18SilRecord is one stored silence as found in Silences.MarshalBinary().
type c18SilRecord struct {
	msg       *silencepb.MeshSilence
	canonical []byte // deterministic encoding without the legacy duplicate of the first matcher set
	diskSize  int    // size of the record as gossiped / written to the snapshot
}

// c18SilRecords decodes MarshalBinary output with protodelim (independently of
// the silence package's own decoder).
func c18SilRecords(b []byte) (map[string]c18SilRecord, error) {
	out := map[string]c18SilRecord{}
	br := bufio.NewReader(bytes.NewReader(b))
	for {
		var m silencepb.MeshSilence
		err := protodelim.UnmarshalFrom(br, &m)
		if errors.Is(err, io.EOF) {
			return out, nil
		}
		if err != nil {
			return nil, err
		}
		if m.Silence == nil {
			return nil, errors.New("record without silence")
		}
		rec := c18SilRecord{diskSize: proto.Size(&m)}
		if len(m.Silence.MatcherSets) > 0 {
			m.Silence.Matchers = nil
		}
		rec.canonical, err = proto.MarshalOptions{Deterministic: true}.Marshal(&m)
		if err != nil {
			return nil, err
		}
		rec.msg = &m
		if _, dup := out[m.Silence.Id]; dup {
			return nil, fmt.Errorf("duplicate id %s in MarshalBinary", m.Silence.Id)
		}
		out[m.Silence.Id] = rec
	}
}

func c18SameRecords(a, b map[string]c18SilRecord) (diff string) {
	var ids []string
	for id := range a {
		ids = append(ids, id)
	}
	for id := range b {
		if _, ok := a[id]; !ok {
			ids = append(ids, id)
		}
	}
	sort.Strings(ids)
	for _, id := range ids {
		ra, oka := a[id]
		rb, okb := b[id]
		switch {
		case !oka:
			return "silence " + id + " appeared"
		case !okb:
			return "silence " + id + " disappeared"
		case !bytes.Equal(ra.canonical, rb.canonical):
			return fmt.Sprintf("silence %s changed: ends %s -> %s, updated %s -> %s", id,
				ra.msg.Silence.EndsAt.AsTime().Format(time.RFC3339Nano), rb.msg.Silence.EndsAt.AsTime().Format(time.RFC3339Nano),
				ra.msg.Silence.UpdatedAt.AsTime().Format(time.RFC3339Nano), rb.msg.Silence.UpdatedAt.AsTime().Format(time.RFC3339Nano))
		}
	}
	return ""
}

func c18APIMatchers(ms []c18SilMatcher) []map[string]any {
	var out []map[string]any
	for _, m := range ms {
		out = append(out, map[string]any{"name": m.Name, "value": m.Value, "isRegex": m.IsRegex, "isEqual": m.IsEqual})
	}
	return out
}

func c18FromPB(set *silencepb.MatcherSet) []c18SilMatcher {
	var out []c18SilMatcher
	for _, m := range set.Matchers {
		out = append(out, c18SilMatcher{
			Name: m.Name, Value: m.Pattern,
			IsRegex: m.Type == silencepb.Matcher_REGEXP || m.Type == silencepb.Matcher_NOT_REGEXP,
			IsEqual: m.Type == silencepb.Matcher_EQUAL || m.Type == silencepb.Matcher_REGEXP,
		})
	}
	return out
}

func c18ToPB(ms []c18SilMatcher) *silencepb.MatcherSet {
	set := &silencepb.MatcherSet{}
	for _, m := range ms {
		pm := &silencepb.Matcher{Name: m.Name, Pattern: m.Value}
		switch {
		case m.IsEqual && !m.IsRegex:
			pm.Type = silencepb.Matcher_EQUAL
		case !m.IsEqual && !m.IsRegex:
			pm.Type = silencepb.Matcher_NOT_EQUAL
		case m.IsEqual && m.IsRegex:
			pm.Type = silencepb.Matcher_REGEXP
		default:
			pm.Type = silencepb.Matcher_NOT_REGEXP
		}
		set.Matchers = append(set.Matchers, pm)
	}
	return set
}

const c18UnknownID = "00000000-0000-4000-8000-000000000000"
const c18CreatedBy = "c18"

// c18PredictSize: an upper bound of the encoded size the submitted silence
// would have once stored (new silence: 36-character id, start not before now;
// in-place edit: submitted start), from the documented storage format.
func c18PredictSize(ms []c18SilMatcher, start, end, now time.Time, comment string, retention time.Duration) int {
	size := 0
	for _, st := range []time.Time{start, now} {
		m := &silencepb.MeshSilence{
			Silence: &silencepb.Silence{
				Id:          c18UnknownID,
				MatcherSets: []*silencepb.MatcherSet{c18ToPB(ms)},
				StartsAt:    timestamppb.New(st),
				EndsAt:      timestamppb.New(end),
				UpdatedAt:   timestamppb.New(now),
				CreatedBy:   c18CreatedBy,
				Comment:     comment,
			},
			ExpiresAt: timestamppb.New(end.Add(retention)),
		}
		size = max(size, proto.Size(m))
	}
	return size
}

func c18ExecSil(sc c18SilScenario) (res pbt.Result) {
	bubble(func() {
		compat.InitFromFlags(nopLog, featurecontrol.NoopFlags{})
		reg := prometheus.NewRegistry()
		retention := time.Duration(sc.RetentionSec) * time.Second
		sils, err := silence.New(silence.Options{
			Retention: retention,
			Limits: silence.Limits{
				MaxSilences:         func() int { return sc.MaxSilences },
				MaxSilenceSizeBytes: func() int { return sc.MaxSizeBytes },
			},
			Logger:        nopLog,
			Metrics:       reg,
			EventRecorder: eventrecorder.NopRecorder(),
		})
		if err != nil {
			res.Fail("harness", "silence.New: %v", err)
			return
		}
		api, err := apiv2.NewAPI(nil, nil, func(string, string) ([]string, bool) { return nil, false }, sils, nil, nopLog, reg)
		if err != nil {
			res.Fail("harness", "NewAPI: %v", err)
			return
		}
		records := func() map[string]c18SilRecord {
			b, err := sils.MarshalBinary()
			if err != nil {
				res.Fail("harness", "MarshalBinary: %v", err)
				return nil
			}
			r, err := c18SilRecords(b)
			if err != nil {
				res.Fail("harness", "decoding MarshalBinary: %v", err)
				return nil
			}
			return r
		}

		var ids []string
		classes := map[string]bool{}
		var rejCount, rejSize bool
		merged := false // silences have arrived by gossip: the stored count may exceed the limit without any API call being at fault

		for i, op := range sc.Ops {
			time.Sleep(time.Millisecond)
			now := time.Now()
			where := fmt.Sprintf("step %d %s at +%s", i, op.Kind, now.Sub(c18Epoch))
			before := records()
			if before == nil {
				return
			}
			switch op.Kind {
			case "advance":
				time.Sleep(time.Duration(op.DtSec) * time.Second)
			case "merge":
				// silences authored on a peer: gossip brings them in whatever the local limits say
				for j := 0; j < op.CommentLen; j++ {
					m := &silencepb.MeshSilence{Silence: &silencepb.Silence{Id: fmt.Sprintf("00000000-0000-4000-9000-%06d%06d", i, j),
						MatcherSets: []*silencepb.MatcherSet{{Matchers: []*silencepb.Matcher{{Type: silencepb.Matcher_EQUAL, Name: "peer", Pattern: fmt.Sprint(i, j)}}}},
						StartsAt:    timestamppb.New(now), EndsAt: timestamppb.New(now.Add(time.Duration(op.EndSec) * time.Second)), UpdatedAt: timestamppb.New(now), CreatedBy: "peer", Comment: "c"},
						ExpiresAt: timestamppb.New(now.Add(time.Duration(op.EndSec)*time.Second + retention))}
					var buf bytes.Buffer
					if _, err := protodelim.MarshalTo(&buf, m); err != nil {
						res.Fail("harness", "encode: %v", err)
						return
					}
					if err := sils.Merge(buf.Bytes()); err != nil {
						res.Fail("harness", "%s: Merge: %v", where, err)
						return
					}
				}
				merged = true
				classes["peer-silences-merged"] = true
			case "gc":
				n, err := sils.GC()
				if err != nil {
					res.Fail("harness", "%s: GC: %v", where, err)
					return
				}
				if n > 0 {
					classes["gc-removed"] = true
				}
			case "expire":
				id := c18UnknownID
				if len(ids) > 0 {
					id = ids[op.Target%len(ids)]
				}
				rec := httptest.NewRecorder()
				api.Handler.ServeHTTP(rec, httptest.NewRequest(http.MethodDelete, "/api/v2/silence/"+id, nil))
				_, stored := before[id]
				switch {
				case rec.Code == http.StatusOK && stored:
					classes["expired"] = true
				case rec.Code == http.StatusNotFound && !stored:
					classes["expire-notfound"] = true
				default:
					// unknown id must be 404, known id must be served (C12 judges the resulting state)
					res.Add(pbt.V("expire-status", "%s: DELETE of %s (stored: %v) answered %d %s", where, id, stored, rec.Code, rec.Body.String()))
				}
			case "create", "edit", "replace":
				body := map[string]any{"createdBy": c18CreatedBy, "comment": strings.Repeat("c", op.CommentLen)}
				var (
					ms         = op.Matchers
					start      = now.Add(time.Duration(op.StartSec) * time.Second)
					end        = now.Add(time.Duration(op.EndSec) * time.Second)
					postedID   string
					prev       *silencepb.Silence
					prevActive bool
				)
				if op.Kind != "create" {
					postedID = c18UnknownID
					if len(ids) > 0 {
						postedID = ids[op.Target%len(ids)]
					}
					body["id"] = postedID
					if r, ok := before[postedID]; ok {
						prev = r.msg.Silence
						prevActive = !prev.EndsAt.AsTime().Before(now)
						if op.Kind == "edit" {
							// same matchers and start: eligible for an in-place update
							ms = c18FromPB(prev.MatcherSets[0])
							start = prev.StartsAt.AsTime()
							if !end.After(start) {
								end = start.Add(time.Duration(op.EndSec) * time.Second)
							}
						}
					}
					if ms == nil {
						ms = []c18SilMatcher{{Name: "a", Value: "x", IsEqual: true}}
					}
				}
				body["matchers"] = c18APIMatchers(ms)
				body["startsAt"] = start.UTC().Format(c18TimeFmt)
				body["endsAt"] = end.UTC().Format(c18TimeFmt)
				raw, _ := json.Marshal(body)
				req := httptest.NewRequest(http.MethodPost, "/api/v2/silences", bytes.NewReader(raw))
				req.Header.Set("Content-Type", "application/json")
				rec := httptest.NewRecorder()
				api.Handler.ServeHTTP(rec, req)
				after := records()
				if after == nil {
					return
				}
				msg := rec.Body.String()
				if rec.Code == http.StatusOK {
					var ok struct {
						SilenceID string `json:"silenceID"`
					}
					if err := json.Unmarshal(rec.Body.Bytes(), &ok); err != nil || ok.SilenceID == "" {
						res.Fail("harness", "%s: POST answered 200 with body %q", where, msg)
						return
					}
					stored, found := after[ok.SilenceID]
					if !found {
						res.Add(pbt.V("accepted-not-stored", "%s: POST answered 200 id=%s but MarshalBinary has no such silence", where, ok.SilenceID))
						break
					}
					if sc.MaxSilences > 0 && len(after) > len(before) && len(after) > sc.MaxSilences {
						res.Add(pbt.V("count-exceeded", "%s: the POST was accepted and raised the number of stored silences from %d to %d > max-silences %d", where, len(before), len(after), sc.MaxSilences).
							With("stored", len(after)).With("limit", sc.MaxSilences).With("by_api_call", true))
					}
					if ok.SilenceID == postedID {
						classes["inplace-edit-ok"] = true
					} else {
						ids = append(ids, ok.SilenceID)
						if prev != nil {
							classes["replace-ok"] = true
						} else {
							classes["create-ok"] = true
						}
					}
					if size := proto.Size(stored.msg); sc.MaxSizeBytes > 0 && size > sc.MaxSizeBytes {
						res.Add(pbt.V("size-exceeded", "%s: accepted silence %s is stored with encoded size %d > max-silence-size-bytes %d (in-place edit: %v)", where, ok.SilenceID, size, sc.MaxSizeBytes, ok.SilenceID == postedID).
							With("size", size).With("limit", sc.MaxSizeBytes).With("inplace", ok.SilenceID == postedID))
					} else if sc.MaxSizeBytes > 0 && stored.diskSize > sc.MaxSizeBytes {
						// Observation, not a violation: the snapshot/gossip record repeats the
						// first matcher set in the legacy `matchers` field.
						classes["legacy-duplicate-above-limit"] = true
					}
				} else {
					// a rejected create or edit leaves existing silences untouched
					if d := c18SameRecords(before, after); d != "" {
						v := pbt.V("rejected-but-changed", "%s: POST %s was rejected (%d %s) but the stored silences changed: %s", where, raw, rec.Code, strings.TrimSpace(msg), d).
							With("status", rec.Code)
						if prev != nil {
							if r, ok := after[postedID]; ok && prevActive && r.msg.Silence.EndsAt.AsTime().Before(prev.EndsAt.AsTime()) {
								v = v.With("old_silence_expired", true)
							}
						}
						res.Add(v)
					}
					if rec.Code < 400 || rec.Code > 499 {
						classes["status-"+fmt.Sprint(rec.Code)] = true
					}
					byCount := strings.Contains(msg, "exceeded maximum number of silences")
					bySize := strings.Contains(msg, "exceeded maximum size")
					switch {
					case byCount:
						rejCount = true
						classes["reject-count"] = true
						if sc.MaxSilences == 0 || len(before)+1 <= sc.MaxSilences {
							res.Add(pbt.V("unjustified-count-rejection", "%s: rejected for the silence count although %d silences are stored and the limit is %d", where, len(before), sc.MaxSilences).
								With("stored", len(before)).With("limit", sc.MaxSilences))
						}
					case bySize:
						rejSize = true
						classes["reject-size"] = true
						if p := c18PredictSize(ms, start, end, now, strings.Repeat("c", op.CommentLen), retention); sc.MaxSizeBytes == 0 || p+2 <= sc.MaxSizeBytes {
							res.Add(pbt.V("unjustified-size-rejection", "%s: rejected for its size although it would be stored in at most %d bytes and the limit is %d", where, p, sc.MaxSizeBytes).
								With("predicted", p).With("limit", sc.MaxSizeBytes))
						}
					case rec.Code == http.StatusNotFound:
						classes["post-notfound"] = true
					default:
						classes["reject-other"] = true
					}
					if (byCount || bySize) && prev != nil && prevActive {
						if op.Kind == "replace" || byCount {
							classes["replace-rejected"] = true
						} else {
							classes["edit-rejected"] = true
						}
					}
				}
			}

			// invariants after every step
			cur := records()
			if cur == nil {
				return
			}
			q, _, err := sils.Query(context.Background())
			if err != nil {
				res.Fail("harness", "%s: Query: %v", where, err)
				return
			}
			if len(q) != len(cur) {
				res.Add(pbt.V("count-disagreement", "%s: Query returns %d silences, MarshalBinary holds %d", where, len(q), len(cur)))
			}
			if sc.MaxSilences > 0 && len(cur) > sc.MaxSilences && !merged {
				expired := 0
				for _, r := range cur {
					if r.msg.Silence.EndsAt.AsTime().Before(time.Now()) {
						expired++
					}
				}
				res.Add(pbt.V("count-exceeded", "%s: %d silences stored (%d expired) > max-silences %d", where, len(cur), expired, sc.MaxSilences).
					With("stored", len(cur)).With("expired", expired).With("limit", sc.MaxSilences))
			}
			if sc.MaxSilences > 0 && len(cur) == sc.MaxSilences {
				classes["at-count-limit"] = true
			}
			if len(res.Violations) > 0 {
				return
			}
		}
		res.NonTrivial = rejCount && rejSize
		for c := range classes {
			res.Class(c)
		}
		sort.Strings(res.Classes)
	})
	return res
}

func TestC18SilenceLimits(t *testing.T) {
	pbt.Run(t, pbt.Spec[c18SilScenario]{
		Property: "C18", Name: "C18SilenceLimits",
		Rule: "sequences of create / edit (same matchers) / replace (other matchers) / expire / GC / advance through POST /api/v2/silences and DELETE /api/v2/silence/{id} " +
			"and merges of 1-3 silences authored on a peer (gossip is not subject to the limits; afterwards an accepted POST must still not raise the count above the limit) with max-silences ∈ 1..4 (or off) and max-silence-size-bytes ∈ 125..260 (or off), comment lengths 0..140; non-trivial iff ≥1 rejection by the count limit AND ≥1 by the size limit",
		Gen:  c18GenSil,
		Exec: c18ExecSil,
	})
}
