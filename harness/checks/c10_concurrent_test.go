package checks

import (
	"fmt"
	"sync"
	"testing"
	"testing/synctest"
	"time"

	"github.com/prometheus/client_golang/prometheus"
	"pgregory.net/rapid"

	"github.com/prometheus/alertmanager/nflog"
	pb "github.com/prometheus/alertmanager/nflog/nflogpb"

	"verif/harness/pbt"
)

// C10Concurrent: "entries are kept until their expiry and dropped by garbage collection afterwards; a query returns
// the newest unexpired entry" while local Log calls, gossip Merges and GC runs race on the real scheduler (virtual
// clock). Every round first lets a generation of entries expire without collecting them, then runs GC concurrently
// with writers that log (or merge) fresh entries for the same and for new keys. At quiescence every fresh entry must
// be held, every expired entry without a fresh successor must be gone after one more GC, and nothing else is held.

type c10cScenario struct {
	Keys    int  `json:"keys"`    // keys per generation
	Rounds  int  `json:"rounds"`  // generations
	Writers int  `json:"writers"` // concurrent writer goroutines
	GCs     int  `json:"gcs"`     // concurrent GC goroutines
	Rewrite int  `json:"rewrite"` // every Rewrite-th key of the expired generation gets a fresh entry during GC (0: none)
	Merge   bool `json:"merge"`   // fresh entries arrive through Merge (gossip) instead of Log
}

func genC10C(t *rapid.T) c10cScenario {
	return c10cScenario{
		Keys:    rapid.SampledFrom([]int{20, 200, 1500}).Draw(t, "keys"),
		Rounds:  rapid.IntRange(1, 4).Draw(t, "rounds"),
		Writers: rapid.IntRange(1, 4).Draw(t, "writers"),
		GCs:     rapid.IntRange(1, 2).Draw(t, "gcs"),
		Rewrite: rapid.SampledFrom([]int{0, 1, 1, 2, 7}).Draw(t, "rewrite"),
		Merge:   rapid.Bool().Draw(t, "merge"),
	}
}

func execC10C(sc c10cScenario) (res pbt.Result) {
	synctest.Test(pbt.T(), func(*testing.T) {
		l, err := nflog.New(nflog.Options{Retention: time.Hour, Logger: nopLog, Metrics: prometheus.NewRegistry()})
		if err != nil {
			res.Fail("harness", "nflog.New: %v", err)
			return
		}
		// an author log produces the wire form of entries that arrive by gossip
		author, _ := nflog.New(nflog.Options{Retention: time.Hour, Logger: nopLog, Metrics: prometheus.NewRegistry()})
		var amtx sync.Mutex
		var wire [][]byte
		author.SetBroadcast(func(b []byte) { amtx.Lock(); wire = append(wire, append([]byte(nil), b...)); amtx.Unlock() })
		recv := func(k int) *pb.Receiver {
			return &pb.Receiver{GroupName: fmt.Sprintf("r%d", k%3), Integration: "webhook", Idx: uint32(k % 2)}
		}
		gkey := func(k int) string { return fmt.Sprintf("{}:{k=\"%d\"}", k) }
		put := func(k int, gen uint64, short bool) error {
			exp := time.Duration(0) // retention (1 h)
			if short {
				exp = 10 * time.Second
			}
			if sc.Merge && !short {
				amtx.Lock()
				wire = wire[:0]
				amtx.Unlock()
				if err := author.Log(recv(k), gkey(k), []uint64{gen}, nil, nil, exp); err != nil {
					return err
				}
				amtx.Lock()
				b := append([]byte(nil), wire[len(wire)-1]...)
				amtx.Unlock()
				return l.Merge(b)
			}
			return l.Log(recv(k), gkey(k), []uint64{gen}, nil, nil, exp)
		}
		want := map[int]uint64{} // key -> generation of the newest unexpired entry
		lost, raced := 0, false
		var pmtx sync.Mutex // put() with Merge shares the author's wire buffer
		for r := 0; r < sc.Rounds; r++ {
			base := r * 2 * sc.Keys
			// a generation that expires in 10 s
			for k := base; k < base+sc.Keys; k++ {
				if err := put(k, uint64(r*2+1), true); err != nil {
					res.Fail("harness", "Log: %v", err)
					return
				}
			}
			time.Sleep(11 * time.Second) // expired, not collected
			var wg sync.WaitGroup
			var emtx sync.Mutex
			for g := 0; g < sc.GCs; g++ {
				wg.Go(func() {
					if _, err := l.GC(); err != nil {
						emtx.Lock()
						res.Add(pbt.V("gc-error", "GC: %v", err))
						emtx.Unlock()
					}
				})
			}
			fresh := map[int]uint64{}
			var fmtx sync.Mutex
			for w := 0; w < sc.Writers; w++ {
				wg.Go(func() {
					for k := base + w; k < base+2*sc.Keys; k += sc.Writers {
						old := k < base+sc.Keys
						if old && (sc.Rewrite == 0 || (k-base)%sc.Rewrite != 0) {
							continue
						}
						if sc.Merge {
							pmtx.Lock()
						}
						err := put(k, uint64(r*2+2), false)
						if sc.Merge {
							pmtx.Unlock()
						}
						if err != nil {
							emtx.Lock()
							res.Add(pbt.V("log-error", "Log/Merge of a fresh entry for key %d: %v", k, err))
							emtx.Unlock()
							continue
						}
						fmtx.Lock()
						fresh[k] = uint64(r*2 + 2)
						if old {
							raced = true
						}
						fmtx.Unlock()
					}
				})
			}
			wg.Wait()
			for k, g := range fresh {
				want[k] = g
			}
			// quiescent: one more GC, then the log must hold exactly the fresh entries
			if _, err := l.GC(); err != nil {
				res.Add(pbt.V("gc-error", "GC: %v", err))
			}
			for k := 0; k < base+2*sc.Keys; k++ {
				es, err := l.Query(nflog.QReceiver(recv(k)), nflog.QGroupKey(gkey(k)))
				g, ok := want[k]
				switch {
				case ok && (err != nil || len(es) != 1 || len(es[0].FiringAlerts) != 1 || es[0].FiringAlerts[0] != g):
					lost++
					if lost <= 3 {
						res.Add(pbt.V("unexpired-entry-lost", "round %d: key %d was logged (generation %d, expires in 1 h) while a GC ran; afterwards the log answers %v (err %v)", r, k, g, es, err).With("merge", sc.Merge))
					}
				case !ok && err == nil && len(es) > 0:
					res.Add(pbt.V("expired-entry-kept", "round %d: the entry of key %d expired and a GC ran after that, yet the log still returns %v", r, k, es))
				}
			}
			if len(res.Violations) > 0 {
				return
			}
		}
		res.NonTrivial = raced
		if raced {
			res.Class("fresh-entry-for-expired-key-during-gc")
		}
		if sc.Merge {
			res.Class("via-merge")
		} else {
			res.Class("via-log")
		}
	})
	return res
}

func TestC10Concurrent(t *testing.T) {
	pbt.Run(t, pbt.Spec[c10cScenario]{
		Property: "C10", Name: "C10Concurrent",
		Rule: "virtual clock, real scheduler: per round 20-1500 entries with a 10 s expiry are logged and left to expire; then 1-2 GC calls run concurrently with 1-4 writers that log (or merge, as gossip would) fresh 1 h entries for every 1st/2nd/7th expired key and for as many new keys. Afterwards (plus one quiescent GC) Query must return exactly the fresh entries: none lost, no expired one kept. Built with -race in the thorough tier. Non-trivial: a fresh entry for an expired key was written while a GC ran.",
		Gen:  genC10C, Exec: execC10C,
	})
}

// C04LogConcurrent / C08LogConcurrent: the same races judged for the premise C04 and C08 rest on: a notification that was
// recorded (locally, or by a peer and gossiped here) is still known when the next flush consults the log, as long as
// its entry has not expired, whatever maintenance does at the same time. A forgotten entry makes the next flush notify
// again without any change (C04) and lets a later-positioned instance send what another instance already sent (C08).
func TestC04LogConcurrent(t *testing.T) {
	pbt.Run(t, pbt.Spec[c10cScenario]{
		Property: "C04", Name: "C04LogConcurrent",
		Rule: "the scenarios of C10Concurrent with local Log calls (what SetNotifiesStage does after a delivery): GC runs racing the recording of notifications for keys whose previous entry has expired but was not collected yet; every recorded, unexpired entry must be returned by Query afterwards (else the next flush re-notifies an unchanged group). Non-trivial: a fresh entry for an expired key was written while a GC ran.",
		Gen:  func(t *rapid.T) c10cScenario { sc := genC10C(t); sc.Merge = false; return sc },
		Exec: execC10C,
	})
}

func TestC08LogConcurrent(t *testing.T) {
	pbt.Run(t, pbt.Spec[c10cScenario]{
		Property: "C08", Name: "C08LogConcurrent",
		Rule: "the scenarios of C10Concurrent with entries arriving by gossip (Merge of what a peer logged): GC runs racing the merge of fresh entries for keys whose previous entry has expired but was not collected yet; every merged, unexpired entry must be returned by Query afterwards (else this instance sends what the peer already sent). Non-trivial: a fresh entry for an expired key was merged while a GC ran.",
		Gen:  func(t *rapid.T) c10cScenario { sc := genC10C(t); sc.Merge = true; return sc },
		Exec: execC10C,
	})
}
