package checks

// C10 — replicated notification log converges and never goes backwards.
//
// TestC10Model: a generated history of operations (local Log, Merge of gossip
// blobs, GC, snapshot reload, Query) at generated virtual instants is applied to
// one real nflog.Log inside a synctest bubble and to the reference LWW model
// ref.C10Log (DESIGN A.3); after every step every key is queried and the whole
// state is decoded from MarshalBinary and compared with the reference.
//
// Instants. The bubble clock starts at T0 = 2000-01-01T00:00:00Z. Every
// mergeable entry i (authored on a second real Log in a bubble of its own, or
// hand-built) has timestamp T0 + TsSec·1s + (i+1) ms and an expiry with the same
// millisecond residue; operation j on the log under test happens at
// T0 + (ΣDt)·1s + (500+j) ms. Lifetimes are whole seconds, so no two timestamps
// are equal and no expiry coincides with an operation instant: the boundary
// cases the property leaves open are unreachable by construction (the
// reference reports them and the harness flags a generator error).

import (
	"bufio"
	"bytes"
	"errors"
	"fmt"
	"io"
	"math"
	"os"
	"path/filepath"
	"sort"
	"testing"
	"time"
	"unicode/utf8"

	"github.com/prometheus/client_golang/prometheus"
	"google.golang.org/protobuf/encoding/protodelim"
	"google.golang.org/protobuf/proto"
	"google.golang.org/protobuf/types/known/timestamppb"
	"pgregory.net/rapid"

	"github.com/prometheus/alertmanager/nflog"
	pb "github.com/prometheus/alertmanager/nflog/nflogpb"

	"verif/harness/pbt"
	"verif/harness/ref"
)

// ------------------------------------------------------------ scenario types

type c10Datum struct {
	K    string `json:"k"`
	Kind string `json:"kind"` // int | float | str
	I    int64  `json:"i,omitempty"`
	F    uint64 `json:"f,omitempty"` // IEEE-754 bits (so NaN, ±Inf, -0 survive JSON)
	S    string `json:"s,omitempty"` // valid UTF-8 (proto3 string)
}

type c10Edit struct {
	Del bool     `json:"del,omitempty"`
	D   c10Datum `json:"d"`
}

// c10Entry is one mergeable version: authored through the real Log.Log of a
// second instance (Hand=false) or a hand-built MeshEntry (Hand=true).
type c10Entry struct {
	Hand      bool       `json:"hand,omitempty"`
	Key       int        `json:"key"`    // 0..3: group = Key/2, receiver idx = Key%2
	TsSec     int64      `json:"ts_sec"` // timestamp = T0 + TsSec s + (index+1) ms
	ExpirySec int64      `json:"expiry_sec,omitempty"`
	ExpSec    int64      `json:"exp_sec,omitempty"` // hand-built: expires_at = T0 + ExpSec s + (index+1) ms
	Firing    []uint64   `json:"firing,omitempty"`
	Resolved  []uint64   `json:"resolved,omitempty"`
	Data      []c10Datum `json:"data,omitempty"`      // distinct K
	NilStore  bool       `json:"nil_store,omitempty"` // authored: Log is called with a nil *Store
	GroupHash []byte     `json:"group_hash,omitempty"`
	ResFlag   bool       `json:"res_flag,omitempty"`
}

type c10Op struct {
	Kind string `json:"kind"` // log | merge | gc | reload | query
	Dt   int64  `json:"dt"`   // advance(dt seconds) before the operation
	// log
	Key       int       `json:"key,omitempty"`
	Firing    []uint64  `json:"firing,omitempty"`
	Resolved  []uint64  `json:"resolved,omitempty"`
	Base      string    `json:"base,omitempty"` // nil | fresh | query (store built from the queried entry, as the notify pipeline does)
	Edits     []c10Edit `json:"edits,omitempty"`
	ExpirySec int64     `json:"expiry_sec,omitempty"`
	// merge: indices into Entries, pairwise distinct keys (one full-state blob)
	Blob []int `json:"blob,omitempty"`
	// reload through a snapshot file instead of a reader
	ViaFile bool `json:"via_file,omitempty"`
}

type c10ModelScenario struct {
	RetentionSec       int64      `json:"retention_sec"`
	AuthorRetentionSec int64      `json:"author_retention_sec"`
	Entries            []c10Entry `json:"entries"`
	Ops                []c10Op    `json:"ops"`
}

// ------------------------------------------------------------------ universe

var c10T0 = time.Date(2000, 1, 1, 0, 0, 0, 0, time.UTC)

var c10Groups = []string{`{}:{alertname="a"}`, `{}/{team="x"}:{alertname="a", job="j"}`}

const c10NKeys = 4

func c10Receiver(key int) *pb.Receiver {
	return &pb.Receiver{GroupName: "team-x", Integration: "webhook", Idx: uint32(key % 2)}
}
func c10Group(key int) string            { return c10Groups[key/2] }
func c10RefKey(key int) string           { return fmt.Sprintf("k%d", key) }
func c10At(ms int64) time.Time           { return c10T0.Add(time.Duration(ms) * time.Millisecond) }
func c10Ms(t time.Time) int64            { return t.Sub(c10T0).Milliseconds() }
func c10EntryTs(i int, e c10Entry) int64 { return e.TsSec*1000 + int64(i) + 1 }

var c10DataKeys = []string{"threadTs", "n", "", "k/é", "ratio"}

// c10KeyOf maps a decoded entry back to the key universe (-1: foreign).
func c10KeyOf(e *pb.Entry) int {
	if e == nil || e.Receiver == nil {
		return -1
	}
	for k := 0; k < c10NKeys; k++ {
		if string(e.GroupKey) == c10Group(k) && proto.Equal(e.Receiver, c10Receiver(k)) {
			return k
		}
	}
	return -1
}

func c10DataMap(ds []c10Datum) map[string]c10Datum {
	m := map[string]c10Datum{}
	for _, d := range ds {
		m[d.K] = d
	}
	return m
}

func c10PBValue(d c10Datum) *pb.ReceiverDataValue {
	switch d.Kind {
	case "int":
		return &pb.ReceiverDataValue{Value: &pb.ReceiverDataValue_IntVal{IntVal: d.I}}
	case "float":
		return &pb.ReceiverDataValue{Value: &pb.ReceiverDataValue_DoubleVal{DoubleVal: math.Float64frombits(d.F)}}
	default:
		return &pb.ReceiverDataValue{Value: &pb.ReceiverDataValue_StrVal{StrVal: d.S}}
	}
}

// c10Build is the harness' own construction of the entry the statement
// describes (it is what Query / broadcast / snapshot output are compared with).
func c10Build(key int, tsMs, expMs int64, firing, resolved []uint64, data map[string]c10Datum, groupHash []byte, resFlag bool) *pb.MeshEntry {
	e := &pb.Entry{
		GroupKey:       []byte(c10Group(key)),
		Receiver:       c10Receiver(key),
		Timestamp:      timestamppb.New(c10At(tsMs)),
		FiringAlerts:   append([]uint64(nil), firing...),
		ResolvedAlerts: append([]uint64(nil), resolved...),
		GroupHash:      append([]byte(nil), groupHash...),
		Resolved:       resFlag,
	}
	if len(data) > 0 {
		e.ReceiverData = map[string]*pb.ReceiverDataValue{}
		for k, d := range data {
			e.ReceiverData[k] = c10PBValue(d)
		}
	}
	return &pb.MeshEntry{Entry: e, ExpiresAt: timestamppb.New(c10At(expMs))}
}

func c10Encode(es ...*pb.MeshEntry) ([]byte, error) {
	var buf bytes.Buffer
	for _, e := range es {
		if _, err := protodelim.MarshalTo(&buf, e); err != nil {
			return nil, err
		}
	}
	return buf.Bytes(), nil
}

// c10Decode reads a sequence of length-delimited MeshEntry records.
func c10Decode(b []byte) ([]*pb.MeshEntry, error) {
	var out []*pb.MeshEntry
	br := bufio.NewReader(bytes.NewReader(b))
	for {
		e := &pb.MeshEntry{}
		err := protodelim.UnmarshalFrom(br, e)
		if errors.Is(err, io.EOF) {
			return out, nil
		}
		if err != nil {
			return out, err
		}
		out = append(out, e)
	}
}

func c10U64Equal(a, b []uint64) bool {
	if len(a) != len(b) {
		return false
	}
	for i := range a {
		if a[i] != b[i] {
			return false
		}
	}
	return true
}

// c10DiffEntry names the first field in which got differs from want ("" if none).
func c10DiffEntry(got, want *pb.Entry) (field, detail string) {
	if got == nil {
		return "entry", "nil entry"
	}
	if !bytes.Equal(got.GroupKey, want.GroupKey) {
		return "group_key", fmt.Sprintf("%q != %q", got.GroupKey, want.GroupKey)
	}
	if !proto.Equal(got.Receiver, want.Receiver) {
		return "receiver", fmt.Sprintf("%v != %v", got.Receiver, want.Receiver)
	}
	if got.Timestamp == nil || !got.Timestamp.AsTime().Equal(want.Timestamp.AsTime()) {
		return "timestamp", fmt.Sprintf("%v != %v", got.Timestamp.AsTime().Format(time.RFC3339Nano), want.Timestamp.AsTime().Format(time.RFC3339Nano))
	}
	if !c10U64Equal(got.FiringAlerts, want.FiringAlerts) {
		return "firing_alerts", fmt.Sprintf("%v != %v", got.FiringAlerts, want.FiringAlerts)
	}
	if !c10U64Equal(got.ResolvedAlerts, want.ResolvedAlerts) {
		return "resolved_alerts", fmt.Sprintf("%v != %v", got.ResolvedAlerts, want.ResolvedAlerts)
	}
	if len(got.ReceiverData) != len(want.ReceiverData) {
		return "receiver_data", fmt.Sprintf("%d keys != %d keys (%v != %v)", len(got.ReceiverData), len(want.ReceiverData), got.ReceiverData, want.ReceiverData)
	}
	for k, wv := range want.ReceiverData {
		gv, ok := got.ReceiverData[k]
		if !ok || gv == nil {
			return "receiver_data", fmt.Sprintf("key %q missing", k)
		}
		same := false
		switch w := wv.Value.(type) {
		case *pb.ReceiverDataValue_IntVal:
			g, ok := gv.Value.(*pb.ReceiverDataValue_IntVal)
			same = ok && g.IntVal == w.IntVal
		case *pb.ReceiverDataValue_DoubleVal:
			g, ok := gv.Value.(*pb.ReceiverDataValue_DoubleVal)
			same = ok && math.Float64bits(g.DoubleVal) == math.Float64bits(w.DoubleVal)
		case *pb.ReceiverDataValue_StrVal:
			g, ok := gv.Value.(*pb.ReceiverDataValue_StrVal)
			same = ok && g.StrVal == w.StrVal
		}
		if !same {
			return "receiver_data", fmt.Sprintf("key %q: %v != %v", k, gv, wv)
		}
	}
	if !bytes.Equal(got.GroupHash, want.GroupHash) || got.Resolved != want.Resolved {
		return "legacy_fields", fmt.Sprintf("group_hash/resolved %x/%v != %x/%v", got.GroupHash, got.Resolved, want.GroupHash, want.Resolved)
	}
	if !proto.Equal(got, want) {
		return "other", fmt.Sprintf("%v != %v", got, want)
	}
	return "", ""
}

func c10DiffMesh(got, want *pb.MeshEntry) (field, detail string) {
	if got == nil {
		return "entry", "nil record"
	}
	if f, d := c10DiffEntry(got.Entry, want.Entry); f != "" {
		return f, d
	}
	if got.ExpiresAt == nil || !got.ExpiresAt.AsTime().Equal(want.ExpiresAt.AsTime()) {
		return "expires_at", fmt.Sprintf("%v != %v", got.ExpiresAt.AsTime().Format(time.RFC3339Nano), want.ExpiresAt.AsTime().Format(time.RFC3339Nano))
	}
	if !proto.Equal(got, want) {
		return "other", fmt.Sprintf("%v != %v", got, want)
	}
	return "", ""
}

func c10SleepUntil(ms int64) bool {
	if d := time.Until(c10At(ms)); d > 0 {
		time.Sleep(d)
	}
	return time.Now().Equal(c10At(ms))
}

// ----------------------------------------------------------- authoring phase

// c10Version is one mergeable version after the authoring phase.
type c10Version struct {
	rec  ref.C10Rec    // what the reference merges
	want *pb.MeshEntry // what the statement says the version looks like
	enc  []byte        // the bytes that are delivered (authored: as broadcast by the real Log)
}

func c10ValidEntries(entries []c10Entry, res *pbt.Result) bool {
	if len(entries) > 400 {
		res.Fail("generator", "too many entries")
		return false
	}
	for i, e := range entries {
		seen := map[string]bool{}
		for _, d := range e.Data {
			if seen[d.K] || !utf8.ValidString(d.K) || !utf8.ValidString(d.S) || (d.Kind != "int" && d.Kind != "float" && d.Kind != "str") {
				res.Fail("generator", "entry %d: bad receiver data %+v", i, d)
				return false
			}
			seen[d.K] = true
		}
		if e.Key < 0 || e.Key >= c10NKeys || e.TsSec < 0 || e.ExpirySec < 0 {
			res.Fail("generator", "entry %d out of the generated domain", i)
			return false
		}
	}
	return true
}

// c10Author produces the deliverable versions. Authored entries are written by
// the real Log.Log of a second instance at their own instants (a bubble of its
// own: its clock is unrelated to the clock of the instance under test, which
// is how entries "from the future" arise in a cluster) and captured from its
// broadcast function; the captured bytes must decode to exactly the entry the
// statement describes.
func c10Author(entries []c10Entry, authorRetentionSec int64, res *pbt.Result) []c10Version {
	vs := make([]c10Version, len(entries))
	var order []int
	for i, e := range entries {
		ts := c10EntryTs(i, e)
		if e.Hand {
			exp := e.ExpSec*1000 + int64(i) + 1
			m := c10Build(e.Key, ts, exp, e.Firing, e.Resolved, c10DataMap(e.Data), e.GroupHash, e.ResFlag)
			enc, err := c10Encode(m)
			if err != nil {
				res.Fail("generator", "hand-built entry %d does not encode: %v", i, err)
			}
			vs[i] = c10Version{rec: ref.C10Rec{ID: i, Key: c10RefKey(e.Key), Stamp: ts, Expires: exp}, want: m, enc: enc}
			continue
		}
		exp := ts + 1000*ref.C10Lifetime(authorRetentionSec, e.ExpirySec)
		var data map[string]c10Datum
		if !e.NilStore {
			data = c10DataMap(e.Data)
		}
		vs[i] = c10Version{rec: ref.C10Rec{ID: i, Key: c10RefKey(e.Key), Stamp: ts, Expires: exp},
			want: c10Build(e.Key, ts, exp, e.Firing, e.Resolved, data, nil, false)}
		order = append(order, i)
	}
	if len(order) == 0 {
		return vs
	}
	sort.Slice(order, func(a, b int) bool { return vs[order[a]].rec.Stamp < vs[order[b]].rec.Stamp })
	type capt struct {
		clockOK bool
		err     error
		bcast   [][]byte
	}
	caps := make([]capt, len(entries))
	var newErr error
	var panicked any
	bubble(func() {
		defer func() { panicked = recover() }()
		l, err := nflog.New(nflog.Options{Retention: time.Duration(authorRetentionSec) * time.Second, Metrics: prometheus.NewRegistry()})
		if err != nil {
			newErr = err
			return
		}
		cur := -1
		l.SetBroadcast(func(b []byte) {
			if cur >= 0 {
				caps[cur].bcast = append(caps[cur].bcast, append([]byte(nil), b...))
			}
		})
		for _, i := range order {
			e := entries[i]
			caps[i].clockOK = c10SleepUntil(vs[i].rec.Stamp)
			var st *nflog.Store
			if !e.NilStore {
				st = nflog.NewStore(nil)
				c10Apply(st, e.Data)
			}
			cur = i
			caps[i].err = l.Log(c10Receiver(e.Key), c10Group(e.Key), append([]uint64(nil), e.Firing...), append([]uint64(nil), e.Resolved...), st, time.Duration(e.ExpirySec)*time.Second)
			cur = -1
		}
	})
	if panicked != nil {
		res.Add(pbt.V("panic", "authoring instance panicked: %v", panicked))
		return nil
	}
	if newErr != nil {
		res.Add(pbt.V("new-error", "nflog.New: %v", newErr))
		return nil
	}
	for _, i := range order {
		c := caps[i]
		if !c.clockOK {
			res.Fail("generator", "authoring clock missed the instant of entry %d", i)
			return nil
		}
		if c.err != nil {
			res.Add(pbt.V("log-error", "authoring Log of entry %d: %v", i, c.err).With("phase", "author"))
			return nil
		}
		if len(c.bcast) == 0 {
			res.Add(pbt.V("broadcast-missing", "authoring Log of entry %d did not hand anything to the broadcast function", i).With("phase", "author"))
			return nil
		}
		for _, b := range c.bcast {
			recs, err := c10Decode(b)
			if err != nil || len(recs) != 1 {
				res.Add(pbt.V("broadcast-mismatch", "authoring Log of entry %d broadcast %d records (err %v), want exactly the entry just written", i, len(recs), err).With("phase", "author").With("field", "framing"))
				continue
			}
			if f, d := c10DiffMesh(recs[0], vs[i].want); f != "" {
				res.Add(pbt.V("broadcast-mismatch", "authoring Log of entry %d: broadcast bytes differ from the entry just written in %s: %s", i, f, d).With("phase", "author").With("field", f))
			}
		}
		vs[i].enc = c.bcast[0]
	}
	return vs
}

func c10Apply(st *nflog.Store, ds []c10Datum) {
	for _, d := range ds {
		switch d.Kind {
		case "int":
			st.SetInt(d.K, d.I)
		case "float":
			st.SetFloat(d.K, math.Float64frombits(d.F))
		default:
			st.SetStr(d.K, d.S)
		}
	}
}

// ------------------------------------------------------------------ the trace

type c10Q struct {
	entry *pb.Entry
	n     int
	err   error
}

type c10Get struct {
	i  int64
	f  uint64
	s  string
	ok [3]bool // GetInt, GetFloat, GetStr
}

type c10Step struct {
	clockOK bool
	err     error
	bcast   [][]byte
	pre     c10Q              // log: Query of the key after the store was edited, before Log
	getters map[string]c10Get // log: what the store's getters returned before Log
	queries [c10NKeys]c10Q
	state   []*pb.MeshEntry
	stErr   error
	ran     bool
	badErr  error // logbad: what Log returned
}

func c10Query(l *nflog.Log, key int) c10Q {
	es, err := l.Query(nflog.QReceiver(c10Receiver(key)), nflog.QGroupKey(c10Group(key)))
	q := c10Q{err: err, n: len(es)}
	if len(es) > 0 && es[0] != nil {
		q.entry = proto.Clone(es[0]).(*pb.Entry)
	}
	return q
}

func c10Observe(l *nflog.Log, st *c10Step) {
	for k := 0; k < c10NKeys; k++ {
		st.queries[k] = c10Query(l, k)
	}
	b, err := l.MarshalBinary()
	if err != nil {
		st.stErr = err
		return
	}
	st.state, st.stErr = c10Decode(b)
}

// c10OpInstants returns the instant (ms after T0) of every operation.
func c10OpInstants(ops []c10Op) []int64 {
	out := make([]int64, len(ops))
	var cum int64
	for i, op := range ops {
		cum += op.Dt
		out[i] = cum*1000 + 500 + int64(i)
	}
	return out
}

func c10ValidOps(sc c10ModelScenario, res *pbt.Result) bool {
	if len(sc.Ops) > 400 || sc.RetentionSec <= 0 || sc.AuthorRetentionSec <= 0 {
		res.Fail("generator", "scenario out of the generated domain")
		return false
	}
	for i, op := range sc.Ops {
		if op.Dt < 0 || op.Key < 0 || op.Key >= c10NKeys || op.ExpirySec < 0 {
			res.Fail("generator", "op %d out of the generated domain", i)
			return false
		}
		switch op.Kind {
		case "log":
			for _, e := range op.Edits {
				d := e.D
				if !utf8.ValidString(d.K) || !utf8.ValidString(d.S) || (!e.Del && d.Kind != "int" && d.Kind != "float" && d.Kind != "str") {
					res.Fail("generator", "op %d: bad edit %+v", i, e)
					return false
				}
			}
		case "merge":
			seen := map[int]bool{}
			for _, ix := range op.Blob {
				if ix < 0 || ix >= len(sc.Entries) || seen[sc.Entries[ix].Key] {
					res.Fail("generator", "op %d: blob %v repeats a key or names an unknown entry", i, op.Blob)
					return false
				}
				seen[sc.Entries[ix].Key] = true
			}
		case "gc", "reload", "query", "logbad":
		default:
			res.Fail("generator", "op %d: unknown kind %q", i, op.Kind)
			return false
		}
	}
	return true
}

// ------------------------------------------------------------------- execute

func execC10Model(sc c10ModelScenario) (res pbt.Result) {
	if !c10ValidEntries(sc.Entries, &res) || !c10ValidOps(sc, &res) {
		return res
	}
	vs := c10Author(sc.Entries, sc.AuthorRetentionSec, &res)
	if vs == nil && len(sc.Entries) > 0 {
		return res
	}
	instants := c10OpInstants(sc.Ops)
	steps := make([]c10Step, len(sc.Ops))
	retention := time.Duration(sc.RetentionSec) * time.Second
	var startOK bool
	var newErr error
	var panicked any
	panicAt := -1
	tmp := ""
	for _, op := range sc.Ops {
		if op.Kind == "reload" && op.ViaFile && tmp == "" {
			tmp = pbt.T().TempDir()
		}
	}

	bubble(func() {
		cur := -1
		defer func() {
			if r := recover(); r != nil {
				panicked, panicAt = r, cur
			}
		}()
		startOK = time.Now().Equal(c10T0)
		l, err := nflog.New(nflog.Options{Retention: retention, Metrics: prometheus.NewRegistry()})
		if err != nil {
			newErr = err
			return
		}
		record := func(b []byte) {
			if cur >= 0 {
				steps[cur].bcast = append(steps[cur].bcast, append([]byte(nil), b...))
			}
		}
		l.SetBroadcast(record)
		for i, op := range sc.Ops {
			st := &steps[i]
			st.clockOK = c10SleepUntil(instants[i])
			cur = i
			switch op.Kind {
			case "log":
				var store *nflog.Store
				switch op.Base {
				case "nil":
				case "query":
					// the notify pipeline's path: Query, NewStore(entry), edit, Log
					es, _ := l.Query(nflog.QReceiver(c10Receiver(op.Key)), nflog.QGroupKey(c10Group(op.Key)))
					if len(es) > 0 {
						store = nflog.NewStore(es[0])
					} else {
						store = nflog.NewStore(nil)
					}
				default:
					store = nflog.NewStore(nil)
				}
				if store != nil {
					for _, e := range op.Edits {
						if e.Del {
							store.Delete(e.D.K)
						} else {
							c10Apply(store, []c10Datum{e.D})
						}
					}
					st.getters = map[string]c10Get{}
					for _, k := range c10DataKeys {
						var g c10Get
						var f float64
						g.i, g.ok[0] = store.GetInt(k)
						f, g.ok[1] = store.GetFloat(k)
						g.f = math.Float64bits(f)
						g.s, g.ok[2] = store.GetStr(k)
						st.getters[k] = g
					}
				}
				st.pre = c10Query(l, op.Key)
				st.err = l.Log(c10Receiver(op.Key), c10Group(op.Key), append([]uint64(nil), op.Firing...), append([]uint64(nil), op.Resolved...), store, time.Duration(op.ExpirySec)*time.Second)
			case "logbad":
				store := nflog.NewStore(nil)
				store.SetStr("thread", "bad\xffvalue")
				st.badErr = l.Log(c10Receiver(op.Key), c10Group(op.Key), append([]uint64(nil), op.Firing...), nil, store, 0)
			case "merge":
				var blob []byte
				for _, ix := range op.Blob {
					blob = append(blob, vs[ix].enc...)
				}
				st.err = l.Merge(blob)
			case "gc":
				_, st.err = l.GC()
			case "reload":
				var nl *nflog.Log
				if op.ViaFile {
					path := filepath.Join(tmp, fmt.Sprintf("nflog-%d", i))
					f, err := os.Create(path)
					if err == nil {
						_, err = l.Snapshot(f)
						if cerr := f.Close(); err == nil {
							err = cerr
						}
					}
					if err == nil {
						nl, err = nflog.New(nflog.Options{SnapshotFile: path, Retention: retention, Metrics: prometheus.NewRegistry()})
					}
					os.Remove(path)
					st.err = err
				} else {
					var buf bytes.Buffer
					n, err := l.Snapshot(&buf)
					if err == nil && n != int64(buf.Len()) {
						err = fmt.Errorf("Snapshot reported %d bytes, wrote %d", n, buf.Len())
					}
					if err == nil {
						nl, err = nflog.New(nflog.Options{SnapshotReader: &buf, Retention: retention, Metrics: prometheus.NewRegistry()})
					}
					st.err = err
				}
				if st.err == nil && nl != nil {
					l = nl
					l.SetBroadcast(record)
				}
			case "query":
			}
			cur = -1
			c10Observe(l, st)
			st.ran = true
		}
	})

	// ---------------------------------------------------------------- judge
	if panicked != nil {
		res.Add(pbt.V("panic", "operation %d panicked: %v", panicAt, panicked))
		return res
	}
	if newErr != nil {
		res.Add(pbt.V("new-error", "nflog.New: %v", newErr))
		return res
	}
	if !startOK {
		res.Fail("generator", "bubble clock did not start at %v", c10T0)
		return res
	}

	model := ref.NewC10Log()
	want := map[int]*pb.MeshEntry{}
	for i, v := range vs {
		want[i] = v.want
	}
	// receiver data of the entries written by local Log calls (id 1000+step)
	localData := map[int]map[string]c10Datum{}
	dataOf := func(id int) map[string]c10Datum {
		// receiver data of a version as scenario values (for stores built from a queried entry)
		if id >= 1000 {
			return localData[id]
		}
		if sc.Entries[id].Hand || !sc.Entries[id].NilStore {
			return c10DataMap(sc.Entries[id].Data)
		}
		return map[string]c10Datum{}
	}
	var prevTs [c10NKeys]*time.Time
	var sawOlder, sawExpired, sawGC, sawReload bool
	classes := map[string]bool{}

	for i, op := range sc.Ops {
		st := steps[i]
		now := instants[i]
		if !st.ran || !st.clockOK {
			res.Fail("generator", "op %d did not run at its instant", i)
			return res
		}
		fail := func(kind, format string, a ...any) pbt.Violation {
			return pbt.V(kind, "step %d (%s at +%dms): %s", i, op.Kind, now, fmt.Sprintf(format, a...)).With("step", i).With("op", op.Kind)
		}
		if st.err != nil {
			res.Add(fail("op-error", "returned %v", st.err))
			return res
		}
		switch op.Kind {
		case "logbad":
			// rejected with an error, and (checked below like after every step) nothing changed
			// (no error is fine when Log skips the call because a stored entry is from the future; either way the
			// log must hold what it held before)
			classes["unencodable-log"] = true
		case "log":
			exp := map[string]c10Datum{}
			if op.Base == "query" {
				classes["store-from-query"] = true
				if cur, ok := model.Query(c10RefKey(op.Key)); ok {
					for k, d := range dataOf(cur.ID) {
						exp[k] = d
					}
				}
			}
			if op.Base != "nil" {
				for _, e := range op.Edits {
					if e.Del {
						delete(exp, e.D.K)
					} else {
						exp[e.D.K] = e.D
					}
				}
				// Store API: a key holds an int, a float or a string; the getter of the right kind returns it
				for _, k := range c10DataKeys {
					g := st.getters[k]
					d, have := exp[k]
					wantOK := [3]bool{have && d.Kind == "int", have && d.Kind == "float", have && d.Kind == "str"}
					bad := g.ok != wantOK ||
						(wantOK[0] && g.i != d.I) || (wantOK[1] && g.f != d.F) || (wantOK[2] && g.s != d.S)
					if bad {
						res.Add(fail("store-getter", "store key %q: getters returned %+v, store should hold %+v (present %v)", k, g, d, have).With("field", "receiver_data"))
					}
				}
			}
			// editing a store derived from the stored entry must not change the stored entry
			if cur, ok := model.Query(c10RefKey(op.Key)); ok {
				if st.pre.err != nil || st.pre.entry == nil {
					res.Add(fail("query-mismatch", "before Log, key %d: Query = %v, want entry %d", op.Key, st.pre.err, cur.ID).With("field", "presence"))
				} else if f, d := c10DiffEntry(st.pre.entry, want[cur.ID].Entry); f != "" {
					res.Add(fail("stored-entry-mutated", "key %d: stored entry changed in %s while a store derived from it was edited (before Log): %s", op.Key, f, d).With("field", f))
				}
			}
			id := 1000 + i
			rec, verdict := model.Log(c10RefKey(op.Key), id, now, sc.RetentionSec*1000, op.ExpirySec*1000)
			switch verdict {
			case ref.C10Boundary:
				res.Fail("generator", "step %d: boundary instant reached", i)
				return res
			case ref.C10Skipped:
				classes["local-log-vs-future-entry"] = true
			case ref.C10Stored:
				localData[id] = exp
				want[id] = c10Build(op.Key, rec.Stamp, rec.Expires, op.Firing, op.Resolved, exp, nil, false)
				if op.ExpirySec > 0 && op.ExpirySec < sc.RetentionSec {
					classes["expiry-below-retention"] = true
				}
				if len(st.bcast) == 0 {
					res.Add(fail("broadcast-missing", "Log wrote an entry but handed nothing to the broadcast function"))
				}
				for _, b := range st.bcast {
					recs, err := c10Decode(b)
					if err != nil || len(recs) != 1 {
						res.Add(fail("broadcast-mismatch", "broadcast of %d records (err %v), want exactly the entry just written", len(recs), err).With("field", "framing"))
						continue
					}
					if f, d := c10DiffMesh(recs[0], want[id]); f != "" {
						res.Add(fail("broadcast-mismatch", "broadcast bytes differ from the entry just written in %s: %s", f, d).With("field", f))
					}
				}
			}
		case "merge":
			for _, ix := range op.Blob {
				switch model.Merge(vs[ix].rec, now) {
				case ref.C10Boundary:
					res.Fail("generator", "step %d: boundary instant reached", i)
					return res
				case ref.C10Older:
					sawOlder = true
					classes["older-rejected"] = true
				case ref.C10Expired:
					sawExpired = true
					classes["expired-rejected"] = true
				case ref.C10Dup:
					classes["duplicate-delivery"] = true
				case ref.C10Stored:
					classes["merge-stored"] = true
					if vs[ix].rec.Stamp > now {
						classes["future-entry-stored"] = true
					}
				}
			}
			if len(op.Blob) > 1 {
				classes["batched-blob"] = true
			}
		case "gc":
			removed, clean := model.GC(now)
			if !clean {
				res.Fail("generator", "step %d: boundary instant reached", i)
				return res
			}
			if len(removed) > 0 {
				sawGC = true
				classes["gc-removed"] = true
			}
			if len(model.S) > 0 {
				classes["gc-kept"] = true
			}
		case "reload":
			if len(model.S) > 0 {
				sawReload = true
				classes["reload"] = true
				for _, r := range model.S {
					if len(want[r.ID].Entry.ReceiverData) > 0 {
						classes["reload-with-receiver-data"] = true
					}
				}
			}
		}

		// Query of every key equals the reference entry or not-found
		for k := 0; k < c10NKeys; k++ {
			q := st.queries[k]
			cur, ok := model.Query(c10RefKey(k))
			if !ok {
				if !errors.Is(q.err, nflog.ErrNotFound) || q.n != 0 {
					got := "an entry"
					if q.entry != nil {
						got = fmt.Sprintf("entry with timestamp +%dms", c10Ms(q.entry.Timestamp.AsTime()))
					}
					res.Add(fail("query-mismatch", "key %d: Query returned %s (err %v), reference holds nothing", k, got, q.err).With("field", "presence").With("key", k))
				}
				prevTs[k] = nil
				continue
			}
			if cur.Expires < now {
				classes["expired-but-present-at-query"] = true
			}
			if len(want[cur.ID].Entry.ReceiverData) > 0 {
				classes["receiver-data"] = true
			}
			if q.err != nil || q.n != 1 || q.entry == nil {
				res.Add(fail("query-mismatch", "key %d: Query returned %d entries, err %v; reference holds version %d (timestamp +%dms, expires +%dms)", k, q.n, q.err, cur.ID, cur.Stamp, cur.Expires).With("field", "presence").With("key", k))
				prevTs[k] = nil
				continue
			}
			if f, d := c10DiffEntry(q.entry, want[cur.ID].Entry); f != "" {
				res.Add(fail("query-mismatch", "key %d: Query differs from reference version %d in %s: %s", k, cur.ID, f, d).With("field", f).With("key", k))
			}
			// model-free: while a key stays present its timestamp never decreases
			ts := q.entry.Timestamp.AsTime()
			if prevTs[k] != nil && ts.Before(*prevTs[k]) {
				res.Add(fail("timestamp-decreased", "key %d: timestamp went from %v back to %v", k, prevTs[k].Format(time.RFC3339Nano), ts.Format(time.RFC3339Nano)).With("key", k))
			}
			prevTs[k] = &ts
		}
		// the serialized state (what gossip full-sync and snapshots carry) equals the reference, incl. expires_at
		if st.stErr != nil {
			res.Add(fail("state-undecodable", "MarshalBinary output: %v", st.stErr))
		} else {
			seen := map[int]bool{}
			for _, m := range st.state {
				k := c10KeyOf(m.Entry)
				if k < 0 || seen[k] {
					res.Add(fail("state-mismatch", "MarshalBinary holds a foreign or repeated key: %v", m).With("field", "presence"))
					continue
				}
				seen[k] = true
				cur, ok := model.Query(c10RefKey(k))
				if !ok {
					res.Add(fail("state-mismatch", "key %d: MarshalBinary holds an entry (expires %v), reference holds nothing", k, m.ExpiresAt.AsTime().Format(time.RFC3339Nano)).With("field", "presence").With("key", k))
					continue
				}
				if f, d := c10DiffMesh(m, want[cur.ID]); f != "" {
					res.Add(fail("state-mismatch", "key %d: MarshalBinary differs from reference version %d in %s: %s", k, cur.ID, f, d).With("field", f).With("key", k))
				}
			}
			for k := 0; k < c10NKeys; k++ {
				if _, ok := model.Query(c10RefKey(k)); ok && !seen[k] {
					res.Add(fail("state-mismatch", "key %d: missing from MarshalBinary, reference holds it", k).With("field", "presence").With("key", k))
				}
			}
		}
		if len(res.Violations) > 0 {
			break // later steps only repeat the first divergence
		}
	}
	res.NonTrivial = (sawOlder || sawExpired) && (sawGC || sawReload)
	for c := range classes {
		res.Class(c)
	}
	sort.Strings(res.Classes)
	return res
}

// ------------------------------------------------------------------ generate

var (
	c10Retentions = []int64{5, 10, 20, 30, 60, 120}
	c10Dts        = []int64{0, 0, 0, 1, 1, 2, 3, 5, 8, 13, 20, 30, 45, 60, 90}
	c10Expiries   = []int64{1, 2, 5, 10, 20, 40, 80, 160, 300}
	c10HandLife   = []int64{-300, -30, -5, -1, 1, 2, 5, 10, 20, 40, 80, 160, 300}
	c10Hashes     = []uint64{0, 1, 2, 3, 0xdeadbeef, 1 << 63, math.MaxUint64, 14695981039346656037}
	c10Ints       = []int64{0, 1, -1, 42, math.MaxInt64, math.MinInt64, 1 << 53, 1700000000}
	c10Floats     = []float64{0, math.Copysign(0, -1), 1, -1.5, 0.1, math.Inf(1), math.Inf(-1), math.NaN(), math.MaxFloat64, math.SmallestNonzeroFloat64, 1e-310, 1700000000.000123}
	c10Strs       = []string{"", "1700000000.000100", "héllo 世界 🙂", "a\x00b\n\t\"\\", " <&>", "0", " "}
)

func genC10Hashes(t *rapid.T, label string) []uint64 {
	n := rapid.SampledFrom([]int{0, 0, 1, 1, 2, 3}).Draw(t, label+"N")
	var out []uint64
	if rapid.IntRange(0, 119).Draw(t, label+"Huge") == 0 {
		// a very large group: thousands of alert hashes make one entry of 60-110 KB, which every path (log, gossip,
		// full state, snapshot, reload) must carry like any other
		huge := rapid.SampledFrom([]int{6000, 7500, 11000}).Draw(t, label+"HugeN")
		base := rapid.Uint64().Draw(t, label+"HugeBase") | 1<<63 // (ten-byte varints)
		for i := 0; i < huge; i++ {
			out = append(out, base+uint64(i)*2654435761)
		}
		return out
	}
	for i := 0; i < n; i++ {
		if rapid.Bool().Draw(t, label+"Special") {
			out = append(out, rapid.SampledFrom(c10Hashes).Draw(t, label))
		} else {
			out = append(out, rapid.Uint64().Draw(t, label))
		}
	}
	return out
}

func genC10Datum(t *rapid.T) c10Datum {
	d := c10Datum{K: rapid.SampledFrom(c10DataKeys).Draw(t, "dataKey"), Kind: rapid.SampledFrom([]string{"int", "float", "str"}).Draw(t, "dataKind")}
	special := rapid.IntRange(0, 2).Draw(t, "dataSpecial") > 0
	switch d.Kind {
	case "int":
		if special {
			d.I = rapid.SampledFrom(c10Ints).Draw(t, "int")
		} else {
			d.I = rapid.Int64().Draw(t, "int")
		}
	case "float":
		if special {
			d.F = math.Float64bits(rapid.SampledFrom(c10Floats).Draw(t, "float"))
		} else {
			d.F = math.Float64bits(rapid.Float64().Draw(t, "float"))
		}
	default:
		switch {
		case special:
			d.S = rapid.SampledFrom(c10Strs).Draw(t, "str")
		case rapid.IntRange(0, 9).Draw(t, "long") == 0:
			n := rapid.IntRange(200, 900).Draw(t, "strLen")
			b := make([]byte, n)
			for i := range b {
				b[i] = byte('a' + i%26)
			}
			d.S = string(b)
		default:
			d.S = rapid.String().Filter(utf8.ValidString).Draw(t, "str")
		}
	}
	return d
}

func genC10Data(t *rapid.T) []c10Datum {
	n := rapid.SampledFrom([]int{0, 1, 1, 2, 3}).Draw(t, "nData")
	var out []c10Datum
	seen := map[string]bool{}
	for i := 0; i < n; i++ {
		d := genC10Datum(t)
		if seen[d.K] {
			continue
		}
		seen[d.K] = true
		out = append(out, d)
	}
	return out
}

func genC10Expiry(t *rapid.T) int64 {
	if rapid.IntRange(0, 2).Draw(t, "expiryZero") == 0 {
		return 0
	}
	return rapid.SampledFrom(c10Expiries).Draw(t, "expiry")
}

// genC10Entries draws n mergeable versions with timestamps near the given
// anchor seconds (the instants of the operations of the instance under test),
// so that versions from the past, the present neighbourhood and the future of
// a merge are all common.
func genC10Entries(t *rapid.T, n, keySpace int, anchors []int64, horizon int64) []c10Entry {
	var out []c10Entry
	for i := 0; i < n; i++ {
		e := c10Entry{Key: rapid.IntRange(0, keySpace-1).Draw(t, "entryKey")}
		if rapid.IntRange(0, 3).Draw(t, "uniformTs") == 0 || len(anchors) == 0 {
			e.TsSec = rapid.Int64Range(0, horizon+30).Draw(t, "tsSec")
		} else {
			a := anchors[rapid.IntRange(0, len(anchors)-1).Draw(t, "anchor")]
			e.TsSec = max(0, a+rapid.Int64Range(-40, 40).Draw(t, "tsOffset"))
		}
		e.Firing = genC10Hashes(t, "firing")
		e.Resolved = genC10Hashes(t, "resolved")
		e.Data = genC10Data(t)
		if rapid.IntRange(0, 2).Draw(t, "hand") == 0 {
			e.Hand = true
			e.ExpSec = e.TsSec + rapid.SampledFrom(c10HandLife).Draw(t, "handLife")
			if rapid.IntRange(0, 3).Draw(t, "legacy") == 0 {
				e.GroupHash = rapid.SliceOfN(rapid.Byte(), 0, 8).Draw(t, "groupHash")
				e.ResFlag = rapid.Bool().Draw(t, "resFlag")
			}
		} else {
			e.ExpirySec = genC10Expiry(t)
			e.NilStore = rapid.IntRange(0, 6).Draw(t, "nilStore") == 0
		}
		out = append(out, e)
	}
	return out
}

// genC10Blob draws one full-state blob: up to four versions with pairwise
// distinct keys (what MarshalBinary of a peer produces).
func genC10Blob(t *rapid.T, entries []c10Entry) []int {
	m := rapid.SampledFrom([]int{1, 1, 1, 2, 2, 3, 4}).Draw(t, "blobSize")
	var blob []int
	seen := map[int]bool{}
	for j := 0; j < m; j++ {
		ix := rapid.IntRange(0, len(entries)-1).Draw(t, "blobEntry")
		if seen[entries[ix].Key] {
			continue
		}
		seen[entries[ix].Key] = true
		blob = append(blob, ix)
	}
	return blob
}

func genC10LogOp(t *rapid.T, keySpace int) c10Op {
	op := c10Op{Kind: "log", Key: rapid.IntRange(0, keySpace-1).Draw(t, "logKey")}
	op.Firing = genC10Hashes(t, "firing")
	op.Resolved = genC10Hashes(t, "resolved")
	op.Base = rapid.SampledFrom([]string{"nil", "fresh", "fresh", "query", "query", "query"}).Draw(t, "base")
	if op.Base != "nil" {
		n := rapid.SampledFrom([]int{0, 1, 1, 2, 3}).Draw(t, "nEdits")
		for j := 0; j < n; j++ {
			e := c10Edit{D: genC10Datum(t)}
			if rapid.IntRange(0, 4).Draw(t, "del") == 0 {
				e = c10Edit{Del: true, D: c10Datum{K: e.D.K}}
			}
			op.Edits = append(op.Edits, e)
		}
	}
	op.ExpirySec = genC10Expiry(t)
	return op
}

func genC10Model(t *rapid.T) c10ModelScenario {
	maxOps, maxEnt := 24, 10
	if pbt.Thorough() {
		maxOps, maxEnt = 60, 24
	}
	sc := c10ModelScenario{
		RetentionSec:       rapid.SampledFrom(c10Retentions).Draw(t, "retention"),
		AuthorRetentionSec: rapid.SampledFrom(c10Retentions).Draw(t, "authorRetention"),
	}
	keySpace := rapid.SampledFrom([]int{1, 2, 2, 3, 4, 4}).Draw(t, "keySpace")
	nOps := rapid.IntRange(1, maxOps).Draw(t, "nOps")
	nEnt := rapid.IntRange(1, maxEnt).Draw(t, "nEntries")
	kinds := make([]string, nOps)
	anchors := make([]int64, nOps)
	var cum int64
	dts := make([]int64, nOps)
	for i := range kinds {
		kinds[i] = rapid.SampledFrom([]string{"log", "log", "log", "merge", "merge", "merge", "merge", "merge", "gc", "gc", "reload", "reload", "query", "logbad"}).Draw(t, "kind")
		dts[i] = rapid.SampledFrom(c10Dts).Draw(t, "dt")
		cum += dts[i]
		anchors[i] = cum
	}
	sc.Entries = genC10Entries(t, nEnt, keySpace, anchors, cum)
	for i, kind := range kinds {
		var op c10Op
		switch kind {
		case "log":
			op = genC10LogOp(t, keySpace)
		case "merge":
			op = c10Op{Kind: "merge", Blob: genC10Blob(t, sc.Entries)}
		case "logbad":
			// a Log call whose receiver data cannot be encoded (a string that is not valid UTF-8)
			op = c10Op{Kind: "logbad", Key: rapid.IntRange(0, keySpace-1).Draw(t, "badKey"), Firing: []uint64{99}}
		case "reload":
			op = c10Op{Kind: "reload", ViaFile: rapid.IntRange(0, 3).Draw(t, "viaFile") == 0}
		default:
			op = c10Op{Kind: kind}
		}
		op.Dt = dts[i]
		sc.Ops = append(sc.Ops, op)
	}
	return sc
}

const c10ModelRule = "history of 1-24 (thorough: 1-60) operations on one real nflog.Log in a virtual-time bubble over 2 groups x 2 receiver indices: local Log (firing/resolved hashes, now and then 6000-11000 of them: one entry of 60-110 KB; one kind in fourteen is a Log whose receiver data is not valid UTF-8 and which must fail without changing anything; store nil / fresh / derived from the queried entry and edited, receiver data of kinds int/float/string, expiry 0 or 1-300 s), Merge of full-state blobs (1-4 versions, distinct keys per blob) drawn with repetition from 1-10 (thorough: 1-24) versions authored by a second real Log at its own instants or hand-built (arbitrary expiry, legacy fields), GC, snapshot reload via reader or file, Query; advances 0-90 s, retention 5-120 s; all timestamps distinct and no expiry equal to an operation instant (ms residues). After every step every key's Query, the decoded MarshalBinary state and the broadcast of a local Log are compared with the reference LWW model (DESIGN A.3). Non-trivial: the history contains a merged version rejected as older or as expired AND a GC that removed something or a reload of a non-empty log."

func TestC10Model(t *testing.T) {
	pbt.Run(t, pbt.Spec[c10ModelScenario]{
		Property: "C10", Name: "C10Model",
		Rule: c10ModelRule,
		Gen:  genC10Model,
		Exec: execC10Model,
	})
}
