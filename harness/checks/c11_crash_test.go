package checks

// C11Crash — "If the process is killed or the machine loses power at any
// instant, the next start loads, for silences and for the notification log
// independently, exactly the state captured by the last completed snapshot or
// by the one in progress, never a torn, partial or mixed state, and never
// refuses to start because of a file it wrote itself."
//
// Engine E5: the real Maintenance loop runs in a sub-process under strace; the
// syscall history is replayed into the crashfs model and, for every crash point
// and every disk state the model allows, the real loader is started on a
// materialised copy of the data directory.

import (
	"context"
	"encoding/base64"
	"encoding/json"
	"errors"
	"flag"
	"fmt"
	"math/rand"
	"os"
	"os/exec"
	"path/filepath"
	"sort"
	"strconv"
	"strings"
	"syscall"
	"testing"
	"time"

	"github.com/prometheus/client_golang/prometheus"
	"google.golang.org/protobuf/proto"
	"pgregory.net/rapid"

	"github.com/prometheus/alertmanager/eventrecorder"
	"github.com/prometheus/alertmanager/nflog"
	"github.com/prometheus/alertmanager/nflog/nflogpb"
	"github.com/prometheus/alertmanager/silence"
	"github.com/prometheus/alertmanager/silence/silencepb"

	"verif/harness/crashfs"
	"verif/harness/pbt"
	"verif/harness/ref"
)

type c11CrashScenario struct {
	Seed         int64  `json:"seed"` // sampling of cut offsets
	RetentionSec int64  `json:"retention_sec"`
	Mode         string `json:"mode"` // shutdown | tick+shutdown

	OldSil []c11Sil   `json:"old_sil,omitempty"` // hand-written old snapshot file (absent if empty)
	A      []c11SilOp `json:"a,omitempty"`       // changes before the first snapshot
	BulkA  int        `json:"bulk_a,omitempty"`
	B      []c11SilOp `json:"b,omitempty"` // changes between tick snapshot and shutdown snapshot

	NfU     c11NfUniverse `json:"nf_universe"`
	OldNf   []c11NfEntry  `json:"old_nf,omitempty"`
	NfA     []c11NfOp     `json:"nf_a,omitempty"`
	NfBulkA int           `json:"nf_bulk_a,omitempty"`
	NfB     []c11NfOp     `json:"nf_b,omitempty"`
}

func c11GenCrash(t *rapid.T) c11CrashScenario {
	sc := c11CrashScenario{
		Seed:         rapid.Int64Range(1, 1<<40).Draw(t, "seed"),
		RetentionSec: rapid.SampledFrom([]int64{7200, 432000}).Draw(t, "retention"),
		Mode:         rapid.SampledFrom([]string{"shutdown", "tick+shutdown"}).Draw(t, "mode"),
	}
	no := rapid.IntRange(0, 4).Draw(t, "nold")
	for i := 0; i < no; i++ {
		sc.OldSil = append(sc.OldSil, c11GenWireSil(t, fmt.Sprintf("i%d", i), true))
	}
	mergeSets := map[int][][]ref.Matcher{}
	mergeID := func() (string, [][]ref.Matcher) {
		k := rapid.IntRange(0, 2).Draw(t, "mid")
		if mergeSets[k] == nil {
			mergeSets[k] = c11GenSets(t, false)
		}
		return fmt.Sprintf("m%d", k), mergeSets[k]
	}
	na := rapid.IntRange(1, 8).Draw(t, "na")
	for i := 0; i < na; i++ {
		sc.A = append(sc.A, c11GenSilOp(t, false, mergeID))
	}
	// at least one new silence so that the first snapshot differs from the old file
	s := c11GenSetSil(t)
	sc.A = append(sc.A, c11SilOp{Kind: "set", Sil: &s})
	big := 300
	if pbt.Thorough() {
		big = 4000
	}
	switch rapid.IntRange(0, 3).Draw(t, "bulkClass") {
	case 0:
		sc.BulkA = rapid.IntRange(1, 40).Draw(t, "bulk")
	case 1:
		sc.BulkA = rapid.IntRange(41, big).Draw(t, "bulk")
	}
	sc.NfU = c11GenNfUniverse(t)
	seen := map[int]bool{}
	for i, n := 0, rapid.IntRange(0, 3).Draw(t, "nfold"); i < n; i++ {
		e := c11GenWireEntry(t, &sc.NfU, true)
		if !seen[e.Key] {
			seen[e.Key] = true
			sc.OldNf = append(sc.OldNf, e)
		}
	}
	for i, n := 0, rapid.IntRange(1, 6).Draw(t, "nfa"); i < n; i++ {
		sc.NfA = append(sc.NfA, c11GenNfOp(t, &sc.NfU, false))
	}
	sc.NfA = append(sc.NfA, c11NfOp{Kind: "log", Key: 0, Firing: []uint64{1, 2}, ExpirySec: 7200})
	if rapid.Bool().Draw(t, "nfbulk") {
		sc.NfBulkA = rapid.IntRange(1, big).Draw(t, "nfbulkN")
	}
	if sc.Mode == "tick+shutdown" {
		for i, n := 0, rapid.IntRange(1, 5).Draw(t, "nb"); i < n; i++ {
			sc.B = append(sc.B, c11GenSilOp(t, false, mergeID))
		}
		s := c11GenSetSil(t)
		sc.B = append(sc.B, c11SilOp{Kind: "set", Sil: &s})
		for i, n := 0, rapid.IntRange(1, 4).Draw(t, "nfb"); i < n; i++ {
			sc.NfB = append(sc.NfB, c11GenNfOp(t, &sc.NfU, false))
		}
		sc.NfB = append(sc.NfB, c11NfOp{Kind: "log", Key: len(sc.NfU.Keys) - 1, Firing: []uint64{3}, Resolved: []uint64{1}, ExpirySec: 7200})
	}
	return sc
}

// ------------------------------------------------------------ helper process

type c11HelperIn struct {
	Scenario     c11CrashScenario `json:"scenario"`
	DataDir      string           `json:"data_dir"`
	OutFile      string           `json:"out_file"`
	BaseUnixNano int64            `json:"base_unix_nano"`
	TickMs       int              `json:"tick_ms"`
}

type c11Dump struct {
	Sil []string `json:"sil"` // base64(proto.Marshal(silence)) of every silence Query returns
	Nf  []string `json:"nf"`  // per key of the universe: base64(entry) or ""
}

type c11HelperOut struct {
	Dumps    []c11Dump `json:"dumps"`
	MaintSil float64   `json:"maint_sil"`
	MaintNf  float64   `json:"maint_nf"`
	Err      string    `json:"err,omitempty"`
}

func c11NfUniverseWithBulk(u c11NfUniverse, bulk int) c11NfUniverse {
	out := c11NfUniverse{Recvs: u.Recvs, Keys: append([]c11Key(nil), u.Keys...)}
	for i := 0; i < bulk; i++ {
		out.Keys = append(out.Keys, c11Key{Recv: 0, GKey: fmt.Sprintf("bulk%d", i)})
	}
	return out
}

func c11TakeDump(s *silence.Silences, l *nflog.Log, u *c11NfUniverse) (c11Dump, error) {
	var d c11Dump
	q, err := c11QuerySil(s)
	if err != nil {
		return d, err
	}
	ids := make([]string, 0, len(q))
	for id := range q {
		ids = append(ids, id)
	}
	sort.Strings(ids)
	for _, id := range ids {
		b, err := proto.Marshal(q[id])
		if err != nil {
			return d, err
		}
		d.Sil = append(d.Sil, base64.StdEncoding.EncodeToString(b))
	}
	es, err := c11QueryNf(l, u)
	if err != nil {
		return d, err
	}
	for _, e := range es {
		if e == nil {
			d.Nf = append(d.Nf, "")
			continue
		}
		b, err := proto.Marshal(e)
		if err != nil {
			return d, err
		}
		d.Nf = append(d.Nf, "="+base64.StdEncoding.EncodeToString(b))
	}
	return d, nil
}

func c11CounterValue(reg *prometheus.Registry, name string) float64 {
	mfs, _ := reg.Gather()
	for _, mf := range mfs {
		if mf.GetName() == name && len(mf.Metric) > 0 {
			return mf.Metric[0].GetCounter().GetValue()
		}
	}
	return -1
}

func c11FileID(path string) string {
	fi, err := os.Stat(path)
	if err != nil {
		return "absent"
	}
	return fmt.Sprintf("%v/%d/%d", fi.ModTime().UnixNano(), fi.Size(), c11Inode(fi))
}

// TestC11Helper is the snapshot writer that TestC11Crash runs under strace.
func TestC11Helper(t *testing.T) {
	inPath := os.Getenv("C11_HELPER")
	if inPath == "" {
		t.Skip("sub-process of TestC11Crash")
	}
	var in c11HelperIn
	b, err := os.ReadFile(inPath)
	if err != nil {
		t.Fatal(err)
	}
	if err := json.Unmarshal(b, &in); err != nil {
		t.Fatal(err)
	}
	var out c11HelperOut
	defer func() {
		if r := recover(); r != nil {
			out.Err = fmt.Sprintf("panic: %v", r)
		}
		ob, _ := json.Marshal(out)
		os.WriteFile(in.OutFile, ob, 0o644)
	}()
	fail := func(format string, a ...any) { out.Err = fmt.Sprintf(format, a...) }

	c11SetMode()
	sc := &in.Scenario
	base := time.Unix(0, in.BaseUnixNano)
	ret := time.Duration(sc.RetentionSec) * time.Second
	silFile, nfFile := filepath.Join(in.DataDir, "silences"), filepath.Join(in.DataDir, "nflog")
	u := c11NfUniverseWithBulk(sc.NfU, sc.NfBulkA)

	silReg, nfReg := prometheus.NewRegistry(), prometheus.NewRegistry()
	s, err := silence.New(silence.Options{SnapshotFile: silFile, Retention: ret, Metrics: silReg, Logger: nopLog, EventRecorder: eventrecorder.NopRecorder()})
	if err != nil {
		fail("loading the old silences file: %v", err)
		return
	}
	l, err := nflog.New(nflog.Options{SnapshotFile: nfFile, Retention: ret, Metrics: nfReg, Logger: nopLog})
	if err != nil {
		fail("loading the old nflog file: %v", err)
		return
	}
	dump := func() bool {
		d, err := c11TakeDump(s, l, &u)
		if err != nil {
			fail("dump: %v", err)
			return false
		}
		out.Dumps = append(out.Dumps, d)
		return true
	}
	if !dump() { // D0: the state the old files hold
		return
	}
	str, ntr := &c11SilTrack{}, &c11NfTrack{}
	c11ApplySilOps(s, base, sc.A, str, nil)
	ctx := context.Background()
	for i := 0; i < sc.BulkA; i++ {
		arg := (&c11Sil{Sets: [][]ref.Matcher{{{Op: "=", Name: "a", Value: fmt.Sprintf("bulk%d", i)}}}, EndOff: 7200 + int64(i), Comment: "bulk"}).c11SetArg(base)
		if err := s.Set(ctx, arg); err != nil {
			str.errs = append(str.errs, err.Error())
			break
		}
	}
	c11ApplyNfOps(l, base, &u, sc.NfA, ntr, nil)
	for i := 0; i < sc.NfBulkA; i++ {
		k := u.Keys[len(sc.NfU.Keys)+i]
		if err := l.Log(u.Recvs[k.Recv].pb(), k.GKey, []uint64{uint64(i)}, nil, nil, 0); err != nil {
			ntr.errs = append(ntr.errs, err.Error())
			break
		}
	}
	if !dump() { // D1: what the first snapshot captures
		return
	}
	interval := time.Hour
	if sc.Mode == "tick+shutdown" {
		interval = time.Duration(in.TickMs) * time.Millisecond
	}
	silBefore, nfBefore := c11FileID(silFile), c11FileID(nfFile)
	stopc := make(chan struct{})
	done := make(chan struct{}, 2)
	go func() { s.Maintenance(interval, silFile, stopc, nil); done <- struct{}{} }()
	go func() { l.Maintenance(interval, nfFile, stopc, nil); done <- struct{}{} }()
	if sc.Mode == "tick+shutdown" {
		deadline := time.Now().Add(20 * time.Second)
		for c11FileID(silFile) == silBefore || c11FileID(nfFile) == nfBefore {
			if time.Now().After(deadline) {
				close(stopc)
				<-done
				<-done
				fail("tick snapshot did not appear within 20s")
				return
			}
			time.Sleep(2 * time.Millisecond)
		}
		c11ApplySilOps(s, base, sc.B, str, nil)
		c11ApplyNfOps(l, base, &u, sc.NfB, ntr, nil)
		if !dump() { // D2: what the shutdown snapshot captures
			close(stopc)
			<-done
			<-done
			return
		}
	}
	close(stopc)
	<-done
	<-done
	out.MaintSil = c11CounterValue(silReg, "alertmanager_silences_maintenance_total")
	out.MaintNf = c11CounterValue(nfReg, "alertmanager_nflog_maintenance_total")
	if len(str.errs)+len(ntr.errs) > 0 {
		fail("API errors: %s %s", c11Describe(str.errs), c11Describe(ntr.errs))
	}
}

// ------------------------------------------------------------------- parent

type c11Inconclusive struct{ why string }

func (e *c11Inconclusive) Error() string { return e.why }

func c11Inconclusivef(format string, a ...any) error {
	return &c11Inconclusive{fmt.Sprintf(format, a...)}
}

type c11CrashStats struct {
	points, states, loads, midStates, betweenMid int
	secondLives                                  int
	ops                                          int
	multiWrite                                   bool
	maxWrite                                     int
}

const c11StraceSet = "trace=openat,write,pwrite64,writev,sendfile,copy_file_range,ftruncate,fsync,fdatasync,close,rename,renameat,renameat2,unlinkat,linkat"

// c11Cuts proposes cut offsets for a pending write: every record boundary
// (sampled above maxB) and mid-record cuts in the first, last and a few sampled
// records (one byte into the record = inside/just after the length prefix, the
// middle, one byte before its end).
func c11Cuts(rng *rand.Rand, maxB, maxMidRecs int) crashfs.CutFunc {
	return func(name string, before []byte, off int64, data []byte) []crashfs.Cut {
		var cuts []crashfs.Cut
		ends, _, ok := c11Frames(data)
		if !ok || len(ends) == 0 || off != int64(len(before)) {
			// not a record stream we can frame: generic cuts
			for _, f := range []int{1, len(data) / 4, len(data) / 2, len(data) - 1} {
				cuts = append(cuts, crashfs.Cut{Off: f, Mid: true})
			}
			return cuts
		}
		bidx := make([]int, 0, len(ends))
		for i := range ends {
			bidx = append(bidx, i)
		}
		if len(bidx) > maxB {
			rng.Shuffle(len(bidx), func(i, j int) { bidx[i], bidx[j] = bidx[j], bidx[i] })
			bidx = bidx[:maxB]
			sort.Ints(bidx)
		}
		for _, i := range bidx {
			cuts = append(cuts, crashfs.Cut{Off: ends[i]})
		}
		recs := []int{0, len(ends) - 1}
		for i := 0; i < maxMidRecs && len(ends) > 2; i++ {
			recs = append(recs, rng.Intn(len(ends)))
		}
		for _, r := range recs {
			start := 0
			if r > 0 {
				start = ends[r-1]
			}
			for _, c := range []int{start + 1, start + 2, (start + ends[r]) / 2, ends[r] - 1} {
				if c > start && c < ends[r] {
					cuts = append(cuts, crashfs.Cut{Off: c, Mid: true})
				}
			}
		}
		return cuts
	}
}

func c11DecodeDump(d c11Dump) (map[string]*silencepb.Silence, []*nflogpb.Entry, error) {
	sils := map[string]*silencepb.Silence{}
	for _, e := range d.Sil {
		b, err := base64.StdEncoding.DecodeString(e)
		if err != nil {
			return nil, nil, err
		}
		var s silencepb.Silence
		if err := proto.Unmarshal(b, &s); err != nil {
			return nil, nil, err
		}
		sils[s.Id] = &s
	}
	var nf []*nflogpb.Entry
	for _, e := range d.Nf {
		if e == "" {
			nf = append(nf, nil)
			continue
		}
		b, err := base64.StdEncoding.DecodeString(strings.TrimPrefix(e, "="))
		if err != nil {
			return nil, nil, err
		}
		var en nflogpb.Entry
		if err := proto.Unmarshal(b, &en); err != nil {
			return nil, nil, err
		}
		nf = append(nf, &en)
	}
	return sils, nf, nil
}

// c11RunCrashCase runs one scenario. A *c11Inconclusive error means the case
// could not be judged (never a pass, never a violation).
func c11RunCrashCase(t *testing.T, sc *c11CrashScenario) (vios []pbt.Violation, st c11CrashStats, err error) {
	strace, lerr := exec.LookPath("strace")
	if lerr != nil {
		return nil, st, c11Inconclusivef("strace not available: %v", lerr)
	}
	self, lerr := os.Executable()
	if lerr != nil {
		return nil, st, c11Inconclusivef("os.Executable: %v", lerr)
	}
	c11SetMode()
	work, lerr := os.MkdirTemp("", "c11crash")
	if lerr != nil {
		return nil, st, c11Inconclusivef("temp dir: %v", lerr)
	}
	defer os.RemoveAll(work)
	expectRenames := 1
	if sc.Mode == "tick+shutdown" {
		expectRenames = 2
	}
	u := c11NfUniverseWithBulk(sc.NfU, sc.NfBulkA)
	ret := time.Duration(sc.RetentionSec) * time.Second

	var ops []crashfs.Op
	var out c11HelperOut
	var initial map[string][]byte
	var dataDir string
	for attempt := 0; ; attempt++ {
		dataDir = filepath.Join(work, fmt.Sprintf("data%d", attempt))
		os.MkdirAll(dataDir, 0o755)
		base := time.Now().Truncate(time.Second)
		initial = map[string][]byte{}
		if len(sc.OldSil) > 0 {
			initial["silences"] = c11SilFile(base, sc.OldSil)
		}
		if len(sc.OldNf) > 0 {
			initial["nflog"] = c11NfFile(base, &u, sc.OldNf)
		}
		for n, b := range initial {
			if werr := os.WriteFile(filepath.Join(dataDir, n), b, 0o644); werr != nil {
				return nil, st, c11Inconclusivef("write old file: %v", werr)
			}
		}
		in := c11HelperIn{Scenario: *sc, DataDir: dataDir, OutFile: filepath.Join(work, fmt.Sprintf("out%d.json", attempt)),
			BaseUnixNano: base.UnixNano(), TickMs: 300 * (attempt + 1)}
		inPath := filepath.Join(work, fmt.Sprintf("in%d.json", attempt))
		ib, _ := json.Marshal(in)
		os.WriteFile(inPath, ib, 0o644)
		tracePath := filepath.Join(work, fmt.Sprintf("trace%d.txt", attempt))
		ctx, cancel := context.WithTimeout(context.Background(), 120*time.Second)
		cmd := exec.CommandContext(ctx, strace, "-f", "-y", "-xx", "-s", strconv.Itoa(32<<20), "-e", c11StraceSet, "-o", tracePath,
			self, "-test.run", "^TestC11Helper$", "-test.timeout", "100s")
		cmd.Env = append(os.Environ(), "C11_HELPER="+inPath, "VERIF_REPLAY=")
		cout, rerr := cmd.CombinedOutput()
		cancel()
		if rerr != nil {
			return nil, st, c11Inconclusivef("helper under strace failed: %v: %.600s", rerr, cout)
		}
		ob, rerr := os.ReadFile(in.OutFile)
		if rerr != nil {
			return nil, st, c11Inconclusivef("helper wrote no result: %v: %.600s", rerr, cout)
		}
		out = c11HelperOut{}
		if jerr := json.Unmarshal(ob, &out); jerr != nil {
			return nil, st, c11Inconclusivef("helper result unreadable: %v", jerr)
		}
		if out.Err != "" {
			return nil, st, c11Inconclusivef("helper: %s", out.Err)
		}
		tf, rerr := os.Open(tracePath)
		if rerr != nil {
			return nil, st, c11Inconclusivef("no strace output: %v", rerr)
		}
		ops, rerr = crashfs.ParseStrace(tf, dataDir)
		tf.Close()
		if rerr != nil {
			return nil, st, c11Inconclusivef("strace output not understood: %v", rerr)
		}
		rs, rn := 0, 0
		for _, op := range ops {
			if op.Kind == crashfs.OpRename && filepath.Base(op.Path2) == "silences" {
				rs++
			}
			if op.Kind == crashfs.OpRename && filepath.Base(op.Path2) == "nflog" {
				rn++
			}
		}
		if rs == expectRenames && rn == expectRenames {
			break
		}
		if (rs > expectRenames || rn > expectRenames) && attempt < 2 {
			continue // an extra maintenance tick slipped in (slow machine): run again with a longer interval
		}
		return nil, st, c11Inconclusivef("expected %d snapshot(s) per store, the history shows %d (silences) / %d (nflog) renames onto the target; maintenance runs: %v / %v",
			expectRenames, rs, rn, out.MaintSil, out.MaintNf)
	}
	if len(out.Dumps) != expectRenames+1 {
		return nil, st, c11Inconclusivef("helper produced %d dumps, want %d", len(out.Dumps), expectRenames+1)
	}
	var dSil []map[string]*silencepb.Silence
	var dNf [][]*nflogpb.Entry
	for _, d := range out.Dumps {
		s, n, derr := c11DecodeDump(d)
		if derr != nil {
			return nil, st, c11Inconclusivef("dump does not decode: %v", derr)
		}
		dSil, dNf = append(dSil, s), append(dNf, n)
	}
	ignoreSil := map[string]bool{}
	for _, r := range sc.OldSil {
		if r.ExpOff < 0 {
			ignoreSil[r.ID] = true
		}
	}
	// per dump: keys whose answer still is the old record that is past its expiry
	// (it may be garbage-collected before the snapshot: free to be absent)
	freeNf := make([]map[int]bool, len(dNf))
	for i := range dNf {
		freeNf[i] = map[int]bool{}
		for _, r := range sc.OldNf {
			if r.ExpOff < 0 && dNf[i][r.Key] != nil && dNf[0][r.Key] != nil && proto.Equal(dNf[i][r.Key], dNf[0][r.Key]) {
				freeNf[i][r.Key] = true
			}
		}
	}

	// index of first write / last rename for the non-triviality rule
	firstWrite, lastRename := -1, -1
	writesPerOpen := map[int]int{}
	for i, op := range ops {
		switch op.Kind {
		case crashfs.OpWrite, crashfs.OpPwrite:
			if firstWrite < 0 {
				firstWrite = i
			}
			writesPerOpen[op.FD]++
			if writesPerOpen[op.FD] > 1 {
				st.multiWrite = true
			}
			if len(op.Data) > st.maxWrite {
				st.maxWrite = len(op.Data)
			}
		case crashfs.OpClose:
			delete(writesPerOpen, op.FD)
		case crashfs.OpRename:
			lastRename = i
		case crashfs.OpUnknown:
			return nil, st, c11Inconclusivef("history contains an operation the file-system model does not cover: %v", op)
		}
	}
	st.ops = len(ops)

	cand := filepath.Join(work, "cand")
	rng := rand.New(rand.NewSource(sc.Seed))
	maxB, maxMid := 40, 3
	if pbt.Thorough() {
		maxB, maxMid = 120, 8
	}
	lastPoint := -1
	maxSecond := 60
	if pbt.Thorough() {
		maxSecond = 400
	}
	eerr := crashfs.Enumerate(dataDir, initial, ops, c11Cuts(rng, maxB, maxMid), func(s crashfs.State) bool {
		if s.Point != lastPoint {
			lastPoint = s.Point
			st.points++
		}
		st.states++
		if s.Mid {
			st.midStates++
			if firstWrite >= 0 && s.Point > firstWrite && s.Point <= lastRename {
				st.betweenMid++
			}
		}
		// materialise
		os.RemoveAll(cand)
		if merr := os.MkdirAll(cand, 0o755); merr != nil {
			err = c11Inconclusivef("materialise: %v", merr)
			return false
		}
		for n, b := range s.Files {
			if werr := os.WriteFile(filepath.Join(cand, n), b, 0o644); werr != nil {
				err = c11Inconclusivef("materialise: %v", werr)
				return false
			}
		}
		seg := func(target string) int {
			k := 0
			for _, op := range ops[:s.Point] {
				if op.Kind == crashfs.OpRename && filepath.Base(op.Path2) == target {
					k++
				}
			}
			return k
		}
		where := func() string {
			prev, next := "start", "end"
			if s.Point > 0 {
				prev = ops[s.Point-1].String()
			}
			if s.Point < len(ops) {
				next = ops[s.Point].String()
			}
			return fmt.Sprintf("crash point %d (after %s, before %s); disk state: %s", s.Point, prev, next, s.Desc)
		}
		// a temporary file of the interrupted snapshot is still in the directory
		leftover := false
		for n := range s.Files {
			if n != "silences" && n != "nflog" {
				leftover = true
			}
		}
		if s.Mid && st.states%3 != 0 { // whole-write states always, cut states sampled
			leftover = false
		}
		// silences
		st.loads += 2
		k := seg("silences")
		k2 := k + 1
		if k2 >= len(dSil) {
			k2 = len(dSil) - 1
		}
		func() {
			defer func() {
				if r := recover(); r != nil {
					vios = append(vios, pbt.V("crash-loader-panic", "silences loader panics at %s: %v", where(), r).With("store", "silences"))
				}
			}()
			sl, lerr := c11NewSilences(ret, nil, filepath.Join(cand, "silences"))
			if lerr != nil {
				vios = append(vios, pbt.V("crash-refuses-to-start", "silences: the loader refuses the file left at %s: %v", where(), lerr).
					With("store", "silences").With("point", s.Point).With("mid", s.Mid))
				return
			}
			q, qerr := c11QuerySil(sl)
			if qerr != nil {
				vios = append(vios, pbt.V("crash-query-error", "silences: Query fails after loading at %s: %v", where(), qerr).With("store", "silences"))
				return
			}
			d1 := c11DiffSil(dSil[k], q, ignoreSil)
			d2 := ""
			if d1 != "" {
				d2 = c11DiffSil(dSil[k2], q, ignoreSil)
			}
			if d1 == "" || d2 == "" {
				// second life: the restarted process takes its own (shutdown) snapshot in the directory the crash
				// left behind, leftover temporary files included, and the process after it must start with
				// exactly that state
				if leftover && st.secondLives < maxSecond {
					st.secondLives++
					stopc := make(chan struct{})
					close(stopc)
					sl.Maintenance(time.Hour, filepath.Join(cand, "silences"), stopc, nil)
					sl3, lerr := c11NewSilences(ret, nil, filepath.Join(cand, "silences"))
					if lerr != nil {
						vios = append(vios, pbt.V("crash-refuses-to-start", "silences: after the crash at %s the restarted process took a shutdown snapshot; the process after it refuses that file: %v", where(), lerr).With("store", "silences").With("second_life", true))
						return
					}
					q3, qerr := c11QuerySil(sl3)
					if qerr != nil {
						vios = append(vios, pbt.V("crash-query-error", "silences: Query fails in the second life after %s: %v", where(), qerr).With("store", "silences"))
						return
					}
					if d := c11DiffSil(q, q3, ignoreSil); d != "" {
						vios = append(vios, pbt.V("crash-torn-state", "silences: after the crash at %s the restarted process (holding %d silences) took a shutdown snapshot, but the process after it starts with another state: %s", where(), len(q), d).With("store", "silences").With("second_life", true))
					}
				}
				return
			}
			vios = append(vios, pbt.V("crash-torn-state", "silences: at %s the loader starts with %d silences, which is neither the state of snapshot %d (%s) nor of snapshot %d (%s)",
				where(), len(q), k, d1, k2, d2).With("store", "silences").With("point", s.Point).With("mid", s.Mid))
		}()
		// nflog
		k = seg("nflog")
		k2 = k + 1
		if k2 >= len(dNf) {
			k2 = len(dNf) - 1
		}
		func() {
			defer func() {
				if r := recover(); r != nil {
					vios = append(vios, pbt.V("crash-loader-panic", "nflog loader panics at %s: %v", where(), r).With("store", "nflog"))
				}
			}()
			nl, lerr := c11NewLog(ret, nil, filepath.Join(cand, "nflog"))
			if lerr != nil {
				vios = append(vios, pbt.V("crash-refuses-to-start", "nflog: the loader refuses the file left at %s: %v", where(), lerr).
					With("store", "nflog").With("point", s.Point).With("mid", s.Mid))
				return
			}
			q, qerr := c11QueryNf(nl, &u)
			if qerr != nil {
				vios = append(vios, pbt.V("crash-query-error", "nflog: Query fails after loading at %s: %v", where(), qerr).With("store", "nflog"))
				return
			}
			d1 := c11DiffNf(dNf[k], q, freeNf[k])
			d2, free := "", freeNf[k]
			if d1 != "" {
				d2, free = c11DiffNf(dNf[k2], q, freeNf[k2]), freeNf[k2]
			}
			if d1 == "" || d2 == "" {
				if leftover && st.secondLives < maxSecond {
					st.secondLives++
					stopc := make(chan struct{})
					close(stopc)
					nl.Maintenance(time.Hour, filepath.Join(cand, "nflog"), stopc, nil)
					nl3, lerr := c11NewLog(ret, nil, filepath.Join(cand, "nflog"))
					if lerr != nil {
						vios = append(vios, pbt.V("crash-refuses-to-start", "nflog: after the crash at %s the restarted process took a shutdown snapshot; the process after it refuses that file: %v", where(), lerr).With("store", "nflog").With("second_life", true))
						return
					}
					q3, qerr := c11QueryNf(nl3, &u)
					if qerr != nil {
						vios = append(vios, pbt.V("crash-query-error", "nflog: Query fails in the second life after %s: %v", where(), qerr).With("store", "nflog"))
						return
					}
					if d := c11DiffNf(q, q3, free); d != "" {
						vios = append(vios, pbt.V("crash-torn-state", "nflog: after the crash at %s the restarted process took a shutdown snapshot, but the process after it answers differently: %s", where(), d).With("store", "nflog").With("second_life", true))
					}
				}
				return
			}
			vios = append(vios, pbt.V("crash-torn-state", "nflog: at %s the loader's answers are neither the state of snapshot %d (%s) nor of snapshot %d (%s)",
				where(), k, d1, k2, d2).With("store", "nflog").With("point", s.Point).With("mid", s.Mid))
		}()
		return len(vios) < 5
	})
	if err != nil {
		return nil, st, err
	}
	if eerr != nil {
		if errors.Is(eerr, crashfs.ErrUnknownOp) {
			return nil, st, c11Inconclusivef("history not replayable by the file-system model: %v", eerr)
		}
		return nil, st, c11Inconclusivef("enumeration: %v", eerr)
	}
	return vios, st, nil
}

func c11FlagInt(name string, def int) int {
	if f := flag.Lookup(name); f != nil {
		if v, err := strconv.Atoi(f.Value.String()); err == nil && v > 0 {
			return v
		}
	}
	return def
}

func TestC11Crash(t *testing.T) {
	const rule = "real time, strace: a sub-process loads a generated OLD state (hand-written files incl. old formats and entries past expiry; or no file), applies generated changes through the real API (Set/edit/replace/Expire/Merge, Log/notify pipeline/Merge, bulk up to 300, thorough 4000 entries = single writes of up to several 100 KiB), then runs the real Maintenance(interval, file, stopc, nil) of both stores: shutdown snapshot only, or one tick snapshot + further changes + shutdown snapshot. The traced history of the data directory is replayed into the file-system model (durable + pending bytes per inode; fsync makes durable; rename rebinds atomically and may precede unsynced data); for EVERY crash point between two operations every disk state is materialised (pending changes applied as a prefix; the next write cut at 0, at every record boundary (sampled above 40/120) and at mid-record offsets) and the real loaders New(SnapshotFile) are started: must not error, and Query (all silences / every key of the log universe, proto.Equal) must equal EXACTLY the dump of the snapshot completed before the crash point or of the one in progress; entries past their expiry are free. Second life: in disk states that still hold a temporary file of the interrupted snapshot (all whole-write states, a third of the cut states, at most 60/400 per case) the restarted process takes its own shutdown snapshot in that directory and the process after it must start with exactly the restarted process's state. Unknown data-modifying syscalls, unexpected snapshot counts, helper failures => inconclusive. Non-trivial: >=1 enumerated state with a mid-record cut between the first write and the last rename. Distinct by scenario digest."
	m := pbt.NewManual("C11", "C11Crash", rule)
	var sc c11CrashScenario
	if pbt.Replaying() {
		if !pbt.ReplayScenario("C11Crash", &sc) {
			t.Skip("replay file is for another check")
		}
		vios, _, err := c11RunCrashCase(t, &sc)
		if err != nil {
			t.Fatalf("INCONCLUSIVE replay: %v", err)
		}
		fmt.Printf("REPLAY-RAN check=C11Crash violations=%d\n", len(vios))
		for _, v := range vios {
			fmt.Printf("REPLAY-VIOLATION [%s] %s\n", v.Kind, v.Message)
		}
		if len(vios) > 0 {
			t.Fatalf("replay fails: [%s] %s", vios[0].Kind, vios[0].Message)
		}
		return
	}
	defer m.Flush()
	cases := c11FlagInt("rapid.checks", 3)
	if cases > 200 {
		cases = 200
	}
	seed := c11FlagInt("rapid.seed", 1)
	var tot c11CrashStats
	g := rapid.Custom(c11GenCrash)
	nInconclusive := 0
	var lastInc error
	for i := 0; i < cases; i++ {
		sc = g.Example(seed*1000 + i)
		cur, _ := json.Marshal(map[string]any{"property": "C11", "check": "C11Crash", "scenario": sc})
		os.WriteFile(filepath.Join(c11OutDir(), "current-case-C11Crash-"+c11Shard()+".json"), cur, 0o644)
		vios, st, err := c11RunCrashCase(t, &sc)
		var inc *c11Inconclusive
		if errors.As(err, &inc) {
			nInconclusive++
			lastInc = err
			t.Logf("case %d inconclusive: %v", i, err)
			continue
		}
		tot.points += st.points
		tot.states += st.states
		tot.loads += st.loads
		tot.midStates += st.midStates
		tot.betweenMid += st.betweenMid
		tot.secondLives += st.secondLives
		classes := []string{"mode:" + sc.Mode, "ops:" + c11SizeClass(st.ops)}
		if st.multiWrite {
			classes = append(classes, "multi-write-snapshot")
		}
		switch {
		case st.maxWrite >= 64<<10:
			classes = append(classes, "write>=64KiB")
		case st.maxWrite >= 4<<10:
			classes = append(classes, "write>=4KiB")
		default:
			classes = append(classes, "write<4KiB")
		}
		if len(sc.OldSil) == 0 {
			classes = append(classes, "no-old-silences-file")
		}
		if st.secondLives > 0 {
			classes = append(classes, "second-life-snapshot-over-leftover-temp-file")
		}
		if c11HasLegacy(sc.OldSil) {
			classes = append(classes, "old-format-in-old-file")
		}
		m.Case(sc, st.betweenMid > 0, classes...)
		m.Set("disk_states", tot.states)
		m.Set("crash_points", tot.points)
		m.Set("loader_runs", tot.loads)
		m.Set("mid_record_states", tot.midStates)
		m.Set("mid_record_states_between_write_and_rename", tot.betweenMid)
		m.Set("second_life_snapshots", tot.secondLives)
		m.Set("inconclusive_cases", nInconclusive)
		if len(vios) > 0 {
			for _, v := range vios[1:] {
				t.Logf("also: [%s] %s", v.Kind, v.Message)
			}
			m.Violation(t, sc, vios[0])
		}
	}
	os.Remove(filepath.Join(c11OutDir(), "current-case-C11Crash-"+c11Shard()+".json"))
	if nInconclusive > 0 {
		// never a pass: the driver maps a failing test without violation file to exit 2
		t.Fatalf("INCONCLUSIVE: %d of %d crash cases could not be judged; last: %v", nInconclusive, cases, lastInc)
	}
}

func c11OutDir() string {
	d := os.Getenv("VERIF_OUT")
	if d == "" {
		d = filepath.Join(os.TempDir(), "verif-out")
	}
	os.MkdirAll(d, 0o755)
	return d
}

func c11Shard() string {
	if s := os.Getenv("VERIF_SHARD"); s != "" {
		return s
	}
	return "0"
}

func c11Inode(fi os.FileInfo) uint64 {
	if st, ok := fi.Sys().(*syscall.Stat_t); ok {
		return st.Ino
	}
	return 0
}
