package checks

// C06Limit: "GET /alerts/groups shows exactly this partition of the current alerts" under an aggregation-group limit
// (--dispatch.max-aggregation-groups … the dispatcher's Limits): the limit forbids NEW groups once it is reached; an
// alert whose route and group_by values match a live group joins it whatever the count, and an alert refused for the
// limit is counted. No alert resolves here, so no group is ever destroyed and the count is exact.

import (
	"context"
	"fmt"
	"log/slog"
	"sort"
	"testing"
	"testing/synctest"
	"time"

	"github.com/prometheus/client_golang/prometheus"
	"github.com/prometheus/common/model"
	"pgregory.net/rapid"

	"github.com/prometheus/alertmanager/alert"
	"github.com/prometheus/alertmanager/config"
	"github.com/prometheus/alertmanager/dispatch"
	"github.com/prometheus/alertmanager/eventrecorder"
	"github.com/prometheus/alertmanager/featurecontrol"
	"github.com/prometheus/alertmanager/marker"
	"github.com/prometheus/alertmanager/notify"
	"github.com/prometheus/alertmanager/provider/mem"

	"verif/harness/pbt"
)

type c06lPut struct {
	Group int `json:"group"` // value of the group_by label
	Inst  int `json:"inst"`  // distinguishes alerts of one group
}

type c06lScenario struct {
	Limit int       `json:"limit"`
	Puts  []c06lPut `json:"puts"`
}

func genC06Limit(t *rapid.T) c06lScenario {
	sc := c06lScenario{Limit: rapid.IntRange(1, 4).Draw(t, "limit")}
	n := rapid.IntRange(3, 20).Draw(t, "n")
	for i := 0; i < n; i++ {
		sc.Puts = append(sc.Puts, c06lPut{Group: rapid.IntRange(0, sc.Limit+1).Draw(t, "group"), Inst: rapid.IntRange(0, 3).Draw(t, "inst")})
	}
	return sc
}

func execC06Limit(sc c06lScenario) (res pbt.Result) {
	reachedThenJoined, refusedSome := false, false
	synctest.Test(pbt.T(), func(*testing.T) {
		ctx, cancel := context.WithCancel(context.Background())
		defer cancel()
		reg := prometheus.NewRegistry()
		alerts, err := mem.NewAlerts(ctx, time.Hour, 0, nil, nopLog, eventrecorder.NopRecorder(), reg, featurecontrol.NoopFlags{})
		if err != nil {
			res.Fail("harness", "%v", err)
			return
		}
		defer alerts.Close()
		gw := model.Duration(time.Hour)
		cr := &config.Route{Receiver: "r", GroupByStr: []string{"g"}, GroupBy: []model.LabelName{"g"}, GroupWait: &gw, GroupInterval: &gw, RepeatInterval: &gw}
		stage := notify.StageFunc(func(ctx context.Context, _ *slog.Logger, as ...*alert.Alert) (context.Context, []*alert.Alert, error) {
			return ctx, as, nil
		})
		dm := dispatch.NewDispatcherMetrics(false, reg, featurecontrol.NoopFlags{})
		disp := dispatch.NewDispatcher(alerts, dispatch.NewRoute(cr, nil), stage, marker.NewGroupMarker(), func(d time.Duration) time.Duration { return d },
			time.Hour, c06Limits(sc.Limit), nopLog, eventrecorder.NopRecorder(), dm, nil)
		go disp.Run(time.Now())
		disp.WaitForLoading()
		defer func() { disp.Stop(); synctest.Wait() }()
		live := map[int]bool{}    // groups that exist
		want := map[string]bool{} // alerts that must be held (key g/inst)
		refused := 0
		for i, p := range sc.Puts {
			time.Sleep(time.Millisecond)
			now := time.Now()
			key := fmt.Sprintf("%d/%d", p.Group, p.Inst)
			a := &alert.Alert{Alert: model.Alert{Labels: model.LabelSet{"g": model.LabelValue(fmt.Sprint(p.Group)), "inst": model.LabelValue(fmt.Sprint(p.Inst))}, StartsAt: now, EndsAt: now.Add(10 * time.Hour)}, UpdatedAt: now}
			if err := alerts.Put(ctx, a); err != nil {
				res.Fail("harness", "Put: %v", err)
			}
			synctest.Wait()
			switch {
			case live[p.Group]:
				if len(live) >= sc.Limit {
					reachedThenJoined = true
				}
				want[key] = true
			case len(live) < sc.Limit:
				live[p.Group] = true
				want[key] = true
			default:
				if !want[key] {
					refused++
					refusedSome = true
				}
			}
			groups, _, err := disp.Groups(ctx, func(*dispatch.Route) bool { return true }, func(*alert.Alert, time.Time) bool { return true })
			if err != nil {
				res.Fail("harness", "Groups: %v", err)
				return
			}
			got := map[string]bool{}
			for _, g := range groups {
				for _, al := range g.Alerts {
					got[fmt.Sprintf("%s/%s", al.Labels["g"], al.Labels["inst"])] = true
					if string(al.Labels["g"]) != string(g.Labels["g"]) {
						res.Add(pbt.V("foreign-alert", "group %v holds alert %v", g.Labels, al.Labels))
					}
				}
			}
			var missing, extra []string
			for k := range want {
				if !got[k] {
					missing = append(missing, k)
				}
			}
			for k := range got {
				if !want[k] {
					extra = append(extra, k)
				}
			}
			sort.Strings(missing)
			sort.Strings(extra)
			if len(missing) > 0 {
				res.Add(pbt.V("alert-missing-from-groups", "after put %d (group %d, %d of at most %d groups live): alerts %v (group/instance) belong to live groups but the groups view does not hold them", i, p.Group, len(live), sc.Limit, missing))
			}
			if len(extra) > 0 || len(groups) > sc.Limit {
				res.Add(pbt.V("group-limit-exceeded", "after put %d: %d groups exist under a limit of %d (unexpected alerts %v)", i, len(groups), sc.Limit, extra))
			}
			if len(res.Violations) > 0 {
				return
			}
		}
		// every refusal is counted
		if mfs, err := reg.Gather(); err == nil {
			for _, mf := range mfs {
				if mf.GetName() == "alertmanager_dispatcher_aggregation_group_limit_reached_total" {
					if v := mf.GetMetric()[0].GetCounter().GetValue(); int(v) != refused {
						res.Add(pbt.V("limit-refusals-not-counted", "%d alerts were refused for the group limit, alertmanager_dispatcher_aggregation_group_limit_reached_total says %v", refused, v))
					}
				}
			}
		}
	})
	res.NonTrivial = reachedThenJoined && refusedSome
	if reachedThenJoined {
		res.Class("joined-a-live-group-at-the-limit")
	}
	return res
}

func TestC06Limit(t *testing.T) {
	pbt.Run(t, pbt.Spec[c06lScenario]{
		Property: "C06", Name: "C06Limit",
		Rule: "a real provider and dispatcher (one route, group_by [g], timers of an hour so that nothing flushes) with an aggregation-group limit of 1-4; 3-20 firing alerts over limit+2 group values and 4 instances each are put one by one. After every put Dispatcher.Groups holds exactly the alerts of the groups that could be created before the limit was reached (an alert of a live group joins it whatever the count), never more groups than the limit, and at the end the limit counter equals the number of refused alerts. Non-trivial: an alert joined a live group while the limit was reached, and another alert was refused.",
		Gen:  genC06Limit, Exec: execC06Limit,
	})
}
