package checks

import (
	"bytes"
	"context"
	"fmt"
	"runtime"
	"strings"
	"sync"
	"sync/atomic"
	"testing"
	"time"

	"google.golang.org/protobuf/proto"
	"google.golang.org/protobuf/types/known/timestamppb"
	"pgregory.net/rapid"

	"github.com/prometheus/alertmanager/featurecontrol"
	"github.com/prometheus/alertmanager/matcher/compat"
	"github.com/prometheus/alertmanager/nflog"
	"github.com/prometheus/alertmanager/nflog/nflogpb"
	pb "github.com/prometheus/alertmanager/silence/silencepb"

	"verif/harness/pbt"
)

// C11Concurrent: "writing a snapshot and loading it back reproduces every unexpired silence and log entry" while the
// cluster's full-state exchange serialises the same stores concurrently (memberlist push/pull calls MarshalBinary from
// its own goroutines; both only take the read lock). The stores do not change during the run, so every snapshot taken
// must load back to exactly the stored state, however the serialisations interleave (real scheduler).

type c11cScenario struct {
	Silences    int `json:"silences"`
	Entries     int `json:"entries"`
	Snapshots   int `json:"snapshots"`   // per snapshotter
	Marshalers  int `json:"marshalers"`  // concurrent full-state serialisers per store
	ChunkBytes  int `json:"chunk_bytes"` // the snapshot writer accepts this many bytes per Write and yields in between
	CommentSize int `json:"comment_size"`
}

func genC11C(t *rapid.T) c11cScenario {
	return c11cScenario{
		Silences:    rapid.SampledFrom([]int{5, 50, 400}).Draw(t, "silences"),
		Entries:     rapid.SampledFrom([]int{5, 50, 400}).Draw(t, "entries"),
		Snapshots:   rapid.IntRange(2, 6).Draw(t, "snapshots"),
		Marshalers:  rapid.IntRange(1, 3).Draw(t, "marshalers"),
		ChunkBytes:  rapid.SampledFrom([]int{64, 512, 4096}).Draw(t, "chunk"),
		CommentSize: rapid.SampledFrom([]int{3, 40, 300}).Draw(t, "comment"),
	}
}

// c11SlowWriter hands the data on in small pieces and yields between them, as a slow disk would.
type c11SlowWriter struct {
	buf   bytes.Buffer
	chunk int
}

func (w *c11SlowWriter) Write(p []byte) (int, error) {
	n := 0
	for len(p) > 0 {
		k := w.chunk
		if k > len(p) {
			k = len(p)
		}
		w.buf.Write(p[:k])
		p = p[k:]
		n += k
		runtime.Gosched()
	}
	return n, nil
}

func execC11C(sc c11cScenario) (res pbt.Result) {
	compat.InitFromFlags(nopLog, featurecontrol.NoopFlags{})
	ctx := context.Background()
	ret := 120 * time.Hour
	sil, err := c11NewSilences(ret, nil, "")
	if err != nil {
		res.Fail("harness", "%v", err)
		return res
	}
	nfl, err := c11NewLog(ret, nil, "")
	if err != nil {
		res.Fail("harness", "%v", err)
		return res
	}
	now := time.Now()
	for i := 0; i < sc.Silences; i++ {
		s := &pb.Silence{MatcherSets: []*pb.MatcherSet{{Matchers: []*pb.Matcher{{Type: pb.Matcher_EQUAL, Name: "a", Pattern: fmt.Sprintf("value-%d", i)}}}},
			StartsAt: timestamppb.New(now), EndsAt: timestamppb.New(now.Add(time.Hour)), CreatedBy: "c11c", Comment: strings.Repeat(fmt.Sprintf("%d", i%10), sc.CommentSize+i%17)}
		if err := sil.Set(ctx, s); err != nil {
			res.Fail("harness", "Set: %v", err)
			return res
		}
	}
	recv := func(i int) *nflogpb.Receiver {
		return &nflogpb.Receiver{GroupName: fmt.Sprintf("r%d", i%3), Integration: "webhook", Idx: uint32(i % 2)}
	}
	for i := 0; i < sc.Entries; i++ {
		firing := make([]uint64, 1+i%23)
		for j := range firing {
			firing[j] = uint64(i*100 + j)
		}
		if err := nfl.Log(recv(i), fmt.Sprintf("{}:{key=\"%d\"}", i), firing, []uint64{uint64(i)}, nil, 0); err != nil {
			res.Fail("harness", "Log: %v", err)
			return res
		}
	}
	wantSil, _ := c11QuerySil(sil)
	queryNf := func(l *nflog.Log) []*nflogpb.Entry {
		out := make([]*nflogpb.Entry, sc.Entries)
		for i := 0; i < sc.Entries; i++ {
			if es, err := l.Query(nflog.QReceiver(recv(i)), nflog.QGroupKey(fmt.Sprintf("{}:{key=\"%d\"}", i))); err == nil && len(es) == 1 {
				out[i] = es[0]
			}
		}
		return out
	}
	wantNf := queryNf(nfl)

	var stop atomic.Bool
	var bg sync.WaitGroup
	for m := 0; m < sc.Marshalers; m++ {
		bg.Go(func() {
			for !stop.Load() {
				_, _ = sil.MarshalBinary()
				_, _ = nfl.MarshalBinary()
			}
		})
	}
	var mtx sync.Mutex
	var fg sync.WaitGroup
	checked := 0
	for k := 0; k < 2; k++ {
		fg.Go(func() {
			for i := 0; i < sc.Snapshots; i++ {
				w := &c11SlowWriter{chunk: sc.ChunkBytes}
				var verr *pbt.Violation
				if k == 0 {
					if _, err := sil.Snapshot(w); err != nil {
						v := pbt.V("snapshot-error", "silences: Snapshot: %v", err)
						verr = &v
					} else if s2, err := c11NewSilences(ret, w.buf.Bytes(), ""); err != nil {
						v := pbt.V("concurrent-snapshot-refused", "silences: a snapshot (%d bytes) taken while the full state was being serialised for the cluster does not load: %v", w.buf.Len(), err).With("store", "silences")
						verr = &v
					} else if got, _ := c11QuerySil(s2); c11DiffSil(wantSil, got, nil) != "" {
						v := pbt.V("concurrent-snapshot-differs", "silences: a snapshot taken while the full state was being serialised for the cluster loads to another state: %s", c11DiffSil(wantSil, got, nil)).With("store", "silences")
						verr = &v
					}
				} else {
					if _, err := nfl.Snapshot(w); err != nil {
						v := pbt.V("snapshot-error", "nflog: Snapshot: %v", err)
						verr = &v
					} else if l2, err := c11NewLog(ret, w.buf.Bytes(), ""); err != nil {
						v := pbt.V("concurrent-snapshot-refused", "nflog: a snapshot (%d bytes) taken while the full state was being serialised for the cluster does not load: %v", w.buf.Len(), err).With("store", "nflog")
						verr = &v
					} else {
						got := queryNf(l2)
						for i := range wantNf {
							if (wantNf[i] == nil) != (got[i] == nil) || (wantNf[i] != nil && !proto.Equal(wantNf[i], got[i])) {
								v := pbt.V("concurrent-snapshot-differs", "nflog: a snapshot taken while the full state was being serialised for the cluster loads to another state: key %d want %v got %v", i, wantNf[i], got[i]).With("store", "nflog")
								verr = &v
								break
							}
						}
					}
				}
				mtx.Lock()
				checked++
				if verr != nil && len(res.Violations) < 3 {
					res.Add(*verr)
				}
				mtx.Unlock()
			}
		})
	}
	fg.Wait()
	stop.Store(true)
	bg.Wait()
	res.NonTrivial = checked > 0
	res.Class(fmt.Sprintf("silences:%d", sc.Silences))
	return res
}

func TestC11Concurrent(t *testing.T) {
	pbt.Run(t, pbt.Spec[c11cScenario]{
		Property: "C11", Name: "C11Concurrent",
		Rule: "real scheduler: stores of 5-400 silences and 5-400 log entries (varied record sizes) are snapshotted 2-6 times each through a writer that takes 64-4096 bytes at a time and yields, while 1-3 goroutines serialise the full state of both stores in a loop (what the cluster push/pull does); the stores do not change, so every snapshot must load (New with SnapshotReader) to exactly the stored state. Built with -race in the thorough tier. Non-trivial: every case.",
		Gen:  genC11C, Exec: execC11C,
	})
}
