package checks

// C18SilenceConcurrent: "creating or editing silences through the API never brings the number of stored silences
// (expired ones included) … above the limits … for all concurrent request mixes". Several goroutines call
// Silences.Set (what POST /api/v2/silences calls) at the same time on the real scheduler with a silence-count
// limit in force: creations, replacing edits (matcher change of an active silence = expire + create) and in-place
// edits. A reader goroutine counts the stored silences (Query without filters) while they run. Oracle: no count ever
// observed exceeds the limit; the final count equals initial + accepted creations (an accepted replacing edit adds
// one, an in-place edit none) and is within the limit; every Set either succeeds (its id is stored) or returns an
// error (nothing of it stored); silences that existed before are still stored.

import (
	"context"
	"fmt"
	"sync"
	"sync/atomic"
	"testing"
	"time"

	"github.com/prometheus/client_golang/prometheus"
	"google.golang.org/protobuf/types/known/timestamppb"
	"pgregory.net/rapid"

	"github.com/prometheus/alertmanager/eventrecorder"
	"github.com/prometheus/alertmanager/featurecontrol"
	"github.com/prometheus/alertmanager/matcher/compat"
	"github.com/prometheus/alertmanager/silence"
	pb "github.com/prometheus/alertmanager/silence/silencepb"

	"verif/harness/pbt"
)

type c18scOp struct {
	Kind string `json:"kind"` // create | replace (matcher change of an initial silence) | edit (comment change of an initial silence)
	Pick int    `json:"pick,omitempty"`
}

type c18scScenario struct {
	Max     int         `json:"max"`
	Initial int         `json:"initial"` // silences stored before the race (<= Max)
	Workers [][]c18scOp `json:"workers"`
}

func c18GenSilenceConcurrent(t *rapid.T) c18scScenario {
	sc := c18scScenario{Max: rapid.IntRange(1, 6).Draw(t, "max")}
	sc.Initial = rapid.IntRange(0, sc.Max).Draw(t, "initial")
	n := rapid.IntRange(2, 8).Draw(t, "workers")
	for i := 0; i < n; i++ {
		k := rapid.IntRange(1, 4).Draw(t, "ops")
		var ops []c18scOp
		for j := 0; j < k; j++ {
			kind := rapid.SampledFrom([]string{"create", "create", "create", "replace", "edit"}).Draw(t, "kind")
			if sc.Initial == 0 {
				kind = "create"
			}
			ops = append(ops, c18scOp{Kind: kind, Pick: rapid.IntRange(0, 5).Draw(t, "pick")})
		}
		sc.Workers = append(sc.Workers, ops)
	}
	return sc
}

func c18ExecSilenceConcurrent(sc c18scScenario) (res pbt.Result) {
	compat.InitFromFlags(nopLog, featurecontrol.NoopFlags{})
	max := sc.Max
	s, err := silence.New(silence.Options{Retention: time.Hour, Logger: nopLog, Metrics: prometheus.NewRegistry(), EventRecorder: eventrecorder.NopRecorder(),
		Limits: silence.Limits{MaxSilences: func() int { return max }}})
	if err != nil {
		res.Fail("harness", "silence.New: %v", err)
		return res
	}
	ctx := context.Background()
	now := time.Now()
	mk := func(id, val, comment string) *pb.Silence {
		return &pb.Silence{Id: id, MatcherSets: []*pb.MatcherSet{{Matchers: []*pb.Matcher{{Type: pb.Matcher_EQUAL, Name: "a", Pattern: val}}}},
			StartsAt: timestamppb.New(now.Add(-time.Minute)), EndsAt: timestamppb.New(now.Add(time.Hour)), CreatedBy: "c18", Comment: comment}
	}
	var initial []string
	for i := 0; i < sc.Initial; i++ {
		sil := mk("", fmt.Sprintf("init%d", i), "c")
		if err := s.Set(ctx, sil); err != nil {
			res.Fail("harness", "initial Set %d of %d under limit %d refused: %v", i, sc.Initial, sc.Max, err)
			return res
		}
		initial = append(initial, sil.Id)
	}
	count := func() (int, error) {
		sils, _, err := s.Query(ctx)
		return len(sils), err
	}

	var (
		mu        sync.Mutex
		added     int // accepted creations + accepted replacing edits
		accepted  []string
		refused   int
		maxSeen   atomic.Int64
		stop      = make(chan struct{})
		start     = make(chan struct{})
		wg, rdrWG sync.WaitGroup
	)
	rdrWG.Add(1)
	go func() {
		defer rdrWG.Done()
		for {
			select {
			case <-stop:
				return
			default:
			}
			if n, err := count(); err == nil && int64(n) > maxSeen.Load() {
				maxSeen.Store(int64(n))
			}
		}
	}()
	for wi, ops := range sc.Workers {
		wg.Add(1)
		go func(wi int, ops []c18scOp) {
			defer wg.Done()
			<-start
			for j, op := range ops {
				var sil *pb.Silence
				switch op.Kind {
				case "create":
					sil = mk("", fmt.Sprintf("w%d-%d", wi, j), "c")
				case "replace":
					sil = mk(initial[op.Pick%len(initial)], fmt.Sprintf("r%d-%d", wi, j), "c")
				default:
					sil = mk(initial[op.Pick%len(initial)], fmt.Sprintf("init%d", op.Pick%len(initial)), fmt.Sprintf("edited by %d-%d", wi, j))
				}
				before := sil.Id
				err := s.Set(ctx, sil)
				mu.Lock()
				if err != nil {
					refused++
				} else {
					accepted = append(accepted, sil.Id)
					if sil.Id != before { // a creation, or an edit that had to make a new silence (matchers changed, or the target had expired meanwhile)
						added++
					}
				}
				mu.Unlock()
			}
		}(wi, ops)
	}
	close(start)
	wg.Wait()
	close(stop)
	rdrWG.Wait()

	final, err := count()
	if err != nil {
		res.Add(pbt.V("query-error", "Query: %v", err))
		return res
	}
	if m := int(maxSeen.Load()); m > sc.Max {
		res.Add(pbt.V("silence-count-above-limit", "a concurrent reader saw %d stored silences under a limit of %d", m, sc.Max).With("limit", sc.Max))
	}
	if final > sc.Max {
		res.Add(pbt.V("silence-count-above-limit", "%d silences are stored after the concurrent requests, the limit is %d (%d before, %d accepted additions, %d refusals)", final, sc.Max, sc.Initial, added, refused).With("limit", sc.Max))
	}
	if final != sc.Initial+added {
		res.Add(pbt.V("silence-count-mismatch", "%d silences stored, %d before + %d accepted additions expected (%d refusals)", final, sc.Initial, added, refused))
	}
	for _, id := range append(append([]string{}, initial...), accepted...) {
		if sils, _, err := s.Query(ctx, silence.QIDs(id)); err != nil || len(sils) != 1 {
			res.Add(pbt.V("silence-lost", "silence %s (stored before the race or accepted during it) is not stored afterwards (%v)", id, err))
		}
	}
	if refused > 0 {
		res.Class("some-refused")
	}
	if final == sc.Max {
		res.Class("limit-reached")
	}
	res.NonTrivial = refused > 0 && added > 0
	return res
}

func TestC18SilenceConcurrent(t *testing.T) {
	pbt.Run(t, pbt.Spec[c18scScenario]{
		Property: "C18", Name: "C18SilenceConcurrent",
		Rule: "a silence store with max_silences 1-6 and 0-max silences stored; 2-8 goroutines each issue 1-4 Silences.Set calls at the same time on the real scheduler: creations (empty id), replacing edits (matcher change of an initial active silence: expire + create) and in-place edits (comment), while a reader goroutine keeps counting the stored silences (Query without filter, expired included). Oracle: no observed count and not the final count exceeds the limit; final count = initial + accepted calls that made a new id; every silence stored before or accepted during the race is stored afterwards; refusals are errors. Built with -race in the thorough tier. Non-trivial: at least one call was accepted as an addition and at least one refused.",
		Gen:  c18GenSilenceConcurrent, Exec: c18ExecSilenceConcurrent,
	})
}
