package checks

// Helpers shared by all checks. Owned by the framework: checks add their own
// helpers in their own files with a cXX prefix.

import (
	"fmt"
	"regexp"

	"github.com/prometheus/common/model"
	"github.com/prometheus/common/promslog"

	"github.com/prometheus/alertmanager/pkg/labels"

	"verif/harness/ref"
)

// nopLog is the logger handed to every component.
var nopLog = promslog.NewNopLogger()

// opType maps the textual operator of ref.Matcher to the code's MatchType.
var opType = map[string]labels.MatchType{"=": labels.MatchEqual, "!=": labels.MatchNotEqual, "=~": labels.MatchRegexp, "!~": labels.MatchNotRegexp}

// classicName: a classic (pre-UTF-8) Prometheus label name.
var classicName = regexp.MustCompile(`^[a-zA-Z_][a-zA-Z0-9_]*$`)

// toLabelsMatchers compiles reference matchers with the code's constructor.
func toLabelsMatchers(set []ref.Matcher) (labels.Matchers, error) {
	var out labels.Matchers
	for _, m := range set {
		v := m.Value
		if m.Op == "=~" || m.Op == "!~" {
			v = m.Pattern()
		}
		lm, err := labels.NewMatcher(opType[m.Op], m.Name, v)
		if err != nil {
			return nil, fmt.Errorf("NewMatcher(%s %s %q): %w", m.Name, m.Op, v, err)
		}
		out = append(out, lm)
	}
	return out, nil
}

// toLabelSet converts a plain map to a model.LabelSet.
func toLabelSet(m map[string]string) model.LabelSet {
	ls := model.LabelSet{}
	for k, v := range m {
		ls[model.LabelName(k)] = model.LabelValue(v)
	}
	return ls
}
