package checks

import (
	"context"
	"fmt"
	"log/slog"
	"sync"
	"sync/atomic"
	"testing"
	"time"

	"github.com/prometheus/client_golang/prometheus"
	"github.com/prometheus/common/model"

	"github.com/prometheus/alertmanager/alert"
	"github.com/prometheus/alertmanager/config"
	"github.com/prometheus/alertmanager/dispatch"
	"github.com/prometheus/alertmanager/eventrecorder"
	"github.com/prometheus/alertmanager/featurecontrol"
	"github.com/prometheus/alertmanager/marker"
	"github.com/prometheus/alertmanager/notify"
	"github.com/prometheus/alertmanager/provider/mem"

	"verif/harness/pbt"
)

// TestC05Stress is the black-box variant of "an alert that fires again while its resolved notification is being
// delivered stays in its group and is reported firing at the next flush": no hooks, the real Go scheduler, real time.
// Whole groups resolve at once; while the flush that reports them resolved runs and removes them (the group is
// destroyed when it becomes empty), members are fired again from several goroutines at offsets spread around that
// flush, and a reader keeps listing the groups (lock contention). A re-fired alert that ends up in no live group, or is
// never reported firing, is a permanent state: waiting longer can never turn a pass into a failure.
func TestC05Stress(t *testing.T) { c05Stress(t, "C05", "C05Stress") }

// TestC14StressRefire: the same run judged for C14 ("a resolve-then-fire is never notified as resolved and dropped from
// its group").
func TestC14StressRefire(t *testing.T) { c05Stress(t, "C14", "C14StressRefire") }

func c05Stress(t *testing.T, prop, name string) {
	if pbt.Replaying() {
		t.Skip("statistical check: no replay")
	}
	m := pbt.NewManual(prop, name, "black box, real scheduler and clock: 12 groups x 300 alerts, group_wait 10 ms, group_interval 30 ms, maintenance 15 ms; per round every alert fires, is notified, resolves; the delivery that reports a group resolved fires one member again (a new submission through the provider) and returns 0-120 us later, so that the re-fire races the removal of the resolved alerts and the destruction of the emptied group; another goroutine keeps listing the groups. After the round (polled up to 10 s) every re-fired alert must sit in a live aggregation group and have been reported firing after its re-fire. Non-trivial: every re-fire.")
	defer m.Flush()
	rounds := 25
	if pbt.Thorough() {
		rounds = 200
	}
	const G, M = 12, 300
	ctx, cancel := context.WithCancel(context.Background())
	defer cancel()
	alerts, err := mem.NewAlerts(ctx, time.Hour, 0, nil, nopLog, eventrecorder.NopRecorder(), prometheus.NewRegistry(), featurecontrol.NoopFlags{})
	if err != nil {
		t.Fatal(err)
	}
	defer alerts.Close()
	gw, gi, ri := model.Duration(10*time.Millisecond), model.Duration(30*time.Millisecond), model.Duration(time.Hour)
	cr := &config.Route{Receiver: "r", GroupByStr: []string{"g"}, GroupBy: []model.LabelName{"g"}, GroupWait: &gw, GroupInterval: &gi, RepeatInterval: &ri}
	labels := func(g, i int) model.LabelSet {
		return model.LabelSet{"g": model.LabelValue(fmt.Sprintf("g%d", g)), "i": model.LabelValue(fmt.Sprint(i))}
	}
	put := func(ls model.LabelSet, end time.Duration) time.Time {
		now := time.Now()
		a := &alert.Alert{Alert: model.Alert{Labels: ls, StartsAt: now.Add(-time.Minute), EndsAt: now.Add(end)}, UpdatedAt: now}
		if err := alerts.Put(ctx, a); err != nil {
			t.Error(err)
		}
		return now
	}
	type rf struct {
		ls model.LabelSet
		at time.Time
	}
	var nmtx sync.Mutex
	lastFiring := map[model.Fingerprint]time.Time{} // last instant the alert was listed as firing in a notification
	var fired []rf                                  // re-fires of the current round
	var seq atomic.Int64
	var armed atomic.Bool
	var rwg sync.WaitGroup
	stage := notify.StageFunc(func(ctx context.Context, _ *slog.Logger, as ...*alert.Alert) (context.Context, []*alert.Alert, error) {
		now := time.Now()
		allResolved := len(as) > 0
		nmtx.Lock()
		for _, a := range as {
			if !a.Resolved() {
				lastFiring[a.Fingerprint()] = now
				allResolved = false
			}
		}
		nmtx.Unlock()
		if allResolved && len(as) == M && armed.Load() {
			// the group is being told that everything resolved: one member fires again while this delivery runs
			n := seq.Add(1)
			ls := as[int(n*7919)%len(as)].Labels.Clone()
			rwg.Go(func() {
				at := put(ls, time.Hour)
				nmtx.Lock()
				fired = append(fired, rf{ls, at})
				nmtx.Unlock()
			})
			for end := time.Now().Add(time.Duration((n*37)%121) * time.Microsecond); time.Now().Before(end); {
			}
		}
		return ctx, as, nil
	})
	disp := dispatch.NewDispatcher(alerts, dispatch.NewRoute(cr, nil), stage, marker.NewGroupMarker(), func(d time.Duration) time.Duration { return d }, 15*time.Millisecond, nil, nopLog, eventrecorder.NopRecorder(), nil, nil)
	go disp.Run(time.Now())
	disp.WaitForLoading()
	defer disp.Stop()

	held := func() map[model.Fingerprint]bool {
		out := map[model.Fingerprint]bool{}
		groups, _, err := disp.Groups(context.Background(), func(*dispatch.Route) bool { return true }, func(*alert.Alert, time.Time) bool { return true })
		if err != nil {
			t.Error(err)
		}
		for _, g := range groups {
			for _, a := range g.Alerts {
				if !a.Resolved() {
					out[a.Fingerprint()] = true
				}
			}
		}
		return out
	}
	var stopList atomic.Bool
	var lwg sync.WaitGroup
	lwg.Go(func() {
		for !stopList.Load() {
			held()
			time.Sleep(200 * time.Microsecond)
		}
	})
	defer func() { stopList.Store(true); lwg.Wait() }()

	refires := 0
	for r := 0; r < rounds; r++ {
		armed.Store(false)
		for g := 0; g < G; g++ {
			for i := 0; i < M; i++ {
				put(labels(g, i), time.Hour)
			}
		}
		time.Sleep(80 * time.Millisecond) // group_wait + intervals: everything reported firing
		nmtx.Lock()
		fired = fired[:0]
		nmtx.Unlock()
		armed.Store(true)
		for g := 0; g < G; g++ {
			for i := 0; i < M; i++ {
				put(labels(g, i), -time.Second)
			}
		}
		time.Sleep(120 * time.Millisecond) // the resolved flushes happen, each re-fires one member
		armed.Store(false)
		rwg.Wait()
		// quiescence: every re-fired alert in a live group and reported firing after its re-fire
		deadline := time.Now().Add(10 * time.Second)
		var missing, silent []string
		var nfired int
		for {
			missing, silent = missing[:0], silent[:0]
			h := held()
			nmtx.Lock()
			nfired = len(fired)
			for _, f := range fired {
				fp := f.ls.Fingerprint()
				if !h[fp] {
					missing = append(missing, f.ls.String())
				} else if !lastFiring[fp].After(f.at) {
					silent = append(silent, f.ls.String())
				}
			}
			nmtx.Unlock()
			if (len(missing) == 0 && len(silent) == 0) || time.Now().After(deadline) {
				break
			}
			time.Sleep(20 * time.Millisecond)
		}
		refires += nfired
		for i := 0; i < nfired; i++ {
			m.Case(map[string]any{"round": r, "refire": i}, true, "refire-during-resolved-delivery")
		}
		if len(missing) > 0 || len(silent) > 0 {
			first := append(append([]string{}, missing...), silent...)[0]
			m.Violation(t, map[string]any{"round": r, "missing": len(missing), "not_reported": len(silent), "first": first},
				pbt.V("refired-alert-lost", "round %d: %d alerts fired again during the delivery that reported their group resolved are in no live aggregation group and %d more were never reported firing afterwards (10 s after the last submission), e.g. %s", r, len(missing), len(silent), first))
			return
		}
	}
	m.Set("refires", refires)
	m.Set("rounds", rounds)
	// (on a machine too slow for the 30 ms intervals a group's resolution can be split over several deliveries and no
	// re-fire is triggered: the run then simply contributes no case)
}
