package checks

// C12 — silence lifecycle: ids are stable, history is immutable, retention is
// honoured.
//
// One executor, two generators:
//
//	TestC12Lifecycle  histories of create / edit / expire / GC / get at virtual
//	                  instants placed relative to the silences' own boundaries;
//	TestC12Invalid    short histories salted with inputs that must be rejected
//	                  (and must leave the store byte-identical), and, with a
//	                  size limit configured, with creates and edits whose stored
//	                  size sweeps the limit byte by byte.
//
// The real code is driven through the HTTP handlers of api/v2 (and, where the
// HTTP schema cannot express the input, through Silences.Set), plus
// Silences.GC, inside a synctest bubble. The executor only records a trace;
// the judge replays ref.C12Silences (written from the statement, DESIGN A.2)
// along the trace after the bubble has been left.

import (
	"bytes"
	"context"
	"encoding/binary"
	"encoding/json"
	"fmt"
	"net/http/httptest"
	"sort"
	"strings"
	"testing"
	"time"

	"github.com/prometheus/client_golang/prometheus"
	"github.com/prometheus/common/model"
	"google.golang.org/protobuf/proto"
	"google.golang.org/protobuf/types/known/timestamppb"
	"pgregory.net/rapid"

	"github.com/prometheus/alertmanager/alert"
	apiv2 "github.com/prometheus/alertmanager/api/v2"
	"github.com/prometheus/alertmanager/config"
	"github.com/prometheus/alertmanager/dispatch"
	"github.com/prometheus/alertmanager/eventrecorder"
	"github.com/prometheus/alertmanager/featurecontrol"
	"github.com/prometheus/alertmanager/marker"
	"github.com/prometheus/alertmanager/matcher/compat"
	"github.com/prometheus/alertmanager/provider/mem"
	"github.com/prometheus/alertmanager/silence"
	"github.com/prometheus/alertmanager/silence/silencepb"

	"verif/harness/gen"
	"verif/harness/pbt"
	"verif/harness/ref"
)

// ------------------------------------------------------------------ scenario

// c12T0 is the instant a synctest bubble starts at.
var c12T0 = time.Date(2000, 1, 1, 0, 0, 0, 0, time.UTC)

// c12Sil is a submitted silence. Times are milliseconds after c12T0.
type c12Sil struct {
	NoStart bool            `json:"noStart,omitempty"` // start not given (zero time)
	NoEnd   bool            `json:"noEnd,omitempty"`   // end not given (zero time)
	StartMs int64           `json:"startMs,omitempty"`
	EndMs   int64           `json:"endMs"`
	Sets    [][]ref.Matcher `json:"sets"` // the HTTP API carries exactly Sets[0] (or an empty list)
	Comment string          `json:"comment"`
	// CommentPad > 0: the comment is padded with that many 'x' (oversize inputs).
	CommentPad int    `json:"commentPad,omitempty"`
	CreatedBy  string `json:"createdBy"`
}

type c12Op struct {
	// The op runs at c12T0 + AtSec seconds + (index+1) milliseconds. AtSec is
	// non-decreasing; submitted boundaries are whole seconds and stored
	// boundaries derived from "now" carry the millisecond of an earlier op, so
	// no op ever runs exactly on a boundary of any silence (with < 1000 ops and
	// a whole-second retention).
	AtSec int64  `json:"atSec"`
	Kind  string `json:"kind"` // post | expire | gc | get
	// Ref: 0 = no id (create); k>0 = the k-th id ever created (model id "m<k>");
	// -1 = an id that never existed.
	Ref    int     `json:"ref,omitempty"`
	Via    string  `json:"via,omitempty"`  // post: "" = HTTP API, "set" = Silences.Set directly
	Omit   string  `json:"omit,omitempty"` // post via API: JSON member left out (schema-level invalid)
	Sil    *c12Sil `json:"sil,omitempty"`
	Intent string  `json:"intent,omitempty"` // what the generator was aiming at (informational)
}

type c12Scenario struct {
	RetentionSec int64             `json:"retentionSec"`
	Mode         string            `json:"mode"` // classic | fallback (matcher/compat parser mode)
	MaxSilences  int               `json:"maxSilences,omitempty"`
	MaxSizeBytes int               `json:"maxSizeBytes,omitempty"`
	Probe        map[string]string `json:"probe"` // label set for the QMatches probe after every step
	Ops          []c12Op           `json:"ops"`
}

func c12At(sec int64, idx int) time.Time {
	return c12T0.Add(time.Duration(sec)*time.Second + time.Duration(idx+1)*time.Millisecond)
}

func c12Ms(ms int64) time.Time { return c12T0.Add(time.Duration(ms) * time.Millisecond) }

func c12ToMs(t time.Time) int64 { return t.Sub(c12T0).Milliseconds() }

const c12UnknownID = "00000000-0000-4000-8000-00000000dead"

// toRef builds the model's view of a submitted silence.
func (s *c12Sil) toRef(id string) ref.C12Silence {
	r := ref.C12Silence{ID: id, MatcherSets: s.Sets, Comment: s.comment(), CreatedBy: s.CreatedBy}
	if !s.NoEnd {
		r.EndsAt = c12Ms(s.EndMs)
	}
	if !s.NoStart {
		r.StartsAt = c12Ms(s.StartMs)
	}
	return r
}

func (s *c12Sil) comment() string {
	if s.CommentPad > 0 {
		return s.Comment + strings.Repeat("x", s.CommentPad)
	}
	return s.Comment
}

// --------------------------------------------------------------------- trace

type c12M struct{ Op, Name, Value string }

type c12Obs struct {
	ID, State                   string
	StartsAt, EndsAt, UpdatedAt time.Time
	Matchers                    []c12M
	Comment, CreatedBy          string
}

type c12Rec struct {
	ID        string
	ExpiresAt time.Time
	Raw       string
}

type c12Step struct {
	Now     time.Time
	Skipped string // the op could not be issued (unresolvable reference)

	Code  int // post/expire/get: HTTP status (0 for direct calls)
	Err   string
	RetID string // post: id returned
	// post, accepted: size in bytes of the silence as the store holds it (queried back by id and encoded
	// as a MeshSilence with the stored expiresAt, i.e. without the copy of the first matcher set that the
	// snapshot/gossip encoding adds for older versions); 0 if it could not be queried.
	RetSize int
	Got     *c12Obs
	GCN     int

	RecsBefore []c12Rec
	Recs       []c12Rec
	ListCode   int
	List       []c12Obs
	ProbeIDs   []string
	ProbeErr   string
}

type c12Trace struct {
	Setup string // environment could not be built
	Panic string
	Steps []c12Step
}

// ------------------------------------------------------------------ executor

type c12Env struct {
	sils   *silence.Silences
	api    *apiv2.API
	alerts *mem.Alerts
}

const c12Config = "route:\n  receiver: r\nreceivers:\n- name: r\n"

func c12NewEnv(sc c12Scenario) (*c12Env, error) {
	reg := prometheus.NewRegistry()
	lim := silence.Limits{}
	if sc.MaxSilences > 0 {
		n := sc.MaxSilences
		lim.MaxSilences = func() int { return n }
	}
	if sc.MaxSizeBytes > 0 {
		n := sc.MaxSizeBytes
		lim.MaxSilenceSizeBytes = func() int { return n }
	}
	sils, err := silence.New(silence.Options{
		Retention: time.Duration(sc.RetentionSec) * time.Second,
		Limits:    lim,
		Logger:    nopLog,
		Metrics:   reg,
	})
	if err != nil {
		return nil, err
	}
	alerts, err := mem.NewAlerts(context.Background(), 30*time.Minute, 0, nil, nopLog, eventrecorder.NopRecorder(), reg, featurecontrol.NoopFlags{})
	if err != nil {
		return nil, err
	}
	gm := marker.NewGroupMarker()
	groups := func(context.Context, func(*dispatch.Route) bool, func(*alert.Alert, time.Time) bool) (dispatch.AlertGroups, map[model.Fingerprint][]string, error) {
		return nil, nil, nil
	}
	api, err := apiv2.NewAPI(alerts, groups, gm.Muted, sils, nil, nopLog, reg)
	if err != nil {
		alerts.Close()
		return nil, err
	}
	cfg, err := config.Load(c12Config)
	if err != nil {
		alerts.Close()
		return nil, err
	}
	api.Update(cfg, func(context.Context, model.LabelSet) {})
	return &c12Env{sils: sils, api: api, alerts: alerts}, nil
}

func (e *c12Env) do(method, path string, body []byte) (int, []byte) {
	req := httptest.NewRequest(method, path, bytes.NewReader(body))
	if body != nil {
		req.Header.Set("Content-Type", "application/json")
	}
	rec := httptest.NewRecorder()
	e.api.Handler.ServeHTTP(rec, req)
	return rec.Code, rec.Body.Bytes()
}

type c12APIMatcher struct {
	Name    string `json:"name"`
	Value   string `json:"value"`
	IsRegex bool   `json:"isRegex"`
	IsEqual bool   `json:"isEqual"`
}

type c12APISilence struct {
	ID        string                 `json:"id"`
	Status    struct{ State string } `json:"status"`
	UpdatedAt time.Time              `json:"updatedAt"`
	StartsAt  time.Time              `json:"startsAt"`
	EndsAt    time.Time              `json:"endsAt"`
	Matchers  []c12APIMatcher        `json:"matchers"`
	Comment   string                 `json:"comment"`
	CreatedBy string                 `json:"createdBy"`
}

func (a c12APISilence) obs() c12Obs {
	o := c12Obs{ID: a.ID, State: a.Status.State, StartsAt: a.StartsAt.UTC(), EndsAt: a.EndsAt.UTC(), UpdatedAt: a.UpdatedAt.UTC(), Comment: a.Comment, CreatedBy: a.CreatedBy}
	for _, m := range a.Matchers {
		op := "="
		switch {
		case m.IsEqual && m.IsRegex:
			op = "=~"
		case !m.IsEqual && m.IsRegex:
			op = "!~"
		case !m.IsEqual:
			op = "!="
		}
		o.Matchers = append(o.Matchers, c12M{op, m.Name, m.Value})
	}
	return o
}

const c12TimeFmt = "2006-01-02T15:04:05.000Z07:00"

func c12PostBody(id string, s *c12Sil, omit string) []byte {
	b := map[string]any{}
	if id != "" {
		b["id"] = id
	}
	ms := []c12APIMatcher{}
	if len(s.Sets) > 0 {
		for _, m := range s.Sets[0] {
			ms = append(ms, c12APIMatcher{Name: m.Name, Value: m.Pattern(), IsRegex: m.Op == "=~" || m.Op == "!~", IsEqual: m.Op == "=" || m.Op == "=~"})
		}
	}
	b["matchers"] = ms
	if s.NoStart {
		b["startsAt"] = time.Time{}.Format(c12TimeFmt)
	} else {
		b["startsAt"] = c12Ms(s.StartMs).Format(c12TimeFmt)
	}
	if s.NoEnd {
		b["endsAt"] = time.Time{}.Format(c12TimeFmt)
	} else {
		b["endsAt"] = c12Ms(s.EndMs).Format(c12TimeFmt)
	}
	b["comment"] = s.comment()
	b["createdBy"] = s.CreatedBy
	if omit != "" {
		delete(b, omit)
	}
	out, _ := json.Marshal(b)
	return out
}

var c12PbType = map[string]silencepb.Matcher_Type{"=": silencepb.Matcher_EQUAL, "!=": silencepb.Matcher_NOT_EQUAL, "=~": silencepb.Matcher_REGEXP, "!~": silencepb.Matcher_NOT_REGEXP}

func c12ToProto(id string, s *c12Sil) *silencepb.Silence {
	p := &silencepb.Silence{Id: id, Comment: s.comment(), CreatedBy: s.CreatedBy}
	if !s.NoEnd {
		p.EndsAt = timestamppb.New(c12Ms(s.EndMs))
	}
	if !s.NoStart {
		p.StartsAt = timestamppb.New(c12Ms(s.StartMs))
	}
	for _, set := range s.Sets {
		ms := &silencepb.MatcherSet{}
		for _, m := range set {
			ms.Matchers = append(ms.Matchers, &silencepb.Matcher{Type: c12PbType[m.Op], Name: m.Name, Pattern: m.Pattern()})
		}
		p.MatcherSets = append(p.MatcherSets, ms)
	}
	return p
}

// records splits Silences.MarshalBinary into its length-delimited records.
func (e *c12Env) records() ([]c12Rec, error) {
	b, err := e.sils.MarshalBinary()
	if err != nil {
		return nil, err
	}
	var out []c12Rec
	for len(b) > 0 {
		n, k := binary.Uvarint(b)
		if k <= 0 || uint64(len(b)-k) < n {
			return nil, fmt.Errorf("malformed record stream")
		}
		raw := b[k : k+int(n)]
		b = b[k+int(n):]
		var ms silencepb.MeshSilence
		if err := proto.Unmarshal(raw, &ms); err != nil {
			return nil, err
		}
		r := c12Rec{Raw: string(raw)}
		if ms.Silence != nil {
			r.ID = ms.Silence.Id
		}
		if ms.ExpiresAt != nil {
			r.ExpiresAt = ms.ExpiresAt.AsTime()
		}
		out = append(out, r)
	}
	sort.Slice(out, func(i, j int) bool { return out[i].Raw < out[j].Raw })
	return out, nil
}

func (e *c12Env) list() (int, []c12Obs, error) {
	code, body := e.do("GET", "/api/v2/silences", nil)
	if code != 200 {
		return code, nil, nil
	}
	var l []c12APISilence
	if err := json.Unmarshal(body, &l); err != nil {
		return code, nil, fmt.Errorf("list does not decode: %v: %s", err, body)
	}
	out := make([]c12Obs, 0, len(l))
	for _, a := range l {
		out = append(out, a.obs())
	}
	return code, out, nil
}

func c12SetMode(mode string) {
	if mode == "classic" {
		f, _ := featurecontrol.NewFlags(nopLog, featurecontrol.FeatureClassicMode)
		compat.InitFromFlags(nopLog, f)
		return
	}
	compat.InitFromFlags(nopLog, featurecontrol.NoopFlags{})
}

// c12Run executes the scenario against the real code and records what it saw.
func c12Run(sc c12Scenario) (tr c12Trace) {
	c12SetMode(sc.Mode)
	bubble(func() {
		defer func() {
			if r := recover(); r != nil {
				tr.Panic = fmt.Sprint(r)
			}
		}()
		env, err := c12NewEnv(sc)
		if err != nil {
			tr.Setup = err.Error()
			return
		}
		defer env.alerts.Close()
		var realIDs []string // in order of first appearance in a POST response
		seen := map[string]bool{}
		resolve := func(ref int) (string, bool) {
			switch {
			case ref == -1:
				return c12UnknownID, true
			case ref >= 1 && ref <= len(realIDs):
				return realIDs[ref-1], true
			}
			return "", false
		}
		probe := toLabelSet(sc.Probe)
		for i, op := range sc.Ops {
			st := c12Step{}
			target := c12At(op.AtSec, i)
			if d := time.Until(target); d > 0 {
				time.Sleep(d)
			}
			st.Now = time.Now().UTC()
			if !st.Now.Equal(target) {
				st.Skipped = "instants not increasing"
				tr.Steps = append(tr.Steps, st)
				return
			}
			if st.RecsBefore, err = env.records(); err != nil {
				st.Err = "records: " + err.Error()
			}
			id := ""
			ok := true
			if op.Ref != 0 {
				id, ok = resolve(op.Ref)
			}
			switch {
			case !ok:
				st.Skipped = "unresolvable reference"
			case op.Kind == "post" && op.Sil != nil && op.Via == "set":
				p := c12ToProto(id, op.Sil)
				if err := env.sils.Set(context.Background(), p); err != nil {
					st.Err = err.Error()
				} else {
					st.RetID = p.Id
				}
			case op.Kind == "post" && op.Sil != nil:
				code, body := env.do("POST", "/api/v2/silences", c12PostBody(id, op.Sil, op.Omit))
				st.Code = code
				if code == 200 {
					var r struct {
						SilenceID string `json:"silenceID"`
					}
					if err := json.Unmarshal(body, &r); err != nil {
						st.Err = "response does not decode: " + string(body)
					}
					st.RetID = r.SilenceID
				} else {
					st.Err = strings.TrimSpace(string(body))
				}
			case op.Kind == "expire":
				st.Code, _ = env.do("DELETE", "/api/v2/silence/"+id, nil)
			case op.Kind == "get":
				code, body := env.do("GET", "/api/v2/silence/"+id, nil)
				st.Code = code
				if code == 200 {
					var a c12APISilence
					if err := json.Unmarshal(body, &a); err != nil {
						st.Err = "response does not decode: " + string(body)
					} else {
						o := a.obs()
						st.Got = &o
					}
				}
			case op.Kind == "gc":
				n, err := env.sils.GC()
				st.GCN = n
				if err != nil {
					st.Err = err.Error()
				}
			default:
				st.Skipped = "unknown op"
			}
			if st.RetID != "" && !seen[st.RetID] {
				seen[st.RetID] = true
				realIDs = append(realIDs, st.RetID)
			}
			var lerr error
			if st.ListCode, st.List, lerr = env.list(); lerr != nil {
				st.Err += " " + lerr.Error()
			}
			if st.Recs, err = env.records(); err != nil {
				st.Err += " records: " + err.Error()
			}
			if op.Kind == "post" && st.RetID != "" {
				if got, _, err := env.sils.Query(context.Background(), silence.QIDs(st.RetID)); err == nil && len(got) == 1 {
					for _, r := range st.Recs {
						if r.ID == st.RetID {
							st.RetSize = proto.Size(&silencepb.MeshSilence{Silence: got[0], ExpiresAt: timestamppb.New(r.ExpiresAt)})
						}
					}
				}
			}
			sils, _, qerr := env.sils.Query(context.Background(), silence.QState(silence.SilenceStateActive), silence.QMatches(probe))
			if qerr != nil {
				st.ProbeErr = qerr.Error()
			}
			for _, s := range sils {
				st.ProbeIDs = append(st.ProbeIDs, s.Id)
			}
			sort.Strings(st.ProbeIDs)
			tr.Steps = append(tr.Steps, st)
		}
	})
	return tr
}

// --------------------------------------------------------------------- judge

type c12Verdict struct {
	res                 pbt.Result
	replaced            bool // an edit produced a new id
	expiredOrGC         bool // an expire took effect or a GC removed something
	transitions         int  // observed state changes of an id between two listings
	rejected            int  // rejected inputs while the store was non-empty
	acceptedAfterReject bool
	sizeWindow          int // posts whose stored size is within c12SizeWindow bytes of the size limit
}

// c12SizeWindow: the near-limit ops aim the stored size at limit-c12SizeWindow .. limit+c12SizeWindow, byte by
// byte (the id alone is 38 of those bytes, the timestamps of a record up to 12 each).
const c12SizeWindow = 45

func c12DeltaClass(d int) string {
	switch {
	case d < -38:
		return "-45..-39"
	case d < -2:
		return "-38..-3"
	case d <= 2:
		return fmt.Sprintf("%+d", d)
	case d <= 38:
		return "+3..+38"
	default:
		return "+39..+45"
	}
}

// c12StoredSize is the size in bytes of the record the store holds for `in` once a Set at `now` has been
// accepted (and the outcome that Set has: created / updated / replaced), or -1 if the model rejects `in` for
// a reason other than its size. The record is built from the model's view of the stored silence (start
// raised to now, updated_at = now, expires_at = end + retention, a 36-character uuid as id) and encoded with
// the protobuf library: the wire format is trusted, the code under test is not consulted.
func c12StoredSize(m *ref.C12Silences, now time.Time, in ref.C12Silence) (int, string) {
	c := m.Clone()
	r := c.Set(now, in, false)
	switch r.Outcome {
	case ref.C12Created, ref.C12Updated, ref.C12Replaced:
	default:
		return -1, ""
	}
	p, ok := c.Get(r.ID)
	if !ok {
		return -1, ""
	}
	sil := &silencepb.Silence{
		Id:        c12UnknownID, // any uuid: 36 characters
		StartsAt:  timestamppb.New(p.StartsAt),
		EndsAt:    timestamppb.New(p.EndsAt),
		UpdatedAt: timestamppb.New(p.UpdatedAt),
		Comment:   p.Comment,
		CreatedBy: p.CreatedBy,
	}
	for _, set := range p.MatcherSets {
		ms := &silencepb.MatcherSet{}
		for _, x := range set {
			ms.Matchers = append(ms.Matchers, &silencepb.Matcher{Type: c12PbType[x.Op], Name: x.Name, Pattern: x.Pattern()})
		}
		sil.MatcherSets = append(sil.MatcherSets, ms)
	}
	return proto.Size(&silencepb.MeshSilence{Silence: sil, ExpiresAt: timestamppb.New(p.ExpiresAt)}), r.Outcome
}

// c12Oversize: does the stored form of `in` exceed the configured size limit?
func c12Oversize(sc *c12Scenario, m *ref.C12Silences, now time.Time, in ref.C12Silence) bool {
	if sc.MaxSizeBytes <= 0 {
		return false
	}
	n, _ := c12StoredSize(m, now, in)
	return n > sc.MaxSizeBytes
}

func c12SameRecs(a, b []c12Rec) bool {
	if len(a) != len(b) {
		return false
	}
	for i := range a {
		if a[i].Raw != b[i].Raw {
			return false
		}
	}
	return true
}

func c12ModelMatchers(p *ref.C12Silence) []c12M {
	var out []c12M
	if len(p.MatcherSets) > 0 {
		for _, m := range p.MatcherSets[0] {
			out = append(out, c12M{m.Op, m.Name, m.Pattern()})
		}
	}
	return out
}

func c12SameM(a, b []c12M) bool {
	if len(a) != len(b) {
		return false
	}
	for i := range a {
		if a[i] != b[i] {
			return false
		}
	}
	return true
}

// c12Compare: one observed silence against the model's.
func c12Compare(where string, step int, now time.Time, p *ref.C12Silence, o c12Obs) []pbt.Violation {
	var vs []pbt.Violation
	bad := func(field string, want, got any) {
		vs = append(vs, pbt.V("silence-mismatch", "step %d (%s) %s id %s: %s = %v, model says %v", step, now.Format("15:04:05.000"), where, p.ID, field, got, want).
			With("field", field).With("step", step).With("model_id", p.ID))
	}
	if want := ref.C12StateAt(p, now); o.State != want {
		bad("state", want, o.State)
	}
	if !o.StartsAt.Equal(p.StartsAt) {
		bad("startsAt", p.StartsAt.Format(time.RFC3339Nano), o.StartsAt.Format(time.RFC3339Nano))
	}
	if !o.EndsAt.Equal(p.EndsAt) {
		bad("endsAt", p.EndsAt.Format(time.RFC3339Nano), o.EndsAt.Format(time.RFC3339Nano))
	}
	if !o.UpdatedAt.Equal(p.UpdatedAt) {
		bad("updatedAt", p.UpdatedAt.Format(time.RFC3339Nano), o.UpdatedAt.Format(time.RFC3339Nano))
	}
	if !c12SameM(c12ModelMatchers(p), o.Matchers) {
		bad("matchers", c12ModelMatchers(p), o.Matchers)
	}
	if o.Comment != p.Comment {
		bad("comment", len(p.Comment), len(o.Comment))
	}
	if o.CreatedBy != p.CreatedBy {
		bad("createdBy", p.CreatedBy, o.CreatedBy)
	}
	return vs
}

func c12Judge(sc c12Scenario, tr c12Trace) (v c12Verdict) {
	res := &v.res
	if tr.Setup != "" {
		res.Fail("harness", "environment: %s", tr.Setup)
		return v
	}
	m := ref.NewC12Silences(time.Duration(sc.RetentionSec) * time.Second)
	m.Limits.MaxSilences = sc.MaxSilences
	m.ClassicNames = sc.Mode == "classic"
	real := map[string]string{}    // model id -> real id
	modelOf := map[string]string{} // real id -> model id
	everExpired := map[string]bool{}
	lastState := map[string]string{}
	classes := map[string]bool{}
	class := func(c string) { classes[c] = true }
	defer func() {
		for c := range classes {
			res.Class(c)
		}
		sort.Strings(res.Classes)
	}()

	for i, st := range tr.Steps {
		if i >= len(sc.Ops) {
			break
		}
		op := sc.Ops[i]
		now := st.Now
		if st.Skipped != "" {
			// Not a verdict about the code: the scenario is not executable from here on.
			class("skipped:" + st.Skipped)
			return v
		}
		n0 := len(res.Violations)
		fail := func(kind, format string, a ...any) {
			res.Add(pbt.V(kind, "step %d (%s %s, %s): %s", i, op.Kind, op.Intent, now.Format("15:04:05.000"), fmt.Sprintf(format, a...)).
				With("step", i).With("op", op.Kind).With("intent", op.Intent))
		}
		if strings.Contains(st.Err, "records:") || strings.Contains(st.Err, "does not decode") {
			fail("harness-observation", "%s", st.Err)
		}
		modelID := ""
		if op.Ref > 0 {
			modelID = fmt.Sprintf("m%d", op.Ref)
		} else if op.Ref == -1 {
			modelID = "unknown"
		}
		before := m.Clone()
		storeNonEmpty := len(st.RecsBefore) > 0
		mustBeUnchanged := false

		switch op.Kind {
		case "post":
			viaSet := op.Via == "set"
			rejected := func() bool {
				if viaSet {
					return st.RetID == ""
				}
				return st.Code != 200
			}()
			if st.Code >= 500 {
				fail("server-error", "POST answered %d: %s", st.Code, st.Err)
			}
			if op.Omit != "" {
				// Schema-level: the openapi description marks the member as required.
				mustBeUnchanged = true
				class("invalid-rejected")
				class("invalid:omitted-" + op.Omit)
				if !rejected || (st.Code < 400 || st.Code > 499) {
					fail("invalid-accepted", "POST without required member %q answered %d", op.Omit, st.Code)
				}
				if rejected && storeNonEmpty {
					v.rejected++
				}
				break
			}
			in := op.Sil.toRef(modelID)
			// The size of a silence is the encoded size of the silence as the store holds it (with id
			// and expiresAt). For an accepted input it is measured on what the store returns for the
			// id; for a rejected one it is the size the stored silence would have had (built from the
			// model's view of it).
			oversize := false
			if sc.MaxSizeBytes > 0 {
				predicted, would := c12StoredSize(m, now, in)
				oversize = predicted > sc.MaxSizeBytes
				size := predicted
				if !rejected && st.RetSize > 0 {
					size = st.RetSize
					if predicted >= 0 && size != predicted {
						class("size-prediction-off")
					}
					if oversize = size > sc.MaxSizeBytes; oversize {
						fail("oversize-stored", "the code accepted the silence (id %s) and stores it with %d bytes, the limit is %d", st.RetID, size, sc.MaxSizeBytes)
					}
					for _, r := range st.Recs {
						if r.ID == st.RetID && !oversize && len(r.Raw) > sc.MaxSizeBytes {
							// not judged: the snapshot/gossip record repeats the first matcher set for older versions
							class("wire-record-over-limit")
						}
					}
				}
				if d := size - sc.MaxSizeBytes; size >= 0 && d >= -c12SizeWindow && d <= c12SizeWindow {
					v.sizeWindow++
					outcome := "rejected"
					if !rejected {
						outcome = "accepted"
					}
					if would == "" {
						would = "invalid-otherwise"
					}
					class("size-window")
					class("size-window:" + would + ":" + outcome)
					class("size-delta:" + c12DeltaClass(d))
				}
			}
			var prevState string
			if p, ok := m.Get(modelID); ok {
				prevState = ref.C12StateAt(p, now)
			}
			r := m.Set(now, in, oversize)
			if viaSet && r.Outcome == ref.C12Invalid && (r.Reason == "end not after start" || r.Reason == "end in the past") {
				// The statement puts the rejection of such times at the API; what
				// Silences.Set does with them is not specified. Not generated.
				class("skipped:set-with-unacceptable-times")
				return v
			}
			switch r.Outcome {
			case ref.C12Invalid, ref.C12NotFound:
				mustBeUnchanged = true
				class("invalid-rejected")
				if r.Outcome == ref.C12NotFound {
					class("unknown-id")
				} else {
					class("invalid:" + c12ReasonClass(r.Reason))
					if op.Ref != 0 && prevState == "" {
						class("invalid-edit-of-absent")
					} else if op.Ref > 0 {
						class("invalid-edit-of-" + prevState)
					}
				}
				if !rejected {
					fail("invalid-accepted", "model rejects (%s %s) but the code accepted it (status %d, id %q)", r.Outcome, r.Reason, st.Code, st.RetID)
					break
				}
				if storeNonEmpty {
					v.rejected++
				}
				if !viaSet {
					switch {
					case r.Outcome == ref.C12NotFound && st.Code != 404:
						fail("wrong-status", "unknown id answered %d, want 404", st.Code)
					case r.Outcome == ref.C12Invalid && (r.Reason == "end not after start" || r.Reason == "end in the past") && !(op.Ref != 0 && prevState == "") && st.Code != 400:
						// the openapi description documents 400 Bad Request for these
						fail("wrong-status", "invalid silence (%s) answered %d, want 400", r.Reason, st.Code)
					case st.Code < 400 || st.Code > 499:
						fail("wrong-status", "invalid silence (%s) answered %d, want 4xx", r.Reason, st.Code)
					}
				}
			default:
				if rejected {
					fail("valid-rejected", "model says %s but the code rejected it: status %d %s", r.Outcome, st.Code, st.Err)
					break
				}
				if v.rejected > 0 {
					v.acceptedAfterReject = true
				}
				switch r.Outcome {
				case ref.C12Updated:
					class("in-place-edit")
					if prevState == ref.C12Pending {
						if p, _ := before.Get(modelID); in.StartsAt.IsZero() || !in.StartsAt.Equal(p.StartsAt) {
							class("pending-start-moved")
						}
					}
					if st.RetID != real[modelID] {
						fail("id-not-kept", "in-place edit of %s (real %s) returned id %s", modelID, real[modelID], st.RetID)
					}
				case ref.C12Created, ref.C12Replaced:
					if r.Outcome == ref.C12Replaced {
						v.replaced = true
						class("replacing-edit")
						class("replaced-" + r.PrevState)
						if r.PrevState == ref.C12Expired {
							class("edit-expired")
						}
						if p, _ := before.Get(modelID); p != nil {
							if !c12SameM(c12ModelMatchers(p), c12ModelMatchers(&in)) {
								class("matchers-changed")
							} else if r.PrevState == ref.C12Active {
								class("active-start-moved")
							}
						}
					} else {
						class("create")
						switch {
						case op.Sil.NoStart:
							class("create-no-start")
						case c12Ms(op.Sil.StartMs).Before(now):
							class("create-start-clamped")
						}
					}
					if _, dup := modelOf[st.RetID]; dup || st.RetID == "" {
						fail("id-not-fresh", "%s returned id %q which is not fresh (model id %s)", r.Outcome, st.RetID, modelOf[st.RetID])
						break
					}
					real[r.ID] = st.RetID
					modelOf[st.RetID] = r.ID
				}
			}

		case "expire":
			if st.Code >= 500 {
				fail("server-error", "DELETE answered %d", st.Code)
			}
			out, was := m.Expire(now, modelID)
			switch out {
			case ref.C12ExpNotFound:
				mustBeUnchanged = true
				class("unknown-id")
				if st.Code != 404 {
					fail("wrong-status", "DELETE of an unknown id answered %d, want 404", st.Code)
				}
			case ref.C12ExpNoop:
				// idempotent: no change; the statement does not fix the status code
				mustBeUnchanged = true
				class("expire-twice")
			case ref.C12ExpDone:
				v.expiredOrGC = true
				class("expire-" + was)
				if st.Code != 200 {
					fail("wrong-status", "DELETE of a %s silence answered %d, want 200", was, st.Code)
				}
			}

		case "get":
			if st.Code >= 500 {
				fail("server-error", "GET answered %d", st.Code)
			}
			p, ok := m.Get(modelID)
			switch {
			case !ok:
				class("get-absent")
				if st.Code != 404 {
					fail("wrong-status", "GET of an id that does not exist answered %d, want 404", st.Code)
				}
			case st.Code == 404 && !p.ExpiresAt.After(now):
				class("get-past-retention") // free: may be hidden before the GC ran
			case st.Code != 200 || st.Got == nil:
				fail("not-queryable", "GET of %s (%s, end+retention %s) answered %d", modelID, ref.C12StateAt(p, now), p.ExpiresAt.Format(time.RFC3339Nano), st.Code)
			default:
				class("get-" + ref.C12StateAt(p, now))
				if st.Got.ID != real[modelID] {
					fail("silence-mismatch", "GET of %s returned id %s", real[modelID], st.Got.ID)
				}
				res.Add(c12Compare("get", i, now, p, *st.Got)...)
			}
			mustBeUnchanged = true

		case "gc":
			if st.Err != "" {
				fail("gc-error", "GC returned error %s", st.Err)
			}
			after := map[string]bool{}
			for _, r := range st.Recs {
				after[r.ID] = true
			}
			gone := m.GC(now)
			if len(gone) > 0 {
				v.expiredOrGC = true
				class("gc-removed")
			} else {
				class("gc-noop")
			}
			if st.GCN != len(gone) {
				fail("gc-count", "GC reports %d removed, model removes %d (%v)", st.GCN, len(gone), gone)
			}
			for _, id := range gone {
				if after[real[id]] {
					fail("gc-kept", "GC kept %s (real %s) which is past end+retention", id, real[id])
				}
			}
			for _, r := range st.RecsBefore {
				if after[r.ID] {
					continue
				}
				mid := modelOf[r.ID]
				if p, ok := before.Get(mid); ok && ref.C12StateAt(p, now) != ref.C12Expired {
					fail("gc-removed-live", "GC removed %s (real %s) which is %s", mid, r.ID, ref.C12StateAt(p, now))
				} else if ok && p.ExpiresAt.After(now) {
					fail("gc-removed-early", "GC removed %s (real %s) before end+retention %s", mid, r.ID, p.ExpiresAt.Format(time.RFC3339Nano))
				}
			}
		}

		if mustBeUnchanged && !c12SameRecs(st.RecsBefore, st.Recs) {
			fail("store-changed", "the store changed although nothing may change: %d records before, %d after (ids before %v, after %v)", len(st.RecsBefore), len(st.Recs), c12RecIDs(st.RecsBefore), c12RecIDs(st.Recs))
		}

		// ---- full comparison after the step
		if st.ListCode != 200 {
			fail("list-failed", "GET /silences answered %d", st.ListCode)
		}
		obs := map[string]c12Obs{}
		for _, o := range st.List {
			if _, dup := obs[o.ID]; dup {
				fail("list-duplicate", "id %s listed twice", o.ID)
			}
			obs[o.ID] = o
			if _, ok := modelOf[o.ID]; !ok {
				fail("unexpected-silence", "listed silence %s (%s, comment %q) is unknown to the model", o.ID, o.State, c12Short(o.Comment))
			} else if _, ok := m.Get(modelOf[o.ID]); !ok {
				fail("unexpected-silence", "listed silence %s = %s was collected earlier", o.ID, modelOf[o.ID])
			}
			// History invariants straight from the statement.
			if everExpired[o.ID] && o.State == ref.C12Active {
				fail("expired-revived", "silence %s was expired and is active again", o.ID)
			}
			if o.State == ref.C12Expired {
				everExpired[o.ID] = true
			}
			if ls, ok := lastState[o.ID]; ok && ls != o.State {
				v.transitions++
				class("transition:" + ls + "->" + o.State)
			}
			lastState[o.ID] = o.State
		}
		recByID := map[string]c12Rec{}
		for _, r := range st.Recs {
			recByID[r.ID] = r
		}
		if len(recByID) != len(st.List) {
			fail("list-vs-store", "%d silences listed, %d records in the store", len(st.List), len(recByID))
		}
		for _, id := range m.IDs() {
			p, _ := m.Get(id)
			o, ok := obs[real[id]]
			if !ok {
				if !p.ExpiresAt.After(now) {
					continue // past end+retention: may be hidden before the GC ran
				}
				fail("not-queryable", "%s (real %s, %s) is missing from the list before end+retention %s", id, real[id], ref.C12StateAt(p, now), p.ExpiresAt.Format(time.RFC3339Nano))
				continue
			}
			res.Add(c12Compare("list", i, now, p, o)...)
			if r, ok := recByID[real[id]]; ok && !r.ExpiresAt.Equal(p.ExpiresAt) {
				fail("expires-at", "%s stored with expiresAt %s, want end+retention %s", id, r.ExpiresAt.Format(time.RFC3339Nano), p.ExpiresAt.Format(time.RFC3339Nano))
			}
		}
		// Probe: which active silences match the probe label set.
		if st.ProbeErr != "" {
			fail("query-error", "Query(QState(active), QMatches(%v)) failed: %s", sc.Probe, st.ProbeErr)
		} else {
			var want []string
			for _, id := range m.Silencing(now, sc.Probe) {
				if p, _ := m.Get(id); p.EndsAt.Equal(now) {
					continue
				}
				want = append(want, real[id])
			}
			sort.Strings(want)
			got := []string{}
			for _, id := range st.ProbeIDs {
				// t == end (the instant of an expire) is a boundary: either way
				if p, ok := m.Get(modelOf[id]); ok && p.EndsAt.Equal(now) {
					continue
				}
				got = append(got, id)
			}
			if strings.Join(want, ",") != strings.Join(got, ",") {
				fail("probe-mismatch", "active silences matching %v: code %v, model %v", sc.Probe, got, want)
			} else if len(want) > 0 {
				class("probe-hit")
			}
		}
		if len(res.Violations) > n0 {
			return v // later steps are consequences
		}
	}
	if tr.Panic != "" {
		res.Fail("panic", "panic while executing step %d: %s", len(tr.Steps), tr.Panic)
	}
	return v
}

func c12RecIDs(rs []c12Rec) []string {
	out := make([]string, 0, len(rs))
	for _, r := range rs {
		out = append(out, r.ID)
	}
	sort.Strings(out)
	return out
}

func c12Short(s string) string {
	if len(s) > 20 {
		return s[:20] + "…"
	}
	return s
}

func c12ReasonClass(r string) string {
	switch {
	case strings.HasPrefix(r, "invalid label name"):
		return "label-name"
	case strings.HasPrefix(r, "bad regex"):
		return "bad-regex"
	default:
		return strings.ReplaceAll(r, " ", "-")
	}
}

// ---------------------------------------------------------------- generators

var (
	c12Durations = []int64{1, 20, 300, 1800, 3600, 7200}
	c12Comments  = []string{"c0", "c1", "maintenance é世", ""}
	c12Creators  = []string{"u0", "u1", ""}
)

// c12GenAnchor: a positive matcher that does not accept the empty string.
func c12GenAnchor(t *rapid.T) ref.Matcher {
	m := ref.Matcher{Op: "=", Name: rapid.SampledFrom(gen.UniNames).Draw(t, "aname"), Value: rapid.SampledFrom(gen.UniValues).Draw(t, "avalue")}
	if rapid.IntRange(0, 3).Draw(t, "are") == 0 {
		m.Op, m.Value = "=~", ""
		m.Re = &ref.Re{Op: "plus", Subs: []*ref.Re{{Op: "class", Lit: rapid.SampledFrom([]string{"x", "xy", "xyz"}).Draw(t, "acls")}}}
	}
	return m
}

// c12GenValidSet: one matcher set the statement accepts (an anchor plus up to
// two arbitrary matchers over the small universe, in any position).
func c12GenValidSet(t *rapid.T) []ref.Matcher {
	set := []ref.Matcher{c12GenAnchor(t)}
	for n := rapid.IntRange(0, 2).Draw(t, "extra"); n > 0; n-- {
		set = append(set, gen.UniMatcher().Draw(t, "m"))
	}
	if k := rapid.IntRange(0, len(set)-1).Draw(t, "rot"); k > 0 {
		set = append(set[k:], set[:k]...)
	}
	return set
}

// c12MutateOneMatcher copies the sets and changes one matcher minimally: "=" <-> "=~" with the same text
// (an equality and a literal regex accept the same values), "=" -> "!=" on a matcher that is not the only
// anchor of its set, or another value for an equality. Returns "" if no such change keeps the set valid.
func c12MutateOneMatcher(t *rapid.T, sets [][]ref.Matcher) ([][]ref.Matcher, string) {
	if len(sets) == 0 {
		return nil, ""
	}
	out := make([][]ref.Matcher, len(sets))
	for i := range sets {
		out[i] = append([]ref.Matcher(nil), sets[i]...)
	}
	si := rapid.IntRange(0, len(out)-1).Draw(t, "mutSet")
	set := out[si]
	mi := rapid.IntRange(0, len(set)-1).Draw(t, "mutM")
	m := set[mi]
	anchors := 0
	for _, x := range set {
		if (x.Op == "=" && x.Value != "") || (x.Op == "=~" && x.Re != nil && !x.Re.Match("")) {
			anchors++
		}
	}
	isAnchor := (m.Op == "=" && m.Value != "") || (m.Op == "=~" && m.Re != nil && !m.Re.Match(""))
	switch {
	case m.Op == "=" && m.Value != "" && rapid.Bool().Draw(t, "mutToRe"):
		set[mi] = ref.Matcher{Op: "=~", Name: m.Name, Re: &ref.Re{Op: "lit", Lit: m.Value}}
		return out, "operator-only"
	case m.Op == "=~" && m.Re != nil && m.Re.Op == "lit" && m.Re.Lit != "":
		set[mi] = ref.Matcher{Op: "=", Name: m.Name, Value: m.Re.Lit}
		return out, "operator-only"
	case m.Op == "=" && (!isAnchor || anchors > 1):
		set[mi] = ref.Matcher{Op: "!=", Name: m.Name, Value: m.Value}
		return out, "operator-only"
	case m.Op == "!=":
		if m.Value != "" || anchors > 0 {
			set[mi] = ref.Matcher{Op: "=", Name: m.Name, Value: m.Value}
			return out, "operator-only"
		}
	case m.Op == "=" && m.Value != "":
		for _, v := range gen.UniValues {
			if v != m.Value {
				set[mi] = ref.Matcher{Op: "=", Name: m.Name, Value: v}
				return out, "value-only"
			}
		}
	}
	return nil, ""
}

type c12Gen struct {
	t   *rapid.T
	m   *ref.C12Silences
	sc  *c12Scenario
	sec int64
}

func (g *c12Gen) now() time.Time { return c12At(g.sec, len(g.sc.Ops)) }

// pickSil draws a stored silence, preferring pending and active ones (expired
// ones accumulate and would otherwise dominate).
func (g *c12Gen) pickSil(label string) *ref.C12Silence {
	ids := g.m.IDs()
	if len(ids) == 0 {
		return nil
	}
	now := g.now()
	var pool []string
	for _, id := range ids {
		p, _ := g.m.Get(id)
		w := 1
		if ref.C12StateAt(p, now) != ref.C12Expired {
			w = 4
		}
		for ; w > 0; w-- {
			pool = append(pool, id)
		}
	}
	p, _ := g.m.Get(rapid.SampledFrom(pool).Draw(g.t, label))
	return p
}

// advance picks the whole-second part of the next op's instant.
func (g *c12Gen) advance() {
	t := g.t
	switch k := rapid.IntRange(0, 9).Draw(t, "adv"); {
	case k <= 2:
	case k <= 4:
		g.sec += int64(rapid.IntRange(1, 90).Draw(t, "advS"))
	case k == 5:
		g.sec += int64(rapid.IntRange(1, 45).Draw(t, "advM")) * 60
	default:
		p := g.pickSil("advSil")
		if p == nil {
			return
		}
		b := []time.Time{p.StartsAt, p.StartsAt, p.EndsAt, p.EndsAt, p.ExpiresAt}[rapid.IntRange(0, 4).Draw(t, "advB")]
		target := c12ToMs(b) / 1000 // floor: every instant is after c12T0
		if rapid.Bool().Draw(t, "advBefore") {
			target--
		}
		if target > g.sec {
			g.sec = target
		} else {
			g.sec += int64(rapid.IntRange(0, 5).Draw(t, "advF"))
		}
	}
}

func c12Num(id string) int {
	var k int
	fmt.Sscanf(id, "m%d", &k)
	return k
}

func (g *c12Gen) pickRef(label string) int {
	t := g.t
	if g.m.NextID == 0 || rapid.IntRange(0, 13).Draw(t, label+"Unknown") == 7 {
		return -1
	}
	p := g.pickSil(label)
	if p == nil || rapid.IntRange(0, 11).Draw(t, label+"Any") == 6 {
		return rapid.IntRange(1, g.m.NextID).Draw(t, label+"Ever") // may have been collected
	}
	return c12Num(p.ID)
}

func (g *c12Gen) genCreate() *c12Sil {
	t := g.t
	nowSec := c12ToMs(g.now()) / 1000
	s := &c12Sil{Sets: [][]ref.Matcher{c12GenValidSet(t)}, Comment: rapid.SampledFrom(c12Comments).Draw(t, "comment"), CreatedBy: rapid.SampledFrom(c12Creators).Draw(t, "creator")}
	d := rapid.SampledFrom(c12Durations).Draw(t, "startD")
	var startSec int64
	// (rapid favours the ends of an integer range: the plain choices sit at 0)
	switch k := rapid.IntRange(0, 9).Draw(t, "startKind"); {
	case k <= 4:
		startSec = nowSec + d
	case k == 5:
		startSec = max(nowSec-d, 0)
	case k == 6:
		startSec = nowSec // the current second: a few ms in the past
	default:
		s.NoStart = true
		startSec = nowSec + 1
	}
	s.StartMs = startSec * 1000
	dur := rapid.SampledFrom(c12Durations).Draw(t, "dur")
	switch k := rapid.IntRange(0, 15).Draw(t, "endKind"); {
	case k <= 13:
		s.EndMs = (max(startSec, nowSec+1) + dur) * 1000
	case k == 14:
		s.EndMs = max(startSec-rapid.SampledFrom([]int64{0, 1, 60}).Draw(t, "endBack"), 0) * 1000 // end <= start
	default:
		s.EndMs = max(nowSec-rapid.SampledFrom([]int64{0, 1, 60, 4000}).Draw(t, "endPast"), 0) * 1000 // in the past
	}
	if s.NoStart {
		s.StartMs = 0
	}
	return s
}

// between draws a whole second in [lo, hi], or returns (0, false).
func (g *c12Gen) between(lo, hi int64, label string) (int64, bool) {
	if lo > hi {
		return 0, false
	}
	return rapid.Int64Range(lo, hi).Draw(g.t, label), true
}

func (g *c12Gen) genEdit(p *ref.C12Silence) (*c12Sil, string) {
	t := g.t
	now := g.now()
	nowSec := c12ToMs(now) / 1000
	pStartSec := c12ToMs(p.StartsAt) / 1000
	pEndSec := c12ToMs(p.EndsAt) / 1000
	state := ref.C12StateAt(p, now)
	s := &c12Sil{Sets: p.MatcherSets, Comment: p.Comment, CreatedBy: p.CreatedBy, StartMs: c12ToMs(p.StartsAt), EndMs: c12ToMs(p.EndsAt)}
	var intent []string
	d := rapid.SampledFrom(c12Durations).Draw(t, "editD")
	k := rapid.IntRange(0, 11).Draw(t, "editStart")
	switch {
	case k <= 4: // keep exactly
	case k == 5:
		s.StartMs = pStartSec * 1000
		intent = append(intent, "start-truncated")
	case k == 6:
		s.NoStart, s.StartMs = true, 0
		intent = append(intent, "start-omitted")
	case k == 7:
		// earlier; for a pending silence preferably still in the future
		if v, ok := g.between(nowSec+1, pStartSec-1, "earlierTo"); ok && rapid.Bool().Draw(t, "earlierFuture") {
			s.StartMs = v * 1000
		} else {
			s.StartMs = max(pStartSec-d, 0) * 1000
		}
		intent = append(intent, "start-earlier")
	case k <= 9:
		// later; preferably still before the end
		if v, ok := g.between(max(pStartSec, nowSec)+1, pEndSec-1, "laterTo"); ok && rapid.IntRange(0, 3).Draw(t, "laterInside") > 0 {
			s.StartMs = v * 1000
		} else {
			s.StartMs = (pStartSec + d) * 1000
		}
		intent = append(intent, "start-later")
	case k == 10:
		s.StartMs = (nowSec + 1 + d) * 1000
		intent = append(intent, "start-future")
	default:
		s.StartMs = max(nowSec-d, 0) * 1000
		intent = append(intent, "start-past")
	}
	startSec := s.StartMs / 1000
	if s.NoStart {
		startSec = nowSec
	}
	d2 := rapid.SampledFrom(c12Durations).Draw(t, "editD2")
	ke := rapid.IntRange(0, 15).Draw(t, "editEnd")
	if state == ref.C12Expired && ke <= 5 {
		ke = 6 // keeping the end of an expired silence is "end in the past" almost always; bias to extending
	}
	switch {
	case ke <= 3 && pEndSec > startSec: // keep
	case ke <= 5:
		if v, ok := g.between(max(nowSec, startSec)+1, pEndSec-1, "shortTo"); ok {
			s.EndMs = v * 1000
			intent = append(intent, "end-shortened")
		} else {
			s.EndMs = (max(nowSec, startSec) + 1 + d2) * 1000
			intent = append(intent, "end-future")
		}
	case ke <= 13:
		s.EndMs = (max(pEndSec, nowSec, startSec) + 1 + d2) * 1000
		intent = append(intent, "end-extended")
	case ke == 14:
		s.EndMs = max(nowSec-d2, 0) * 1000
		intent = append(intent, "end-past")
	default:
		s.EndMs = max(startSec-rapid.SampledFrom([]int64{0, 1, 60}).Draw(t, "endBack"), 0) * 1000
		intent = append(intent, "end-before-start")
	}
	switch rapid.IntRange(0, 7).Draw(t, "editM") {
	case 3:
		s.Sets = [][]ref.Matcher{c12GenValidSet(t)}
		intent = append(intent, "matchers")
	case 4, 5:
		// a minimal change of the stored matchers: only the operator of one matcher, or only its value
		// (same names, same count, same order), which must still count as "different matchers"
		if sets, what := c12MutateOneMatcher(t, p.MatcherSets); what != "" {
			s.Sets = sets
			intent = append(intent, "matchers", what)
		}
	}
	if rapid.IntRange(0, 3).Draw(t, "editC") == 2 {
		s.Comment = rapid.SampledFrom(c12Comments).Draw(t, "comment")
		intent = append(intent, "comment")
	}
	if rapid.IntRange(0, 4).Draw(t, "editU") == 2 {
		s.CreatedBy = rapid.SampledFrom(c12Creators).Draw(t, "creator")
		intent = append(intent, "creator")
	}
	return s, "edit-" + state + ":" + strings.Join(intent, "+")
}

// apply keeps the generator's copy of the model in step with what the judge
// will compute, so that later ops can aim at the boundaries of the silences.
func (g *c12Gen) apply(op c12Op) {
	now := g.now()
	id := ""
	if op.Ref > 0 {
		id = fmt.Sprintf("m%d", op.Ref)
	} else if op.Ref == -1 {
		id = "unknown"
	}
	switch op.Kind {
	case "post":
		if op.Omit == "" {
			in := op.Sil.toRef(id)
			g.m.Set(now, in, c12Oversize(g.sc, g.m, now, in))
		}
	case "expire":
		g.m.Expire(now, id)
	case "gc":
		g.m.GC(now)
	}
	g.sc.Ops = append(g.sc.Ops, op)
}

func (g *c12Gen) lifecycleOp() c12Op {
	t := g.t
	op := c12Op{AtSec: g.sec}
	now := g.now()
	live := 0
	for _, p := range g.m.Sils {
		if ref.C12StateAt(p, now) != ref.C12Expired {
			live++
		}
	}
	k := rapid.IntRange(0, 19).Draw(t, "opKind")
	edit := func() {
		op.Kind = "post"
		op.Ref = g.pickRef("editRef")
		if p, ok := g.m.Get(fmt.Sprintf("m%d", op.Ref)); ok {
			op.Sil, op.Intent = g.genEdit(p)
		} else {
			op.Sil, op.Intent = g.genCreate(), "edit-absent"
		}
	}
	switch {
	case len(g.m.Sils) == 0 && g.m.NextID < 2:
		op.Kind, op.Sil, op.Intent = "post", g.genCreate(), "create"
	case k <= 7:
		edit()
	case k <= 11:
		if live < 4 {
			op.Kind, op.Sil, op.Intent = "post", g.genCreate(), "create"
		} else {
			edit()
		}
	case k <= 15:
		op.Kind, op.Ref, op.Intent = "expire", g.pickRef("expRef"), "expire"
	case k <= 17:
		op.Kind, op.Intent = "gc", "gc"
	default:
		op.Kind, op.Ref, op.Intent = "get", g.pickRef("getRef"), "get"
	}
	return op
}

func c12GenBase(t *rapid.T) *c12Gen {
	sc := &c12Scenario{
		RetentionSec: rapid.SampledFrom([]int64{3600, 3600, 600, 7200}).Draw(t, "retention"),
		Mode:         rapid.SampledFrom([]string{"fallback", "fallback", "classic"}).Draw(t, "mode"),
		Probe:        gen.UniLabelSet().Draw(t, "probe"),
	}
	m := ref.NewC12Silences(time.Duration(sc.RetentionSec) * time.Second)
	m.ClassicNames = sc.Mode == "classic"
	return &c12Gen{t: t, m: m, sc: sc}
}

func genC12Lifecycle(t *rapid.T) c12Scenario {
	g := c12GenBase(t)
	maxOps := 18
	if pbt.Thorough() {
		maxOps = 40
	}
	n := rapid.IntRange(4, maxOps).Draw(t, "nOps")
	for i := 0; i < n; i++ {
		g.advance()
		g.apply(g.lifecycleOp())
	}
	return *g.sc
}

// ---- invalid inputs

var c12BadRegexes = []string{"(", "[a", "*", "a{2,1}", "(?P<n", "x)", "\\", "a**"}

// c12EmptyMatchers: positive matchers that accept the empty string.
func c12GenEmptyMatcher(t *rapid.T, name string) ref.Matcher {
	switch rapid.IntRange(0, 5).Draw(t, "emptyKind") {
	case 0, 1:
		return ref.Matcher{Op: "=", Name: name, Value: ""}
	case 2:
		return ref.Matcher{Op: "=~", Name: name, Re: &ref.Re{Op: "star", Subs: []*ref.Re{{Op: "any"}}}}
	case 3:
		return ref.Matcher{Op: "=~", Name: name, Re: &ref.Re{Op: "lit", Lit: ""}}
	case 4:
		return ref.Matcher{Op: "=~", Name: name, Re: &ref.Re{Op: "opt", Subs: []*ref.Re{{Op: "lit", Lit: "x"}}}}
	default:
		return ref.Matcher{Op: "=~", Name: name, Re: &ref.Re{Op: "alt", Subs: []*ref.Re{{Op: "lit", Lit: "x"}, {Op: "star", Subs: []*ref.Re{{Op: "lit", Lit: "y"}}}}}}
	}
}

// acceptable: would the model accept s (submitted under model id m<refID>) now?
func (g *c12Gen) acceptable(s *c12Sil, refID int) bool {
	id := ""
	if refID > 0 {
		id = fmt.Sprintf("m%d", refID)
	}
	switch g.m.Clone().Set(g.now(), s.toRef(id), false).Outcome {
	case ref.C12Invalid, ref.C12NotFound:
		return false
	}
	return true
}

// invalidOp builds a post op the statement rejects; base is a valid silence
// (a create or an otherwise acceptable edit).
func (g *c12Gen) invalidOp(base *c12Sil, refID int) c12Op {
	t := g.t
	op := c12Op{AtSec: g.sec, Kind: "post", Ref: refID}
	s := *base
	s.Sets = [][]ref.Matcher{append([]ref.Matcher(nil), base.Sets[0]...)}
	op.Sil = &s
	if rapid.IntRange(0, 2).Draw(t, "viaSet") == 0 && g.acceptable(base, refID) {
		// Silences.Set leaves the validation of the times to the API: only
		// silences with acceptable times are handed to it directly.
		op.Via = "set"
	}
	name := rapid.SampledFrom(gen.UniNames).Draw(t, "iname")
	kinds := []string{"empty-only", "empty-only", "bad-regex", "bad-name", "no-matchers", "no-end", "unknown-id"}
	if op.Via == "set" {
		kinds = append(kinds, "second-set-empty", "second-set-empty", "empty-set")
	} else {
		kinds = append(kinds, "omitted", "end-before-start", "end-past")
	}
	if g.sc.MaxSizeBytes > 0 {
		kinds = append(kinds, "oversize", "oversize")
	}
	kind := rapid.SampledFrom(kinds).Draw(t, "invalidKind")
	op.Intent = "invalid:" + kind
	nowSec := c12ToMs(g.now()) / 1000
	switch kind {
	case "empty-only":
		s.Sets[0] = []ref.Matcher{c12GenEmptyMatcher(t, name)}
		if rapid.Bool().Draw(t, "two") {
			s.Sets[0] = append(s.Sets[0], c12GenEmptyMatcher(t, rapid.SampledFrom(gen.UniNames).Draw(t, "iname2")))
		}
	case "bad-regex":
		bad := ref.Matcher{Op: rapid.SampledFrom([]string{"=~", "!~"}).Draw(t, "badOp"), Name: name, Value: rapid.SampledFrom(c12BadRegexes).Draw(t, "badRe")}
		if rapid.Bool().Draw(t, "alone") {
			s.Sets[0] = []ref.Matcher{bad}
		} else {
			s.Sets[0] = append(s.Sets[0], bad)
		}
	case "bad-name":
		names := []string{""}
		if g.sc.Mode == "classic" {
			names = append(names, "0a", "a-b", "a b", "é", "a.b")
		}
		if op.Via == "set" {
			names = append(names, "a\xff")
		}
		i := rapid.IntRange(0, len(s.Sets[0])-1).Draw(t, "badAt")
		s.Sets[0][i].Name = rapid.SampledFrom(names).Draw(t, "badName")
	case "no-matchers":
		s.Sets = nil
	case "empty-set":
		s.Sets = [][]ref.Matcher{{}}
	case "second-set-empty":
		s.Sets = append(s.Sets, []ref.Matcher{c12GenEmptyMatcher(t, name)})
		if rapid.Bool().Draw(t, "swap") {
			s.Sets[0], s.Sets[1] = s.Sets[1], s.Sets[0]
		}
	case "omitted":
		op.Via = ""
		op.Omit = rapid.SampledFrom([]string{"matchers", "startsAt", "endsAt", "comment", "createdBy"}).Draw(t, "omit")
	case "end-before-start":
		startSec := s.StartMs / 1000
		if s.NoStart {
			s.NoStart, startSec = false, nowSec+5
			s.StartMs = startSec * 1000
		}
		s.EndMs = max(startSec-rapid.SampledFrom([]int64{0, 1, 60}).Draw(t, "back"), 0) * 1000
	case "end-past":
		s.EndMs = max(nowSec-rapid.SampledFrom([]int64{0, 1, 60, 4000}).Draw(t, "past"), 0) * 1000
	case "no-end":
		s.NoEnd, s.EndMs = true, 0
	case "unknown-id":
		op.Ref = -1
	case "oversize":
		s.CommentPad = 4 * g.sc.MaxSizeBytes
	}
	return op
}

// ---- inputs whose stored size sweeps the size limit byte by byte

// padTo sets s.CommentPad so that the record stored for s (submitted under model id m<refID> now) has
// `target` bytes, as nearly as the encoding allows; false if the model rejects s for another reason.
func (g *c12Gen) padTo(s *c12Sil, refID, target int) bool {
	id := ""
	if refID > 0 {
		id = fmt.Sprintf("m%d", refID)
	}
	now := g.now()
	pad := 0
	for i := 0; i < 6; i++ {
		s.CommentPad = pad
		n, _ := c12StoredSize(g.m, now, s.toRef(id))
		if n < 0 {
			s.CommentPad = 0
			return false
		}
		if n == target {
			return true
		}
		if pad += target - n; pad < 0 {
			pad = 0
		}
	}
	s.CommentPad = pad
	return true
}

// c12SplitPad writes a comment as base + a run of 'x' (how c12Sil carries long comments).
func c12SplitPad(c string) (string, int) {
	base := strings.TrimRight(c, "x")
	return base, len(c) - len(base)
}

// nearLimitOp: a create, an in-place edit or a replacing edit whose stored size lies within c12SizeWindow
// bytes of the size limit, or an in-place edit that keeps the size of such a silence (another comment of
// the same length, a later end).
func (g *c12Gen) nearLimitOp() c12Op {
	t := g.t
	op := c12Op{AtSec: g.sec, Kind: "post"}
	now := g.now()
	nowSec := c12ToMs(now) / 1000
	limit := g.sc.MaxSizeBytes
	// the byte offset from the limit: two draws, because rapid favours the ends of one integer range
	delta := rapid.IntRange(0, 12).Draw(t, "deltaHi")*7 + rapid.IntRange(0, 6).Draw(t, "deltaLo") - c12SizeWindow
	if rapid.IntRange(0, 3).Draw(t, "deltaEdge") == 0 {
		delta = rapid.IntRange(-2, 2).Draw(t, "deltaAtLimit")
	}
	// live silences, the ones that are near the limit themselves several times
	var pool []string
	for _, id := range g.m.IDs() {
		p, _ := g.m.Get(id)
		if ref.C12StateAt(p, now) == ref.C12Expired {
			continue
		}
		w := 1
		if len(p.Comment) > limit/2 {
			w = 6
		}
		for ; w > 0; w-- {
			pool = append(pool, id)
		}
	}
	kind := rapid.SampledFrom([]string{"create", "create", "create", "same-size", "same-size", "end-extended", "in-place", "in-place", "replace", "replace"}).Draw(t, "nearKind")
	if len(pool) == 0 {
		kind = "create"
	}
	op.Intent = fmt.Sprintf("near-limit:%s%+d", kind, delta)
	if kind == "create" {
		s := g.genCreate()
		if !g.acceptable(s, 0) {
			startSec := nowSec
			if !s.NoStart {
				startSec = s.StartMs / 1000
			}
			s.EndMs = (max(startSec, nowSec+1) + rapid.SampledFrom(c12Durations).Draw(t, "nearDur")) * 1000
		}
		g.padTo(s, 0, limit+delta)
		if rapid.IntRange(0, 3).Draw(t, "nearViaSet") == 0 && g.acceptable(s, 0) {
			op.Via = "set"
		}
		op.Sil = s
		return op
	}
	p, _ := g.m.Get(rapid.SampledFrom(pool).Draw(t, "nearOf"))
	op.Ref = c12Num(p.ID)
	base, pad := c12SplitPad(p.Comment)
	s := &c12Sil{Sets: p.MatcherSets, Comment: base, CommentPad: pad, CreatedBy: p.CreatedBy, StartMs: c12ToMs(p.StartsAt), EndMs: c12ToMs(p.EndsAt)}
	later := func() {
		s.EndMs = (c12ToMs(p.EndsAt)/1000 + 1 + rapid.SampledFrom(c12Durations).Draw(t, "nearLater")) * 1000
	}
	switch kind {
	case "same-size":
		// another comment of exactly the same length
		for _, c := range []string{"c0", "c1"} {
			if len(p.Comment) >= 2 && !strings.HasPrefix(p.Comment, c) {
				s.Comment, s.CommentPad = c, len(p.Comment)-2
				break
			}
		}
		if rapid.Bool().Draw(t, "sameCreator") {
			for _, c := range []string{"u0", "u1"} {
				if len(p.CreatedBy) == 2 && p.CreatedBy != c {
					s.CreatedBy = c
					break
				}
			}
		}
	case "end-extended":
		later()
	case "in-place":
		if rapid.Bool().Draw(t, "nearAlsoEnd") {
			later()
		}
		s.Comment = rapid.SampledFrom(c12Comments).Draw(t, "comment")
		g.padTo(s, op.Ref, limit+delta)
	case "replace":
		if sets, what := c12MutateOneMatcher(t, p.MatcherSets); what != "" {
			s.Sets = sets
		} else {
			s.Sets = [][]ref.Matcher{c12GenValidSet(t)}
		}
		s.Comment = rapid.SampledFrom(c12Comments).Draw(t, "comment")
		g.padTo(s, op.Ref, limit+delta)
	}
	if rapid.IntRange(0, 3).Draw(t, "nearViaSet") == 0 && g.acceptable(s, op.Ref) {
		op.Via = "set"
	}
	op.Sil = s
	return op
}

func genC12Invalid(t *rapid.T) c12Scenario {
	g := c12GenBase(t)
	if rapid.Bool().Draw(t, "sizeLimit") {
		g.sc.MaxSizeBytes = rapid.SampledFrom([]int{1024, 1024, 700, 1500}).Draw(t, "sizeLimitBytes")
	}
	if rapid.IntRange(0, 2).Draw(t, "countLimit") == 0 {
		g.sc.MaxSilences = rapid.IntRange(1, 4).Draw(t, "maxSilences")
		g.m.Limits.MaxSilences = g.sc.MaxSilences
	}
	n := rapid.IntRange(4, 14).Draw(t, "nOps")
	if pbt.Thorough() {
		n = rapid.IntRange(4, 30).Draw(t, "nOpsT")
	}
	for i := 0; i < n; i++ {
		g.advance()
		if g.sc.MaxSizeBytes > 0 && rapid.IntRange(0, 3).Draw(t, "nearLimit") == 0 {
			g.apply(g.nearLimitOp())
			continue
		}
		k := rapid.IntRange(0, 9).Draw(t, "invKind")
		ids := g.m.IDs()
		switch {
		case k <= 4 || (len(ids) == 0 && k <= 6):
			// an invalid create, or an invalid edit of an existing silence
			var base *c12Sil
			refID := 0
			if len(ids) > 0 && rapid.Bool().Draw(t, "asEdit") {
				p := g.pickSil("editOf")
				base, _ = g.genEdit(p)
				refID = c12Num(p.ID)
			} else {
				base = g.genCreate()
			}
			g.apply(g.invalidOp(base, refID))
		case k <= 6:
			op := c12Op{AtSec: g.sec, Kind: "post", Sil: g.genCreate(), Intent: "create"}
			if rapid.IntRange(0, 3).Draw(t, "createViaSet") == 0 && g.acceptable(op.Sil, 0) {
				op.Via = "set"
			}
			g.apply(op)
		default:
			g.apply(g.lifecycleOp())
		}
	}
	// control: a plainly valid create at the end must still be accepted
	g.advance()
	nowSec := c12ToMs(g.now()) / 1000
	g.apply(c12Op{AtSec: g.sec, Kind: "post", Intent: "control-create", Sil: &c12Sil{
		StartMs: (nowSec + 10) * 1000, EndMs: (nowSec + 100) * 1000,
		Sets: [][]ref.Matcher{{{Op: "=", Name: "a", Value: "x"}}}, Comment: "control", CreatedBy: "u0",
	}})
	return *g.sc
}

// --------------------------------------------------------------------- tests

const c12Assume = " Instants: op i runs at T0 + atSec s + (i+1) ms, submitted boundaries are whole seconds, so no op coincides with a boundary of a silence (the listing right after an expire observes t == end and must read expired: 'takes effect immediately'). A silence past end+retention that no GC has collected yet may be listed or hidden. Status codes: unknown id 404; schema-valid but invalid silence 400; schema-level invalid any 4xx; DELETE of an already expired silence: any non-5xx. Matcher sets made only of negative matchers are not generated (the statement does not say whether they 'match the empty string')."

func execC12(sc c12Scenario) c12Verdict {
	return c12Judge(sc, c12Run(sc))
}

func TestC12Lifecycle(t *testing.T) {
	pbt.Run(t, pbt.Spec[c12Scenario]{
		Property: "C12",
		Name:     "C12Lifecycle",
		Rule: "4..16 (thorough 40) ops (create with/without/past/future start, edits of start/end/matchers/comment/creator, expire, GC, get; targets incl. expired, collected and unknown ids) at instants aimed just before/after start, end and end+retention of existing silences; driven through the api/v2 HTTP handlers and Silences.GC in a synctest bubble; after every step the full listing, the stored records (expiresAt) and a QMatches probe are compared with the A.2 model. " +
			"Non-trivial: the history contains an edit that produced a new id AND an effective expire or a GC that removed something, and at least one state transition of an id was observed." + c12Assume,
		Gen: genC12Lifecycle,
		Exec: func(sc c12Scenario) pbt.Result {
			v := execC12(sc)
			v.res.NonTrivial = v.replaced && v.expiredOrGC && v.transitions > 0
			return v.res
		},
	})
}

func TestC12Invalid(t *testing.T) {
	pbt.Run(t, pbt.Spec[c12Scenario]{
		Property: "C12",
		Name:     "C12Invalid",
		Rule: "4..14 (thorough 30) ops mixing valid lifecycle ops with inputs the statement rejects — as creates and as edits of existing silences, through POST /api/v2/silences and (for shapes the HTTP schema cannot carry: several matcher sets, invalid UTF-8, zero end) Silences.Set: matcher sets accepting only the empty string, bad regex, invalid label name for the parser mode, no/empty matcher set, omitted required member, end <= start, end in the past, unknown id, oversize, over the count limit. Every rejection must be 4xx/error and leave MarshalBinary identical as a set of records; a final plainly valid create must succeed (unless the count limit is reached). " +
			"With a per-silence size limit configured (half of the cases; 700, 1024 or 1500 bytes) a quarter of the ops are near-limit ones: creates, in-place edits and replacing edits whose comment is padded so that the stored size lands, byte by byte, at limit-45..limit+45, and in-place edits that keep the size of such a silence (another comment of the same length, another creator, a later end). A silence is oversize iff its encoded size as the store holds it (MeshSilence with the 36-character id and expiresAt, not counting the copy of the first matcher set that the snapshot/gossip encoding adds for older versions) exceeds the limit: measured on the silence queried back by id when the code accepted (kind oversize-stored), computed from the model's stored form when it rejected; so a near-limit silence that fits must be accepted, keep its id on such edits, and one that does not fit must leave the store untouched. Classes size-window* / size-delta:* count the cases with a post within 45 bytes of the limit. " +
			"Non-trivial: at least one input was rejected while the store was non-empty and a valid input was accepted after a rejection." + c12Assume,
		Gen: genC12Invalid,
		Exec: func(sc c12Scenario) pbt.Result {
			v := execC12(sc)
			v.res.NonTrivial = v.rejected > 0 && v.acceptedAfterReject
			return v.res
		},
	})
}
