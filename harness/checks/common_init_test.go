package checks

import "runtime"

// Memory profiling is not used by the checks; switching it off keeps the
// runtime's profile-bucket bookkeeping (where a go1.25.0 runtime crash,
// "bad use of bucket.mp", was observed once under heavy load) out of the way.
func init() { runtime.MemProfileRate = 0 }
