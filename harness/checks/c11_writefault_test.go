package checks

import (
	"context"
	"fmt"
	"os"
	"path/filepath"
	"syscall"
	"testing"
	"time"

	"google.golang.org/protobuf/proto"
	"google.golang.org/protobuf/types/known/timestamppb"
	"pgregory.net/rapid"

	"github.com/prometheus/alertmanager/featurecontrol"
	"github.com/prometheus/alertmanager/matcher/compat"
	"github.com/prometheus/alertmanager/nflog"
	"github.com/prometheus/alertmanager/nflog/nflogpb"
	"github.com/prometheus/alertmanager/silence"
	pb "github.com/prometheus/alertmanager/silence/silencepb"

	"verif/harness/pbt"
)

// C11WriteFault: a snapshot whose write fails part-way (injected with RLIMIT_FSIZE: the kernel cuts the write at the
// limit and fails the next one with EFBIG, as a full disk would with ENOSPC) must not damage what is on disk: the
// next start loads the previous completed snapshot (or the new one if everything fitted), never a torn or empty
// file, and never refuses to start because of a file the process wrote itself.

type c11wfScenario struct {
	SilA  int `json:"sil_a"`
	SilB  int `json:"sil_b"` // silences created before the first (good) snapshot / between the snapshots
	NfA   int `json:"nf_a"`
	NfB   int `json:"nf_b"`  // log entries written before / between
	Limit int `json:"limit"` // RLIMIT_FSIZE soft limit during the second snapshot, bytes
}

func genC11WF(t *rapid.T) c11wfScenario {
	return c11wfScenario{
		SilA: rapid.IntRange(0, 6).Draw(t, "silA"), SilB: rapid.IntRange(0, 6).Draw(t, "silB"),
		NfA: rapid.IntRange(0, 6).Draw(t, "nfA"), NfB: rapid.IntRange(0, 6).Draw(t, "nfB"),
		Limit: rapid.SampledFrom([]int{0, 1, 7, 40, 100, 150, 300, 600, 1200, 5000}).Draw(t, "limit"),
	}
}

func c11wfRecv(i int) *nflogpb.Receiver {
	return &nflogpb.Receiver{GroupName: fmt.Sprintf("r%d", i%3), Integration: "webhook", Idx: uint32(i % 2)}
}

func execC11WF(sc c11wfScenario) (res pbt.Result) {
	dir, err := os.MkdirTemp("", "c11wf")
	if err != nil {
		res.Fail("harness", "%v", err)
		return res
	}
	defer os.RemoveAll(dir)
	compat.InitFromFlags(nopLog, featurecontrol.NoopFlags{})
	ctx := context.Background()
	ret := 120 * time.Hour
	silFile, nflFile := filepath.Join(dir, "silences"), filepath.Join(dir, "nflog")
	nkeys := sc.NfA + sc.NfB

	addSil := func(s *silence.Silences, from, n int) {
		now := time.Now()
		for i := from; i < from+n; i++ {
			x := &pb.Silence{MatcherSets: []*pb.MatcherSet{{Matchers: []*pb.Matcher{{Type: pb.Matcher_EQUAL, Name: "a", Pattern: fmt.Sprintf("value-%d", i)}}}},
				StartsAt: timestamppb.New(now), EndsAt: timestamppb.New(now.Add(time.Hour)), CreatedBy: "c11wf", Comment: fmt.Sprintf("silence number %d", i)}
			if err := s.Set(ctx, x); err != nil {
				res.Fail("harness", "Set: %v", err)
			}
		}
	}
	addNf := func(l *nflog.Log, from, n int) {
		for i := from; i < from+n; i++ {
			if err := l.Log(c11wfRecv(i), fmt.Sprintf("{}:{key=\"%d\"}", i), []uint64{uint64(i), 7}, []uint64{uint64(i) + 100}, nil, 0); err != nil {
				res.Fail("harness", "Log: %v", err)
			}
		}
	}
	queryNf := func(l *nflog.Log) []*nflogpb.Entry {
		out := make([]*nflogpb.Entry, nkeys)
		for i := 0; i < nkeys; i++ {
			es, err := l.Query(nflog.QReceiver(c11wfRecv(i)), nflog.QGroupKey(fmt.Sprintf("{}:{key=\"%d\"}", i)))
			if err == nil && len(es) == 1 {
				out[i] = es[0]
			}
		}
		return out
	}
	shutdown := func(s *silence.Silences, l *nflog.Log) {
		stopc := make(chan struct{})
		close(stopc)
		s.Maintenance(time.Hour, silFile, stopc, nil)
		l.Maintenance(time.Hour, nflFile, stopc, nil)
	}

	// first life: state A, good shutdown snapshot
	s1, err := c11NewSilences(ret, nil, silFile)
	if err != nil {
		res.Fail("harness", "%v", err)
		return res
	}
	l1, err := c11NewLog(ret, nil, nflFile)
	if err != nil {
		res.Fail("harness", "%v", err)
		return res
	}
	addSil(s1, 0, sc.SilA)
	addNf(l1, 0, sc.NfA)
	shutdown(s1, l1)
	silA, _ := c11QuerySil(s1)
	nfA := queryNf(l1)

	// second life: loads A, reaches B, its shutdown snapshot hits the write limit
	s2, err := c11NewSilences(ret, nil, silFile)
	if err != nil {
		res.Fail("harness", "second start: %v", err)
		return res
	}
	l2, err := c11NewLog(ret, nil, nflFile)
	if err != nil {
		res.Fail("harness", "second start: %v", err)
		return res
	}
	addSil(s2, sc.SilA, sc.SilB)
	addNf(l2, sc.NfA, sc.NfB)
	silB, _ := c11QuerySil(s2)
	nfB := queryNf(l2)
	var old syscall.Rlimit
	if err := syscall.Getrlimit(syscall.RLIMIT_FSIZE, &old); err != nil {
		res.Fail("harness", "getrlimit: %v", err)
		return res
	}
	if err := syscall.Setrlimit(syscall.RLIMIT_FSIZE, &syscall.Rlimit{Cur: uint64(sc.Limit), Max: old.Max}); err != nil {
		res.Fail("harness", "setrlimit: %v", err)
		return res
	}
	shutdown(s2, l2)
	if err := syscall.Setrlimit(syscall.RLIMIT_FSIZE, &old); err != nil {
		panic(fmt.Sprintf("cannot restore RLIMIT_FSIZE: %v", err))
	}

	// third life
	sizeOf := func(p string) int64 {
		if fi, err := os.Stat(p); err == nil {
			return fi.Size()
		}
		return -1
	}
	cut := false
	s3, err := c11NewSilences(ret, nil, silFile)
	if err != nil {
		res.Add(pbt.V("write-fault-refuses-to-start", "silences: the snapshot of the second process hit a write limit of %d bytes; the next start refuses the file (%d bytes): %v", sc.Limit, sizeOf(silFile), err).With("store", "silences"))
	} else {
		q, _ := c11QuerySil(s3)
		dA, dB := c11DiffSil(silA, q, nil), c11DiffSil(silB, q, nil)
		if dA != "" && dB != "" {
			res.Add(pbt.V("write-fault-torn-state", "silences: the snapshot of the second process hit a write limit of %d bytes; the next start holds %d silences: neither the previous snapshot (%d silences: %s) nor the new state (%d: %s)", sc.Limit, len(q), len(silA), dA, len(silB), dB).With("store", "silences"))
		}
		if dB != "" {
			cut = true
		}
	}
	l3, err := c11NewLog(ret, nil, nflFile)
	if err != nil {
		res.Add(pbt.V("write-fault-refuses-to-start", "nflog: the snapshot of the second process hit a write limit of %d bytes; the next start refuses the file (%d bytes): %v", sc.Limit, sizeOf(nflFile), err).With("store", "nflog"))
	} else {
		q := queryNf(l3)
		eq := func(a, b []*nflogpb.Entry) string {
			for i := range a {
				if (a[i] == nil) != (b[i] == nil) || (a[i] != nil && !proto.Equal(a[i], b[i])) {
					return fmt.Sprintf("key %d: want %v got %v", i, a[i], b[i])
				}
			}
			return ""
		}
		dA, dB := eq(nfA, q), eq(nfB, q)
		if dA != "" && dB != "" {
			res.Add(pbt.V("write-fault-torn-state", "nflog: the snapshot of the second process hit a write limit of %d bytes; the next start answers neither like the previous snapshot (%s) nor like the new state (%s)", sc.Limit, dA, dB).With("store", "nflog"))
		}
		if dB != "" {
			cut = true
		}
	}
	res.NonTrivial = cut || len(res.Violations) > 0
	if cut {
		res.Classes = append(res.Classes, "snapshot-cut-by-write-limit")
	} else {
		res.Classes = append(res.Classes, "snapshot-fitted")
	}
	return res
}

func TestC11WriteFault(t *testing.T) {
	pbt.Run(t, pbt.Spec[c11wfScenario]{
		Property: "C11", Name: "C11WriteFault",
		Rule: "real files, three process lives: state A (0-6 silences, 0-6 log entries) and a good shutdown snapshot; a restart that loads it, adds 0-6 + 0-6 and takes its shutdown snapshot through the real Maintenance while RLIMIT_FSIZE is 0..5000 bytes (the write is cut at the limit and fails with EFBIG, like ENOSPC on a full disk); the next start must succeed and hold exactly state A or state B for each store. Non-trivial: the limit cut at least one of the two snapshots.",
		Gen:  genC11WF, Exec: execC11WF,
	})
}

// C10WriteFault: the C11WriteFault histories judged for C10's "entries are kept until their expiry": when the snapshot
// of a process life fails part-way (disk full), the next life's notification log answers exactly like the previous
// good snapshot or exactly like the new state; it neither refuses to start nor holds a part of either.
func TestC10WriteFault(t *testing.T) {
	pbt.Run(t, pbt.Spec[c11wfScenario]{
		Property: "C10", Name: "C10WriteFault",
		Rule: "the scenarios of C11WriteFault (three process lives over real files; the second life's shutdown snapshot is written under a file-size limit of 0..5000 bytes). Judged here, for the notification log only: the third life starts, and its answers for every key equal those of the first life's snapshot or those of the second life's state (kinds write-fault-refuses-to-start, write-fault-torn-state with store=nflog). Non-trivial: as C11WriteFault.",
		Gen:  genC11WF,
		Exec: func(sc c11wfScenario) pbt.Result {
			res := execC11WF(sc)
			kept := res.Violations[:0]
			for _, v := range res.Violations {
				if v.Kind == "harness" || v.Facts["store"] == "nflog" {
					kept = append(kept, v)
				}
			}
			res.Violations = kept
			return res
		},
	})
}
