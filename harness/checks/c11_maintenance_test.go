package checks

import (
	"bytes"
	"context"
	"fmt"
	"os"
	"path/filepath"
	"sort"
	"strings"
	"testing"
	"testing/synctest"
	"time"

	"github.com/prometheus/client_golang/prometheus"
	"google.golang.org/protobuf/encoding/protodelim"
	"google.golang.org/protobuf/proto"
	"google.golang.org/protobuf/types/known/timestamppb"
	"pgregory.net/rapid"

	"github.com/prometheus/alertmanager/eventrecorder"
	"github.com/prometheus/alertmanager/featurecontrol"
	"github.com/prometheus/alertmanager/matcher/compat"
	"github.com/prometheus/alertmanager/nflog"
	"github.com/prometheus/alertmanager/nflog/nflogpb"
	"github.com/prometheus/alertmanager/silence"
	pb "github.com/prometheus/alertmanager/silence/silencepb"

	"verif/harness/pbt"
)

// C11Maintenance: the real Maintenance loops of silences and notification log (periodic snapshot +
// shutdown snapshot to real files) over a generated history in virtual time. "The next start loads
// exactly the state captured by the last completed snapshot": after a clean shutdown, or after a kill
// that follows at least one full maintenance interval without changes, the reloaded stores must equal
// the stores at that moment.

type c11mOp struct {
	Kind    string `json:"kind"` // new | extend | comment | expire | log | advance
	Sil     int    `json:"sil,omitempty"`
	EndOff  int    `json:"end_off,omitempty"`
	Comment string `json:"comment,omitempty"`
	Key     int    `json:"key,omitempty"` // log: group/receiver key
	Firing  int    `json:"firing,omitempty"`
	Dt      int    `json:"dt,omitempty"`
}

type c11mScenario struct {
	Interval int      `json:"interval"` // maintenance interval, seconds
	Ops      []c11mOp `json:"ops"`
	Clean    bool     `json:"clean"` // clean shutdown (final snapshot) or kill after a quiet maintenance interval
	// SizeLimit: --silences.max-silence-size-bytes for every process life (0: unlimited). Op "new-max" then creates
	// the largest silence the limit admits.
	SizeLimit int `json:"size_limit,omitempty"`
}

func genC11M(t *rapid.T) c11mScenario {
	sc := c11mScenario{Interval: rapid.SampledFrom([]int{60, 900}).Draw(t, "interval"), Clean: rapid.Bool().Draw(t, "clean"),
		SizeLimit: rapid.SampledFrom([]int{0, 0, 300, 1024}).Draw(t, "sizeLimit")}
	n := rapid.IntRange(2, 14).Draw(t, "n")
	created := 0
	for i := 0; i < n; i++ {
		k := rapid.IntRange(0, 9).Draw(t, "op")
		if created == 0 {
			k = 0
		}
		switch {
		case k < 2:
			// end offsets in seconds; -1: a "permanent" silence ending at the last instant the API can express
			// (9999-12-31T23:59:59Z), whose expiry (end + retention) lies beyond the range of protobuf timestamps
			op := c11mOp{Kind: "new", EndOff: rapid.SampledFrom([]int{300, 3600, 36000, -1}).Draw(t, "end")}
			if sc.SizeLimit > 0 && rapid.Bool().Draw(t, "max") {
				op.Kind = "new-max"
			}
			sc.Ops = append(sc.Ops, op)
			created++
		case k < 4:
			sc.Ops = append(sc.Ops, c11mOp{Kind: "extend", Sil: rapid.IntRange(0, created-1).Draw(t, "sil"), EndOff: rapid.SampledFrom([]int{600, 7200, 72000}).Draw(t, "end")})
		case k < 5:
			sc.Ops = append(sc.Ops, c11mOp{Kind: "comment", Sil: rapid.IntRange(0, created-1).Draw(t, "sil"), Comment: rapid.SampledFrom([]string{"c1", "c2", "c3"}).Draw(t, "c")})
		case k < 6:
			sc.Ops = append(sc.Ops, c11mOp{Kind: "expire", Sil: rapid.IntRange(0, created-1).Draw(t, "sil")})
		}
		// one edit in four is made on a cluster peer instead and reaches this instance as gossip (a newer version of a
		// silence this instance has written itself)
		if last := &sc.Ops[len(sc.Ops)-1]; k >= 2 && k < 6 && rapid.IntRange(0, 3).Draw(t, "onPeer") == 0 {
			last.Kind = "peer-" + last.Kind
		}
		switch {
		case k < 6:
		case k < 7:
			op := c11mOp{Kind: "log", Key: rapid.IntRange(0, 2).Draw(t, "key"), Firing: rapid.IntRange(0, 3).Draw(t, "firing")}
			if rapid.IntRange(0, 3).Draw(t, "merge") == 0 {
				// the entry arrives from a cluster peer (gossip) instead of being logged locally
				op.Kind = "log-merge"
			} else if rapid.IntRange(0, 5).Draw(t, "bad") == 0 {
				// receiver data that cannot be encoded (a string that is not valid UTF-8): Log must fail
				// without leaving anything behind
				op.Kind = "log-unencodable"
			}
			sc.Ops = append(sc.Ops, op)
		default:
			sc.Ops = append(sc.Ops, c11mOp{Kind: "advance", Dt: rapid.SampledFrom([]int{5, 61, 200, 901, 1900}).Draw(t, "dt")})
		}
	}
	return sc
}

func execC11M(sc c11mScenario) (res pbt.Result) {
	dir, err := os.MkdirTemp("", "c11m")
	if err != nil {
		res.Fail("harness", "%v", err)
		return res
	}
	defer os.RemoveAll(dir)
	silFile, nflFile := filepath.Join(dir, "silences"), filepath.Join(dir, "nflog")
	changedAfterSnapshot := false
	sizeLimited := false
	farEnd := false
	mergedOnly := false
	peerEdited := false
	synctest.Test(pbt.T(), func(*testing.T) {
		compat.InitFromFlags(nopLog, featurecontrol.NoopFlags{})
		ctx := context.Background()
		ret := 120 * time.Hour
		limits := silence.Limits{MaxSilences: func() int { return 0 }, MaxSilenceSizeBytes: func() int { return sc.SizeLimit }}
		sil, err := silence.New(silence.Options{SnapshotFile: silFile, Retention: ret, Logger: nopLog, Metrics: prometheus.NewRegistry(), EventRecorder: eventrecorder.NopRecorder(), Limits: limits})
		if err != nil {
			res.Fail("harness", "%v", err)
			return
		}
		nfl, err := nflog.New(nflog.Options{SnapshotFile: nflFile, Retention: ret, Logger: nopLog, Metrics: prometheus.NewRegistry()})
		if err != nil {
			res.Fail("harness", "%v", err)
			return
		}
		// a cluster peer that authors log entries; its broadcasts are what gossip would deliver
		peer, err := nflog.New(nflog.Options{Retention: ret, Logger: nopLog, Metrics: prometheus.NewRegistry()})
		if err != nil {
			res.Fail("harness", "%v", err)
			return
		}
		var peerWire [][]byte
		peer.SetBroadcast(func(b []byte) { peerWire = append(peerWire, append([]byte(nil), b...)) })
		// ... and one that holds the same silences (it gets every broadcast of this instance) and edits them
		silPeer, err := silence.New(silence.Options{Retention: ret, Logger: nopLog, Metrics: prometheus.NewRegistry(), EventRecorder: eventrecorder.NopRecorder(), Limits: limits})
		if err != nil {
			res.Fail("harness", "%v", err)
			return
		}
		var silWire [][]byte
		silPeer.SetBroadcast(func(b []byte) { silWire = append(silWire, append([]byte(nil), b...)) })
		sil.SetBroadcast(func(b []byte) {
			if err := silPeer.Merge(append([]byte(nil), b...)); err != nil {
				res.Fail("harness", "silence peer Merge: %v", err)
			}
		})
		stopc := make(chan struct{})
		done := make(chan struct{}, 2)
		iv := time.Duration(sc.Interval) * time.Second
		go func() { sil.Maintenance(iv, silFile, stopc, nil); done <- struct{}{} }()
		go func() { nfl.Maintenance(iv, nflFile, stopc, nil); done <- struct{}{} }()
		var ids []string
		start := time.Now()
		lastChange := start
		for i, op := range sc.Ops {
			time.Sleep(time.Millisecond)
			now := time.Now()
			switch op.Kind {
			case "advance":
				time.Sleep(time.Duration(op.Dt)*time.Second - time.Millisecond)
				synctest.Wait()
			case "new":
				s := &pb.Silence{MatcherSets: []*pb.MatcherSet{{Matchers: []*pb.Matcher{{Type: pb.Matcher_EQUAL, Name: "a", Pattern: fmt.Sprintf("v%d", i)}}}},
					StartsAt: timestamppb.New(now), EndsAt: timestamppb.New(now.Add(time.Duration(op.EndOff) * time.Second)), CreatedBy: "c11m", Comment: "c0"}
				if op.EndOff < 0 {
					s.EndsAt = timestamppb.New(time.Date(9999, 12, 31, 23, 59, 59, 0, time.UTC))
					farEnd = true
				}
				if err := sil.Set(ctx, s); err != nil {
					res.Fail("harness", "Set: %v", err)
				} else {
					ids = append(ids, s.Id)
					lastChange = now
				}
			case "new-max":
				// the largest silence the size limit admits: lengthen the comment until Set refuses
				var okS *pb.Silence
				for n := sc.SizeLimit; n >= 0; n-- {
					s := &pb.Silence{MatcherSets: []*pb.MatcherSet{{Matchers: []*pb.Matcher{{Type: pb.Matcher_EQUAL, Name: "a", Pattern: fmt.Sprintf("v%d", i)}}}},
						StartsAt: timestamppb.New(now), EndsAt: timestamppb.New(now.Add(time.Duration(op.EndOff) * time.Second)), CreatedBy: "c11m", Comment: strings.Repeat("c", n)}
					if op.EndOff < 0 {
						s.EndsAt = timestamppb.New(time.Date(9999, 12, 31, 23, 59, 59, 0, time.UTC))
						farEnd = true
					}
					if err := sil.Set(ctx, s); err == nil {
						okS = s
						break
					}
				}
				if okS == nil {
					res.Fail("harness", "no silence fits the size limit %d", sc.SizeLimit)
				} else {
					ids = append(ids, okS.Id)
					lastChange = now
					sizeLimited = true
				}
			case "extend", "comment":
				cur, err := sil.QueryOne(ctx, silence.QIDs(ids[op.Sil%len(ids)]))
				if err != nil || now.After(cur.EndsAt.AsTime()) {
					continue
				}
				n := proto.Clone(cur).(*pb.Silence)
				if op.Kind == "extend" {
					n.EndsAt = timestamppb.New(now.Add(time.Duration(op.EndOff) * time.Second))
				} else {
					n.Comment = op.Comment
				}
				// an in-place edit (same matchers, same start): the id must not change
				if err := sil.Set(ctx, n); err == nil {
					lastChange = now
					if n.Id != cur.Id {
						ids = append(ids, n.Id)
					}
				}
			case "expire":
				if err := sil.Expire(ctx, ids[op.Sil%len(ids)]); err == nil {
					lastChange = now
				}
			case "peer-extend", "peer-comment", "peer-expire":
				id := ids[op.Sil%len(ids)]
				silWire = silWire[:0]
				if op.Kind == "peer-expire" {
					if err := silPeer.Expire(ctx, id); err != nil {
						continue
					}
				} else {
					cur, err := silPeer.QueryOne(ctx, silence.QIDs(id))
					if err != nil || now.After(cur.EndsAt.AsTime()) {
						continue
					}
					n := proto.Clone(cur).(*pb.Silence)
					if op.Kind == "peer-extend" {
						n.EndsAt = timestamppb.New(now.Add(time.Duration(op.EndOff) * time.Second))
					} else {
						n.Comment = op.Comment
					}
					if err := silPeer.Set(ctx, n); err != nil || n.Id != cur.Id {
						continue // (a replacing edit on the peer makes a silence this instance has not written: not this op's business)
					}
				}
				for _, b := range silWire {
					if err := sil.Merge(b); err != nil {
						res.Fail("harness", "Merge of the peer's silence update: %v", err)
					}
				}
				lastChange = now
				peerEdited = true
			case "log-unencodable":
				before, _ := nfl.MarshalBinary()
				st := nflog.NewStore(nil)
				st.SetStr("thread", "bad\xffvalue")
				err := nfl.Log(&nflogpb.Receiver{GroupName: "r", Integration: "webhook", Idx: uint32(op.Key)}, fmt.Sprintf("{}:{g=\"%d\"}", op.Key), []uint64{1}, nil, st, time.Hour)
				after, _ := nfl.MarshalBinary()
				if err != nil && !c11mSameRecords(before, after) {
					res.Add(pbt.V("failed-log-changed-state", "Log returned %v but the notification log changed", err))
				}
				if err == nil {
					lastChange = now
				}
			case "log-merge":
				var firing []uint64
				for j := 0; j < op.Firing; j++ {
					firing = append(firing, uint64(100*i+j))
				}
				peerWire = peerWire[:0]
				if err := peer.Log(&nflogpb.Receiver{GroupName: "r", Integration: "webhook", Idx: uint32(op.Key)}, fmt.Sprintf("{}:{g=\"%d\"}", op.Key), firing, nil, nil, time.Hour); err != nil || len(peerWire) == 0 {
					res.Fail("harness", "peer Log: %v", err)
				} else if err := nfl.Merge(peerWire[len(peerWire)-1]); err != nil {
					res.Fail("harness", "Merge: %v", err)
				}
				lastChange = now
				mergedOnly = true
			case "log":
				var firing []uint64
				for j := 0; j < op.Firing; j++ {
					firing = append(firing, uint64(100*i+j))
				}
				if err := nfl.Log(&nflogpb.Receiver{GroupName: "r", Integration: "webhook", Idx: uint32(op.Key)}, fmt.Sprintf("{}:{g=\"%d\"}", op.Key), firing, nil, nil, time.Hour); err != nil {
					res.Fail("harness", "Log: %v", err)
				}
				lastChange = now
			}
		}
		// did a periodic snapshot run between start and the last change? (non-triviality: the final file must
		// replace or follow an earlier one)
		if time.Since(start) > iv && lastChange.Sub(start) > iv {
			changedAfterSnapshot = true
		}
		if !sc.Clean {
			// a kill: give the maintenance loops a full quiet interval (plus one, so that a tick certainly lies after the last change)
			time.Sleep(2*iv + time.Second)
			synctest.Wait()
		}
		// the state at this moment
		wantSil, _, err := sil.Query(ctx)
		if err != nil {
			res.Fail("harness", "Query: %v", err)
		}
		wantNfl, _ := nfl.MarshalBinary()
		var silCopy, nflCopy string
		if !sc.Clean {
			// the files as they are now are what a killed process leaves behind
			silCopy, nflCopy = silFile+".killed", nflFile+".killed"
			for src, dst := range map[string]string{silFile: silCopy, nflFile: nflCopy} {
				b, err := os.ReadFile(src)
				if err != nil {
					res.Add(pbt.V("snapshot-missing", "after %s and a quiet maintenance interval the snapshot file %s does not exist: %v", time.Since(start), filepath.Base(src), err))
					b = nil
				}
				os.WriteFile(dst, b, 0o644)
			}
		}
		close(stopc)
		<-done
		<-done
		if sc.Clean {
			silCopy, nflCopy = silFile, nflFile
		}
		// next start
		sil2, err := silence.New(silence.Options{SnapshotFile: silCopy, Retention: ret, Logger: nopLog, Metrics: prometheus.NewRegistry(), EventRecorder: eventrecorder.NopRecorder(), Limits: limits})
		if err != nil {
			res.Add(pbt.V("start-refused", "silence.New on the snapshot it wrote itself: %v", err))
			return
		}
		nfl2, err := nflog.New(nflog.Options{SnapshotFile: nflCopy, Retention: ret, Logger: nopLog, Metrics: prometheus.NewRegistry()})
		if err != nil {
			res.Add(pbt.V("start-refused", "nflog.New on the snapshot it wrote itself: %v", err))
			return
		}
		gotSil, _, _ := sil2.Query(ctx)
		key := func(s []*pb.Silence) map[string]*pb.Silence {
			m := map[string]*pb.Silence{}
			for _, x := range s {
				m[x.Id] = x
			}
			return m
		}
		w, g := key(wantSil), key(gotSil)
		var idsSorted []string
		for id := range w {
			idsSorted = append(idsSorted, id)
		}
		sort.Strings(idsSorted)
		for _, id := range idsSorted {
			if g[id] == nil {
				res.Add(pbt.V("silence-lost", "silence %s (comment %q, end %s) is missing after the restart (%s)", id, w[id].Comment, w[id].EndsAt.AsTime().Format("15:04:05"), map[bool]string{true: "clean shutdown", false: "kill after a quiet maintenance interval"}[sc.Clean]))
			} else if !proto.Equal(w[id], g[id]) {
				res.Add(pbt.V("silence-stale", "silence %s after the restart: end %s comment %q updated %s; before: end %s comment %q updated %s", id,
					g[id].EndsAt.AsTime().Format("15:04:05.000"), g[id].Comment, g[id].UpdatedAt.AsTime().Format("15:04:05.000"),
					w[id].EndsAt.AsTime().Format("15:04:05.000"), w[id].Comment, w[id].UpdatedAt.AsTime().Format("15:04:05.000")))
			}
		}
		for id := range g {
			if w[id] == nil {
				res.Add(pbt.V("silence-resurrected", "silence %s exists after the restart but not before", id))
			}
		}
		gotNfl, _ := nfl2.MarshalBinary()
		// the statement speaks of unexpired entries: the shutdown snapshot collects expired ones first
		wantNfl, gotNfl = c11mUnexpired(wantNfl, time.Now()), c11mUnexpired(gotNfl, time.Now())
		if !c11mSameRecords(wantNfl, gotNfl) {
			res.Add(pbt.V("nflog-differs", "notification log after the restart differs from the one before (%d vs %d bytes)", len(gotNfl), len(wantNfl)))
		}
	})
	res.NonTrivial = changedAfterSnapshot
	if sc.Clean {
		res.Class("clean-shutdown")
	} else {
		res.Class("kill-after-quiet-interval")
	}
	if changedAfterSnapshot {
		res.Class("changed-after-a-periodic-snapshot")
	}
	if sizeLimited {
		res.Class("silence-at-the-size-limit")
	}
	if farEnd {
		res.Class("silence-ending-9999-12-31")
	}
	if mergedOnly {
		res.Class("log-entry-received-from-a-peer")
	}
	if peerEdited {
		res.Class("silence-edited-on-peer")
	}
	return res
}

// c11mUnexpired re-encodes the records of a notification-log blob whose expires_at lies after now.
func c11mUnexpired(b []byte, now time.Time) []byte {
	var out bytes.Buffer
	r := bytes.NewReader(b)
	for {
		var e nflogpb.MeshEntry
		if err := protodelim.UnmarshalFrom(r, &e); err != nil {
			break
		}
		if e.ExpiresAt.AsTime().After(now) {
			protodelim.MarshalTo(&out, &e)
		}
	}
	return out.Bytes()
}

// c11mSameRecords compares two length-delimited blobs as sets of records.
func c11mSameRecords(a, b []byte) bool {
	split := func(x []byte) []string {
		var out []string
		for len(x) > 0 {
			// varint length prefix
			n, k := 0, 0
			for shift := 0; k < len(x); shift += 7 {
				c := x[k]
				k++
				n |= int(c&0x7f) << shift
				if c < 0x80 {
					break
				}
			}
			if k+n > len(x) {
				return append(out, "torn")
			}
			out = append(out, string(x[k:k+n]))
			x = x[k+n:]
		}
		sort.Strings(out)
		return out
	}
	sa, sb := split(a), split(b)
	if len(sa) != len(sb) {
		return false
	}
	for i := range sa {
		if sa[i] != sb[i] {
			return false
		}
	}
	return true
}

func TestC11Maintenance(t *testing.T) {
	pbt.Run(t, pbt.Spec[c11mScenario]{
		Property: "C11", Name: "C11Maintenance",
		Rule: "the real Maintenance loops of silences and notification log (periodic + shutdown snapshots into real files) over 2-14 generated ops in virtual time: new silence, in-place edits (extend end, comment), expire, Log, advance across maintenance ticks; then either a clean shutdown or a kill after two quiet maintenance intervals; a fresh silence.New / nflog.New on the files must hold exactly the silences (full proto equality) and log records the stores held at that moment. Non-trivial: a change was made after at least one periodic snapshot had already been written.",
		Gen:  genC11M, Exec: execC11M,
	})
}

// C12Restart: the histories of C11Maintenance judged for C12's lifecycle clauses across a process restart through the
// real maintenance loops: an expiry or an in-place edit made before the shutdown must still be in force afterwards
// (an expired silence never becomes active again under its id; an edit keeps the id and its new content).
func TestC12Restart(t *testing.T) {
	pbt.Run(t, pbt.Spec[c11mScenario]{
		Property: "C12", Name: "C12Restart",
		Rule: "the scenarios of C11Maintenance (create / extend / comment / expire / advance under the real Maintenance loops, then a clean shutdown or a kill after a quiet interval, then a start from the snapshot file). Judged here: every silence is present after the restart with exactly the end, comment and update time it had before (kinds silence-lost, silence-stale, silence-resurrected, start-refused). Non-trivial: a silence changed after a periodic snapshot had been written.",
		Gen:  genC11M,
		Exec: func(sc c11mScenario) pbt.Result {
			res := execC11M(sc)
			kept := res.Violations[:0]
			for _, v := range res.Violations {
				switch v.Kind {
				case "silence-lost", "silence-stale", "silence-resurrected", "start-refused", "harness":
					kept = append(kept, v)
				}
			}
			res.Violations = kept
			return res
		},
	})
}

// C10Restart: the histories of C11Maintenance judged for C10 across a restart through the real maintenance loops:
// every unexpired entry, whether logged locally or received from a peer, is held again after the restart.
func TestC10Restart(t *testing.T) {
	pbt.Run(t, pbt.Spec[c11mScenario]{
		Property: "C10", Name: "C10Restart",
		Rule: "the scenarios of C11Maintenance (local Log calls, entries merged from a peer's gossip, an unencodable Log, advances under the real Maintenance loops, then a clean shutdown or a kill after a quiet interval, then a start from the snapshot file). Judged here: the unexpired records of the notification log are the same before and after the restart (kinds nflog-differs, start-refused, failed-log-changed-state). Non-trivial: the log changed after a periodic snapshot had been written.",
		Gen:  genC11M,
		Exec: func(sc c11mScenario) pbt.Result {
			res := execC11M(sc)
			kept := res.Violations[:0]
			for _, v := range res.Violations {
				switch v.Kind {
				case "nflog-differs", "start-refused", "failed-log-changed-state", "harness":
					kept = append(kept, v)
				}
			}
			res.Violations = kept
			return res
		},
	})
}

// C08Restart: "all crash/restart points of instances (with and without their snapshot)": a later-positioned instance
// stays silent because it merged the sender's log entry; after a restart from its own snapshot it must still hold that
// entry (the sender may be down, so nobody can hand it over again), or it repeats the notification inside
// repeat_interval. The C11Maintenance histories judged for exactly that: an unexpired entry received from a peer and
// covered by a snapshot opportunity (periodic or shutdown) is held again after the restart.
func TestC08Restart(t *testing.T) {
	pbt.Run(t, pbt.Spec[c11mScenario]{
		Property: "C08", Name: "C08Restart",
		Rule: "the scenarios of C11Maintenance (local Log calls, entries merged from a peer's gossip, advances under the real Maintenance loops with their periodic snapshots, then a clean shutdown or a kill after a quiet interval, then a start from the snapshot file). Judged here: the unexpired records of the notification log, those received from a peer included, are the same before and after the restart (kinds nflog-differs, start-refused). Non-trivial: the log changed after a periodic snapshot had been written.",
		Gen:  genC11M,
		Exec: func(sc c11mScenario) pbt.Result {
			res := execC11M(sc)
			kept := res.Violations[:0]
			for _, v := range res.Violations {
				switch v.Kind {
				case "nflog-differs", "start-refused", "harness":
					kept = append(kept, v)
				}
			}
			res.Violations = kept
			return res
		},
	})
}

// C04Restart: the same histories judged for C04 ("… never re-notified within repeat_interval … across snapshot reload"):
// what decides whether an unchanged group is notified again is the notification-log entry, and a restarted instance
// has only what its snapshot held; an entry it logged itself or merged from a peer before a snapshot opportunity must
// be there again after the restart, or the first flush after it repeats the notification.
func TestC04Restart(t *testing.T) {
	pbt.Run(t, pbt.Spec[c11mScenario]{
		Property: "C04", Name: "C04Restart",
		Rule: "the scenarios of C11Maintenance (local Log calls, entries merged from a peer's gossip, advances under the real Maintenance loops with their periodic snapshots, then a clean shutdown or a kill after a quiet interval, then a start from the snapshot file), judged for C04: every unexpired notification-log record covered by a snapshot opportunity, whether logged here or received from a peer, is held again after the restart (kinds nflog-differs, start-refused). Non-trivial: the log changed after a periodic snapshot had been written.",
		Gen:  genC11M,
		Exec: func(sc c11mScenario) pbt.Result {
			res := execC11M(sc)
			kept := res.Violations[:0]
			for _, v := range res.Violations {
				switch v.Kind {
				case "nflog-differs", "start-refused", "harness":
					kept = append(kept, v)
				}
			}
			res.Violations = kept
			return res
		},
	})
}
