package checks

// C03GCRace: "a target alert is inhibited exactly as long as a matching source alert fires", when a source alert fires
// again while the inhibitor's cache is collecting its resolved version. The cache's GC removes resolved alerts under
// its lock and informs the rule afterwards (the rule then drops the alert from its index of sources); the goroutine
// that runs the GC is parked between the two steps (hook point store.gc.collected) while the new, firing version of
// the source arrives and is processed. After the GC goroutine has been released the target must be inhibited: the
// source fires.

import (
	"context"
	"fmt"
	"testing"
	"testing/synctest"
	"time"

	"github.com/prometheus/client_golang/prometheus"
	"github.com/prometheus/common/model"
	"pgregory.net/rapid"

	"github.com/prometheus/alertmanager/alert"
	amcommoncfg "github.com/prometheus/alertmanager/config/common"
	"github.com/prometheus/alertmanager/eventrecorder"
	"github.com/prometheus/alertmanager/featurecontrol"
	"github.com/prometheus/alertmanager/inhibit"
	"github.com/prometheus/alertmanager/pkg/labels"
	"github.com/prometheus/alertmanager/provider/mem"
	"github.com/prometheus/alertmanager/verifhook"

	"verif/harness/pbt"
)

type c03gcScenario struct {
	Sources   int  `json:"sources"`    // source alerts sharing the equal labels (1-3); the first one flaps
	WithEqual bool `json:"with_equal"` // the rule has equal: [cluster]
	Park      bool `json:"park"`       // park the GC goroutine between its sweep and its callback while the source re-fires
	OthersEnd bool `json:"others_end"` // the other sources have resolved too by then
}

func genC03GCRace(t *rapid.T) c03gcScenario {
	return c03gcScenario{Sources: rapid.IntRange(1, 3).Draw(t, "sources"), WithEqual: rapid.Bool().Draw(t, "withEqual"), Park: rapid.IntRange(0, 3).Draw(t, "park") != 0, OthersEnd: rapid.Bool().Draw(t, "othersEnd")}
}

func execC03GCRace(sc c03gcScenario) (res pbt.Result) {
	parkedOnce := false
	synctest.Test(pbt.T(), func(*testing.T) {
		ctx, cancel := context.WithCancel(context.Background())
		defer cancel()
		alerts, err := mem.NewAlerts(ctx, 24*time.Hour, 0, nil, nopLog, eventrecorder.NopRecorder(), prometheus.NewRegistry(), featurecontrol.NoopFlags{})
		if err != nil {
			res.Fail("harness", "mem.NewAlerts: %v", err)
			return
		}
		defer alerts.Close()
		eq := func(n, v string) amcommoncfg.Matchers {
			m, _ := labels.NewMatcher(labels.MatchEqual, n, v)
			return amcommoncfg.Matchers{m}
		}
		rule := amcommoncfg.InhibitRule{SourceMatchers: eq("kind", "source"), TargetMatchers: eq("kind", "target")}
		if sc.WithEqual {
			rule.Equal = []string{"cluster"}
		}
		// the hook: goroutines reaching store.gc.collected while armed wait for the gate
		type parked struct{ gate chan struct{} }
		var waiting []*parked
		armed := false
		verifhook.Set(func(name string, _ any) {
			if name != "store.gc.collected" || !armed {
				return
			}
			p := &parked{gate: make(chan struct{})}
			waiting = append(waiting, p)
			<-p.gate
		})
		defer verifhook.Set(nil)
		ih := inhibit.NewInhibitor(alerts, []amcommoncfg.InhibitRule{rule}, nopLog, eventrecorder.NopRecorder())
		go ih.Run()
		ih.WaitForLoading()
		defer func() {
			armed = false
			for _, p := range waiting {
				select {
				case <-p.gate:
				default:
					close(p.gate)
				}
			}
			ih.Stop()
			synctest.Wait()
		}()
		t0 := time.Now()
		src := func(i int) model.LabelSet {
			return model.LabelSet{"kind": "source", "cluster": "c", "n": model.LabelValue(fmt.Sprint(i))}
		}
		target := model.LabelSet{"kind": "target", "cluster": "c"}
		put := func(ls model.LabelSet, end time.Time) {
			now := time.Now()
			if err := alerts.Put(ctx, &alert.Alert{Alert: model.Alert{Labels: ls, StartsAt: t0, EndsAt: end}, UpdatedAt: now}); err != nil {
				res.Fail("harness", "Put: %v", err)
			}
			synctest.Wait()
		}
		// all sources fire; the flapping one (0) until minute 2, the others until minute 3 or for a day
		put(src(0), t0.Add(2*time.Minute))
		for i := 1; i < sc.Sources; i++ {
			end := t0.Add(24 * time.Hour)
			if sc.OthersEnd {
				end = t0.Add(3 * time.Minute)
			}
			put(src(i), end)
		}
		put(target, t0.Add(24*time.Hour))
		mutes := func() bool { return ih.Mutes(context.Background(), target) }
		if !mutes() {
			res.Add(pbt.V("missed-inhibition", "the target is not inhibited while %d matching source(s) fire", sc.Sources))
			return
		}
		// the inhibitor's caches collect resolved alerts every 15 minutes: go to just before that sweep
		time.Sleep(14*time.Minute + 59*time.Second)
		synctest.Wait()
		armed = sc.Park
		time.Sleep(2 * time.Second) // the sweep runs; with Park its goroutine now waits between sweep and callback
		synctest.Wait()
		if sc.Park && len(waiting) > 0 {
			parkedOnce = true
		}
		// the flapping source fires again
		put(src(0), time.Now().Add(24*time.Hour))
		armed = false
		for _, p := range waiting {
			close(p.gate)
		}
		waiting = nil
		synctest.Wait()
		time.Sleep(time.Second)
		synctest.Wait()
		if !mutes() {
			res.Add(pbt.V("missed-inhibition", "source %v resolved at minute 2, was collected from the rule's cache by the sweep of minute 15 and fired again %s: the target %v is not inhibited although the source fires (GC goroutine parked between sweep and callback: %v)",
				src(0), map[bool]string{true: "while that sweep's callback was still pending", false: "right after that sweep"}[sc.Park], target, sc.Park).With("gc_parked", sc.Park))
		}
	})
	res.NonTrivial = parkedOnce
	return res
}

func TestC03GCRace(t *testing.T) {
	pbt.Run(t, pbt.Spec[c03gcScenario]{
		Property: "C03", Name: "C03GCRace",
		Rule: "a real provider and inhibitor (one rule, with or without equal: [cluster]) in a bubble: 1-3 source alerts and a target fire; the first source resolves at minute 2 (the others keep firing or resolve at minute 3); at minute 15 the inhibitor's source cache collects resolved alerts; in three cases of four the goroutine doing so is parked at the hook point between the sweep and the callback that drops collected alerts from the rule's index while the first source fires again and is processed, then released. Afterwards the target is inhibited. Non-trivial: a GC goroutine was parked at that point.",
		Gen:  genC03GCRace, Exec: execC03GCRace,
	})
}
