package checks

import (
	"testing"
	"testing/synctest"

	"verif/harness/pbt"
)

// bubble runs f inside a fresh synctest bubble (virtual time starting at
// 2000-01-01T00:00:00Z). Every goroutine started inside must have exited when f
// returns. Must only be called from Exec (never draw from rapid inside).
func bubble(f func()) {
	synctest.Test(pbt.T(), func(*testing.T) { f() })
}
