package checks

import (
	"encoding/json"
	"net/http"
	"net/http/httptest"
	"runtime"
	"sync"
	"sync/atomic"
	"testing"

	"github.com/prometheus/client_golang/prometheus"
	"pgregory.net/rapid"

	apiv2 "github.com/prometheus/alertmanager/api/v2"
	"github.com/prometheus/alertmanager/config"

	"verif/harness/gen"
	"verif/harness/pbt"
)

// C17StatusConcurrent: configuration reloads (api.Update, as the reload path calls it) race with GET /status
// requests on the real Go scheduler. The updater is the only writer, so a request it starts after an Update has
// returned must show exactly the text of the configuration just installed; every response of the concurrent readers
// must be the text of one of the installed configurations (never a torn or foreign text).

type c17scScenario struct {
	YAML    []string `json:"yaml"`    // configurations installed in turn
	Gaps    []int    `json:"gaps"`    // scheduler yields between update i and the next one
	Readers int      `json:"readers"` // concurrent GET /status goroutines
	Rounds  int      `json:"rounds"`
}

func c17GenStatusConcurrent(t *rapid.T) c17scScenario {
	sc := c17scScenario{Readers: rapid.IntRange(1, 4).Draw(t, "readers"), Rounds: rapid.IntRange(5, 30).Draw(t, "rounds")}
	n := rapid.IntRange(2, 5).Draw(t, "nconfigs")
	for i := 0; i < n; i++ {
		out := gen.C17Config(t, gen.C17Opts{UTF8: true})
		sc.YAML = append(sc.YAML, out.YAML)
		sc.Gaps = append(sc.Gaps, rapid.SampledFrom([]int{0, 0, 1, 2, 5, 20}).Draw(t, "gap"))
	}
	return sc
}

func c17StatusGet(api *apiv2.API) (string, int) {
	rec := httptest.NewRecorder()
	api.Handler.ServeHTTP(rec, httptest.NewRequest(http.MethodGet, "/api/v2/status", nil))
	if rec.Code != http.StatusOK {
		return rec.Body.String(), rec.Code
	}
	var st struct {
		Config struct {
			Original *string `json:"original"`
		} `json:"config"`
	}
	if err := json.Unmarshal(rec.Body.Bytes(), &st); err != nil || st.Config.Original == nil {
		return rec.Body.String(), -1
	}
	return *st.Config.Original, 200
}

func c17ExecStatusConcurrent(sc c17scScenario) (res pbt.Result) {
	c17SetMode("fallback")
	var cfgs []*config.Config
	var texts []string
	known := map[string]bool{}
	for _, y := range sc.YAML {
		c, err, pnc := c17Load(y)
		if pnc != nil || err != nil {
			continue // loading is C17LoadBytes/C17Structured's business
		}
		s, p := c17String(c)
		if p != nil {
			continue
		}
		cfgs, texts = append(cfgs, c), append(texts, s)
		known[s] = true
	}
	distinct := len(known)
	res.Classes = append(res.Classes, "configs:"+string(rune('0'+len(cfgs))))
	if len(cfgs) < 2 || distinct < 2 {
		return res
	}
	api, err := apiv2.NewAPI(nil, nil, nil, nil, nil, nopLog, prometheus.NewRegistry())
	if err != nil {
		res.Fail("harness", "NewAPI: %v", err)
		return res
	}
	api.Update(cfgs[0], nil)
	var stop, failed atomic.Bool
	var viol []pbt.Violation // guarded by mtx; moved into res after the goroutines are done
	var mtx sync.Mutex
	var wg sync.WaitGroup
	reads := int64(0)
	for r := 0; r < sc.Readers; r++ {
		wg.Go(func() {
			for !stop.Load() {
				got, code := c17StatusGet(api)
				atomic.AddInt64(&reads, 1)
				if code != 200 || !known[got] {
					mtx.Lock()
					if len(viol) < 3 {
						viol = append(viol, pbt.V("status-foreign-text", "GET /status during reloads answered HTTP %d with a text that is none of the %d installed configurations: %.300q", code, len(cfgs), got))
					}
					mtx.Unlock()
					failed.Store(true)
					return
				}
			}
		})
	}
	checked := 0
	for round := 0; round < sc.Rounds && !failed.Load(); round++ {
		for i := range cfgs {
			api.Update(cfgs[i], nil)
			for g := 0; g < sc.Gaps[i%len(sc.Gaps)]; g++ {
				runtime.Gosched()
			}
			// every other update is followed by the updater's own request
			if (i+round)%2 == 0 {
				continue
			}
			got, code := c17StatusGet(api)
			checked++
			if code != 200 || got != texts[i] {
				which := -1
				for j, s := range texts {
					if s == got {
						which = j
					}
				}
				mtx.Lock()
				viol = append(viol, pbt.V("status-stale-config", "round %d: after Update(config %d) returned, GET /status (HTTP %d) serves the text of configuration %d (-1: none of them) although no other update ran", round, i, code, which))
				mtx.Unlock()
				failed.Store(true)
				break
			}
		}
	}
	stop.Store(true)
	wg.Wait()
	for _, v := range viol {
		res.Add(v)
	}
	res.NonTrivial = checked > 0 && atomic.LoadInt64(&reads) > int64(checked)
	if res.NonTrivial {
		res.Classes = append(res.Classes, "concurrent-reads-outnumber-checks")
	}
	return res
}

func TestC17StatusConcurrent(t *testing.T) {
	pbt.Run(t, pbt.Spec[c17scScenario]{
		Property: "C17", Name: "C17StatusConcurrent",
		Rule: "2-5 generated configurations are installed in turn (api.Update, the call the reload path makes) for 5-30 rounds with 0-20 scheduler yields between updates, while 1-4 goroutines request GET /api/v2/status on the real scheduler. The updater is the only writer: its own request after an Update returned must show exactly that configuration's String(); every concurrent response must be the text of one of the installed configurations. Built with -race in the thorough tier. Non-trivial: at least one post-update check and more concurrent reads than checks.",
		Gen:  c17GenStatusConcurrent, Exec: c17ExecStatusConcurrent,
	})
}
