package checks

import (
	"fmt"
	"sort"
	"testing"
	"time"

	"google.golang.org/protobuf/proto"
	"google.golang.org/protobuf/types/known/timestamppb"
	"pgregory.net/rapid"

	pb "github.com/prometheus/alertmanager/silence/silencepb"

	"verif/harness/pbt"
	"verif/harness/ref"
)

// ------------------------------------------------------------------ scenario

type c09AuthorStep struct {
	AtMs int64    `json:"at_ms"`
	Op   c09APIOp `json:"op"`
}

// c09Hand is a hand-built version, as another (possibly older or differently
// configured) peer could have authored it: same id and matcher sets as an
// existing silence (the API never changes matchers in place) or one of the
// hand ids; own updated_at, start, end, retention, comment, annotations.
type c09Hand struct {
	OnAuthored bool              `json:"on_authored"`
	Pick       int               `json:"pick"`
	UpdMs      int64             `json:"upd_ms"`
	StartMs    int64             `json:"start_ms"`
	DurMs      int64             `json:"dur_ms"`
	RetMs      int64             `json:"ret_ms"`
	Comment    string            `json:"comment,omitempty"`
	Creator    string            `json:"creator,omitempty"`
	Ann        map[string]string `json:"ann,omitempty"`
	Legacy     bool              `json:"legacy,omitempty"`
	// NearNs != 0: updated_at = (updated_at of an existing version of the same
	// id, chosen by NearPick) + NearNs nanoseconds instead of UpdMs — update
	// times that differ by a single nanosecond are still distinct.
	NearNs   int64 `json:"near_ns,omitempty"`
	NearPick int   `json:"near_pick,omitempty"`
	// SetsShift != 0 (hand ids only): this version carries the matcher sets of another hand id, so versions
	// of one id differ in their matchers (nothing on the wire forbids it; the newest version's matchers count).
	SetsShift int `json:"sets_shift,omitempty"`
}

type c09Step struct {
	GapMs int64     `json:"gap_ms,omitempty"` // family B: time before the step
	Side  int       `json:"side"`
	Kind  string    `json:"kind"`            // deliver | local | state | gc
	Picks []int     `json:"picks,omitempty"` // deliver: versions (index mod universe size); first of an id wins inside a blob
	Op    *c09APIOp `json:"op,omitempty"`    // local
	From  int       `json:"from,omitempty"`  // state: 0 other side, 1 authoring instance
}

type c09Drain struct {
	Prio  []int  `json:"prio"` // delivery order of what the side has not seen yet: by (Prio[i mod len], i)
	Cuts  []bool `json:"cuts"` // Cuts[j mod len] = blob boundary after the j-th item
	GapMs int64  `json:"gap_ms,omitempty"`
}

type c09Replay struct {
	GapMs int64  `json:"gap_ms,omitempty"`
	Side  int    `json:"side"`
	Kind  string `json:"kind"` // blob-again | versions | own-state | peer-state | author-state
	Picks []int  `json:"picks,omitempty"`
}

type c09ConvScenario struct {
	Family      string            `json:"family"` // A: one merge millisecond; B: merge instants spread over expiries
	RetentionMs int64             `json:"retention_ms"`
	Author      []c09AuthorStep   `json:"author"`
	HandSets    [][][]ref.Matcher `json:"hand_sets,omitempty"`
	Hand        []c09Hand         `json:"hand,omitempty"`
	MergeGapMs  int64             `json:"merge_gap_ms"` // time between the last authoring step and the first merge
	Steps       []c09Step         `json:"steps,omitempty"`
	Drain       [2]c09Drain       `json:"drain"`
	Replay      []c09Replay       `json:"replay,omitempty"`
}

// ------------------------------------------------------------------ executor

type c09ConvOut struct {
	res        pbt.Result
	ids        int
	versions   int
	outOfOrder bool
	localEdits int
	replayLive int // replay steps that re-merged a record the instance currently stores
	unstable   int
}

func c09Abs(i int) int {
	if i < 0 {
		return -i
	}
	return i
}

func c09RunConv(sc c09ConvScenario, idempotentMode bool) (res pbt.Result) {
	c09Prelude()
	w := newC09World()
	var out c09ConvOut
	bubble(func() {
		defer func() {
			if r := recover(); r != nil {
				w.fail(pbt.V("panic", "panic while executing the case: %v", r))
			}
		}()
		c09ConvBody(sc, idempotentMode, w, &out)
	})
	res.Violations = w.viol
	if w.overflow {
		res.Violations = nil
		out.res.Excluded++
	}
	classes := make([]string, 0, len(w.classes))
	for c := range w.classes {
		classes = append(classes, c)
	}
	sort.Strings(classes)
	res.Class(classes...)
	res.Class("family-" + sc.Family)
	res.Class(fmt.Sprintf("ids=%d", min(out.ids, 5)))
	res.Excluded = out.res.Excluded
	if idempotentMode {
		res.NonTrivial = out.replayLive > 0 && w.classes["merge-changed-state"]
	} else {
		res.NonTrivial = out.outOfOrder || w.classes["duplicate"] || w.classes["batched"]
	}
	return res
}

func c09ConvBody(sc c09ConvScenario, idempotentMode bool, w *c09World, out *c09ConvOut) {
	ret := time.Duration(max(sc.RetentionMs, 1000)) * time.Millisecond
	au := w.newInst("author", ret)
	sides := []*c09Inst{w.newInst("side0", ret), w.newInst("side1", ret)}
	familyA := sc.Family != "B"

	// ---- phase 1: authoring through the real API of the authoring instance
	ms := int64(0)
	for _, a := range sc.Author {
		ms = max(ms, a.AtMs)
		now := w.tick(ms)
		_, outcome := w.api(au, a.Op, now)
		w.classes["author-"+a.Op.Kind+"-"+outcome] = true
		w.observe(au, now, "authoring "+a.Op.Kind)
	}
	var authored []string
	authored = append(authored, w.idOrder...)

	// ---- hand-built versions
	usedStamp := map[int64]bool{}
	for _, h := range sc.Hand {
		if h.UpdMs < 0 || usedStamp[h.UpdMs] {
			out.res.Excluded++ // equal update times are outside the quantifier
			continue
		}
		var id string
		var sets [][]ref.Matcher
		if h.OnAuthored && len(authored) > 0 {
			id = authored[c09Abs(h.Pick)%len(authored)]
			sets = w.sets[id]
		} else if len(sc.HandSets) > 0 {
			k := c09Abs(h.Pick) % len(sc.HandSets)
			id = fmt.Sprintf("00000000-0000-4000-8000-%012d", k)
			sets = sc.HandSets[k]
			w.sets[id] = sets
			if h.SetsShift != 0 && len(sc.HandSets) > 1 {
				sets = sc.HandSets[(k+c09Abs(h.SetsShift))%len(sc.HandSets)]
				w.classes["matchers-differ-between-versions"] = true
			}
			w.noteSets(sets)
		} else {
			continue
		}
		usedStamp[h.UpdMs] = true
		upd := c09At(h.UpdMs)
		if h.NearNs != 0 {
			var same []int
			for i, v := range w.vers {
				if v.ID == id {
					same = append(same, i)
				}
			}
			if len(same) > 0 {
				base := w.vers[same[c09Abs(h.NearPick)%len(same)]].Stamp
				cand := base + h.NearNs
				if _, taken := w.byKey[c09Key{id, cand}]; !taken && cand > 0 {
					upd = time.Unix(0, cand).UTC()
					w.classes["updated_at-1ns-apart"] = true
				}
			}
		}
		start := c09At(max(h.StartMs, 0))
		end := start.Add(time.Duration(max(h.DurMs, 0)) * time.Millisecond)
		m := &pb.MeshSilence{
			Silence: &pb.Silence{
				Id: id, MatcherSets: c09PBSets(sets),
				StartsAt: timestamppb.New(start), EndsAt: timestamppb.New(end), UpdatedAt: timestamppb.New(upd),
				CreatedBy: h.Creator, Comment: h.Comment, Annotations: h.Ann,
			},
			ExpiresAt: timestamppb.New(end.Add(time.Duration(max(h.RetMs, 0)) * time.Millisecond)),
		}
		b := c09Encode(m, h.Legacy)
		// what the receivers will see is the decoded form
		dec, err := c09Decode(b)
		if err != nil || len(dec) != 1 {
			w.fail(pbt.V("harness", "hand-built version does not round-trip: %v", err))
			continue
		}
		w.add(dec[0], b, -1, true)
		w.classes["hand-built"] = true
		if h.Legacy && len(sets) == 1 {
			w.classes["legacy-wire-format"] = true
		}
	}
	if len(w.vers) == 0 {
		return
	}

	// ---- phase 2: deliveries, local edits, full-state exchanges, GC
	ms += max(sc.MergeGapMs, 0)
	gap := func(g int64) {
		if !familyA {
			ms += max(g, 0)
		}
	}
	first := true
	step := func(g int64) int64 {
		gap(g)
		now := w.tick(ms)
		if first {
			w.firstMerge = now
			first = false
		}
		return now
	}
	gcUsed := false
	blobOf := func(idx []int) []byte {
		var b []byte
		for _, i := range idx {
			b = append(b, w.vers[i].Bytes...)
		}
		return b
	}
	uniquePicks := func(picks []int, pool []int) []int {
		seen := map[string]bool{}
		var idx []int
		for _, p := range picks {
			if len(pool) == 0 {
				break
			}
			i := pool[c09Abs(p)%len(pool)]
			if seen[w.vers[i].ID] {
				continue // a real blob never carries an id twice
			}
			seen[w.vers[i].ID] = true
			idx = append(idx, i)
		}
		return idx
	}
	allVers := func() []int {
		p := make([]int, len(w.vers))
		for i := range p {
			p[i] = i
		}
		return p
	}
	stateBlob := func(from *c09Inst) ([]byte, []int, bool) {
		b, err := from.s.MarshalBinary()
		if err != nil || len(b) == 0 {
			return nil, nil, false
		}
		ms, err := c09Decode(b)
		if err != nil {
			return nil, nil, false // reported by view()
		}
		var idx []int
		for _, m := range ms {
			i, ok := w.byKey[c09Key{m.Silence.Id, m.Silence.UpdatedAt.AsTime().UnixNano()}]
			if !ok {
				w.fail(pbt.V("state-unknown-version", "%s: MarshalBinary holds id %s with updated_at %s, which nobody ever authored", from.name, w.idName(m.Silence.Id), m.Silence.UpdatedAt.AsTime()))
				return nil, nil, false
			}
			idx = append(idx, i)
		}
		return b, idx, true
	}
	noteChange := func(changed bool) {
		if changed {
			w.classes["merge-changed-state"] = true
		}
	}

	for _, st := range sc.Steps {
		in := sides[c09Abs(st.Side)%2]
		other := sides[1-c09Abs(st.Side)%2]
		switch st.Kind {
		case "deliver":
			idx := uniquePicks(st.Picks, allVers())
			if len(idx) == 0 {
				continue
			}
			now := step(st.GapMs)
			b := blobOf(idx)
			noteChange(w.deliver(in, b, idx, now, "gossip"))
			w.observe(in, now, "delivery")
		case "state":
			from := other
			if st.From == 1 {
				from = au
			}
			b, idx, ok := stateBlob(from)
			if !ok {
				continue
			}
			now := step(st.GapMs)
			w.classes["full-state-exchange"] = true
			noteChange(w.deliver(in, b, idx, now, "full-state of "+from.name))
			w.observe(in, now, "full-state exchange")
		case "local":
			if st.Op == nil {
				continue
			}
			now := step(st.GapMs)
			em, outcome := w.api(in, *st.Op, now)
			if len(em) > 0 {
				out.localEdits++
				w.classes["local-edit-interleaved"] = true
				w.classes["local-"+st.Op.Kind] = true
			} else {
				w.classes["local-"+outcome] = true
			}
			w.observe(in, now, "local "+st.Op.Kind)
		case "gc":
			if familyA || idempotentMode {
				continue
			}
			now := step(st.GapMs)
			gcUsed = true
			w.classes["gc"] = true
			if _, err := in.s.GC(); err != nil {
				w.fail(pbt.V("gc-error", "%s: GC failed: %v", in.name, err))
			}
			if in.model.GC(now) > 0 {
				w.classes["gc-collected"] = true
			}
			w.observe(in, now, "gc")
		}
	}

	// ---- drain: every side receives whatever it has not seen yet
	for s, in := range sides {
		d := sc.Drain[s]
		var pending []int
		for i := range w.vers {
			if _, ok := in.got[i]; !ok {
				pending = append(pending, i)
			}
		}
		prio := func(i int) int {
			if len(d.Prio) == 0 {
				return 0
			}
			return d.Prio[i%len(d.Prio)]
		}
		sort.SliceStable(pending, func(a, b int) bool { return prio(pending[a]) < prio(pending[b]) })
		var batch []int
		inBatch := map[string]bool{}
		flush := func() {
			if len(batch) == 0 {
				return
			}
			now := step(d.GapMs)
			b := blobOf(batch)
			noteChange(w.deliver(in, b, batch, now, "gossip"))
			w.observe(in, now, "delivery")
			batch, inBatch = nil, map[string]bool{}
		}
		for j, i := range pending {
			if inBatch[w.vers[i].ID] {
				flush()
			}
			batch = append(batch, i)
			inBatch[w.vers[i].ID] = true
			if len(d.Cuts) == 0 || d.Cuts[j%len(d.Cuts)] {
				flush()
			}
		}
		flush()
	}

	// ---- judgement at quiescence
	now := step(0)
	views := [2]c09View{}
	for s, in := range sides {
		views[s] = w.observe(in, now, "quiescence")
		for i := range w.vers {
			if _, ok := in.got[i]; !ok {
				w.fail(pbt.V("harness", "%s never received version %d", in.name, i))
			}
		}
	}
	// Convergence. The expiry status of a version is the same at every merge
	// instant iff its expires_at is outside [first merge, now]. For an id all
	// of whose versions are like that, both sides must hold the version with
	// the greatest updated_at among the unexpired ones (or nothing), whatever
	// the order, multiplicity and batching of the deliveries were.
	stable := map[string]bool{}
	for _, id := range w.idOrder {
		stable[id] = true
	}
	var all []ref.C09Version
	for i, v := range w.vers {
		all = append(all, v.ref(i))
		if v.Exp >= w.firstMerge && v.Exp <= now {
			stable[v.ID] = false
		}
	}
	want := ref.C09Converged(all, now)
	allStable := true
	for _, id := range w.idOrder {
		if !stable[id] {
			allStable = false
			out.unstable++
			continue
		}
		exp, has := want[id]
		if !has {
			w.classes["every-version-past-retention=>absent"] = true
		}
		for _, v := range w.vers {
			if has && v.ID == id && v.Stamp > exp.Stamp {
				w.classes["newest-version-past-retention=>older-wins"] = true
			}
		}
		for s, in := range sides {
			got, ok := views[s].sils[id]
			switch {
			case !has && ok:
				w.fail(pbt.V("not-converged", "%s holds id %s (updated_at %s) although every version of it was past retention at every merge instant", in.name, w.idName(id), got.UpdatedAt.AsTime()))
			case has && !ok:
				w.fail(pbt.V("not-converged", "%s lacks id %s; all its versions were delivered and the newest unexpired one has updated_at %s", in.name, w.idName(id), c09TS(exp.Stamp)))
			case has && ok:
				if gs := got.UpdatedAt.AsTime().UnixNano(); gs != exp.Stamp {
					w.fail(pbt.V("not-converged", "%s holds id %s with updated_at %s; newest unexpired delivered version has %s", in.name, w.idName(id), c09TS(gs), c09TS(exp.Stamp)).
						With("id", id))
				} else if !proto.Equal(got, w.vers[exp.Ref].Mesh.Silence) {
					w.fail(pbt.V("not-converged-content", "%s holds id %s with the winning updated_at but other content:\n got  %v\n want %v", in.name, w.idName(id), got, w.vers[exp.Ref].Mesh.Silence))
				}
			}
		}
		a, aok := views[0].sils[id]
		b, bok := views[1].sils[id]
		if aok != bok || (aok && !proto.Equal(a, b)) {
			w.fail(pbt.V("sides-differ", "after the same set of updates the two instances differ on id %s:\n side0 %v\n side1 %v", w.idName(id), a, b).With("id", id))
		}
	}
	if familyA && !allStable {
		out.res.Excluded++
	}
	if familyA && allStable {
		w.classes["A-all-ids-judged"] = true
	}
	if !familyA && out.unstable > 0 {
		w.classes["B-some-ids-expire-between-merges"] = true
	}
	// Mute verdicts: each side against what its stored versions imply; both
	// sides against each other when everything converged.
	var mv [2][]bool
	for s, in := range sides {
		mv[s] = w.mutes(in)
		w.compareMutes(in.name, mv[s], w.refMutes(in.model, now), "the reference over the versions it must hold")
		for _, b := range mv[s] {
			if b {
				w.classes["some-label-set-muted"] = true
			}
		}
	}
	if allStable {
		w.compareMutes("side0", mv[0], mv[1], "side1")
	}

	// delivery-order classes
	for a := range w.vers {
		for b := a + 1; b < len(w.vers); b++ {
			if w.vers[a].ID != w.vers[b].ID {
				continue
			}
			o0 := sides[0].got[a] - sides[0].got[b]
			o1 := sides[1].got[a] - sides[1].got[b]
			if (o0 < 0) != (o1 < 0) || (o0 > 0) != (o1 > 0) {
				out.outOfOrder = true
				w.classes["out-of-order"] = true
			}
		}
	}
	out.ids, out.versions = len(w.idOrder), len(w.vers)
	perID := map[string]int{}
	for _, v := range w.vers {
		perID[v.ID]++
		if v.Stamp > now {
			w.classes["stamp-from-the-future"] = true
		}
	}
	for _, n := range perID {
		if n >= 3 {
			w.classes["id-with>=3-versions"] = true
		}
	}

	// ---- replay of known material (idempotence, no gossip storm)
	for _, r := range sc.Replay {
		in := sides[c09Abs(r.Side)%2]
		other := sides[1-c09Abs(r.Side)%2]
		var blob []byte
		var idx []int
		what := r.Kind
		switch r.Kind {
		case "blob-again":
			if len(in.blobs) == 0 || len(r.Picks) == 0 {
				continue
			}
			blob = in.blobs[c09Abs(r.Picks[0])%len(in.blobs)]
			ms, err := c09Decode(blob)
			if err != nil {
				continue
			}
			for _, m := range ms {
				if i, ok := w.byKey[c09Key{m.Silence.Id, m.Silence.UpdatedAt.AsTime().UnixNano()}]; ok {
					idx = append(idx, i)
				}
			}
		case "versions":
			var pool []int
			for i := range w.vers {
				if _, ok := in.got[i]; ok {
					pool = append(pool, i)
				}
			}
			idx = uniquePicks(r.Picks, pool)
			blob = blobOf(idx)
		case "own-state", "peer-state", "author-state":
			from := map[string]*c09Inst{"own-state": in, "peer-state": other, "author-state": au}[r.Kind]
			var ok bool
			blob, idx, ok = stateBlob(from)
			if !ok {
				continue
			}
		default:
			continue
		}
		if len(idx) == 0 {
			continue
		}
		before := w.view(in)
		gap(r.GapMs)
		now := w.tick(ms)
		live := false
		for _, i := range idx {
			if cur, ok := in.model[w.vers[i].ID]; ok && cur.Ref == i {
				live = true
			}
		}
		changed := w.deliver(in, blob, idx, now, "re-merge ("+what+")")
		after := w.observe(in, now, "re-merge of known material")
		w.classes["replay-"+r.Kind] = true
		if live {
			out.replayLive++
			w.classes["replay-of-live-record"] = true
		}
		if gcUsed {
			continue // after a GC an older version with a longer retention may legitimately come back
		}
		if changed {
			w.fail(pbt.V("harness", "reference accepted a re-merge of known material (%s)", what))
		}
		// direct oracle, independent of the reference model
		if d := c09DiffViews(w, before, after); d != "" {
			w.fail(pbt.V("remerge-changed-state", "%s: re-merging known material (%s, %d records) changed MarshalBinary/Query: %s", in.name, what, len(idx), d))
		}
	}
}

// c09DiffViews compares two observations as sets of records.
func c09DiffViews(w *c09World, a, b c09View) string {
	for id, m := range a.mesh {
		n, ok := b.mesh[id]
		if !ok {
			return fmt.Sprintf("id %s disappeared", w.idName(id))
		}
		if !proto.Equal(m, n) {
			return fmt.Sprintf("id %s changed from %v to %v", w.idName(id), m, n)
		}
	}
	for id := range b.mesh {
		if _, ok := a.mesh[id]; !ok {
			return fmt.Sprintf("id %s appeared", w.idName(id))
		}
	}
	for id, s := range a.sils {
		t, ok := b.sils[id]
		if !ok || !proto.Equal(s, t) {
			return fmt.Sprintf("Query result for id %s changed", w.idName(id))
		}
	}
	if len(a.sils) != len(b.sils) {
		return "number of Query results changed"
	}
	return ""
}

// ------------------------------------------------------------------ generator

func c09GenConv(t *rapid.T, idempotentMode bool) c09ConvScenario {
	sc := c09ConvScenario{Family: "A"}
	if !idempotentMode && rapid.IntRange(0, 9).Draw(t, "family") >= 6 {
		sc.Family = "B"
	}
	if idempotentMode && rapid.IntRange(0, 3).Draw(t, "family") == 0 {
		sc.Family = "B"
	}
	sc.RetentionMs = rapid.SampledFrom(c09Retentions).Draw(t, "retention")
	if sc.Family == "B" {
		sc.RetentionMs = rapid.SampledFrom(c09Retentions[:3]).Draw(t, "retentionB")
	}
	big := pbt.Thorough()

	// authoring: first op creates; at most 4 creates
	nAuth := rapid.IntRange(1, map[bool]int{false: 6, true: 10}[big]).Draw(t, "nAuthor")
	at := int64(0)
	creates := 0
	for i := 0; i < nAuth; i++ {
		at += 1 + c09GenGap(t, "authorGap")
		kinds := []string{"edit", "edit", "edit", "expire", "recreate"}
		if creates < 3 {
			kinds = append(kinds, "create", "create")
		}
		if i == 0 {
			kinds = []string{"create"}
		}
		op := c09GenOp(t, kinds)
		if op.Kind == "create" || op.Kind == "recreate" {
			creates++
		}
		sc.Author = append(sc.Author, c09AuthorStep{AtMs: at, Op: op})
	}
	// hand-built versions
	nHandIDs := rapid.IntRange(0, 2).Draw(t, "nHandIDs")
	for i := 0; i < nHandIDs; i++ {
		sc.HandSets = append(sc.HandSets, c09GenSets(t))
	}
	nHand := rapid.IntRange(0, map[bool]int{false: 4, true: 8}[big]).Draw(t, "nHand")
	horizon := at + 3_600_000
	used := map[int64]bool{}
	for i := 0; i < nHand; i++ {
		h := c09Hand{
			OnAuthored: nHandIDs == 0 || rapid.IntRange(0, 3).Draw(t, "onAuthored") > 0,
			Pick:       rapid.IntRange(0, 5).Draw(t, "handPick"),
			StartMs:    rapid.Int64Range(0, horizon).Draw(t, "handStart"),
			DurMs:      c09GenGap(t, "handDur"),
			RetMs:      rapid.SampledFrom(c09Retentions).Draw(t, "handRet"),
			Comment:    rapid.SampledFrom(c09Comments).Draw(t, "handComment"),
			Creator:    rapid.SampledFrom([]string{"alice", "carol"}).Draw(t, "handCreator"),
			Ann:        c09GenAnn(t),
			Legacy:     rapid.IntRange(0, 4).Draw(t, "legacy") == 0,
		}
		// distinct update times by construction
		u := rapid.Int64Range(0, horizon).Draw(t, "handUpd")
		for used[u] {
			u++
		}
		used[u] = true
		h.UpdMs = u
		if rapid.IntRange(0, 3).Draw(t, "near") == 0 {
			h.NearNs = rapid.SampledFrom([]int64{-2, -1, 1, 1, 2}).Draw(t, "nearNs")
			h.NearPick = rapid.IntRange(0, 5).Draw(t, "nearPick")
		}
		if !h.OnAuthored && nHandIDs > 1 && rapid.IntRange(0, 2).Draw(t, "setsShift") == 0 {
			h.SetsShift = rapid.IntRange(1, 3).Draw(t, "setsShiftBy")
		}
		sc.Hand = append(sc.Hand, h)
	}
	sc.MergeGapMs = 1 + c09GenGap(t, "mergeGap")

	stepKinds := []string{"deliver", "deliver", "deliver", "deliver", "deliver", "deliver", "local", "local", "state"}
	if sc.Family == "B" {
		stepKinds = append(stepKinds, "gc", "gc")
	}
	maxSteps := map[bool]int{false: 8, true: 16}[big]
	if idempotentMode {
		maxSteps = 4
	}
	nSteps := rapid.IntRange(0, maxSteps).Draw(t, "nSteps")
	for i := 0; i < nSteps; i++ {
		st := c09Step{Side: rapid.IntRange(0, 1).Draw(t, "side"), Kind: rapid.SampledFrom(stepKinds).Draw(t, "stepKind")}
		if sc.Family == "B" {
			st.GapMs = c09GenGap(t, "stepGap")
		}
		switch st.Kind {
		case "deliver":
			n := rapid.SampledFrom([]int{1, 1, 1, 2, 3, 6, 9}).Draw(t, "nPicks")
			for j := 0; j < n; j++ {
				st.Picks = append(st.Picks, rapid.IntRange(0, 23).Draw(t, "vpick"))
			}
		case "local":
			op := c09GenOp(t, []string{"edit", "edit", "expire", "recreate", "create"})
			st.Op = &op
		case "state":
			st.From = rapid.IntRange(0, 1).Draw(t, "from")
		case "gc":
			// maintenance runs every 15 minutes in production: let retention-scale time pass
			st.GapMs = rapid.SampledFrom([]int64{1000, 60_000, 600_000, 900_000, 3_600_000}).Draw(t, "gcGap")
		}
		sc.Steps = append(sc.Steps, st)
	}
	for s := 0; s < 2; s++ {
		d := c09Drain{}
		for i := 0; i < 24; i++ {
			d.Prio = append(d.Prio, rapid.IntRange(0, 99).Draw(t, "prio"))
		}
		cutP := rapid.SampledFrom([]int{10, 5, 3}).Draw(t, "cutP") // of 10
		for i := 0; i < 12; i++ {
			d.Cuts = append(d.Cuts, rapid.IntRange(0, 9).Draw(t, "cut") < cutP)
		}
		if sc.Family == "B" {
			d.GapMs = c09GenGap(t, "drainGap")
		}
		sc.Drain[s] = d
	}
	maxReplay := 2
	if idempotentMode {
		maxReplay = 6
	}
	nReplay := rapid.IntRange(map[bool]int{false: 0, true: 1}[idempotentMode], maxReplay).Draw(t, "nReplay")
	for i := 0; i < nReplay; i++ {
		r := c09Replay{
			Side: rapid.IntRange(0, 1).Draw(t, "rside"),
			Kind: rapid.SampledFrom([]string{"blob-again", "blob-again", "versions", "versions", "own-state", "peer-state", "author-state"}).Draw(t, "rkind"),
		}
		if sc.Family == "B" {
			r.GapMs = c09GenGap(t, "replayGap")
		}
		n := rapid.SampledFrom([]int{1, 1, 2, 4}).Draw(t, "rn")
		for j := 0; j < n; j++ {
			r.Picks = append(r.Picks, rapid.IntRange(0, 23).Draw(t, "rpick"))
		}
		sc.Replay = append(sc.Replay, r)
	}
	return sc
}

const c09ConvRule = "Versions of 1-4 silence ids with pairwise distinct updated_at are produced by real Set/Expire calls on an authoring instance at generated virtual instants " +
	"(create, in-place edit, matcher change = expire+recreate, expire; broadcast bytes captured) plus hand-built MeshSilence records (own updated_at/start/end/retention/comment/annotations, " +
	"same matcher sets per id as the API never changes matchers in place, except that one hand-built version in three of a hand-only id carries another id's matcher sets (the newest version's matchers count), optionally the legacy single-matcher-list wire form), encoded with protodelim like marshalMeshSilence. " +
	"Two receiving instances get them via generated plans: random picks (duplicates), blobs of several records with unique ids per blob, real MarshalBinary full states of the peer/author, " +
	"local API edits on either side whose broadcasts are delivered to the other side, then a drain in a per-side generated order/batching so that both have received the same set. " +
	"Family A: all merges within one millisecond (no expires_at inside it); family B: generated gaps across ends and retention expiries, optional GC. " +
	"Oracle: after every step the instance equals its reference LWW store (A.3: ignore expires_at<now, else take iff absent or strictly newer; GC drops expires_at<=now) in Query content (proto.Equal), " +
	"MarshalBinary content and expires_at; updated_at of a stored id never decreases; at quiescence both sides hold, for every id none of whose versions expires between the first and last merge instant, " +
	"the closed-form winner (greatest updated_at among unexpired) with equal content, and Silencer.Mutes over the whole 64-label-set universe equals the reference verdicts (and the other side's). " +
	"Mutes is asked of a FRESH Silencer per label set (cold cache): the cache-staleness defect F1 (C02) is excluded by construction; no uncompilable regex is generated (F9, C19/C02). " +
	"Boundary instants are unreachable (every step has its own 100 ns offset inside its millisecond; generated quantities are whole ms). Non-trivial: two versions of one id first reach the two sides in different order, or a version is delivered twice, or a blob carries >=2 records."

func TestC09Converge(t *testing.T) {
	pbt.Run(t, pbt.Spec[c09ConvScenario]{
		Property: "C09", Name: "C09Converge", Rule: c09ConvRule,
		Gen:  func(t *rapid.T) c09ConvScenario { return c09GenConv(t, false) },
		Exec: func(sc c09ConvScenario) pbt.Result { return c09RunConv(sc, false) },
	})
}
