package checks

import (
	"fmt"
	"testing"

	"pgregory.net/rapid"

	"verif/harness/pbt"
	"verif/harness/sim"
)

// kinds of SIM violations per property: every SIM sub-check runs all oracles
// but reports only the kinds that belong to its property.
var simKinds = map[string][]string{
	"C01": {"knowledge-missing", "flush-storm", "log-advanced-without-delivery", "retry-gave-up", "harness-or-api-error"},
	"C02": {"silenced-alert-notified", "api-silence-status", "harness-or-api-error"},
	"C03": {"inhibited-alert-notified", "api-inhibit-status", "api-alerts-filter", "harness-or-api-error"},
	"C04": {"notification-from-replaced-dispatcher", "unjustified-notification", "first-notification-without-firing", "resolved-only-after-resolved-only", "repeat-late", "harness-or-api-error"},
	"C05": {"resolved-sent-without-send-resolved", "resolved-before-end", "resolved-not-true", "firing-not-true", "resolved-not-reported", "knowledge-missing", "api-groups", "harness-or-api-error"},
	"C06": {"notification-from-replaced-dispatcher", "foreign-alert", "group-labels", "wrong-receiver", "missing-alert-in-notification", "duplicate-alert-in-notification", "group-key", "api-groups", "harness-or-api-error"},
	"C13": {"api-alerts", "api-alerts-filter", "api-receivers", "harness-or-api-error"},
	"C07": {"api-alerts-filter", "api-receivers", "wrong-receiver", "harness-or-api-error"},
	"C15": {"time-muted-flush-notified", "api-muted-by", "harness-or-api-error"},
}

type simCheck struct {
	Property string
	Name     string
	Rule     string
	Params   sim.GenParams
	// NonTrivial decides the property's non-triviality rule from the stats.
	NonTrivial func(sim.Stats, *sim.Scenario, *sim.Trace) bool
	// Remap (optional) may turn a violation kind of another property into one of this property (a fact decides).
	Remap func(pbt.Violation) (pbt.Violation, bool)
}

func runSimCheck(t *testing.T, c simCheck) {
	allowed := map[string]bool{}
	for _, k := range simKinds[c.Property] {
		allowed[k] = true
	}
	pbt.Run(t, pbt.Spec[sim.Scenario]{
		Property: c.Property, Name: c.Name, Rule: c.Rule,
		Gen: func(t *rapid.T) sim.Scenario { return sim.GenScenario(t, c.Params) },
		Exec: func(sc sim.Scenario) (res pbt.Result) {
			tr := sim.Run(pbt.T(), &sc)
			vs, st := sim.Judge(&sc, tr)
			for _, v := range vs {
				if c.Remap != nil {
					if nv, ok := c.Remap(v); ok {
						res.Add(nv)
						continue
					}
				}
				if allowed[v.Kind] {
					res.Add(v)
				} else {
					res.Class("other-property-kind:" + v.Kind)
				}
			}
			res.NonTrivial = c.NonTrivial(st, &sc, tr)
			if st.Failures > 0 {
				res.Class("delivery-failures")
			}
			if st.MultiAlertGroups > 0 {
				res.Class("multi-alert-group")
			}
			if st.Deliveries > 0 {
				res.Class("has-deliveries")
			}
			if st.KnowledgeObligations > 0 {
				res.Class("knowledge-obligation")
			}
			if st.RepeatObligations > 0 {
				res.Class("repeat-obligation")
			}
			if st.ResolvedObligations > 0 {
				res.Class("resolved-obligation")
			}
			if st.DedupedFlushes > 0 {
				res.Class("deduped-flush")
			}
			if st.RefireInFlight > 0 {
				res.Class("refire-in-flight")
			}
			if st.GroupsRecreated > 0 {
				res.Class("group-recreated")
			}
			res.Sample = map[string]any{"steps": len(sc.Steps), "attempts": st.Attempts, "deliveries": st.Deliveries,
				"config": sc.Config.YAML(), "first_steps": fmt.Sprintf("%+v", sc.Steps[:min(4, len(sc.Steps))])}
			return res
		},
	})
}

func TestC06Sim(t *testing.T) {
	runSimCheck(t, simCheck{
		Property: "C06", Name: "C06Sim",
		Rule:   "whole-system scenarios in virtual time (generated routing tree with group_by variants, alert timelines, silences, inhibit rules, faults); every notification is checked against the reference routing/grouping model. Non-trivial: >=1 notification listing >=2 alerts.",
		Params: sim.GenParams{Silences: true, Inhibit: true, Faults: true, Gets: true, GroupLimit: true},
		NonTrivial: func(st sim.Stats, _ *sim.Scenario, _ *sim.Trace) bool {
			return st.MultiAlertGroups > 0
		},
	})
}

// C06SimReload: "it contains every non-suppressed alert of that group known at flush time (never a delta)" across a
// configuration reload: the new dispatcher rebuilds its groups from the provider, which still holds an alert that
// resolved shortly before the reload; the group's next notification to an integration that was told the alert is firing
// must carry that resolution. Judged: the C05 resolved obligation, restricted to cases where a notification of the
// group from a flush after the resolution did reach the integration and left it out.
func TestC06SimReload(t *testing.T) {
	runSimCheck(t, simCheck{
		Property: "C06", Name: "C06SimReload",
		Rule:   "the scenarios of C05SimReload (whole system in virtual time with config reloads, faults, flapping alerts). Every notification is checked against the routing/grouping model as in C06Sim; in addition a successful notification of a group from a flush that began after one of its alerts resolved must list that resolution when the integration sends resolved alerts, had been told the alert is firing, the alert stayed resolved and unsuppressed and the provider had not collected it (kind delta-notification: the resolved obligation of C05 for which a later notification exists and omits the alert). Non-trivial: a reload happened and >=1 resolved obligation was evaluated.",
		Params: sim.GenParams{Faults: true, Gets: true, Flap: true, Reload: true},
		NonTrivial: func(st sim.Stats, sc *sim.Scenario, tr *sim.Trace) bool {
			for _, s := range sc.Steps {
				if s.Op == "reload" {
					return st.ResolvedObligations > 0
				}
			}
			return false
		},
		Remap: func(v pbt.Violation) (pbt.Violation, bool) {
			if v.Kind == "resolved-not-reported" && v.Facts["later_notification_omits_it"] == true {
				v.Kind = "delta-notification"
				return v, true
			}
			return v, false
		},
	})
}

func TestC03Sim(t *testing.T) {
	runSimCheck(t, simCheck{
		Property: "C03", Name: "C03Sim",
		Rule:   "whole-system scenarios with 0-2 inhibit rules: no notification lists an alert that the reference rule says is inhibited at the flush instant; API status agrees. Non-trivial: the config has an inhibit rule and >=1 notification was checked.",
		Params: sim.GenParams{Inhibit: true, Silences: true, Gets: true},
		NonTrivial: func(st sim.Stats, sc *sim.Scenario, _ *sim.Trace) bool {
			return len(sc.Config.Inhibit) > 0 && st.SuppressionChecked > 0
		},
	})
}

func TestC05Sim(t *testing.T) {
	runSimCheck(t, simCheck{
		Property: "C05", Name: "C05Sim",
		Rule:   "whole-system scenarios with resolve / re-fire timelines, both values of send_resolved, slow/failing/hanging integrations. Non-trivial: >=1 resolved obligation evaluated or a resolved alert was listed.",
		Params: sim.GenParams{Faults: true, Silences: true, Gets: true, Flap: true, MuteGap: true},
		NonTrivial: func(st sim.Stats, sc *sim.Scenario, tr *sim.Trace) bool {
			for _, a := range tr.Attempts {
				for _, al := range a.Alerts {
					if al.Resolved {
						return true
					}
				}
			}
			return st.ResolvedObligations > 0
		},
	})
}

func TestC01Sim(t *testing.T) {
	runSimCheck(t, simCheck{
		Property: "C01", Name: "C01Sim",
		Rule:   "whole-system scenarios in virtual time: routing config, alert timelines (fire, heartbeat, explicit/timeout end, re-fire), silences and inhibiting alerts coming and going, time intervals, integration fault plans. Knowledge obligation evaluated at every step instant. Non-trivial: >=1 knowledge obligation evaluated and the case has a suppression that ended, a delivery failure, or a re-created group.",
		Params: sim.GenParams{Flap: true, Silences: true, Inhibit: true, Intervals: true, Faults: true, Gets: true, GroupLimit: true},
		NonTrivial: func(st sim.Stats, _ *sim.Scenario, _ *sim.Trace) bool {
			return st.KnowledgeObligations > 0 && (st.SuppressionEnded || st.Failures > 0 || st.GroupsRecreated > 0)
		},
	})
}

func TestC04Sim(t *testing.T) {
	runSimCheck(t, simCheck{
		Property: "C04", Name: "C04Sim",
		Rule:   "whole-system scenarios with long tails (>= repeat_interval + group_interval) so that repeats are due; nflog GC running. Non-trivial: >=1 repeat obligation evaluated and >=1 deduplicated flush (a flush that sent nothing).",
		Params: sim.GenParams{Silences: true, Faults: true, LongTail: true, MaxSteps: 12},
		NonTrivial: func(st sim.Stats, _ *sim.Scenario, _ *sim.Trace) bool {
			return st.RepeatObligations > 0 && st.DedupedFlushes > 0
		},
	})
}

func TestC02Sim(t *testing.T) {
	runSimCheck(t, simCheck{
		Property: "C02", Name: "C02Sim",
		Rule:   "whole-system scenarios with silences created (pending or active), expired and ending while alerts fire: no notification lists an alert silenced at the flush instant; GET /alerts status.silencedBy equals the stored active silences. Non-trivial: >=1 silence whose effect ended inside the run and >=1 notification checked.",
		Params: sim.GenParams{Silences: true, Gets: true, Faults: true},
		NonTrivial: func(st sim.Stats, sc *sim.Scenario, _ *sim.Trace) bool {
			return st.SuppressionEnded && st.SuppressionChecked > 0
		},
	})
}

func TestC04SimRestart(t *testing.T) {
	runSimCheck(t, simCheck{
		Property: "C04", Name: "C04SimRestart",
		Rule:   "as C04Sim, plus config reloads (new dispatcher and inhibitor, same notification log) and process restarts (clean shutdown snapshot, stale maintenance snapshot, or no snapshot). Non-trivial: the run contains a reload or restart followed by >=1 delivery, and >=1 deduplicated flush.",
		Params: sim.GenParams{Silences: true, Faults: true, LongTail: true, MaxSteps: 14, Reload: true, Restart: true},
		NonTrivial: func(st sim.Stats, sc *sim.Scenario, tr *sim.Trace) bool {
			for i, s := range sc.Steps {
				if (s.Op == "reload" || s.Op == "restart") && i < len(tr.StepAt) {
					for _, a := range tr.Attempts {
						if a.OK() && a.T.After(tr.StepAt[i]) {
							return st.DedupedFlushes > 0
						}
					}
				}
			}
			return false
		},
	})
}

func TestC01SimRestart(t *testing.T) {
	runSimCheck(t, simCheck{
		Property: "C01", Name: "C01SimRestart",
		Rule:   "as C01Sim, plus config reloads and process restarts (posts before the dispatcher start delay has passed are picked up by the new dispatcher's initial load). Non-trivial: >=1 knowledge obligation evaluated after a reload or restart.",
		Params: sim.GenParams{Silences: true, Inhibit: true, Faults: true, Reload: true, Restart: true, Gets: true, GroupLimit: true},
		NonTrivial: func(st sim.Stats, sc *sim.Scenario, tr *sim.Trace) bool {
			for _, s := range sc.Steps {
				if s.Op == "reload" || s.Op == "restart" {
					return st.KnowledgeObligations > 0
				}
			}
			return false
		},
	})
}

var c08Kinds = map[string]bool{"sent-although-log-covers": true, "duplicate-in-healthy-cluster": true, "cluster-notification-lost": true,
	"cluster-resolved-lost": true, "first-notification-without-firing": true, "flush-storm": true, "gossip-storm": true, "pushpull-incomplete": true, "reliable-update-not-delivered": true, "harness-or-api-error": true}

func init() {
	// F15: a later-positioned instance logs the group state it froze before its cluster wait, with the
	// timestamp of after the wait, over the entry of a delivery another instance made in the meantime.
	pbt.RegisterSignature("c08-stale-log-write-after-cluster-wait", func(v pbt.Violation) bool {
		return (v.Kind == "duplicate-in-healthy-cluster" || v.Kind == "cluster-resolved-lost") && v.Facts["stale_write_after_cluster_wait"] == true
	})
}

func runClusterCheck(t *testing.T, name, rule string, healthy bool) {
	runClusterCheckFor(t, "C08", name, rule, healthy, nil)
}

// runClusterCheckFor: keep (optional) restricts the violation kinds reported under another property.
func runClusterCheckFor(t *testing.T, property, name, rule string, healthy bool, keep map[string]bool) {
	pbt.Run(t, pbt.Spec[sim.ClusterScenario]{
		Property: property, Name: name, Rule: rule,
		Gen: func(t *rapid.T) sim.ClusterScenario { return sim.GenClusterScenario(t, healthy) },
		Exec: func(sc sim.ClusterScenario) (res pbt.Result) {
			tr := sim.RunCluster(pbt.T(), &sc)
			vs, st := sim.JudgeCluster(&sc, tr)
			for _, v := range vs {
				if c08Kinds[v.Kind] && (keep == nil || keep[v.Kind]) {
					res.Add(v.With("trace", sim.DumpCluster(&sc, tr)))
				}
			}
			if healthy {
				res.NonTrivial = sc.N >= 2 && st.Healthy && st.CrossInstanceDedup > 0
			} else {
				res.NonTrivial = sc.N >= 2 && st.FaultsThatMattered > 0 && st.Deliveries > 0
			}
			if st.Healthy {
				res.Class("healthy")
			}
			if st.CrossInstanceDedup > 0 {
				res.Class("cross-instance-dedup")
			}
			if st.FaultsThatMattered > 0 {
				res.Class("gossip-suppressed")
			}
			if st.Senders > 1 {
				res.Class("several-senders")
			}
			if st.FiringObligations > 0 {
				res.Class("firing-obligation")
			}
			if st.ResolvedObligations > 0 {
				res.Class("resolved-obligation")
			}
			res.Class(fmt.Sprintf("n=%d", sc.N))
			res.Sample = map[string]any{"n": sc.N, "positions": sc.Positions, "fates": sc.Fates, "steps": len(sc.Steps), "deliveries": st.Deliveries, "net": tr.Net}
			return res
		},
	})
}

func TestC08Healthy(t *testing.T) {
	runClusterCheck(t, "C08Healthy", "2-3 real instances in one bubble (one clock) with a harness-owned gossip network; healthy synchronised runs: every post goes to all instances, no crash/partition/loss, gossip delay < peer_timeout/2, consistent positions (any permutation), instantaneous deliveries; one three-instance run in three has one link cut from the start, so that two instances hear each other only through the third (each instance gossips what it merges for the first time: two hops, still faster than the peer timeout; runs of this kind with oversized entries, which are not passed on, are judged as faulty runs). Oracle: the justification rule A.9 over the UNION of all instances' deliveries (the cluster looks like one instance) and the conditional form per attempt. Non-trivial: n>=2 and only one instance ever sent while deliveries happened (cross-instance dedup).", true)
}

// C04Cluster: "the same group state is sent again only if more than repeat_interval has passed since the previous one
// was delivered" when the receiver is served by a healthy cluster: whichever instance delivered the previous
// notification, the others know (the log entry is gossiped, also when only its timestamp changed) and stay silent.
func TestC04Cluster(t *testing.T) {
	runClusterCheckFor(t, "C04", "C04Cluster", "the healthy synchronised cluster runs of C08Healthy (2-3 real instances, one clock, harness-owned gossip with delays below half the peer timeout, every post to all instances; scenarios long enough for repeat_interval to pass several times). Judged here: over the union of all instances' deliveries no group state is delivered twice within repeat_interval (kinds duplicate-in-healthy-cluster, sent-although-log-covers, harness-or-api-error); the known finding F15 applies as in C08Healthy. Non-trivial: as C08Healthy.", true,
		map[string]bool{"duplicate-in-healthy-cluster": true, "sent-although-log-covers": true, "harness-or-api-error": true})
}

func TestC08Faulty(t *testing.T) {
	runClusterCheck(t, "C08Faulty", "1-3 real instances in one bubble with a harness-owned gossip network: message drop/long delay/duplication, link down/up, crash and restart with clean/stale/no snapshot, inconsistent position views, skewed posts, receiver faults, periodic full-state exchange. Single firing episode per alert (no re-fire after a resolve). Oracles: at-least-once (firing and resolved obligations over the union of deliveries, witnessed by an instance that was up since before the alert's first submission) and the conditional no-duplicate form (the sender's own log entry at the attempt must not cover the notification). Non-trivial: n>=2, a gossip message was actually lost or blocked, and deliveries happened.", false)
}

func TestC15Sim(t *testing.T) {
	runSimCheck(t, simCheck{
		Property: "C15", Name: "C15Sim",
		Rule:   "whole-system scenarios whose routes carry mute / active time intervals around the bubble's epoch: no notification at a flush whose tick a mute interval contains (or no active interval contains); GET /alerts/groups mutedBy equals the intervals that gated the group's last flush. Non-trivial: the config has an interval referenced by a route and a flush was gated (a flush without attempt while the group had firing alerts).",
		Params: sim.GenParams{Intervals: true, Gets: true, Silences: true},
		NonTrivial: func(st sim.Stats, sc *sim.Scenario, _ *sim.Trace) bool {
			return len(sc.Config.Intervals) > 0 && st.DedupedFlushes > 0 && st.SuppressionChecked > 0
		},
	})
}

// C07Sim: the whole-system scenarios judged for what routing shows through the API: the receivers GET /alerts lists
// for an alert, the receiver= filter of GET /alerts (an alert routed to several receivers passes when any of them
// matches) and the receiver a notification is addressed to.
func TestC07Sim(t *testing.T) {
	runSimCheck(t, simCheck{
		Property: "C07", Name: "C07Sim",
		Rule:   "whole-system scenarios with deep routing trees (continue: true siblings, nested children): at every get-alerts step GET /api/v2/alerts lists for each alert exactly the receivers of the routes the reference routing selects; the same request with a receiver= regular expression (and status flags) returns exactly the alerts of the unfiltered answer that have a matching receiver; every notification is addressed to the receiver of the route it was grouped under. Non-trivial: a GET with a receiver filter was made while the store was not empty.",
		Params: sim.GenParams{Gets: true, Silences: true, DeepTree: true},
		NonTrivial: func(st sim.Stats, sc *sim.Scenario, tr *sim.Trace) bool {
			for i, s := range sc.Steps {
				if s.Op == "get-alerts" && s.Flags != nil && s.Flags.Receiver != "" && i < len(tr.Samples) && len(tr.Samples[i].Alerts) > 0 {
					return true
				}
			}
			return false
		},
	})
}

func TestC13Sim(t *testing.T) {
	runSimCheck(t, simCheck{
		Property: "C13", Name: "C13Sim",
		Rule:   "whole-system scenarios: at every get-alerts step and at the end GET /api/v2/alerts returns exactly the reference store's alerts whose end has not passed, with the merged start/end and the receivers routing selects (routing trees, provider GC, dispatcher and pipeline running). Non-trivial: >=1 GET compared a non-empty store and an alert was re-submitted.",
		Params: sim.GenParams{Gets: true, Silences: true, Inhibit: true},
		NonTrivial: func(st sim.Stats, sc *sim.Scenario, tr *sim.Trace) bool {
			seen := map[int]int{}
			for _, s := range sc.Steps {
				for _, a := range s.Alerts {
					seen[a.LS]++
				}
			}
			re := false
			for _, n := range seen {
				if n > 1 {
					re = true
				}
			}
			for _, smp := range tr.Samples {
				if len(smp.Alerts) > 0 && re {
					return true
				}
			}
			return false
		},
	})
}

func TestC05SimReload(t *testing.T) {
	runSimCheck(t, simCheck{
		Property: "C05", Name: "C05SimReload",
		Rule:   "as C05Sim, plus config reloads (a new dispatcher loads the provider's alerts, the notification log persists): a resolved alert the receiver was told is firing must still be reported resolved by the new dispatcher as long as the provider has not collected it. Non-trivial: a reload happened while some alert the receiver had been told about was resolved or resolving, and >=1 resolved obligation was evaluated.",
		Params: sim.GenParams{Faults: true, Gets: true, Flap: true, Reload: true},
		NonTrivial: func(st sim.Stats, sc *sim.Scenario, tr *sim.Trace) bool {
			for _, s := range sc.Steps {
				if s.Op == "reload" {
					return st.ResolvedObligations > 0
				}
			}
			return false
		},
	})
}
