package checks

import (
	"os"
	"path/filepath"
	"reflect"
	"sort"
	"strconv"
	"strings"
	"sync"
	"testing"

	"pgregory.net/rapid"

	"github.com/prometheus/alertmanager/config"

	"github.com/prometheus/alertmanager/dispatch"

	"verif/harness/gen"
	"verif/harness/pbt"
)

// ------------------------------------------------------------------- corpus

var (
	c17CorpusOnce sync.Once
	c17CorpusDocs []string
)

// c17Corpus reads the repository's configuration fixtures (and its fuzz corpus
// when there is one). The scenario stores the final bytes, so a replay does
// not depend on these files.
func c17Corpus() []string {
	c17CorpusOnce.Do(func() {
		var files []string
		for _, pat := range []string{"/repo/config/testdata/*.yml", "/repo/config/testdata/*.yaml", "/repo/doc/examples/*.yml", "/repo/cli/testdata/*.yml", "/repo/examples/ha/*.yml"} {
			m, _ := filepath.Glob(pat)
			files = append(files, m...)
		}
		sort.Strings(files)
		for _, f := range files {
			if b, err := os.ReadFile(f); err == nil && len(b) < 1<<16 {
				c17CorpusDocs = append(c17CorpusDocs, string(b))
			}
		}
		// go fuzz corpus entries: `go test fuzz v1` + `string("...")`
		fz, _ := filepath.Glob("/repo/config/testdata/fuzz/*/*")
		sort.Strings(fz)
		for _, f := range fz {
			b, err := os.ReadFile(f)
			if err != nil {
				continue
			}
			for _, l := range strings.Split(string(b), "\n") {
				if strings.HasPrefix(l, "string(") && strings.HasSuffix(l, ")") {
					if s, err := strconv.Unquote(l[len("string(") : len(l)-1]); err == nil {
						c17CorpusDocs = append(c17CorpusDocs, s)
					}
				}
			}
		}
	})
	return c17CorpusDocs
}

// ----------------------------------------------------------------- scenario

type c17LoadScenario struct {
	Mode   string `json:"mode"`
	Kind   string `json:"kind"`             // which input family produced it
	Breach string `json:"breach,omitempty"` // injected well-formedness breach, if any
	Input  []byte `json:"input"`
}

func c17GenLoad(t *rapid.T) c17LoadScenario {
	sc := c17LoadScenario{Mode: rapid.SampledFrom([]string{"fallback", "fallback", "classic", "utf8"}).Draw(t, "mode")}
	corpus := c17Corpus()
	structured := func(breach string) string {
		return gen.C17Config(t, gen.C17Opts{
			Secrets: rapid.Bool().Draw(t, "secrets"), UTF8: sc.Mode != "classic", Breach: breach,
			F6: true, F11: true, SlackAppToken: true, IncidentioGlobalHTTP: true, MSTeamsV2EnvProxy: true,
		}).YAML
	}
	// (rapid favours small draws; the measured split is in the evidence classes)
	k := rapid.IntRange(0, 21).Draw(t, "family")
	if k >= 20 {
		sc.Kind = "global-matrix"
		sc.Input = c17GlobalMatrix(t)
		return sc
	}
	if len(corpus) == 0 && (k < 4 || (k >= 17 && k < 19)) {
		k = 19
	}
	switch {
	case k < 4:
		sc.Kind = "file-mutated"
		sc.Input = gen.C17Mutate(t, rapid.SampledFrom(corpus).Draw(t, "file"), rapid.IntRange(0, 3).Draw(t, "nmut"), corpus)
	case k < 8:
		sc.Kind = "structured-mutated"
		sc.Input = gen.C17Mutate(t, structured(""), rapid.IntRange(1, 2).Draw(t, "nmut"), corpus)
	case k < 12:
		sc.Kind = "hostile-skeleton"
		sc.Input = gen.C17HostileDoc(t)
	case k < 17:
		sc.Kind = "breach"
		sc.Breach = rapid.SampledFrom(gen.C17BreachDraw).Draw(t, "breach")
		sc.Input = []byte(structured(sc.Breach))
	case k < 19:
		sc.Kind = "recombined"
		sc.Input = gen.C17Recombine(t, corpus)
	default:
		sc.Kind = "raw"
		sc.Input = rapid.SliceOfN(rapid.Byte(), 0, 64).Draw(t, "raw")
	}
	return sc
}

// c17GlobalKeys: every scalar setting of the `global:` section (yaml key and a value of the right shape), read off
// config.GlobalConfig by reflection so that new settings are picked up.
func c17GlobalKeys() [][2]string {
	var out [][2]string
	rt := reflect.TypeOf(config.GlobalConfig{})
	for i := 0; i < rt.NumField(); i++ {
		f := rt.Field(i)
		key := strings.Split(f.Tag.Get("yaml"), ",")[0]
		if key == "" || key == "-" {
			continue
		}
		ft := f.Type.String()
		switch {
		case strings.HasSuffix(key, "_file"):
			out = append(out, [2]string{key, "/nonexistent/" + key})
		case strings.Contains(ft, "URL"):
			out = append(out, [2]string{key, "http://127.0.0.1:9/path"})
		case strings.Contains(ft, "Duration"):
			out = append(out, [2]string{key, "1m"})
		case strings.Contains(ft, "HostPort"):
			out = append(out, [2]string{key, "localhost:25"})
		case f.Type.Kind() == reflect.Bool || (f.Type.Kind() == reflect.Pointer && f.Type.Elem().Kind() == reflect.Bool):
			out = append(out, [2]string{key, "true"})
		case f.Type.Kind() == reflect.String || strings.Contains(ft, "Secret"):
			out = append(out, [2]string{key, "value-of-" + key})
		}
	}
	return out
}

var c17InheritingReceivers = []string{
	"slack_configs: [{channel: c}]", "opsgenie_configs: [{}]", "victorops_configs: [{routing_key: k}]", "wechat_configs: [{}]",
	"pagerduty_configs: [{routing_key: k}]", "telegram_configs: [{chat_id: 1}]", "email_configs: [{to: a@b}]", "webex_configs: [{room_id: r}]",
	"rocketchat_configs: [{}]", "jira_configs: [{project: P, issue_type: Bug}]", "mattermost_configs: [{}]", "pushover_configs: [{user_key: u, token: t}]",
	"discord_configs: [{}]", "msteams_configs: [{}]", "msteamsv2_configs: [{}]", "incidentio_configs: [{}]", "sns_configs: [{topic_arn: a}]", "webhook_configs: [{url: 'http://h/'}]",
}

// c17GlobalMatrix: a small configuration whose global section sets a random handful of settings (a value of the right
// shape, an explicit null, or the empty string) and whose receivers use integrations that inherit from it. Aimed at the
// "at most one of x and x_file", "no global x set" and nil-default paths of the loader, which must answer with an
// error or a well-formed configuration, never a panic.
func c17GlobalMatrix(t *rapid.T) []byte {
	keys := c17GlobalKeys()
	var sb strings.Builder
	sb.WriteString("global:\n")
	// pairwise: the first two settings are a uniformly drawn pair (the interesting interactions are between two
	// settings of one family: x and x_file, a token and a URL ...), then up to three more
	seen := map[string]bool{}
	put := func(kv [2]string, l string) {
		if seen[kv[0]] {
			return
		}
		seen[kv[0]] = true
		v := kv[1]
		switch rapid.IntRange(0, 7).Draw(t, l) {
		case 0:
			v = "null"
		case 1:
			v = "''"
		}
		sb.WriteString("  " + kv[0] + ": " + v + "\n")
	}
	pair := rapid.IntRange(0, len(keys)*len(keys)-1).Draw(t, "gpair")
	put(keys[pair/len(keys)], "gval1")
	put(keys[pair%len(keys)], "gval2")
	for i, n := 0, rapid.IntRange(0, 3).Draw(t, "nglobal"); i < n; i++ {
		put(keys[rapid.IntRange(0, len(keys)-1).Draw(t, "gkey")], "gval")
	}
	sb.WriteString("route:\n  receiver: r\nreceivers:\n- name: r\n")
	nr := rapid.IntRange(1, 3).Draw(t, "nrecv")
	used := map[string]bool{}
	for i := 0; i < nr; i++ {
		r := rapid.SampledFrom(c17InheritingReceivers).Draw(t, "recv")
		if used[r] {
			continue
		}
		used[r] = true
		sb.WriteString("  " + r + "\n")
	}
	return []byte(sb.String())
}

// c17JudgeLoad runs config.Load on the input and judges the outcome; shared by
// the rapid check and the native fuzz target.
func c17JudgeLoad(mode string, input []byte) (res pbt.Result) {
	c17SetMode(mode)
	cfg, err, pnc := c17Load(string(input))
	if pnc != nil {
		res.Add(c17LoadPanic("config.Load", pnc, string(input)))
		return res
	}
	if err != nil {
		if cfg != nil {
			res.Add(pbt.V("error-and-config", "config.Load returned both a config and the error %v", err))
		}
		if strings.HasPrefix(err.Error(), "yaml: ") {
			res.Class("rejected-by-yaml")
		} else {
			res.Class("rejected-by-validation")
			res.NonTrivial = true
		}
		return res
	}
	res.Class("accepted")
	res.NonTrivial = true
	issues := len(res.Violations)
	c17WellFormedViolations(&res, cfg, "accepted config")
	if len(res.Violations) > issues {
		return res // do not walk an ill-formed tree further
	}
	// what every caller does next with an accepted configuration must not panic
	if _, pnc := c17String(cfg); pnc != nil {
		res.Add(pbt.V("string-panic", "Config.String() of an accepted configuration panicked: %v", pnc))
	}
	func() {
		defer func() {
			if r := recover(); r != nil {
				res.Add(pbt.V("newroute-panic", "dispatch.NewRoute on an accepted configuration panicked: %v", r))
			}
		}()
		n := 0
		dispatch.NewRoute(cfg.Route, nil).Walk(func(*dispatch.Route) { n++ })
		if n > 1 {
			res.Class("accepted-tree>1")
		}
	}()
	return res
}

func c17ExecLoad(sc c17LoadScenario) pbt.Result {
	res := c17JudgeLoad(sc.Mode, sc.Input)
	res.Class("family:" + sc.Kind)
	if sc.Breach != "" {
		res.Class("breach:" + sc.Breach)
	}
	in := string(sc.Input)
	if len(in) > 600 {
		in = in[:600] + "…"
	}
	res.Sample = map[string]any{"mode": sc.Mode, "kind": sc.Kind, "breach": sc.Breach, "input": in}
	return res
}

func TestC17LoadBytes(t *testing.T) {
	pbt.Run(t, pbt.Spec[c17LoadScenario]{
		Property: "C17", Name: "C17LoadBytes",
		Rule: "byte strings from six families: structured configs with exactly one injected well-formedness breach (19 kinds: root matchers/match/match_re/mute/active/no receiver, undefined receiver anywhere / at a leaf, duplicate receiver, group_by duplicate / '...' mixed, zero group_interval / repeat_interval, undefined mute / active interval, duplicate interval within / across sections, null route, null integration entry); structured configs with 1-3 text mutations; fixtures of /repo/config/testdata (+cli, doc examples, fuzz corpus) with 0-4 mutations (line delete/duplicate/swap/indent, scalar replaced by hostile scalar, hostile line inserted, byte flip, truncate, splice with another fixture, anchor/alias); hostile skeletons (null in every list position, aliases, tags, huge/zero/negative durations, duplicate keys, wrong scalar types, deep nesting, alias bombs); section- and token-level recombination of fixtures; raw bytes. All three parser modes. Oracle: no panic (Load, then String and dispatch.NewRoute on what was accepted), never config and error together, every accepted config passes the well-formedness checker; a hang is a violation (driver). Non-trivial: accepted, or rejected by a validation hook (error not a YAML syntax/type error).",
		Gen:  c17GenLoad, Exec: c17ExecLoad,
	})
}

// FuzzC17Load is the native coverage-guided target (thorough tier): the same
// judge as TestC17LoadBytes, seeded with the repository's fixtures.
func FuzzC17Load(f *testing.F) {
	for i, doc := range c17Corpus() {
		f.Add(doc, uint8(i%3))
	}
	f.Add("route:\n  receiver: a\n  routes: [null]\nreceivers:\n- name: a\n", uint8(0))
	f.Add("route:\n  receiver: a\n  routes:\n  - match_re: {l: \"\"}\nreceivers:\n- name: a\n", uint8(0))
	f.Fuzz(func(t *testing.T, s string, mode uint8) {
		res := c17JudgeLoad(c17Modes[int(mode)%len(c17Modes)], []byte(s))
		for _, v := range res.Violations {
			if !c17IsKnown(v) {
				t.Fatalf("C17/FuzzC17Load violated: [%s] %s", v.Kind, v.Message)
			}
		}
	})
}
