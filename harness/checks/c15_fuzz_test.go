package checks

// C15, part 3: native fuzzing of the TimeInterval YAML unmarshaller (thorough
// tier). Oracle inside the target: never panics; if accepted, ContainsTime is
// total and equals the reference calendar evaluated on the parsed ranges, and
// yaml.Marshal -> yaml.Unmarshal is accepted and keeps every verdict.

import (
	"testing"
	"time"

	"gopkg.in/yaml.v2"

	"github.com/prometheus/alertmanager/timeinterval"

	"verif/harness/ref"
)

var c15FuzzSeeds = []string{
	"times:\n- start_time: 09:00\n  end_time: 17:00\nweekdays: ['monday:friday']\n",
	"weekdays: ['monday:wednesday','saturday', 'sunday']\n",
	"days_of_month: ['1:5', '-3:-1']\n",
	"days_of_month: ['1:31']\nmonths: ['february']\n",
	"months: ['1:3', 'may:august', 'december']\n",
	"years: ['2020:2022', '2030']\n",
	"location: 'Australia/Sydney'\ntimes: [{start_time: '17:00', end_time: '24:00'}]\n",
	"location: Local\n",
	"times: []\n",
	"{}\n",
	"times: [{start_time: '24:00', end_time: '24:00'}]\n",
	"days_of_month: ['-31:-29', '29:31', '0']\n",
	"months: ['13', '0:5']\nyears: ['-5:3']\n",
	"weekdays: [1]\n",
	"location: Pacific/Apia\ndays_of_month: ['30']\nmonths: [december]\nyears: ['2011']\n",
	"times: [{start_time: \"00:00\", end_time: \"00:01\"}]\nlocation: \"Australia/Lord_Howe\"\n",
	"? [a]\n: b\n",
	"times: &a [{start_time: '01:00', end_time: '02:00'}]\nweekdays: *a\n",
	"\xff\xfe",
	"times: !!binary aGVsbG8=\n",
}

// c15FuzzInstants: leap days, month ends, year ends, DST edges of several zones.
var c15FuzzInstants = func() []time.Time {
	var out []time.Time
	for _, s := range []string{
		"1970-01-01T00:00:00Z", "1999-12-31T23:59:59Z", "2000-02-29T12:00:00Z", "2000-03-01T00:00:00Z",
		"2011-12-30T10:00:00Z", "2011-12-31T09:59:00Z", "2015-10-04T15:30:00Z", "2021-03-14T06:59:00Z",
		"2021-03-14T07:00:00Z", "2021-10-31T00:59:59Z", "2021-10-31T01:00:00Z", "2024-02-28T23:59:00Z",
		"2024-02-29T00:00:00Z", "2024-12-31T23:59:00Z", "2025-01-01T00:00:00Z", "2100-02-28T23:59:00Z",
		"2100-03-01T00:00:00Z", "2023-04-30T17:00:00Z", "2023-06-15T08:59:00Z", "2023-06-15T09:00:00Z",
	} {
		t, err := time.Parse(time.RFC3339, s)
		if err != nil {
			panic(err)
		}
		out = append(out, t)
	}
	return out
}()

// c15SpecOfParsed reads the parsed ranges back as a reference spec. ok=false
// for the two shapes with known findings, which have their own sub-checks
// (C15EmptyField: non-nil empty list; C15NullElement: zero range from a null
// element); for those only totality is checked here.
func c15SpecOfParsed(ti timeinterval.TimeInterval) (s ref.C15Spec, ok bool) {
	if (ti.Times != nil && len(ti.Times) == 0) || (ti.Weekdays != nil && len(ti.Weekdays) == 0) ||
		(ti.DaysOfMonth != nil && len(ti.DaysOfMonth) == 0) || (ti.Months != nil && len(ti.Months) == 0) ||
		(ti.Years != nil && len(ti.Years) == 0) {
		return s, false
	}
	if len(c15InvalidRanges(ti)) > 0 {
		// zero ranges from null list elements (known finding, see C15NullElement)
		return s, false
	}
	for _, r := range ti.Times {
		s.Times = append(s.Times, ref.C15Range{B: r.StartMinute, E: r.EndMinute})
	}
	for _, r := range ti.Weekdays {
		s.Weekdays = append(s.Weekdays, ref.C15Range{B: r.Begin, E: r.End})
	}
	for _, r := range ti.DaysOfMonth {
		s.Days = append(s.Days, ref.C15Range{B: r.Begin, E: r.End})
	}
	for _, r := range ti.Months {
		s.Months = append(s.Months, ref.C15Range{B: r.Begin, E: r.End})
	}
	for _, r := range ti.Years {
		s.Years = append(s.Years, ref.C15Range{B: r.Begin, E: r.End})
	}
	if ti.Location != nil {
		if ti.Location.Location == nil {
			return s, false
		}
		s.Location = ti.Location.String()
	}
	return s, true
}

func c15FuzzOne(t *testing.T, data []byte) {
	var ti timeinterval.TimeInterval
	if err := yaml.Unmarshal(data, &ti); err != nil {
		return
	}
	spec, comparable := c15SpecOfParsed(ti)
	var loc *time.Location
	if comparable {
		l, err := ref.C15Loc(spec)
		if err != nil {
			comparable = false
		}
		loc = l
	}
	verdicts := make([]bool, len(c15FuzzInstants))
	for i, at := range c15FuzzInstants {
		verdicts[i] = ti.ContainsTime(at)
		if comparable {
			if want := ref.C15ContainsCivil(spec, ref.C15CivilOf(at, loc), false); want != verdicts[i] {
				t.Fatalf("input %q parsed to %+v: ContainsTime(%s) = %v, reference %v", data, ti, at.Format(time.RFC3339), verdicts[i], want)
			}
		}
	}
	if !comparable {
		return
	}
	out, err := yaml.Marshal(ti)
	if err != nil {
		t.Fatalf("input %q accepted as %+v but yaml.Marshal fails: %v", data, ti, err)
	}
	var ti2 timeinterval.TimeInterval
	if err := yaml.Unmarshal(out, &ti2); err != nil {
		t.Fatalf("input %q accepted, marshalled to %q, which is rejected: %v", data, out, err)
	}
	for i, at := range c15FuzzInstants {
		if g := ti2.ContainsTime(at); g != verdicts[i] {
			t.Fatalf("input %q marshalled to %q: verdict at %s changes from %v to %v", data, out, at.Format(time.RFC3339), verdicts[i], g)
		}
	}
}

func FuzzC15Yaml(f *testing.F) {
	for _, s := range c15FuzzSeeds {
		f.Add([]byte(s))
	}
	f.Fuzz(c15FuzzOne)
}
