package checks

// C18GetBurst: "concurrent GET requests beyond the configured concurrency are refused with 503 … and every refusal is
// reported" for requests that arrive at the same moment (C18GetConcurrency admits them one at a time, owning the
// schedule): K goroutines released together GET routes of the real api.New(...).Register mux; the handlers count how
// many of them are inside at once. Real scheduler.

import (
	"context"
	"fmt"
	"net/http"
	"net/http/httptest"
	"runtime"
	"sync"
	"sync/atomic"
	"testing"
	"time"

	"github.com/prometheus/client_golang/prometheus"
	"github.com/prometheus/common/model"
	"github.com/prometheus/common/route"
	"pgregory.net/rapid"

	"github.com/prometheus/alertmanager/api"
	"github.com/prometheus/alertmanager/config"
	"github.com/prometheus/alertmanager/dispatch"
	"github.com/prometheus/alertmanager/eventrecorder"
	"github.com/prometheus/alertmanager/featurecontrol"
	"github.com/prometheus/alertmanager/matcher/compat"
	"github.com/prometheus/alertmanager/provider/mem"
	"github.com/prometheus/alertmanager/silence"
	"github.com/prometheus/alertmanager/types"

	"verif/harness/pbt"
)

type c18bScenario struct {
	C      int `json:"c"`      // Options.Concurrency
	K      int `json:"k"`      // simultaneous GETs per round
	Rounds int `json:"rounds"` // bursts
	Spin   int `json:"spin"`   // scheduler yields each handler makes while inside
	Procs  int `json:"procs"`
}

func genC18Burst(t *rapid.T) c18bScenario {
	return c18bScenario{C: rapid.IntRange(1, 3).Draw(t, "c"), K: rapid.IntRange(4, 32).Draw(t, "k"), Rounds: rapid.IntRange(100, 600).Draw(t, "rounds"),
		Spin: rapid.SampledFrom([]int{0, 1, 10, 100}).Draw(t, "spin"), Procs: rapid.SampledFrom([]int{4, 16, 16}).Draw(t, "procs")}
}

func execC18Burst(sc c18bScenario) (res pbt.Result) {
	compat.InitFromFlags(nopLog, featurecontrol.NoopFlags{})
	defer runtime.GOMAXPROCS(runtime.GOMAXPROCS(sc.Procs))
	reg := prometheus.NewRegistry()
	ctx, cancel := context.WithCancel(context.Background())
	defer cancel()
	alerts, err := mem.NewAlerts(ctx, time.Hour, 0, nil, nopLog, eventrecorder.NopRecorder(), reg, featurecontrol.NoopFlags{})
	if err != nil {
		res.Fail("harness", "mem.NewAlerts: %v", err)
		return res
	}
	defer alerts.Close()
	sils, err := silence.New(silence.Options{Retention: time.Hour, Logger: nopLog, Metrics: reg, EventRecorder: eventrecorder.NopRecorder()})
	if err != nil {
		res.Fail("harness", "silence.New: %v", err)
		return res
	}
	var inside, maxInside atomic.Int64
	enter := func() {
		n := inside.Add(1)
		for {
			m := maxInside.Load()
			if n <= m || maxInside.CompareAndSwap(m, n) {
				break
			}
		}
		for i := 0; i < sc.Spin; i++ {
			runtime.Gosched()
		}
		inside.Add(-1)
	}
	a, err := api.New(api.Options{
		Alerts: alerts, Silences: sils, GroupMutedFunc: func(string, string) ([]string, bool) { return nil, false },
		Concurrency: sc.C, Logger: nopLog, Registry: reg,
		RequestDuration: prometheus.NewHistogramVec(prometheus.HistogramOpts{Name: "alertmanager_http_request_duration_seconds", Help: "h"}, []string{"handler", "method", "code"}),
		GroupFunc: func(context.Context, func(*dispatch.Route) bool, func(*types.Alert, time.Time) bool) (dispatch.AlertGroups, map[model.Fingerprint][]string, error) {
			enter()
			return nil, nil, nil
		},
	})
	if err != nil {
		res.Fail("harness", "api.New: %v", err)
		return res
	}
	cfg, err := config.Load(c18Config)
	if err != nil {
		res.Fail("harness", "config.Load: %v", err)
		return res
	}
	a.Update(cfg, func(context.Context, model.LabelSet) {})
	router := route.New()
	router.Get("/-/probe", func(w http.ResponseWriter, _ *http.Request) { enter(); w.WriteHeader(http.StatusOK) })
	mux := a.Register(router, "/")
	paths := []string{"/-/probe", "/api/v2/alerts/groups"}
	ok, refused, other := 0, 0, 0
	for r := 0; r < sc.Rounds; r++ {
		var wg sync.WaitGroup
		start := make(chan struct{})
		codes := make([]int, sc.K)
		for k := 0; k < sc.K; k++ {
			wg.Add(1)
			go func(k int) {
				defer wg.Done()
				req := httptest.NewRequest(http.MethodGet, paths[k%len(paths)], nil)
				rec := httptest.NewRecorder()
				<-start
				mux.ServeHTTP(rec, req)
				codes[k] = rec.Code
			}(k)
		}
		close(start)
		wg.Wait()
		for _, c := range codes {
			switch c {
			case 200:
				ok++
			case 503:
				refused++
			default:
				other++
			}
		}
		if m := maxInside.Load(); int(m) > sc.C {
			res.Add(pbt.V("get-limit-exceeded", "round %d: %d GET handlers were running at once under a configured concurrency of %d (%d requests released together)", r, m, sc.C, sc.K).With("limit", sc.C))
			break
		}
	}
	if other > 0 {
		res.Add(pbt.V("get-status", "%d GET requests were answered with neither 200 nor 503", other))
	}
	if v, err := c18Counter(reg, c18ConcMetric, ""); err == nil && int(v) != refused {
		res.Add(pbt.V("refusal-report", "%d GET requests were refused with 503, %s says %v", refused, c18ConcMetric, v))
	}
	res.NonTrivial = refused > 0 && ok > 0
	res.Class(fmt.Sprintf("c-%d", sc.C))
	return res
}

func TestC18GetBurst(t *testing.T) {
	pbt.Run(t, pbt.Spec[c18bScenario]{
		Property: "C18", Name: "C18GetBurst",
		Rule: "the real api.New(...).Register mux with get-concurrency 1-3; 100-600 rounds in which 4-32 goroutines released together GET a router route and /api/v2/alerts/groups; the handlers count how many of them are inside at the same time (each stays for 0-100 scheduler yields); GOMAXPROCS 4/16. The count never exceeds the configured concurrency, every answer is 200 or 503, and the refusal counter equals the number of 503 answers. Real scheduler; built with -race in the thorough tier. Non-trivial: some requests were served and some refused.",
		Gen:  genC18Burst, Exec: execC18Burst,
	})
}
