package checks

// C18 part 3: GET concurrency limit of the real api.New(...).Register mux.
//
// Real goroutines, no sleeps: GET handlers park inside an injected blocking
// GroupFunc / alerts provider / router handler; the harness learns that a
// request was admitted (hook entered) or answered (ServeHTTP returned) from
// channels only. The oracle counts RUNNING handlers (entered the gate and not
// yet released by the harness), not responses.
//
// timeout_ms = 0: no request timeout, no bubble (as api.Options.Timeout 0).
// timeout_ms > 0: Options.Timeout (--web.timeout) is set and the same
// interpreter runs inside a synctest bubble, so the http.TimeoutHandler's
// clock is virtual: a parked GET gets its "Exceeded configured timeout" 503
// exactly when the harness blocks on that response (op "await"; nothing else
// lets virtual time pass), at no real-time cost and without any race between
// the timer and the harness. After the timeout answer the handler is still
// running (the harness holds its gate): it must keep its slot, further GETs
// must be refused and counted, and the in-flight gauge must still count it.

import (
	"bytes"
	"context"
	"fmt"
	"net/http"
	"net/http/httptest"
	"strings"
	"testing"
	"testing/synctest"
	"time"

	"github.com/prometheus/client_golang/prometheus"
	"github.com/prometheus/common/model"
	"github.com/prometheus/common/route"
	"pgregory.net/rapid"

	"github.com/prometheus/alertmanager/api"
	"github.com/prometheus/alertmanager/config"
	"github.com/prometheus/alertmanager/dispatch"
	"github.com/prometheus/alertmanager/eventrecorder"
	"github.com/prometheus/alertmanager/featurecontrol"
	"github.com/prometheus/alertmanager/matcher/compat"
	"github.com/prometheus/alertmanager/provider"
	"github.com/prometheus/alertmanager/provider/mem"
	"github.com/prometheus/alertmanager/silence"
	"github.com/prometheus/alertmanager/types"

	"verif/harness/pbt"
)

type c18ConcOp struct {
	Kind  string `json:"kind"`            // get-block | get-quick | post | release | await (timeout_ms > 0 only: block until every parked GET's client has its timeout answer)
	Path  int    `json:"path,omitempty"`  // which endpoint of that kind
	Which int    `json:"which,omitempty"` // release: index into the parked requests (mod their number)
}

type c18ConcScenario struct {
	C      int         `json:"c"`      // Options.Concurrency
	Prefix string      `json:"prefix"` // route prefix: "/" or "/am"
	Ops    []c18ConcOp `json:"ops"`
	// Options.Timeout in (virtual) milliseconds; 0 = no request timeout
	TimeoutMS int `json:"timeout_ms,omitempty"`
}

var (
	c18BlockPaths = []string{"/api/v2/alerts/groups", "/api/v2/alerts", "/-/parked"}
	c18QuickPaths = []string{"/api/v2/status", "/api/v2/silences", "/api/v2/receivers", "/-/quick"}
	c18PostPaths  = []string{"/api/v2/alerts", "/api/v2/silences", "/-/post"}
)

func c18GenConc(t *rapid.T) c18ConcScenario {
	sc := c18ConcScenario{
		C:      rapid.IntRange(1, 4).Draw(t, "c"),
		Prefix: rapid.SampledFrom([]string{"/", "/", "/am"}).Draw(t, "prefix"),
	}
	sc.TimeoutMS = rapid.SampledFrom([]int{0, 0, 0, 20, 30, 50}).Draw(t, "timeout_ms")
	kinds := 9
	if sc.TimeoutMS > 0 {
		kinds = 11 // 10, 11: await
	}
	n := rapid.IntRange(3, 24).Draw(t, "nops")
	for i := 0; i < n; i++ {
		var op c18ConcOp
		switch k := rapid.IntRange(0, kinds).Draw(t, "kind"); {
		case k <= 4:
			op = c18ConcOp{Kind: "get-block", Path: rapid.IntRange(0, len(c18BlockPaths)-1).Draw(t, "path")}
		case k == 5:
			op = c18ConcOp{Kind: "get-quick", Path: rapid.IntRange(0, len(c18QuickPaths)-1).Draw(t, "path")}
		case k <= 7:
			op = c18ConcOp{Kind: "post", Path: rapid.IntRange(0, len(c18PostPaths)-1).Draw(t, "path")}
		case k >= 10:
			op = c18ConcOp{Kind: "await"}
		default:
			op = c18ConcOp{Kind: "release", Which: rapid.IntRange(0, 3).Draw(t, "which")}
		}
		sc.Ops = append(sc.Ops, op)
	}
	return sc
}

// c18Gate is where admitted blocking GETs park.
type c18Gate struct {
	entered  chan chan struct{}
	shutdown chan struct{} // closed at the end of a case: nobody parks any more
}

// park announces the caller and blocks until released.
func (g *c18Gate) park() {
	release := make(chan struct{})
	select {
	case g.entered <- release:
		<-release
	case <-g.shutdown:
	}
}

// c18BlockingProvider parks GetPending (GET /api/v2/alerts); everything else is the real provider.
type c18BlockingProvider struct {
	provider.Alerts
	gate *c18Gate
}

func (p *c18BlockingProvider) GetPending() provider.AlertIterator {
	p.gate.park()
	return p.Alerts.GetPending()
}

type c18Parked struct {
	release  chan struct{}
	done     chan *httptest.ResponseRecorder
	path     string
	answered bool // the client already got the timeout answer; the handler is still running
}

const (
	c18ConcMetric     = "alertmanager_http_concurrency_limit_exceeded_total"
	c18InFlightMetric = "alertmanager_http_requests_in_flight"
	c18TimeoutMsg     = "Exceeded configured timeout"
)

// c18Gauge reads an unlabelled-by-us gauge from the registry.
func c18Gauge(reg *prometheus.Registry, metric string) (float64, error) {
	mfs, err := reg.Gather()
	if err != nil {
		return 0, err
	}
	for _, mf := range mfs {
		if mf.GetName() == metric {
			var sum float64
			for _, m := range mf.GetMetric() {
				sum += m.GetGauge().GetValue()
			}
			return sum, nil
		}
	}
	return 0, fmt.Errorf("metric %s not exported", metric)
}

func c18ExecConc(sc c18ConcScenario) (res pbt.Result) {
	if sc.TimeoutMS > 0 {
		// virtual clock for the TimeoutHandler; settle = every goroutine of the
		// case has finished or is parked on a channel
		bubble(func() { res = c18RunConc(sc, synctest.Wait) })
		return res
	}
	return c18RunConc(sc, func() {})
}

// c18RunConc interprets the scenario. settle is called where the harness has
// released a handler whose client is no longer waiting for it (so that no
// response marks the end of the handler): it returns once that handler has
// left the code under test. Without a timeout every handler's end is marked by
// its response and settle does nothing.
func c18RunConc(sc c18ConcScenario, settle func()) (res pbt.Result) {
	compat.InitFromFlags(nopLog, featurecontrol.NoopFlags{})
	reg := prometheus.NewRegistry()
	ctx, cancel := context.WithCancel(context.Background())
	defer cancel()
	alerts, err := mem.NewAlerts(ctx, time.Hour, 0, nil, nopLog, eventrecorder.NopRecorder(), reg, featurecontrol.NoopFlags{})
	if err != nil {
		res.Fail("harness", "mem.NewAlerts: %v", err)
		return res
	}
	defer alerts.Close()
	sils, err := silence.New(silence.Options{Retention: time.Hour, Logger: nopLog, Metrics: reg, EventRecorder: eventrecorder.NopRecorder()})
	if err != nil {
		res.Fail("harness", "silence.New: %v", err)
		return res
	}
	gate := &c18Gate{entered: make(chan chan struct{}), shutdown: make(chan struct{})}
	timeout := time.Duration(sc.TimeoutMS) * time.Millisecond
	a, err := api.New(api.Options{
		Timeout:        timeout,
		Alerts:         &c18BlockingProvider{Alerts: alerts, gate: gate},
		Silences:       sils,
		GroupMutedFunc: func(string, string) ([]string, bool) { return nil, false },
		Concurrency:    sc.C,
		Logger:         nopLog,
		Registry:       reg,
		RequestDuration: prometheus.NewHistogramVec(prometheus.HistogramOpts{Name: "alertmanager_http_request_duration_seconds", Help: "h"},
			[]string{"handler", "method", "code"}),
		GroupFunc: func(context.Context, func(*dispatch.Route) bool, func(*types.Alert, time.Time) bool) (dispatch.AlertGroups, map[model.Fingerprint][]string, error) {
			gate.park()
			return nil, nil, nil
		},
	})
	if err != nil {
		res.Fail("harness", "api.New: %v", err)
		return res
	}
	cfg, err := config.Load(c18Config)
	if err != nil {
		res.Fail("harness", "config.Load: %v", err)
		return res
	}
	a.Update(cfg, func(context.Context, model.LabelSet) {})

	// router wired as app.setup does
	router := route.New()
	if sc.Prefix != "/" {
		router = router.WithPrefix(sc.Prefix)
	}
	router.Get("/-/parked", func(w http.ResponseWriter, _ *http.Request) { gate.park(); w.WriteHeader(http.StatusOK) })
	router.Get("/-/quick", func(w http.ResponseWriter, _ *http.Request) { w.WriteHeader(http.StatusOK) })
	router.Post("/-/post", func(w http.ResponseWriter, _ *http.Request) { w.WriteHeader(http.StatusOK) })
	mux := a.Register(router, sc.Prefix)
	prefix := ""
	if sc.Prefix != "/" {
		prefix = sc.Prefix
	}

	counter := func() float64 {
		v, err := c18Counter(reg, c18ConcMetric, "")
		if err != nil {
			res.Fail("harness", "gather: %v", err)
		}
		return v
	}
	start := func(method, path string, body []byte) chan *httptest.ResponseRecorder {
		done := make(chan *httptest.ResponseRecorder, 1)
		req := httptest.NewRequest(method, prefix+path, bytes.NewReader(body))
		if body != nil {
			req.Header.Set("Content-Type", "application/json")
		}
		go func() {
			rec := httptest.NewRecorder()
			mux.ServeHTTP(rec, req)
			done <- rec
		}()
		return done
	}

	// parked = the GET handlers that are running: they entered the gate and the
	// harness has not released them, whether or not their client still waits.
	var parked []c18Parked
	// releaseAt lets handler k run to its end. It returns the response, or nil
	// if the client had its timeout answer before (then settle marks the end).
	releaseAt := func(k int) *httptest.ResponseRecorder {
		p := parked[k]
		parked = append(parked[:k:k], parked[k+1:]...)
		close(p.release)
		if p.answered {
			settle()
			return nil
		}
		return <-p.done
	}
	defer func() {
		close(gate.shutdown)
		for len(parked) > 0 {
			releaseAt(0)
		}
	}()
	answered := func() (n int) {
		for _, p := range parked {
			if p.answered {
				n++
			}
		}
		return n
	}
	// isTimeoutAnswer: the 503 of the request timeout, which is not a refusal
	// by the concurrency limit (only possible with timeout_ms > 0).
	isTimeoutAnswer := func(rec *httptest.ResponseRecorder) bool {
		return sc.TimeoutMS > 0 && rec.Code == http.StatusServiceUnavailable && strings.Contains(rec.Body.String(), c18TimeoutMsg)
	}
	// the in-flight gauge counts the GET handlers that are running
	checkGauge := func(where string) {
		settle()
		g, err := c18Gauge(reg, c18InFlightMetric)
		if err != nil {
			res.Fail("harness", "gather: %v", err)
			return
		}
		if g != float64(len(parked)) {
			res.Add(pbt.V("gauge-mismatch", "%s: %s reads %v while %d GET handlers are running (%d of them after their client got the timeout answer)", where, c18InFlightMetric, g, len(parked), answered()).
				With("gauge", g).With("running", len(parked)).With("timed_out_running", answered()).With("limit", sc.C))
		}
	}

	// get issues one GET and judges it against the number of running GET handlers.
	// blocking: the endpoint parks once admitted.
	var sawRefusal, sawPostAtLimit, sawReuse, sawRefusalAfterTimeout, sawReuseAfterTimeout bool
	releases, timedOutReleases := 0, 0
	get := func(where, path string, blocking bool) {
		full := len(parked) >= sc.C
		timedOut := answered()
		c0 := counter()
		done := start(http.MethodGet, path, nil)
		select {
		case release := <-gate.entered:
			// admitted and parked inside the handler
			parked = append(parked, c18Parked{release: release, done: done, path: path})
			if !blocking {
				res.Fail("harness", "%s: quick endpoint %s parked", where, path)
				return
			}
			if full {
				res.Add(pbt.V("admitted-above-limit", "%s: GET %s entered its handler while %d GET handlers were already running (%d of them after their client got the timeout answer; concurrency %d)", where, path, len(parked)-1, timedOut, sc.C).
					With("in_flight", len(parked)-1).With("timed_out_running", timedOut).With("limit", sc.C))
			}
			if c1 := counter(); c1 != c0 {
				res.Add(pbt.V("counter-on-admission", "%s: %s moved by %v although the GET was admitted", where, c18ConcMetric, c1-c0))
			}
			if releases > 0 && !full {
				sawReuse = true
			}
			if timedOutReleases > 0 && !full {
				sawReuseAfterTimeout = true
			}
		case rec := <-done:
			c1 := counter()
			switch {
			case isTimeoutAnswer(rec):
				// the request neither parked in its handler nor was answered by
				// anybody for the whole (virtual) timeout
				res.Add(pbt.V("stuck-until-timeout", "%s: GET %s with %d of %d GET handlers running was neither served nor refused at once; it got the timeout answer: %s", where, path, len(parked), sc.C, rec.Body.String()).
					With("in_flight", len(parked)).With("limit", sc.C))
			case rec.Code == http.StatusServiceUnavailable && !full:
				res.Add(pbt.V("refused-below-limit", "%s: GET %s answered 503 with %d of %d GETs in flight: %s", where, path, len(parked), sc.C, rec.Body.String()).
					With("in_flight", len(parked)).With("limit", sc.C).With("after_release", releases > 0).With("after_timed_out_release", timedOutReleases > 0))
			case rec.Code == http.StatusServiceUnavailable:
				sawRefusal = true
				if timedOut > 0 {
					sawRefusalAfterTimeout = true
				}
				if c1-c0 != 1 {
					res.Add(pbt.V("refusal-not-counted", "%s: GET %s answered 503 but %s moved by %v", where, path, c18ConcMetric, c1-c0))
				}
			case full:
				res.Add(pbt.V("served-above-limit", "%s: GET %s answered %d with %d GET handlers running (%d of them after their client got the timeout answer; concurrency %d)", where, path, rec.Code, len(parked), timedOut, sc.C).
					With("in_flight", len(parked)).With("timed_out_running", timedOut).With("limit", sc.C))
			case blocking:
				res.Fail("harness", "%s: blocking endpoint %s answered %d %s without parking", where, path, rec.Code, rec.Body.String())
			case rec.Code != http.StatusOK:
				res.Fail("harness", "%s: GET %s answered %d %s", where, path, rec.Code, rec.Body.String())
			default:
				if c1 != c0 {
					res.Add(pbt.V("counter-on-admission", "%s: %s moved by %v although the GET was served", where, c18ConcMetric, c1-c0))
				}
				if releases > 0 {
					sawReuse = true
				}
				if timedOutReleases > 0 {
					sawReuseAfterTimeout = true
				}
			}
		}
	}
	post := func(where, path string, body []byte) {
		c0 := counter()
		rec := <-start(http.MethodPost, path, body)
		if len(parked) >= sc.C {
			sawPostAtLimit = true
		}
		if rec.Code == http.StatusServiceUnavailable {
			res.Add(pbt.V("post-limited", "%s: POST %s answered 503 with %d GETs in flight: %s", where, path, len(parked), rec.Body.String()).
				With("in_flight", len(parked)).With("limit", sc.C))
		} else if rec.Code != http.StatusOK {
			res.Fail("harness", "%s: POST %s answered %d %s", where, path, rec.Code, rec.Body.String())
		}
		if c1 := counter(); c1 != c0 {
			res.Add(pbt.V("post-counted", "%s: %s moved by %v on a POST", where, c18ConcMetric, c1-c0))
		}
	}
	// await blocks until the client of every running GET has its answer, which
	// can only be the timeout answer (the handler stays parked). Inside the
	// bubble this is what lets the virtual clock reach the timeouts.
	awaited := 0
	await := func(where string) {
		c0 := counter()
		for k := range parked {
			if parked[k].answered {
				continue
			}
			select {
			case rec := <-parked[k].done:
				parked[k].answered = true
				awaited++
				if !isTimeoutAnswer(rec) {
					res.Fail("harness", "%s: GET %s whose handler is still parked was answered %d %s", where, parked[k].path, rec.Code, rec.Body.String())
				}
			case <-time.After(100*timeout + time.Minute): // virtual
				res.Add(pbt.V("timeout-not-enforced", "%s: GET %s parked in its handler got no answer within 100 times the request timeout of %v", where, parked[k].path, timeout))
				return
			}
		}
		if c1 := counter(); c1 != c0 {
			res.Add(pbt.V("counter-on-timeout", "%s: %s moved by %v although no GET was refused (parked GETs got their timeout answers)", where, c18ConcMetric, c1-c0))
		}
	}
	release := func(where string, k int) {
		wasAnswered := parked[k].answered
		rec := releaseAt(k)
		releases++
		if wasAnswered {
			timedOutReleases++
		} else if rec.Code != http.StatusOK {
			res.Fail("harness", "%s: released GET answered %d %s", where, rec.Code, rec.Body.String())
		}
	}

	for i, op := range sc.Ops {
		where := fmt.Sprintf("step %d %+v (%d running, %d of them timed out)", i, op, len(parked), answered())
		switch op.Kind {
		case "get-block":
			get(where, c18BlockPaths[op.Path%len(c18BlockPaths)], true)
		case "get-quick":
			get(where, c18QuickPaths[op.Path%len(c18QuickPaths)], false)
		case "post":
			path := c18PostPaths[op.Path%len(c18PostPaths)]
			var body []byte
			switch path {
			case "/api/v2/alerts":
				body = []byte(fmt.Sprintf(`[{"labels":{"alertname":"A","step":"%d"}}]`, i))
			case "/api/v2/silences":
				now := time.Now().UTC()
				body = []byte(fmt.Sprintf(`{"matchers":[{"name":"a","value":"b","isRegex":false}],"startsAt":%q,"endsAt":%q,"createdBy":"c18","comment":"c"}`,
					now.Format(time.RFC3339Nano), now.Add(time.Hour).Format(time.RFC3339Nano)))
			}
			post(where, path, body)
		case "release":
			if len(parked) == 0 {
				continue
			}
			release(where, op.Which%len(parked))
		case "await":
			if sc.TimeoutMS == 0 {
				continue
			}
			await(where)
		}
		if len(res.Violations) == 0 {
			checkGauge(where)
		}
		if len(res.Violations) > 0 {
			return res
		}
	}
	genRefusal, genPostAtLimit, genReuse := sawRefusal, sawPostAtLimit, sawReuse
	genRefusalAfterTimeout, genReuseAfterTimeout, genAwaited := sawRefusalAfterTimeout, sawReuseAfterTimeout, awaited
	// after release GETs succeed again: drain, then the full capacity must be usable
	for len(parked) > 0 {
		release("final phase, releasing everything", 0)
	}
	checkGauge("final phase, after releasing everything")
	for k := 0; k < sc.C && len(res.Violations) == 0; k++ {
		get(fmt.Sprintf("final phase, GET %d of %d after releasing everything", k+1, sc.C), c18BlockPaths[k%len(c18BlockPaths)], true)
	}
	if len(res.Violations) == 0 && sc.TimeoutMS > 0 {
		// the clients give up, the handlers go on: the capacity stays used
		await("final phase, awaiting the timeout answers of the whole capacity")
	}
	if len(res.Violations) == 0 {
		checkGauge("final phase, whole capacity in use")
	}
	if len(res.Violations) == 0 {
		get("final phase, one GET beyond the capacity", c18QuickPaths[0], false)
		post(fmt.Sprintf("final phase, POST with %d GET handlers running", len(parked)), c18PostPaths[2], nil)
	}
	if len(res.Violations) == 0 && sc.TimeoutMS > 0 {
		// a handler that ends after its client's timeout gives its slot back
		release("final phase, releasing one timed-out GET", 0)
		get("final phase, one GET after a timed-out handler ended", c18QuickPaths[0], false)
	}
	if len(res.Violations) == 0 {
		checkGauge("final phase, end")
	}

	// the final phase always produces the events; the rule and the histogram
	// count only what the generated part of the history reached
	res.NonTrivial = genRefusal && genPostAtLimit && genReuse
	if sc.TimeoutMS > 0 {
		res.NonTrivial = res.NonTrivial && genRefusalAfterTimeout
	}
	res.Class(fmt.Sprintf("c=%d", sc.C))
	if sc.TimeoutMS > 0 {
		res.Class("timeout>0")
	} else {
		res.Class("timeout=0")
	}
	if genRefusal {
		res.Class("refused-503")
	}
	if genPostAtLimit {
		res.Class("post-at-limit")
	}
	if genReuse {
		res.Class("slot-reused")
	}
	if genAwaited > 0 {
		res.Class("handler-outlived-timeout")
	}
	if genRefusalAfterTimeout {
		res.Class("refused-503-while-timed-out-handlers-hold-slots")
	}
	if genReuseAfterTimeout {
		res.Class("slot-reused-after-timed-out-handler-ended")
	}
	return res
}

func TestC18GetConcurrency(t *testing.T) {
	pbt.Run(t, pbt.Spec[c18ConcScenario]{
		Property: "C18", Name: "C18GetConcurrency",
		Rule: "concurrency c∈1..4, route prefix / or /am, request timeout 0 (half of the cases) or 20/30/50 virtual ms, generated order of parking GETs (groups / alerts / router), quick GETs, POSTs, releases and (with a timeout) awaits of the timeout answers of all parked GETs against the real api.New(...).Register mux; judged on the number of GET handlers that are running (parked and not released, also after their client's timeout answer); " +
			"then a fixed final phase (release all, refill the whole capacity, with a timeout await the timeout answers, one GET beyond the capacity, one POST, with a timeout end one timed-out handler and GET again); non-trivial iff within the generated part a GET was refused with 503, a POST was issued with c GET handlers running, a slot was used again after a release and, with a timeout, a GET was refused while a handler whose client had timed out held a slot",
		Gen:  c18GenConc,
		Exec: c18ExecConc,
	})
}
