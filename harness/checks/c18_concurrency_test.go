package checks

// C18 part 3: GET concurrency limit of the real api.New(...).Register mux.
//
// Real goroutines, no bubble, no sleeps: GET handlers park inside an injected
// blocking GroupFunc / alerts provider / router handler; the harness learns
// that a request was admitted (hook entered) or answered (ServeHTTP returned)
// from channels only.

import (
	"bytes"
	"context"
	"fmt"
	"net/http"
	"net/http/httptest"
	"testing"
	"time"

	"github.com/prometheus/client_golang/prometheus"
	"github.com/prometheus/common/model"
	"github.com/prometheus/common/route"
	"pgregory.net/rapid"

	"github.com/prometheus/alertmanager/api"
	"github.com/prometheus/alertmanager/config"
	"github.com/prometheus/alertmanager/dispatch"
	"github.com/prometheus/alertmanager/eventrecorder"
	"github.com/prometheus/alertmanager/featurecontrol"
	"github.com/prometheus/alertmanager/matcher/compat"
	"github.com/prometheus/alertmanager/provider"
	"github.com/prometheus/alertmanager/provider/mem"
	"github.com/prometheus/alertmanager/silence"
	"github.com/prometheus/alertmanager/types"

	"verif/harness/pbt"
)

type c18ConcOp struct {
	Kind  string `json:"kind"`            // get-block | get-quick | post | release
	Path  int    `json:"path,omitempty"`  // which endpoint of that kind
	Which int    `json:"which,omitempty"` // release: index into the parked requests (mod their number)
}

type c18ConcScenario struct {
	C      int         `json:"c"`      // Options.Concurrency
	Prefix string      `json:"prefix"` // route prefix: "/" or "/am"
	Ops    []c18ConcOp `json:"ops"`
}

var (
	c18BlockPaths = []string{"/api/v2/alerts/groups", "/api/v2/alerts", "/-/parked"}
	c18QuickPaths = []string{"/api/v2/status", "/api/v2/silences", "/api/v2/receivers", "/-/quick"}
	c18PostPaths  = []string{"/api/v2/alerts", "/api/v2/silences", "/-/post"}
)

func c18GenConc(t *rapid.T) c18ConcScenario {
	sc := c18ConcScenario{
		C:      rapid.IntRange(1, 4).Draw(t, "c"),
		Prefix: rapid.SampledFrom([]string{"/", "/", "/am"}).Draw(t, "prefix"),
	}
	n := rapid.IntRange(3, 24).Draw(t, "nops")
	for i := 0; i < n; i++ {
		var op c18ConcOp
		switch k := rapid.IntRange(0, 9).Draw(t, "kind"); {
		case k <= 4:
			op = c18ConcOp{Kind: "get-block", Path: rapid.IntRange(0, len(c18BlockPaths)-1).Draw(t, "path")}
		case k == 5:
			op = c18ConcOp{Kind: "get-quick", Path: rapid.IntRange(0, len(c18QuickPaths)-1).Draw(t, "path")}
		case k <= 7:
			op = c18ConcOp{Kind: "post", Path: rapid.IntRange(0, len(c18PostPaths)-1).Draw(t, "path")}
		default:
			op = c18ConcOp{Kind: "release", Which: rapid.IntRange(0, 3).Draw(t, "which")}
		}
		sc.Ops = append(sc.Ops, op)
	}
	return sc
}

// c18Gate is where admitted blocking GETs park.
type c18Gate struct{ entered chan chan struct{} }

// park announces the caller and blocks until released.
func (g *c18Gate) park() {
	release := make(chan struct{})
	g.entered <- release
	<-release
}

// c18BlockingProvider parks GetPending (GET /api/v2/alerts); everything else is the real provider.
type c18BlockingProvider struct {
	provider.Alerts
	gate *c18Gate
}

func (p *c18BlockingProvider) GetPending() provider.AlertIterator {
	p.gate.park()
	return p.Alerts.GetPending()
}

type c18Parked struct {
	release chan struct{}
	done    chan *httptest.ResponseRecorder
	path    string
}

const c18ConcMetric = "alertmanager_http_concurrency_limit_exceeded_total"

func c18ExecConc(sc c18ConcScenario) (res pbt.Result) {
	compat.InitFromFlags(nopLog, featurecontrol.NoopFlags{})
	reg := prometheus.NewRegistry()
	ctx, cancel := context.WithCancel(context.Background())
	defer cancel()
	alerts, err := mem.NewAlerts(ctx, time.Hour, 0, nil, nopLog, eventrecorder.NopRecorder(), reg, featurecontrol.NoopFlags{})
	if err != nil {
		res.Fail("harness", "mem.NewAlerts: %v", err)
		return res
	}
	defer alerts.Close()
	sils, err := silence.New(silence.Options{Retention: time.Hour, Logger: nopLog, Metrics: reg, EventRecorder: eventrecorder.NopRecorder()})
	if err != nil {
		res.Fail("harness", "silence.New: %v", err)
		return res
	}
	gate := &c18Gate{entered: make(chan chan struct{})}
	a, err := api.New(api.Options{
		Alerts:         &c18BlockingProvider{Alerts: alerts, gate: gate},
		Silences:       sils,
		GroupMutedFunc: func(string, string) ([]string, bool) { return nil, false },
		Concurrency:    sc.C,
		Logger:         nopLog,
		Registry:       reg,
		RequestDuration: prometheus.NewHistogramVec(prometheus.HistogramOpts{Name: "alertmanager_http_request_duration_seconds", Help: "h"},
			[]string{"handler", "method", "code"}),
		GroupFunc: func(context.Context, func(*dispatch.Route) bool, func(*types.Alert, time.Time) bool) (dispatch.AlertGroups, map[model.Fingerprint][]string, error) {
			gate.park()
			return nil, nil, nil
		},
	})
	if err != nil {
		res.Fail("harness", "api.New: %v", err)
		return res
	}
	cfg, err := config.Load(c18Config)
	if err != nil {
		res.Fail("harness", "config.Load: %v", err)
		return res
	}
	a.Update(cfg, func(context.Context, model.LabelSet) {})

	// router wired as app.setup does
	router := route.New()
	if sc.Prefix != "/" {
		router = router.WithPrefix(sc.Prefix)
	}
	router.Get("/-/parked", func(w http.ResponseWriter, _ *http.Request) { gate.park(); w.WriteHeader(http.StatusOK) })
	router.Get("/-/quick", func(w http.ResponseWriter, _ *http.Request) { w.WriteHeader(http.StatusOK) })
	router.Post("/-/post", func(w http.ResponseWriter, _ *http.Request) { w.WriteHeader(http.StatusOK) })
	mux := a.Register(router, sc.Prefix)
	prefix := ""
	if sc.Prefix != "/" {
		prefix = sc.Prefix
	}

	counter := func() float64 {
		v, err := c18Counter(reg, c18ConcMetric, "")
		if err != nil {
			res.Fail("harness", "gather: %v", err)
		}
		return v
	}
	start := func(method, path string, body []byte) chan *httptest.ResponseRecorder {
		done := make(chan *httptest.ResponseRecorder, 1)
		req := httptest.NewRequest(method, prefix+path, bytes.NewReader(body))
		if body != nil {
			req.Header.Set("Content-Type", "application/json")
		}
		go func() {
			rec := httptest.NewRecorder()
			mux.ServeHTTP(rec, req)
			done <- rec
		}()
		return done
	}

	var parked []c18Parked
	releaseAt := func(k int) *httptest.ResponseRecorder {
		p := parked[k]
		parked = append(parked[:k:k], parked[k+1:]...)
		close(p.release)
		return <-p.done
	}
	defer func() {
		for len(parked) > 0 {
			releaseAt(0)
		}
	}()

	// get issues one GET and judges it against the number of parked GETs.
	// blocking: the endpoint parks once admitted.
	var sawRefusal, sawPostAtLimit, sawReuse bool
	releases := 0
	get := func(where, path string, blocking bool) {
		full := len(parked) >= sc.C
		c0 := counter()
		done := start(http.MethodGet, path, nil)
		select {
		case release := <-gate.entered:
			// admitted and parked inside the handler
			parked = append(parked, c18Parked{release: release, done: done, path: path})
			if !blocking {
				res.Fail("harness", "%s: quick endpoint %s parked", where, path)
				return
			}
			if full {
				res.Add(pbt.V("admitted-above-limit", "%s: GET %s entered its handler while %d GETs were already in flight (concurrency %d)", where, path, len(parked)-1, sc.C).
					With("in_flight", len(parked)-1).With("limit", sc.C))
			}
			if c1 := counter(); c1 != c0 {
				res.Add(pbt.V("counter-on-admission", "%s: %s moved by %v although the GET was admitted", where, c18ConcMetric, c1-c0))
			}
			if releases > 0 && !full {
				sawReuse = true
			}
		case rec := <-done:
			c1 := counter()
			switch {
			case rec.Code == http.StatusServiceUnavailable && !full:
				res.Add(pbt.V("refused-below-limit", "%s: GET %s answered 503 with %d of %d GETs in flight: %s", where, path, len(parked), sc.C, rec.Body.String()).
					With("in_flight", len(parked)).With("limit", sc.C).With("after_release", releases > 0))
			case rec.Code == http.StatusServiceUnavailable:
				sawRefusal = true
				if c1-c0 != 1 {
					res.Add(pbt.V("refusal-not-counted", "%s: GET %s answered 503 but %s moved by %v", where, path, c18ConcMetric, c1-c0))
				}
			case full:
				res.Add(pbt.V("served-above-limit", "%s: GET %s answered %d with %d GETs in flight (concurrency %d)", where, path, rec.Code, len(parked), sc.C).
					With("in_flight", len(parked)).With("limit", sc.C))
			case blocking:
				res.Fail("harness", "%s: blocking endpoint %s answered %d %s without parking", where, path, rec.Code, rec.Body.String())
			case rec.Code != http.StatusOK:
				res.Fail("harness", "%s: GET %s answered %d %s", where, path, rec.Code, rec.Body.String())
			default:
				if c1 != c0 {
					res.Add(pbt.V("counter-on-admission", "%s: %s moved by %v although the GET was served", where, c18ConcMetric, c1-c0))
				}
				if releases > 0 {
					sawReuse = true
				}
			}
		}
	}

	for i, op := range sc.Ops {
		where := fmt.Sprintf("step %d %+v (%d parked)", i, op, len(parked))
		switch op.Kind {
		case "get-block":
			get(where, c18BlockPaths[op.Path%len(c18BlockPaths)], true)
		case "get-quick":
			get(where, c18QuickPaths[op.Path%len(c18QuickPaths)], false)
		case "post":
			path := c18PostPaths[op.Path%len(c18PostPaths)]
			var body []byte
			switch path {
			case "/api/v2/alerts":
				body = []byte(fmt.Sprintf(`[{"labels":{"alertname":"A","step":"%d"}}]`, i))
			case "/api/v2/silences":
				now := time.Now().UTC()
				body = []byte(fmt.Sprintf(`{"matchers":[{"name":"a","value":"b","isRegex":false}],"startsAt":%q,"endsAt":%q,"createdBy":"c18","comment":"c"}`,
					now.Format(time.RFC3339Nano), now.Add(time.Hour).Format(time.RFC3339Nano)))
			}
			c0 := counter()
			rec := <-start(http.MethodPost, path, body)
			if len(parked) >= sc.C {
				sawPostAtLimit = true
			}
			if rec.Code == http.StatusServiceUnavailable {
				res.Add(pbt.V("post-limited", "%s: POST %s answered 503 with %d GETs in flight: %s", where, path, len(parked), rec.Body.String()).
					With("in_flight", len(parked)).With("limit", sc.C))
			} else if rec.Code != http.StatusOK {
				res.Fail("harness", "%s: POST %s answered %d %s", where, path, rec.Code, rec.Body.String())
			}
			if c1 := counter(); c1 != c0 {
				res.Add(pbt.V("post-counted", "%s: %s moved by %v on a POST", where, c18ConcMetric, c1-c0))
			}
		case "release":
			if len(parked) == 0 {
				continue
			}
			rec := releaseAt(op.Which % len(parked))
			releases++
			if rec.Code != http.StatusOK {
				res.Fail("harness", "%s: released GET answered %d %s", where, rec.Code, rec.Body.String())
			}
		}
		if len(res.Violations) > 0 {
			return res
		}
	}
	genRefusal, genPostAtLimit, genReuse := sawRefusal, sawPostAtLimit, sawReuse
	// after release GETs succeed again: drain, then the full capacity must be usable
	for len(parked) > 0 {
		releaseAt(0)
		releases++
	}
	for k := 0; k < sc.C && len(res.Violations) == 0; k++ {
		get(fmt.Sprintf("final phase, GET %d of %d after releasing everything", k+1, sc.C), c18BlockPaths[k%len(c18BlockPaths)], true)
	}
	if len(res.Violations) == 0 {
		get("final phase, one GET beyond the capacity", c18QuickPaths[0], false)
		rec := <-start(http.MethodPost, c18PostPaths[2], nil)
		if rec.Code != http.StatusOK {
			res.Add(pbt.V("post-limited", "final phase: POST with %d GETs in flight answered %d %s", len(parked), rec.Code, rec.Body.String()).
				With("in_flight", len(parked)).With("limit", sc.C))
		}
	}

	// the final phase always produces the three events; the rule and the
	// histogram count only what the generated part of the history reached
	res.NonTrivial = genRefusal && genPostAtLimit && genReuse
	res.Class(fmt.Sprintf("c=%d", sc.C))
	if genRefusal {
		res.Class("refused-503")
	}
	if genPostAtLimit {
		res.Class("post-at-limit")
	}
	if genReuse {
		res.Class("slot-reused")
	}
	return res
}

func TestC18GetConcurrency(t *testing.T) {
	pbt.Run(t, pbt.Spec[c18ConcScenario]{
		Property: "C18", Name: "C18GetConcurrency",
		Rule: "concurrency c∈1..4, route prefix / or /am, generated order of parking GETs (groups / alerts / router), quick GETs, POSTs and releases against the real api.New(...).Register mux, " +
			"then a fixed final phase (release all, refill the whole capacity, one GET beyond it, one POST); non-trivial iff within the generated part a GET was refused with 503, a POST was issued with c GETs parked, and a slot was used again after a release",
		Gen:  c18GenConc,
		Exec: c18ExecConc,
	})
}
