package checks

// C14ReloadStress: "every aggregation group holding that alert holds the most recently submitted version, regardless
// of how ingestion work is scheduled" when the submission is a multi-alert request that races a configuration reload:
// the new dispatcher takes the provider's snapshot and a subscription while the request is being stored. Whatever the
// interleaving, each alert of the request is either in the snapshot in its new version or reaches the new dispatcher
// over the subscription. Black box, real scheduler.

import (
	"context"
	"fmt"
	"log/slog"
	"sync"
	"testing"
	"time"

	"github.com/prometheus/client_golang/prometheus"
	"github.com/prometheus/common/model"

	"github.com/prometheus/alertmanager/alert"
	"github.com/prometheus/alertmanager/config"
	"github.com/prometheus/alertmanager/dispatch"
	"github.com/prometheus/alertmanager/eventrecorder"
	"github.com/prometheus/alertmanager/featurecontrol"
	"github.com/prometheus/alertmanager/marker"
	"github.com/prometheus/alertmanager/notify"
	"github.com/prometheus/alertmanager/provider/mem"

	"verif/harness/pbt"
)

func TestC14ReloadStress(t *testing.T) {
	if pbt.Replaying() {
		t.Skip("black-box stress check: no scenario to replay")
	}
	m := pbt.NewManual("C14", "C14ReloadStress", "black box, real scheduler: K alerts are re-submitted round after round as ONE multi-alert Put (a new version of every alert, distinct receive time per round) while, at the same moment, the dispatcher is stopped and a new one started on the same provider (what a configuration reload does); after each round the new dispatcher's groups must come to hold the provider's version of every alert (polled; a dispatcher that makes no progress for 10 s is not catching up). Non-trivial: every round.")
	defer m.Flush()
	rounds, k := 40, 1500
	if pbt.Thorough() {
		rounds = 250
	}
	ctx, cancel := context.WithCancel(context.Background())
	defer cancel()
	alerts, err := mem.NewAlerts(ctx, time.Hour, 0, nil, nopLog, eventrecorder.NopRecorder(), prometheus.NewRegistry(), featurecontrol.NoopFlags{})
	if err != nil {
		t.Fatal(err)
	}
	defer alerts.Close()
	gw := model.Duration(time.Hour)
	cr := &config.Route{Receiver: "r", GroupByStr: []string{"a"}, GroupBy: []model.LabelName{"a"}, GroupWait: &gw, GroupInterval: &gw, RepeatInterval: &gw}
	stage := notify.StageFunc(func(ctx context.Context, _ *slog.Logger, as ...*alert.Alert) (context.Context, []*alert.Alert, error) {
		return ctx, as, nil
	})
	newDisp := func() *dispatch.Dispatcher {
		d := dispatch.NewDispatcher(alerts, dispatch.NewRoute(cr, nil), stage, marker.NewGroupMarker(), func(d time.Duration) time.Duration { return d }, time.Hour, nil, nopLog, eventrecorder.NopRecorder(), nil, nil)
		go d.Run(time.Now())
		return d
	}
	batch := func(round int) []*alert.Alert {
		now := time.Now()
		out := make([]*alert.Alert, 0, k)
		for i := 0; i < k; i++ {
			out = append(out, &alert.Alert{Alert: model.Alert{Labels: model.LabelSet{"a": model.LabelValue(fmt.Sprintf("v%d", i%40)), "i": model.LabelValue(fmt.Sprint(i))},
				StartsAt: now.Add(-time.Minute), EndsAt: now.Add(time.Hour), Annotations: model.LabelSet{"v": model.LabelValue(fmt.Sprint(round))}}, UpdatedAt: now})
		}
		return out
	}
	disp := newDisp()
	disp.WaitForLoading()
	defer func() { disp.Stop() }()
	for r := 0; r < rounds; r++ {
		b := batch(r)
		var wg sync.WaitGroup
		start := make(chan struct{})
		wg.Add(2)
		go func() {
			defer wg.Done()
			<-start
			if err := alerts.Put(ctx, b...); err != nil {
				t.Errorf("Put: %v", err)
			}
		}()
		var nd *dispatch.Dispatcher
		go func() {
			defer wg.Done()
			<-start
			// vary where in the request the reload lands
			time.Sleep(time.Duration(r%7) * 150 * time.Microsecond)
			disp.Stop()
			nd = newDisp()
			nd.WaitForLoading()
		}()
		close(start)
		wg.Wait()
		disp = nd
		m.Case(map[string]any{"round": r, "alerts": k}, true, "round")
		// the new dispatcher catches up with the subscription
		lastOK, lastProgress := -1, time.Now()
		var firstBad string
		for {
			ok, bad := 0, ""
			groups, _, err := disp.Groups(context.Background(), func(*dispatch.Route) bool { return true }, func(*alert.Alert, time.Time) bool { return true })
			if err != nil {
				t.Fatal(err)
			}
			for _, g := range groups {
				for _, a := range g.Alerts {
					want, err := alerts.Get(a.Fingerprint())
					if err == nil && a.Annotations["v"] == want.Annotations["v"] && a.UpdatedAt.Equal(want.UpdatedAt) {
						ok++
					} else if bad == "" && err == nil {
						bad = fmt.Sprintf("%v held in version v=%s, the provider holds v=%s", a.Labels, a.Annotations["v"], want.Annotations["v"])
					}
				}
			}
			if ok == k {
				break
			}
			if ok > lastOK {
				lastOK, lastProgress = ok, time.Now()
			}
			if time.Since(lastProgress) > 10*time.Second {
				if bad == "" {
					bad = "(alerts held by no group)"
				}
				firstBad = bad
				break
			}
			time.Sleep(20 * time.Millisecond)
		}
		if firstBad != "" {
			m.Violation(t, map[string]any{"round": r, "alerts": k, "current": lastOK},
				pbt.V("version-lost-across-reload", "round %d: a request of %d alerts was stored while the dispatcher was being replaced; 10 s after the new dispatcher stopped making progress only %d of them are held by its groups in the provider's version, e.g. %s", r, k, lastOK, firstBad))
			return
		}
	}
	m.Set("rounds", rounds)
}
