package checks

// C16Consumers: "routes, silences, inhibition rules and API filters all use this same meaning".
// C16Semantics judges labels.Matchers / MatcherSet / the routing tree; this check hands the same
// generated matcher sets to the other three consumers as a user would (a silence per set and one
// silence carrying all sets, an inhibition rule with the set on the target side and one with the
// set on the source side, GET /api/v2/alerts?filter=…) and compares each verdict with the
// reference evaluation.

import (
	"context"
	"encoding/json"
	"fmt"
	"net/http/httptest"
	"net/url"
	"sort"
	"testing"
	"testing/synctest"
	"time"

	"github.com/prometheus/client_golang/prometheus"
	"github.com/prometheus/common/model"
	"google.golang.org/protobuf/types/known/timestamppb"

	"github.com/prometheus/alertmanager/alert"
	apiv2 "github.com/prometheus/alertmanager/api/v2"
	"github.com/prometheus/alertmanager/config"
	amcommoncfg "github.com/prometheus/alertmanager/config/common"
	"github.com/prometheus/alertmanager/dispatch"
	"github.com/prometheus/alertmanager/eventrecorder"
	"github.com/prometheus/alertmanager/featurecontrol"
	"github.com/prometheus/alertmanager/inhibit"
	"github.com/prometheus/alertmanager/marker"
	"github.com/prometheus/alertmanager/matcher/compat"
	"github.com/prometheus/alertmanager/pkg/labels"
	"github.com/prometheus/alertmanager/provider/mem"
	"github.com/prometheus/alertmanager/silence"
	pb "github.com/prometheus/alertmanager/silence/silencepb"

	"verif/harness/pbt"
	"verif/harness/ref"
)

const c16ConsumersConfig = `
route:
  receiver: r0
receivers:
- name: r0
`

func execC16Consumers(sc c16SemScenario) (res pbt.Result) {
	var compiled []labels.Matchers
	for _, set := range sc.Sets {
		ms, err := toLabelsMatchers(set)
		if err != nil {
			res.Fail("generator", "%v", err)
			return res
		}
		compiled = append(compiled, ms)
	}
	// the label sets that can be alerts: non-empty, distinct
	var alertSets []map[string]string
	seenLS := map[string]bool{}
	for _, lm := range sc.LabelSets {
		k := fmt.Sprint(lm)
		if len(lm) == 0 || seenLS[k] {
			continue
		}
		seenLS[k] = true
		alertSets = append(alertSets, lm)
	}
	trueCnt, falseCnt := 0, 0
	synctest.Test(pbt.T(), func(*testing.T) {
		defer func() {
			if p := recover(); p != nil {
				res.Add(pbt.V("panic", "a consumer panicked: %v", p))
			}
		}()
		compat.InitFromFlags(nopLog, featurecontrol.NoopFlags{})
		ctx, cancel := context.WithCancel(context.Background())
		defer cancel()
		reg := prometheus.NewRegistry()
		rec := eventrecorder.NopRecorder()
		now := time.Now()

		// ---- silences
		sils, err := silence.New(silence.Options{Metrics: reg, Retention: time.Hour, Logger: nopLog, EventRecorder: rec})
		if err != nil {
			res.Fail("harness", "silence.New: %v", err)
			return
		}
		mk := func(sets [][]ref.Matcher) *pb.Silence {
			return &pb.Silence{MatcherSets: c02ToPB(sets), StartsAt: timestamppb.New(now), EndsAt: timestamppb.New(now.Add(time.Hour)), CreatedBy: "c16", Comment: "c"}
		}
		silID := make([]string, len(sc.Sets)) // "" = refused (e.g. every matcher accepts the empty string)
		allStored := true
		for i, set := range sc.Sets {
			s := mk([][]ref.Matcher{set})
			if err := sils.Set(ctx, s); err != nil {
				allStored = false
				res.Class("silence-refused")
				continue
			}
			silID[i] = s.Id
		}
		orID := ""
		if allStored && len(sc.Sets) > 1 {
			s := mk(sc.Sets)
			if err := sils.Set(ctx, s); err == nil {
				orID = s.Id
			}
		}
		silencer := silence.NewSilencer(sils, nopLog, rec)

		// ---- inhibition rules
		alerts, err := mem.NewAlerts(ctx, time.Hour, 0, nil, nopLog, rec, reg, featurecontrol.NoopFlags{})
		if err != nil {
			res.Fail("harness", "mem.NewAlerts: %v", err)
			return
		}
		defer alerts.Close()
		eq := func(name, value string) amcommoncfg.Matchers {
			m, _ := labels.NewMatcher(labels.MatchEqual, name, value)
			return amcommoncfg.Matchers{m}
		}
		var rules []amcommoncfg.InhibitRule
		for i := range sc.Sets {
			// rule 2i: the set on the target side, a dedicated source alert
			rules = append(rules, amcommoncfg.InhibitRule{SourceMatchers: eq("zsrc", fmt.Sprint(i)), TargetMatchers: amcommoncfg.Matchers(compiled[i])})
			// rule 2i+1: the set on the source side, a dedicated target probe
			rules = append(rules, amcommoncfg.InhibitRule{SourceMatchers: amcommoncfg.Matchers(compiled[i]), TargetMatchers: eq("ztgt", fmt.Sprint(i))})
		}
		put := func(ls map[string]string) {
			a := &alert.Alert{Alert: model.Alert{Labels: toLabelSet(ls), StartsAt: now.Add(-time.Second), EndsAt: now.Add(time.Hour)}, UpdatedAt: now}
			if err := alerts.Put(ctx, a); err != nil {
				res.Fail("harness", "Put: %v", err)
			}
		}
		// target-side inhibitor: only the dedicated sources fire
		var tgtRules, srcRules []amcommoncfg.InhibitRule
		for i := range sc.Sets {
			tgtRules = append(tgtRules, rules[2*i])
			srcRules = append(srcRules, rules[2*i+1])
		}
		for i := range sc.Sets {
			put(map[string]string{"zsrc": fmt.Sprint(i)})
		}
		for _, ls := range alertSets {
			put(ls)
		}
		ihT := inhibit.NewInhibitor(alerts, tgtRules, nopLog, rec)
		go ihT.Run()
		ihT.WaitForLoading()
		ihS := inhibit.NewInhibitor(alerts, srcRules, nopLog, rec)
		go ihS.Run()
		ihS.WaitForLoading()
		synctest.Wait()
		defer func() { ihT.Stop(); ihS.Stop(); alerts.Close(); cancel(); synctest.Wait() }()

		// ---- API
		cfg, err := config.Load(c16ConsumersConfig)
		if err != nil {
			res.Fail("harness", "config.Load: %v", err)
			return
		}
		groups := func(context.Context, func(*dispatch.Route) bool, func(*alert.Alert, time.Time) bool) (dispatch.AlertGroups, map[model.Fingerprint][]string, error) {
			return nil, nil, nil
		}
		api, err := apiv2.NewAPI(alerts, groups, func(string, string) ([]string, bool) { return nil, false }, sils, nil, nopLog, reg)
		if err != nil {
			res.Fail("harness", "NewAPI: %v", err)
			return
		}
		api.Update(cfg, func(context.Context, model.LabelSet) {})

		count := func(b bool) {
			if b {
				trueCnt++
			} else {
				falseCnt++
			}
		}
		// silences and target-side inhibition: every label set (also the empty one for silences)
		for _, lm := range sc.LabelSets {
			ls := toLabelSet(lm)
			ss, _, err := sils.Query(ctx, silence.QMatches(ls), silence.QState(silence.SilenceStateActive))
			if err != nil {
				res.Add(pbt.V("silence-query-error", "Query(QMatches(%v)): %v", ls, err))
				continue
			}
			got := map[string]bool{}
			for _, s := range ss {
				got[s.Id] = true
			}
			anyWant := false
			for i, set := range sc.Sets {
				want := ref.MatchAll(set, lm)
				count(want)
				if silID[i] == "" {
					continue
				}
				anyWant = anyWant || want
				if got[silID[i]] != want {
					res.Add(pbt.V("silence-semantics", "silence with %v on %v: matched=%v want %v", compiled[i], ls, got[silID[i]], want).With("consumer", "silence-query"))
				}
			}
			if orID != "" {
				if want := ref.MatchAny(sc.Sets, lm); got[orID] != want {
					res.Add(pbt.V("silence-semantics", "silence with the %d OR-ed sets on %v: matched=%v want %v", len(sc.Sets), ls, got[orID], want).With("consumer", "silence-query-or"))
				}
			}
			if len(lm) > 0 {
				gotMuted := silencer.Mutes(marker.WithContext(ctx, marker.NewAlertMarker()), ls)
				if gotMuted != anyWant {
					res.Add(pbt.V("silence-semantics", "Silencer.Mutes(%v)=%v, reference says %v", ls, gotMuted, anyWant).With("consumer", "silencer"))
				}
				wantInh := ref.MatchAny(sc.Sets, lm)
				if gotInh := ihT.Mutes(marker.WithContext(ctx, marker.NewAlertMarker()), ls); gotInh != wantInh {
					res.Add(pbt.V("inhibit-semantics", "target matchers: Inhibitor.Mutes(%v)=%v, reference says %v (rules target %v)", ls, gotInh, wantInh, compiled).With("consumer", "inhibit-target"))
				}
			}
		}
		// source-side inhibition: probe {ztgt:i} is muted iff set i holds on some firing alert
		for i, set := range sc.Sets {
			probe := map[string]string{"ztgt": fmt.Sprint(i)}
			if ref.MatchAll(set, probe) {
				// the probe would itself be a source of its rule: the both-sides exemption applies, not judged here
				res.Class("probe-matches-source")
				continue
			}
			want := false
			for _, ls := range alertSets {
				want = want || ref.MatchAll(set, ls)
			}
			for j := range sc.Sets {
				want = want || ref.MatchAll(set, map[string]string{"zsrc": fmt.Sprint(j)})
			}
			if got := ihS.Mutes(marker.WithContext(ctx, marker.NewAlertMarker()), toLabelSet(probe)); got != want {
				res.Add(pbt.V("inhibit-semantics", "source matchers %v: Inhibitor.Mutes(%v)=%v, reference says %v", compiled[i], probe, got, want).With("consumer", "inhibit-source"))
			}
		}
		// API filter
		for i, set := range sc.Sets {
			q := url.Values{"active": {"true"}, "silenced": {"true"}, "inhibited": {"true"}, "unprocessed": {"true"}}
			for _, m := range compiled[i] {
				q.Add("filter", m.String())
			}
			req := httptest.NewRequest("GET", "/api/v2/alerts?"+q.Encode(), nil)
			w := httptest.NewRecorder()
			api.Handler.ServeHTTP(w, req)
			if w.Code != 200 {
				res.Add(pbt.V("api-filter-refused", "GET with filter %v answered %d: %s", compiled[i], w.Code, w.Body.String()))
				continue
			}
			var got []struct {
				Labels map[string]string `json:"labels"`
			}
			if err := json.Unmarshal(w.Body.Bytes(), &got); err != nil {
				res.Add(pbt.V("api-filter-body", "GET body does not decode: %v", err))
				continue
			}
			var gotKeys, wantKeys []string
			for _, g := range got {
				gotKeys = append(gotKeys, fmt.Sprint(g.Labels))
			}
			for _, ls := range alertSets {
				if ref.MatchAll(set, ls) {
					wantKeys = append(wantKeys, fmt.Sprint(ls))
				}
			}
			for j := range sc.Sets {
				if ls := map[string]string{"zsrc": fmt.Sprint(j)}; ref.MatchAll(set, ls) {
					wantKeys = append(wantKeys, fmt.Sprint(ls))
				}
			}
			sort.Strings(gotKeys)
			sort.Strings(wantKeys)
			if fmt.Sprint(gotKeys) != fmt.Sprint(wantKeys) {
				res.Add(pbt.V("api-filter-semantics", "GET /api/v2/alerts with filter %v returned %v, reference selects %v", compiled[i], gotKeys, wantKeys).With("consumer", "api-filter"))
			}
		}
	})
	res.NonTrivial = trueCnt > 0 && falseCnt > 0 && len(alertSets) > 0
	if sc.Hostile {
		res.Class("hostile")
	} else {
		res.Class("universe")
	}
	return res
}

func TestC16Consumers(t *testing.T) {
	pbt.Run(t, pbt.Spec[c16SemScenario]{
		Property: "C16", Name: "C16Consumers",
		Rule: "the scenarios of C16Semantics (1-3 OR-ed sets of 1-3 matchers, all four operators, regexes as ASTs incl. user-written anchors, catch-all shapes and the case-insensitive spellings (?i)… / (?i:…), small or hostile alphabet; 1-6 label sets with values sampled from the regex languages, case flipped under (?i)) handed to the other consumers the statement names, inside one virtual-time bubble: a stored silence per set and one silence carrying all sets (Silences.Query with QMatches, Silencer.Mutes), an inhibition rule with the set as target matchers (dedicated firing source) and one with the set as source matchers (dedicated target probe; skipped when the probe itself satisfies the set), and GET /api/v2/alerts?filter=<printed matcher>… over the label sets stored as firing alerts. Oracle: ref.MatchAll / ref.MatchAny (independent whole-string regex matcher, missing label = \"\"). A silence the store refuses (e.g. all matchers accept the empty string) is skipped for that consumer. Non-trivial: at least one label set is a possible alert and the case has both a matching and a non-matching (set, label set) pair.",
		Gen:  genC16Sem, Exec: execC16Consumers,
	})
}
