package checks

// C08Position: "for all assignments of peer positions": the position an instance waits by (position x peer timeout) is
// its rank among the names of the members it currently sees. Real cluster.Peer objects on loopback (memberlist) join
// and leave in a generated order with generated names (a joiner's name may sort before, between or after the others);
// the position is read after every change, as every flush of every integration does, and once the member lists have
// settled every live instance's Position() equals the rank of its own name among the names it lists.

import (
	"fmt"
	"sort"
	"testing"
	"time"

	"pgregory.net/rapid"

	"github.com/prometheus/alertmanager/cluster"

	"verif/harness/pbt"
)

type c08pOp struct {
	Kind string `json:"kind"` // join | leave
	Name int    `json:"name"` // join: name rank 0..9 (peer names am-0 … am-9, each used once); leave: index into the live nodes
}

type c08pScenario struct {
	Ops []c08pOp `json:"ops"`
}

func genC08Position(t *rapid.T) c08pScenario {
	var sc c08pScenario
	names := rapid.Permutation([]int{0, 1, 2, 3, 4, 5, 6, 7, 8, 9}).Draw(t, "names")
	live, next := 0, 0
	n := rapid.IntRange(4, 9).Draw(t, "n")
	for i := 0; i < n && next < len(names); i++ {
		if live >= 2 && (live >= 4 || rapid.IntRange(0, 2).Draw(t, "leave") == 0) {
			sc.Ops = append(sc.Ops, c08pOp{Kind: "leave", Name: rapid.IntRange(0, live-1).Draw(t, "which")})
			live--
			// a change that keeps the member count: someone else joins right away
			if rapid.Bool().Draw(t, "replace") && next < len(names) {
				sc.Ops = append(sc.Ops, c08pOp{Kind: "join", Name: names[next]})
				next++
				live++
			}
			continue
		}
		sc.Ops = append(sc.Ops, c08pOp{Kind: "join", Name: names[next]})
		next++
		live++
	}
	return sc
}

func execC08Position(sc c08pScenario) (res pbt.Result) {
	var live []*c19Node
	var all []*c19Node
	defer func() {
		for _, n := range all {
			if n != nil && n.peer != nil {
				if n.settleCancel != nil {
					n.settleCancel()
				}
				c19Shutdown(n.peer)
			}
		}
	}()
	sameCountChange := false
	names := func(p *cluster.Peer) []string {
		var out []string
		for _, m := range p.Peers() {
			out = append(out, m.Name())
		}
		sort.Strings(out)
		return out
	}
	settle := func() bool {
		var want []string
		for _, n := range live {
			want = append(want, n.name)
		}
		sort.Strings(want)
		deadline := time.Now().Add(10 * time.Second)
		for time.Now().Before(deadline) {
			ok := true
			for _, n := range live {
				if fmt.Sprint(names(n.peer)) != fmt.Sprint(want) {
					ok = false
				}
			}
			if ok {
				return true
			}
			time.Sleep(20 * time.Millisecond)
		}
		return false
	}
	check := func(when string) {
		for _, n := range live {
			ns := names(n.peer)
			want := sort.SearchStrings(ns, n.name)
			// read twice: the answer must not depend on when it was last asked
			got1, got2 := n.peer.Position(), n.peer.Position()
			if got1 != want || got2 != want {
				res.Add(pbt.V("position-wrong", "%s: instance %s sees the members %v, so its position is %d; Position() says %d (and %d when asked again)", when, n.name, ns, want, got1, got2))
			}
		}
	}
	lastCount := 0
	for i, op := range sc.Ops {
		switch op.Kind {
		case "join":
			var known []string
			if len(live) > 0 {
				known = []string{live[0].addr}
			}
			n, err := c19NewNode(fmt.Sprintf("am-%d", op.Name), "", known, 50*time.Millisecond, nil, nil, c19NodeOpts{})
			if n != nil {
				all = append(all, n)
			}
			if err != nil {
				res.Class("environment-error")
				return res
			}
			live = append(live, n)
		case "leave":
			k := op.Name % len(live)
			n := live[k]
			live = append(live[:k], live[k+1:]...)
			n.peer.Leave(2 * time.Second)
		}
		if !settle() {
			res.Class("membership-did-not-settle")
			return res
		}
		// positions are read at flushes; none happens between a leave and the join that follows it at once, so the two
		// readings around such a pair see different members but the same member count
		if op.Kind == "leave" && i+1 < len(sc.Ops) && sc.Ops[i+1].Kind == "join" {
			continue
		}
		if len(live) == lastCount {
			sameCountChange = true
		}
		lastCount = len(live)
		check(fmt.Sprintf("after op %d (%s)", i, op.Kind))
		if len(res.Violations) > 0 {
			return res
		}
	}
	res.NonTrivial = sameCountChange
	if sameCountChange {
		res.Class("membership-changed-with-equal-count")
	}
	return res
}

func TestC08Position(t *testing.T) {
	pbt.Run(t, pbt.Spec[c08pScenario]{
		Property: "C08", Name: "C08Position",
		Rule: "2-5 real cluster.Peer objects on loopback (wired like app.setup, names am-0 … am-9 in a generated order) join and leave in a generated order, often a leave followed at once by the join of a different name so that the member count is the same before and after; after every change the harness waits (up to 10 s) until every live instance lists exactly the live names, then reads Position() twice on each: it must be the rank of the instance's own name among the names it lists. Environment errors make the case inconclusive. Non-trivial: the membership changed while the member count stayed the same between two readings.",
		Gen:  genC08Position, Exec: execC08Position,
	})
}
