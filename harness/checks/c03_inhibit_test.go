package checks

import (
	"context"
	"fmt"
	"github.com/prometheus/alertmanager/config"
	"os"
	"sort"
	"strconv"
	"testing"
	"testing/synctest"
	"time"

	"github.com/prometheus/client_golang/prometheus"
	"github.com/prometheus/common/model"
	"pgregory.net/rapid"

	"github.com/prometheus/alertmanager/alert"
	amcommoncfg "github.com/prometheus/alertmanager/config/common"
	"github.com/prometheus/alertmanager/eventrecorder"
	"github.com/prometheus/alertmanager/featurecontrol"
	"github.com/prometheus/alertmanager/inhibit"
	"github.com/prometheus/alertmanager/marker"
	"github.com/prometheus/alertmanager/provider/mem"

	"verif/harness/gen"
	"verif/harness/pbt"
	"verif/harness/ref"
)

// C03 component machine: real mem.Alerts + real inhibit.Inhibitor in a bubble.
// Ground truth for "the set of currently firing alerts" is the provider's own
// content (GetPending), so the oracle does not depend on the alert-merge rules
// (C13); the verdict must be the documented existential rule over that set.

type c03Rule struct {
	Source []ref.Matcher `json:"source"`
	Target []ref.Matcher `json:"target"`
	Equal  []string      `json:"equal"`
	Legacy bool          `json:"legacy,omitempty"` // written as source_match / source_match_re / target_match / target_match_re when expressible
	Name   string        `json:"name,omitempty"`   // the optional rule name (names need not be unique)
}

type c03Op struct {
	Kind   string `json:"kind"`              // put | advance | query
	LS     int    `json:"ls,omitempty"`      // put: index into LabelSets
	EndOff int    `json:"end_off,omitempty"` // put: end = now + EndOff seconds (<= 0: resolved)
	Dt     int    `json:"dt,omitempty"`      // advance: seconds
	// put: the submission was received LateSec seconds ago (its update time, start and end count from then) and only
	// now reaches the provider: after versions received later (two requests overtaking each other)
	LateSec int `json:"late_sec,omitempty"`
}

type c03Scenario struct {
	Rules     []c03Rule           `json:"rules"`
	LabelSets []map[string]string `json:"label_sets"`
	GCSec     int                 `json:"gc_sec"` // provider GC interval
	Ops       []c03Op             `json:"ops"`
}

// genC03Matchers: matchers derived from a label set of the scenario (so that
// they hit), or free matchers over the universe (regex, negation).
func genC03Matchers(t *rapid.T, label string, from map[string]string) []ref.Matcher {
	if rapid.IntRange(0, 3).Draw(t, label+"free") == 0 || len(from) == 0 {
		n := rapid.IntRange(1, 2).Draw(t, label+"N")
		var ms []ref.Matcher
		for i := 0; i < n; i++ {
			ms = append(ms, gen.UniMatcher().Draw(t, label+"m"))
		}
		return ms
	}
	var names []string
	for _, n := range gen.UniNames {
		if _, ok := from[n]; ok {
			names = append(names, n)
		}
	}
	n := rapid.SampledFrom(names).Draw(t, label+"n")
	ms := []ref.Matcher{{Op: "=", Name: n, Value: from[n]}}
	if rapid.IntRange(0, 4).Draw(t, label+"second") == 0 {
		ms = append(ms, gen.UniMatcher().Draw(t, label+"m2"))
	}
	return ms
}

func genC03(t *rapid.T) c03Scenario {
	var sc c03Scenario
	nl := rapid.IntRange(3, 6).Draw(t, "nls")
	seen := map[string]bool{}
	for i := 0; i < nl; i++ {
		ls := map[string]string{}
		for _, n := range gen.UniNames {
			// dense label sets over two values: equal-label collisions are frequent
			if v := rapid.SampledFrom([]string{"x", "x", "y", "z", ""}).Draw(t, "lv"); v != "" {
				ls[n] = v
			}
		}
		if len(ls) == 0 {
			ls = map[string]string{"a": "x"}
		}
		if k := ref.LabelKey(ls); !seen[k] {
			seen[k] = true
			sc.LabelSets = append(sc.LabelSets, ls)
		}
	}
	nr := rapid.IntRange(1, 3).Draw(t, "nrules")
	for i := 0; i < nr; i++ {
		src := sc.LabelSets[rapid.IntRange(0, len(sc.LabelSets)-1).Draw(t, "srcFrom")]
		tgt := sc.LabelSets[rapid.IntRange(0, len(sc.LabelSets)-1).Draw(t, "tgtFrom")]
		r := c03Rule{Source: genC03Matchers(t, "src", src), Target: genC03Matchers(t, "tgt", tgt)}
		for _, n := range gen.UniNames {
			if rapid.IntRange(0, 3).Draw(t, "eq") == 0 {
				r.Equal = append(r.Equal, n)
			}
		}
		if rapid.IntRange(0, 7).Draw(t, "eqmissing") == 0 {
			r.Equal = append(r.Equal, "d") // label missing on both sides: counts as empty
		}
		// one rule in four is written in the deprecated source_match(_re) / target_match(_re) spelling when it can be
		r.Legacy = rapid.IntRange(0, 3).Draw(t, "legacy") == 0
		r.Name = rapid.SampledFrom([]string{"", "", "outage", "outage", "other"}).Draw(t, "name")
		sc.Rules = append(sc.Rules, r)
	}
	sc.GCSec = rapid.SampledFrom([]int{60, 300, 1800}).Draw(t, "gc")
	nops := rapid.IntRange(3, 30).Draw(t, "nops")
	for i := 0; i < nops; i++ {
		switch rapid.IntRange(0, 9).Draw(t, "op") {
		case 0, 1, 2, 3, 4:
			op := c03Op{Kind: "put", LS: rapid.IntRange(0, len(sc.LabelSets)-1).Draw(t, "ls")}
			op.EndOff = rapid.SampledFrom([]int{-30, 0, 20, 60, 120, 300, 600, 1200, 3600}).Draw(t, "end")
			if rapid.IntRange(0, 5).Draw(t, "late") == 0 {
				op.LateSec = rapid.SampledFrom([]int{5, 40, 200}).Draw(t, "lateSec")
			}
			sc.Ops = append(sc.Ops, op)
			if rapid.Bool().Draw(t, "q") {
				sc.Ops = append(sc.Ops, c03Op{Kind: "query"})
			}
		case 5, 6, 7:
			sc.Ops = append(sc.Ops, c03Op{Kind: "advance", Dt: rapid.SampledFrom([]int{1, 10, 30, 60, 90, 200, 400, 900, 1000, 2000}).Draw(t, "dt")})
			if rapid.Bool().Draw(t, "q") {
				sc.Ops = append(sc.Ops, c03Op{Kind: "query"})
			}
		default:
			sc.Ops = append(sc.Ops, c03Op{Kind: "query"})
		}
	}
	sc.Ops = append(sc.Ops, c03Op{Kind: "query"})
	return sc
}

func c03Inhibited(rules []c03Rule, firing []map[string]string, firingFP []model.Fingerprint, target map[string]string) (bool, map[string]bool) {
	witnesses := map[string]bool{}
	for _, r := range rules {
		if !ref.MatchAll(r.Target, target) {
			continue
		}
		targetIsSource := ref.MatchAll(r.Source, target)
		for i, s := range firing {
			if !ref.MatchAll(r.Source, s) {
				continue
			}
			eq := true
			for _, l := range r.Equal {
				if s[l] != target[l] {
					eq = false
				}
			}
			if !eq {
				continue
			}
			if targetIsSource && ref.MatchAll(r.Target, s) {
				continue // both sides: not inhibited by a source that also matches both sides
			}
			witnesses[firingFP[i].String()] = true
		}
	}
	return len(witnesses) > 0, witnesses
}

// c03LegacyRule renders a rule in the deprecated source_match / source_match_re / target_match / target_match_re
// spelling and loads it the way a configuration file is loaded; ok=false when the rule cannot be written that way
// (a negative matcher, or two matchers on one label of a side).
func c03LegacyRule(r c03Rule) (amcommoncfg.InhibitRule, bool) {
	side := func(prefix string, ms []ref.Matcher) (string, bool) {
		eq, re := "", ""
		seen := map[string]bool{}
		for _, m := range ms {
			if seen[m.Name] {
				return "", false
			}
			seen[m.Name] = true
			switch m.Op {
			case "=":
				eq += fmt.Sprintf("    %s: %s\n", m.Name, strconv.Quote(m.Value))
			case "=~":
				re += fmt.Sprintf("    %s: %s\n", m.Name, strconv.Quote(m.Pattern()))
			default:
				return "", false
			}
		}
		out := ""
		if eq != "" {
			out += "  " + prefix + "_match:\n" + eq
		}
		if re != "" {
			out += "  " + prefix + "_match_re:\n" + re
		}
		return out, true
	}
	src, ok1 := side("source", r.Source)
	tgt, ok2 := side("target", r.Target)
	if !ok1 || !ok2 || src == "" || tgt == "" {
		return amcommoncfg.InhibitRule{}, false
	}
	y := "route:\n  receiver: r\nreceivers:\n- name: r\ninhibit_rules:\n- equal: ["
	for i, e := range r.Equal {
		if i > 0 {
			y += ", "
		}
		y += strconv.Quote(e)
	}
	y += "]\n" + src + tgt
	cfg, err := config.Load(y)
	if err != nil || len(cfg.InhibitRules) != 1 {
		return amcommoncfg.InhibitRule{}, false
	}
	return cfg.InhibitRules[0], true
}

func execC03(sc c03Scenario) (res pbt.Result) {
	var rules []amcommoncfg.InhibitRule
	for _, r := range sc.Rules {
		if r.Legacy {
			if lr, ok := c03LegacyRule(r); ok {
				lr.Name = r.Name
				rules = append(rules, lr)
				res.Class("legacy-rule-spelling")
				continue
			}
		}
		src, err1 := toLabelsMatchers(r.Source)
		tgt, err2 := toLabelsMatchers(r.Target)
		if err1 != nil || err2 != nil {
			res.Fail("generator", "matchers: %v %v", err1, err2)
			return res
		}
		rules = append(rules, amcommoncfg.InhibitRule{Name: r.Name, SourceMatchers: amcommoncfg.Matchers(src), TargetMatchers: amcommoncfg.Matchers(tgt), Equal: r.Equal})
	}
	flips, sharedEqual, updatesOfShared, lateArrivals := 0, false, 0, 0
	synctest.Test(pbt.T(), func(*testing.T) {
		ctx, cancel := context.WithCancel(context.Background())
		defer cancel()
		alerts, err := mem.NewAlerts(ctx, time.Duration(sc.GCSec)*time.Second, 0, nil, nopLog, eventrecorder.NopRecorder(), prometheus.NewRegistry(), featurecontrol.NoopFlags{})
		if err != nil {
			res.Fail("harness", "mem.NewAlerts: %v", err)
			return
		}
		defer alerts.Close()
		ih := inhibit.NewInhibitor(alerts, rules, nopLog, eventrecorder.NopRecorder())
		go ih.Run()
		ih.WaitForLoading()
		defer func() { ih.Stop(); synctest.Wait() }()

		last := map[string]bool{}
		for i, op := range sc.Ops {
			// offset scheme: the i-th op happens at whole seconds + (i+1) ms
			time.Sleep(time.Millisecond)
			now := time.Now()
			switch op.Kind {
			case "advance":
				time.Sleep(time.Duration(op.Dt)*time.Second - time.Millisecond)
				synctest.Wait()
			case "put":
				ls := sc.LabelSets[op.LS]
				recv := now.Add(-time.Duration(op.LateSec) * time.Second)
				a := &alert.Alert{Alert: model.Alert{Labels: toLabelSet(ls), StartsAt: recv.Add(-time.Second), EndsAt: recv.Add(time.Duration(op.EndOff) * time.Second)}, UpdatedAt: recv}
				if op.EndOff <= 0 {
					a.StartsAt = a.EndsAt.Add(-time.Second)
				}
				if op.LateSec > 0 {
					if old, err := alerts.Get(a.Fingerprint()); err == nil && old.UpdatedAt.After(recv) {
						lateArrivals++
					}
				}
				if err := alerts.Put(ctx, a); err != nil {
					res.Fail("harness", "Put: %v", err)
				}
				synctest.Wait() // the inhibitor consumes its own subscription
				if os.Getenv("VERIF_DEBUG_C03") != "" {
					if got, err := alerts.Get(a.Fingerprint()); err == nil {
						fmt.Printf("DEBUG op %d put %v late=%d: sent [%s,%s] upd %s -> stored [%s,%s] upd %s\n", i, ls, op.LateSec, a.StartsAt.Format("04:05.000"), a.EndsAt.Format("04:05.000"), a.UpdatedAt.Format("04:05.000"), got.StartsAt.Format("04:05.000"), got.EndsAt.Format("04:05.000"), got.UpdatedAt.Format("04:05.000"))
					}
				}
				// classification: does this update touch a source that shares equal values with another cached source?
				for _, r := range sc.Rules {
					if !ref.MatchAll(r.Source, ls) {
						continue
					}
					for j, other := range sc.LabelSets {
						if j == op.LS || !ref.MatchAll(r.Source, other) {
							continue
						}
						same := true
						for _, l := range r.Equal {
							if other[l] != ls[l] {
								same = false
							}
						}
						if same {
							updatesOfShared++
						}
					}
				}
			case "query":
				// ground truth: what the provider currently holds and is firing
				var firing []map[string]string
				var firingFP []model.Fingerprint
				it := alerts.GetPending()
				for a := range it.Next() {
					if a.Data.EndsAt.After(now) {
						m := map[string]string{}
						for k, v := range a.Data.Labels {
							m[string(k)] = string(v)
						}
						firing = append(firing, m)
						firingFP = append(firingFP, a.Data.Fingerprint())
					}
				}
				it.Close()
				for _, r := range sc.Rules {
					cnt := map[string]int{}
					for _, s := range firing {
						if ref.MatchAll(r.Source, s) {
							k := ""
							for _, l := range r.Equal {
								k += l + "=" + s[l] + ";"
							}
							cnt[k]++
							if cnt[k] >= 2 {
								sharedEqual = true
							}
						}
					}
				}
				for qi, q := range sc.LabelSets {
					want, witnesses := c03Inhibited(sc.Rules, firing, firingFP, q)
					lset := toLabelSet(q)
					m := marker.NewAlertMarker()
					got := ih.Mutes(marker.WithContext(context.Background(), m), lset)
					by := m.Status(lset.Fingerprint()).InhibitedBy
					key := ref.LabelKey(q)
					if prev, ok := last[key]; ok && prev != got {
						flips++
					}
					last[key] = got
					if got != want {
						kind := "missed-inhibition"
						if got {
							kind = "spurious-inhibition"
						}
						var ws []string
						for w := range witnesses {
							ws = append(ws, w)
						}
						sort.Strings(ws)
						res.Add(pbt.V(kind, "op %d at %s: Mutes(%v)=%v but the rule over the provider's firing alerts %v says %v (witnesses %v)", i, now.Format("15:04:05.000"), q, got, firing, want, ws).With("query", qi))
					} else if got {
						if len(by) == 0 {
							res.Add(pbt.V("inhibited-by-missing", "op %d: %v muted but marker names no inhibiting alert", i, q))
						}
						for _, b := range by {
							if !witnesses[b] {
								res.Add(pbt.V("inhibited-by-wrong", "op %d: %v reported inhibited by %s which is not a firing matching source (witnesses %v)", i, q, b, witnesses))
							}
						}
					} else if len(by) != 0 {
						res.Add(pbt.V("inhibited-by-stale", "op %d: %v not muted but marker lists %v", i, q, by))
					}
				}
			}
		}
	})
	res.NonTrivial = sharedEqual && updatesOfShared > 0 && flips > 0
	if sharedEqual {
		res.Class("shared-equal-sources")
	}
	if lateArrivals > 0 {
		res.Class("late-arrival-of-older-version")
	}
	if flips > 0 {
		res.Class("verdict-flip")
	}
	if updatesOfShared > 0 {
		res.Class("update-of-shared-source")
	}
	return res
}

func TestC03Inhibit(t *testing.T) {
	pbt.Run(t, pbt.Spec[c03Scenario]{
		Property: "C03", Name: "C03Inhibit",
		Rule: "1-3 inhibit rules (source/target: 1-2 matchers incl. regex and negation over a 3x3 label universe; equal subset of label names incl. a label missing everywhere) over a real mem.Alerts + Inhibitor in a synctest bubble; 3-30 ops: put (fresh/refresh with a different end/resolve/re-fire), advance 1s-33min (crossing provider GC and the 15-minute inhibitor cache GC), query all label sets. Oracle: documented existential rule evaluated over the provider's current firing alerts; InhibitedBy must be a witness. Non-trivial: some rule had >=2 firing sources sharing its equal-label values at a query, an update touched such a source, and a verdict flipped.",
		Gen:  genC03, Exec: execC03,
	})
}
