package checks

// C09 — replicated silences converge: newest update wins regardless of
// delivery order. Shared machinery of the three sub-checks: version universe,
// instance wrapper with captured broadcasts, per-instance reference model
// (ref.C09Store, DESIGN A.3), API-operation interpreter mirroring the two
// guards of api/v2.postSilencesHandler, wire helpers, observers.

import (
	"bufio"
	"bytes"
	"context"
	"errors"
	"fmt"
	"io"
	"sort"
	"time"

	"github.com/prometheus/client_golang/prometheus"
	"google.golang.org/protobuf/encoding/protodelim"
	"google.golang.org/protobuf/proto"
	"google.golang.org/protobuf/types/known/timestamppb"
	"pgregory.net/rapid"

	"github.com/prometheus/alertmanager/cluster"
	"github.com/prometheus/alertmanager/eventrecorder"
	"github.com/prometheus/alertmanager/featurecontrol"
	"github.com/prometheus/alertmanager/matcher/compat"
	"github.com/prometheus/alertmanager/silence"
	pb "github.com/prometheus/alertmanager/silence/silencepb"

	"verif/harness/gen"
	"verif/harness/pbt"
	"verif/harness/ref"
)

// Time scheme (soundness: no boundary instant is reachable).
// Every generated quantity (start, end, retention, hand-built updated_at and
// expires_at, step instants) is a whole number of milliseconds after the
// bubble's start. The k-th step of a case happens at its millisecond plus
// (1+2k)·100 nanoseconds. Hence: all step instants are distinct and odd
// multiples of 100 ns; hand-built stamps are whole ms, or a step instant
// ± 1..2 ns ("1 ns apart"); stamps written by the real code (= step instants)
// are pairwise distinct; an expires_at is either a whole ms or (step instant +
// whole-ms retention), which can only coincide with another step instant if
// the step numbers differ by a multiple of 5000 — a case that needs more than
// c09MaxSteps steps is discarded (counted as excluded), never judged.
const c09MaxSteps = 4800

var c09T0 = time.Date(2000, 1, 1, 0, 0, 0, 0, time.UTC)

func c09At(ms int64) time.Time { return c09T0.Add(time.Duration(ms) * time.Millisecond) }

// c09APIOp is one call a user makes through an instance's API object
// (silence.Silences.Set / Expire are what api/v2 calls).
type c09APIOp struct {
	Kind      string            `json:"kind"`                  // create | edit | recreate | expire
	Pick      int               `json:"pick,omitempty"`        // which stored silence (index mod count, in order of first appearance)
	Sets      [][]ref.Matcher   `json:"sets,omitempty"`        // create, recreate
	StartInMs int64             `json:"start_in_ms,omitempty"` // create: start = now + max(0, this)
	DurMs     int64             `json:"dur_ms,omitempty"`      // create: end = start + this; edit/recreate: end = now + this
	KeepEnd   bool              `json:"keep_end,omitempty"`    // edit/recreate: leave the end alone
	Comment   string            `json:"comment,omitempty"`
	Creator   string            `json:"creator,omitempty"`
	Ann       map[string]string `json:"ann,omitempty"`
}

var c09PBType = map[string]pb.Matcher_Type{"=": pb.Matcher_EQUAL, "!=": pb.Matcher_NOT_EQUAL, "=~": pb.Matcher_REGEXP, "!~": pb.Matcher_NOT_REGEXP}

func c09PBSets(sets [][]ref.Matcher) []*pb.MatcherSet {
	var out []*pb.MatcherSet
	for _, set := range sets {
		ms := &pb.MatcherSet{}
		for _, m := range set {
			v := m.Value
			if m.Op == "=~" || m.Op == "!~" {
				v = m.Pattern()
			}
			ms.Matchers = append(ms.Matchers, &pb.Matcher{Type: c09PBType[m.Op], Name: m.Name, Pattern: v})
		}
		out = append(out, ms)
	}
	return out
}

// ------------------------------------------------------------------ wire

// c09Canon brings a decoded silence into the stored form: the legacy
// `matchers` field is a copy of matcher_sets[0] on the wire (old peers) and is
// not part of the content.
func c09Canon(s *pb.Silence) {
	if len(s.MatcherSets) == 0 && len(s.Matchers) > 0 {
		s.MatcherSets = []*pb.MatcherSet{{Matchers: s.Matchers}}
	}
	s.Matchers = nil
}

// c09Decode splits a blob into its length-delimited records.
func c09Decode(b []byte) ([]*pb.MeshSilence, error) {
	br := bufio.NewReader(bytes.NewReader(b))
	var out []*pb.MeshSilence
	for {
		m := &pb.MeshSilence{}
		err := protodelim.UnmarshalFrom(br, m)
		if errors.Is(err, io.EOF) {
			return out, nil
		}
		if err != nil {
			return out, err
		}
		if m.Silence == nil {
			return out, errors.New("record without silence")
		}
		c09Canon(m.Silence)
		out = append(out, m)
	}
}

// c09Encode writes one record the way the code's marshalMeshSilence does
// (matchers = matcher_sets[0] for old peers); legacy drops matcher_sets, which
// is what a pre-matcher-sets peer sends.
func c09Encode(m *pb.MeshSilence, legacy bool) []byte {
	c := proto.Clone(m).(*pb.MeshSilence)
	if len(c.Silence.MatcherSets) > 0 {
		c.Silence.Matchers = c.Silence.MatcherSets[0].Matchers
		if legacy && len(c.Silence.MatcherSets) == 1 {
			c.Silence.MatcherSets = nil
		}
	}
	var buf bytes.Buffer
	if _, err := protodelim.MarshalTo(&buf, c); err != nil {
		panic(err)
	}
	return buf.Bytes()
}

// ------------------------------------------------------------------ world

type c09Key struct {
	id    string
	stamp int64
}

type c09Ver struct {
	ID     string
	Stamp  int64
	Exp    int64
	Mesh   *pb.MeshSilence // canonical
	Bytes  []byte          // single-record blob
	Origin int             // instance index that emitted it through its API; -1 hand-built
	Hand   bool
}

func (v c09Ver) ref(i int) ref.C09Version {
	return ref.C09Version{Key: v.ID, Stamp: v.Stamp, Expires: v.Exp, Ref: i}
}

type c09World struct {
	vers    []c09Ver
	byKey   map[c09Key]int
	idOrder []string
	idIdx   map[string]int
	sets    map[string][][]ref.Matcher
	res     map[string]*ref.Re // printed pattern -> AST, for reading the matchers back out of a stored version
	step    int
	lastMs  int64
	viol    []pbt.Violation
	insts   []*c09Inst
	classes map[string]bool
	// expiry bookkeeping for the convergence rule
	firstMerge int64
	overflow   bool // more steps than the time scheme separates: the case is discarded
}

func newC09World() *c09World {
	return &c09World{byKey: map[c09Key]int{}, idIdx: map[string]int{}, sets: map[string][][]ref.Matcher{}, res: map[string]*ref.Re{}, classes: map[string]bool{}}
}

// noteSets records the ASTs of the generated regexes by their printed form.
func (w *c09World) noteSets(sets [][]ref.Matcher) {
	for _, set := range sets {
		for _, m := range set {
			if m.Re != nil {
				w.res[m.Re.String()] = m.Re
			}
		}
	}
}

// refSetsOf reads the reference matcher sets out of a version's own content (versions of one id may carry
// different matchers when they were not authored through the API).
func (w *c09World) refSetsOf(s *pb.Silence) ([][]ref.Matcher, bool) {
	ops := map[pb.Matcher_Type]string{pb.Matcher_EQUAL: "=", pb.Matcher_NOT_EQUAL: "!=", pb.Matcher_REGEXP: "=~", pb.Matcher_NOT_REGEXP: "!~"}
	var out [][]ref.Matcher
	for _, set := range s.MatcherSets {
		var ms []ref.Matcher
		for _, m := range set.Matchers {
			rm := ref.Matcher{Op: ops[m.Type], Name: m.Name}
			if rm.Op == "=" || rm.Op == "!=" {
				rm.Value = m.Pattern
			} else {
				re, ok := w.res[m.Pattern]
				if !ok {
					return nil, false
				}
				rm.Re = re
			}
			ms = append(ms, rm)
		}
		out = append(out, ms)
	}
	return out, true
}

func (w *c09World) fail(v pbt.Violation) {
	if len(w.viol) < 40 {
		w.viol = append(w.viol, v.With("step", w.step))
	}
}

func (w *c09World) idName(id string) string {
	if i, ok := w.idIdx[id]; ok {
		return fmt.Sprintf("#%d", i)
	}
	return "#?" + id
}

// tick moves virtual time to the next step instant and returns it (ns).
func (w *c09World) tick(atMs int64) int64 {
	if atMs < w.lastMs {
		atMs = w.lastMs
	}
	w.lastMs = atMs
	target := c09At(atMs).Add(time.Duration(1+2*w.step) * 100 * time.Nanosecond)
	w.step++
	if w.step > c09MaxSteps {
		w.overflow = true
	}
	if d := time.Until(target); d > 0 {
		time.Sleep(d)
	}
	return time.Now().UnixNano()
}

// add registers a version (canonical mesh); returns its index.
func (w *c09World) add(m *pb.MeshSilence, b []byte, origin int, hand bool) int {
	k := c09Key{m.Silence.Id, m.Silence.UpdatedAt.AsTime().UnixNano()}
	if i, ok := w.byKey[k]; ok {
		return i
	}
	if _, ok := w.idIdx[k.id]; !ok {
		w.idIdx[k.id] = len(w.idOrder)
		w.idOrder = append(w.idOrder, k.id)
	}
	w.vers = append(w.vers, c09Ver{ID: k.id, Stamp: k.stamp, Exp: m.ExpiresAt.AsTime().UnixNano(), Mesh: m, Bytes: b, Origin: origin, Hand: hand})
	w.byKey[k] = len(w.vers) - 1
	return len(w.vers) - 1
}

// ------------------------------------------------------------------ instance

type c09Inst struct {
	name      string
	idx       int
	s         *silence.Silences
	sent      [][]byte
	lastSent  [][]byte // what the last api/deliver call handed to the broadcast function
	lastPick  string   // id the last api call operated on
	model     ref.C09Store
	got       map[int]int // version -> step of first receipt (delivery or own emission)
	dups      int
	lastStamp map[string]int64
	blobs     [][]byte
	changes   int // merges that changed the state
	noops     int // merges of known material
	warm      *silence.Silencer
}

func (w *c09World) newInst(name string, retention time.Duration) *c09Inst {
	s, err := silence.New(silence.Options{Retention: retention, Metrics: prometheus.NewRegistry(), Logger: nopLog})
	if err != nil {
		panic(err)
	}
	in := &c09Inst{name: name, idx: len(w.insts), s: s, model: ref.C09Store{}, got: map[int]int{}, lastStamp: map[string]int64{}}
	s.SetBroadcast(func(b []byte) { in.sent = append(in.sent, append([]byte(nil), b...)) })
	w.insts = append(w.insts, in)
	return in
}

// visible returns the ids the instance stores, in order of first appearance
// in the case (independent of the random uuid values).
func (w *c09World) visible(in *c09Inst) []string {
	sils, _, err := in.s.Query(context.Background())
	if err != nil {
		return nil
	}
	ids := make([]string, 0, len(sils))
	for _, s := range sils {
		ids = append(ids, s.Id)
	}
	sort.Slice(ids, func(i, j int) bool {
		a, aok := w.idIdx[ids[i]]
		b, bok := w.idIdx[ids[j]]
		if aok != bok {
			return aok
		}
		if a != b {
			return a < b
		}
		return ids[i] < ids[j]
	})
	return ids
}

// api performs one API operation on the instance at the current instant. The
// two guards are those of api/v2.postSilencesHandler (start must be before
// end; end must not be in the past) — a real client never reaches Set
// otherwise. Whatever the instance broadcasts is, by definition, the set of
// versions the operation produced; they enter the universe and the instance's
// model. Returns the emitted version indices.
func (w *c09World) api(in *c09Inst, op c09APIOp, nowNs int64) (emitted []int, outcome string) {
	ctx := context.Background()
	now := time.Unix(0, nowNs).UTC()
	in.sent, in.lastSent, in.lastPick = nil, nil, ""
	var err error
	pickedID := ""
	pick := func() bool {
		ids := w.visible(in)
		if len(ids) == 0 {
			return false
		}
		p := op.Pick
		if p < 0 {
			p = -p
		}
		pickedID = ids[p%len(ids)]
		in.lastPick = pickedID
		return true
	}
	guard := func(sil *pb.Silence) bool {
		st, en := sil.StartsAt.AsTime(), sil.EndsAt.AsTime()
		return st.Before(en) && !en.Before(now)
	}
	switch op.Kind {
	case "create":
		start := now
		if op.StartInMs > 0 {
			start = now.Add(time.Duration(op.StartInMs) * time.Millisecond)
		}
		dur := op.DurMs
		if dur < 1 {
			dur = 1
		}
		sil := &pb.Silence{
			MatcherSets: c09PBSets(op.Sets), StartsAt: timestamppb.New(start),
			EndsAt:    timestamppb.New(start.Add(time.Duration(dur) * time.Millisecond)),
			CreatedBy: op.Creator, Comment: op.Comment, Annotations: op.Ann,
		}
		if !guard(sil) {
			return nil, "guard"
		}
		err = in.s.Set(ctx, sil)
	case "edit", "recreate":
		if !pick() {
			return nil, "nothing-to-pick"
		}
		cur, qerr := in.s.QueryOne(ctx, silence.QIDs(pickedID))
		if qerr != nil {
			return nil, "query-error"
		}
		sil := proto.Clone(cur).(*pb.Silence)
		if !op.KeepEnd {
			dur := op.DurMs
			if dur < 1 {
				dur = 1
			}
			sil.EndsAt = timestamppb.New(now.Add(time.Duration(dur) * time.Millisecond))
		}
		sil.Comment = op.Comment
		sil.Annotations = op.Ann
		if op.Kind == "recreate" {
			sil.MatcherSets = c09PBSets(op.Sets)
		}
		if !guard(sil) {
			return nil, "guard"
		}
		err = in.s.Set(ctx, sil)
	case "expire":
		if !pick() {
			return nil, "nothing-to-pick"
		}
		err = in.s.Expire(ctx, pickedID)
	default:
		return nil, "bad-kind"
	}
	outcome = "ok"
	if err != nil {
		outcome = "rejected"
	}
	for _, b := range in.sent {
		ms, derr := c09Decode(b)
		if derr != nil || len(ms) == 0 {
			w.fail(pbt.V("broadcast-undecodable", "%s: bytes handed to the broadcast function by %s do not decode: %v", in.name, op.Kind, derr))
			continue
		}
		for _, m := range ms {
			_, known := w.idIdx[m.Silence.Id]
			i := w.add(m, b, in.idx, false)
			if !known {
				if op.Kind == "create" || op.Kind == "recreate" {
					w.sets[m.Silence.Id] = op.Sets
					w.noteSets(op.Sets)
				} else {
					w.sets[m.Silence.Id] = w.sets[pickedID]
				}
			}
			in.model.Merge(w.vers[i].ref(i), nowNs)
			if _, ok := in.got[i]; !ok {
				in.got[i] = w.step
			}
			emitted = append(emitted, i)
		}
	}
	in.lastSent, in.sent = in.sent, nil
	if len(emitted) == 0 && outcome == "ok" {
		outcome = "no-change"
	}
	return emitted, outcome
}

// deliver merges a blob made of the given versions (pairwise distinct ids)
// into the instance at the current instant and judges the gossip contract:
//   - known material => state unchanged, broadcast function not called
//     ("re-merging anything already known changes nothing and triggers no
//     further gossip");
//   - a change => the received bytes, and nothing else, are handed to the
//     broadcast function at least once unless cluster.OversizedMessage(b)
//     (oversized blobs travel over TCP to every peer already).
func (w *c09World) deliver(in *c09Inst, blob []byte, vers []int, nowNs int64, what string) (changed bool) {
	in.sent, in.lastSent = nil, nil
	err := in.s.Merge(blob)
	if err != nil {
		w.fail(pbt.V("merge-error", "%s: Merge of a well-formed %s blob (%d records) failed: %v", in.name, what, len(vers), err))
	}
	for _, i := range vers {
		v := w.vers[i]
		if v.Exp < nowNs {
			w.classes["expired-version-offered"] = true
		}
		if in.model.Merge(v.ref(i), nowNs) {
			changed = true
		} else if cur, ok := in.model[v.ID]; ok && cur.Stamp > v.Stamp {
			w.classes["older-version-offered"] = true
		}
		if _, ok := in.got[i]; ok {
			in.dups++
			w.classes["duplicate"] = true
		} else {
			in.got[i] = w.step
		}
	}
	if len(vers) > 1 {
		w.classes["batched"] = true
	}
	over := cluster.OversizedMessage(blob)
	if over {
		w.classes["oversized-blob"] = true
	}
	for _, sb := range in.sent {
		if bytes.Equal(sb, blob) {
			continue // what the pinned code does: the received bytes as they came
		}
		// anything else must at least consist of received records only
		recs, derr := c09Decode(sb)
		foreign := derr != nil || len(recs) == 0
		for _, r := range recs {
			i, ok := w.byKey[c09Key{r.Silence.Id, r.Silence.UpdatedAt.AsTime().UnixNano()}]
			inBlob := false
			for _, j := range vers {
				inBlob = inBlob || i == j
			}
			if !ok || !inBlob || !proto.Equal(r, w.vers[i].Mesh) {
				foreign = true
			}
		}
		if foreign {
			w.fail(pbt.V("regossip-foreign-bytes", "%s: Merge handed %d bytes to the broadcast function that are neither the received %d-byte blob nor a selection of its records", in.name, len(sb), len(blob)))
			break
		}
	}
	switch {
	case !changed && len(in.sent) > 0:
		w.fail(pbt.V("gossip-on-noop", "%s: merging only known/older/expired material (%s, %d records) called the broadcast function %d times", in.name, what, len(vers), len(in.sent)).
			With("records", len(vers)))
	case changed && !over && len(in.sent) == 0:
		w.fail(pbt.V("no-regossip", "%s: a merge that changed the state (%s, %d records, %d bytes) was not handed to the broadcast function", in.name, what, len(vers), len(blob)))
	}
	if changed {
		in.changes++
		if over {
			w.classes["oversized-change"] = true
		}
	} else {
		in.noops++
	}
	in.lastSent, in.sent = in.sent, nil
	in.blobs = append(in.blobs, blob)
	// keep the instance's long-running Silencer exercised at every intermediate instant (its per-alert cache
	// ages with the history) and compare it with a fresh one
	_ = w.mutes(in)
	return changed
}

type c09View struct {
	sils map[string]*pb.Silence     // Query()
	mesh map[string]*pb.MeshSilence // MarshalBinary()
}

func (w *c09World) view(in *c09Inst) c09View {
	v := c09View{sils: map[string]*pb.Silence{}, mesh: map[string]*pb.MeshSilence{}}
	sils, _, err := in.s.Query(context.Background())
	if err != nil {
		w.fail(pbt.V("query-error", "%s: Query() failed: %v", in.name, err))
	}
	for _, s := range sils {
		if _, dup := v.sils[s.Id]; dup {
			w.fail(pbt.V("query-duplicate-id", "%s: Query() returned id %s twice", in.name, w.idName(s.Id)))
		}
		c09Canon(s)
		v.sils[s.Id] = s
	}
	b, err := in.s.MarshalBinary()
	if err != nil {
		w.fail(pbt.V("marshal-error", "%s: MarshalBinary failed: %v", in.name, err))
		return v
	}
	ms, err := c09Decode(b)
	if err != nil {
		w.fail(pbt.V("marshal-undecodable", "%s: MarshalBinary output does not decode: %v", in.name, err))
	}
	for _, m := range ms {
		if _, dup := v.mesh[m.Silence.Id]; dup {
			w.fail(pbt.V("state-duplicate-id", "%s: MarshalBinary holds id %s twice", in.name, w.idName(m.Silence.Id)))
		}
		v.mesh[m.Silence.Id] = m
	}
	return v
}

// observe compares the instance with its reference model after a step.
func (w *c09World) observe(in *c09Inst, nowNs int64, after string) c09View {
	v := w.view(in)
	ids := map[string]bool{}
	for id := range v.sils {
		ids[id] = true
	}
	for id := range v.mesh {
		ids[id] = true
	}
	for id := range in.model {
		ids[id] = true
	}
	for id := range in.lastStamp {
		ids[id] = true
	}
	sorted := make([]string, 0, len(ids))
	for id := range ids {
		sorted = append(sorted, id)
	}
	sort.Strings(sorted)
	for _, id := range sorted {
		want, wok := in.model[id]
		q, qok := v.sils[id]
		m, mok := v.mesh[id]
		if qok != mok {
			w.fail(pbt.V("index-mismatch", "%s after %s: id %s stored=%v but listed by Query()=%v", in.name, after, w.idName(id), mok, qok).
				With("stored", mok).With("queryable", qok))
		}
		var got *pb.Silence
		switch {
		case qok:
			got = q
		case mok:
			got = m.Silence
		}
		if got == nil {
			delete(in.lastStamp, id) // collected: "never decreases" speaks of a stored version being replaced
			if wok {
				w.fail(pbt.V("update-lost", "%s after %s: id %s should be stored with updated_at %s but is absent", in.name, after, w.idName(id), c09TS(want.Stamp)))
			}
			continue
		}
		gs := got.UpdatedAt.AsTime().UnixNano()
		if last, ok := in.lastStamp[id]; ok && gs < last {
			w.fail(pbt.V("newer-replaced-by-older", "%s after %s: id %s went from updated_at %s back to %s", in.name, after, w.idName(id), c09TS(last), c09TS(gs)).
				With("id", id))
		}
		in.lastStamp[id] = gs
		if !wok {
			kind, why := "unexpected-id", "no version of it should have been accepted"
			if uv, ok := w.byKey[c09Key{id, gs}]; ok && w.vers[uv].Exp < nowNs {
				kind, why = "expired-accepted", fmt.Sprintf("that version's expires_at %s was already past when it was offered", c09TS(w.vers[uv].Exp))
			}
			w.fail(pbt.V(kind, "%s after %s: id %s is stored with updated_at %s; %s", in.name, after, w.idName(id), c09TS(gs), why))
			continue
		}
		if gs != want.Stamp {
			kind := "older-kept"
			if gs > want.Stamp {
				kind = "wrong-version"
				if uv, ok := w.byKey[c09Key{id, gs}]; ok && w.vers[uv].Exp < nowNs {
					kind = "expired-accepted"
				}
			}
			w.fail(pbt.V(kind, "%s after %s: id %s stored updated_at %s, latest acceptable version has %s", in.name, after, w.idName(id), c09TS(gs), c09TS(want.Stamp)).
				With("stored", gs).With("want", want.Stamp))
			continue
		}
		wv := w.vers[want.Ref]
		if !proto.Equal(got, wv.Mesh.Silence) {
			w.fail(pbt.V("content-differs", "%s after %s: id %s has the right updated_at but different content:\n got  %v\n want %v", in.name, after, w.idName(id), got, wv.Mesh.Silence))
		}
		if mok {
			if !proto.Equal(m.Silence, wv.Mesh.Silence) {
				w.fail(pbt.V("state-content-differs", "%s after %s: id %s in MarshalBinary differs from the accepted version:\n got  %v\n want %v", in.name, after, w.idName(id), m.Silence, wv.Mesh.Silence))
			}
			if m.ExpiresAt.AsTime().UnixNano() != wv.Exp {
				w.fail(pbt.V("expires-differs", "%s after %s: id %s expires_at %s, accepted version carries %s", in.name, after, w.idName(id), c09TS(m.ExpiresAt.AsTime().UnixNano()), c09TS(wv.Exp)))
			}
		}
	}
	return v
}

func c09TS(ns int64) string { return time.Unix(0, ns).UTC().Format("2006-01-02T15:04:05.000000000") }

// c09Universe: all label sets over gen.UniNames × (absent | gen.UniValues).
func c09Universe() []map[string]string {
	out := []map[string]string{{}}
	for _, n := range gen.UniNames {
		var next []map[string]string
		for _, base := range out {
			for _, v := range append([]string{""}, gen.UniValues...) {
				m := map[string]string{}
				for k, x := range base {
					m[k] = x
				}
				if v != "" {
					m[n] = v
				}
				next = append(next, m)
			}
		}
		out = next
	}
	return out
}

// mutes asks a FRESH Silencer (cold cache) per label set: the C02 defect F1
// (a changed-not-added merge is invisible to a warm cache) is a cache
// staleness defect handled under C02, and cannot trigger on a cold cache.
func (w *c09World) mutes(in *c09Inst) []bool {
	uni := c09Universe()
	out := make([]bool, len(uni))
	// The instance's long-running Silencer (warm per-alert cache, as the notification pipeline uses it) must
	// give the same verdicts: "effective on every connected instance" is what that Silencer says. (The defect
	// F1, which made a warm cache miss a replicated revival, is repaired by a058e5e.)
	if in.warm == nil {
		in.warm = silence.NewSilencer(in.s, nopLog, eventrecorder.Recorder{})
	}
	for i, ls := range uni {
		sil := silence.NewSilencer(in.s, nopLog, eventrecorder.Recorder{})
		out[i] = sil.Mutes(context.Background(), toLabelSet(ls))
		// Not judged once versions of one id differ in their matchers: no API path produces that (a matcher
		// change makes a new id), and the per-alert cache is built on it; the cold verdict is still judged.
		if warm := in.warm.Mutes(context.Background(), toLabelSet(ls)); warm != out[i] && !w.classes["matchers-differ-between-versions"] {
			w.fail(pbt.V("mutes-differ", "%s: the instance's long-running Silencer says Mutes(%v) = %v, a fresh Silencer over the same store says %v", in.name, ls, warm, out[i]).With("labels", ls).With("warm_cache", true))
		}
	}
	return out
}

// refMutes: verdicts the statement implies for a reference store at now.
func (w *c09World) refMutes(st ref.C09Store, nowNs int64) []bool {
	var sils []ref.C09Sil
	for id, v := range st {
		s := w.vers[v.Ref].Mesh.Silence
		sets, ok := w.refSetsOf(s)
		if !ok {
			w.fail(pbt.V("harness", "a matcher pattern of id %s is not one of the generated ones", id))
			continue
		}
		sils = append(sils, ref.C09Sil{Start: s.StartsAt.AsTime().UnixNano(), End: s.EndsAt.AsTime().UnixNano(), Sets: sets})
	}
	uni := c09Universe()
	out := make([]bool, len(uni))
	for i, ls := range uni {
		out[i] = ref.C09Muted(sils, ls, nowNs)
	}
	return out
}

func (w *c09World) compareMutes(name string, got, want []bool, wantName string) {
	uni := c09Universe()
	for i := range uni {
		if got[i] != want[i] {
			w.fail(pbt.V("mutes-differ", "%s: Silencer.Mutes(%v) = %v, %s says %v", name, uni[i], got[i], wantName, want[i]).With("labels", uni[i]))
			return
		}
	}
}

// c09Prelude is run at the top of every case.
func c09Prelude() {
	compat.InitFromFlags(nopLog, featurecontrol.NoopFlags{})
}

// ------------------------------------------------------------------ generators

var c09Alphabet = []rune{'x', 'y', 'z'}

// c09GenSets draws 1–2 matcher sets over the small universe. Every set starts
// with a matcher that does not match the empty string (the API rejects sets
// whose matchers all match ""); all regexes are structurally valid (no F9).
func c09GenSets(t *rapid.T) [][]ref.Matcher {
	n := rapid.SampledFrom([]int{1, 1, 1, 2}).Draw(t, "nsets")
	var sets [][]ref.Matcher
	for i := 0; i < n; i++ {
		var set []ref.Matcher
		name := rapid.SampledFrom(gen.UniNames).Draw(t, "aname")
		if rapid.IntRange(0, 9).Draw(t, "akind") < 7 {
			set = append(set, ref.Matcher{Op: "=", Name: name, Value: rapid.SampledFrom(gen.UniValues).Draw(t, "aval")})
		} else {
			re := gen.Re(c09Alphabet, rapid.IntRange(0, 2).Draw(t, "adepth")).Draw(t, "are")
			if re.Match("") {
				re = &ref.Re{Op: "cat", Subs: []*ref.Re{{Op: "class", Lit: "xyz"}, re}}
			}
			set = append(set, ref.Matcher{Op: "=~", Name: name, Re: re})
		}
		extra := rapid.SampledFrom([]int{0, 0, 1, 2}).Draw(t, "nextra")
		for j := 0; j < extra; j++ {
			set = append(set, gen.UniMatcher().Draw(t, "extra"))
		}
		sets = append(sets, set)
	}
	return sets
}

func c09GenAnn(t *rapid.T) map[string]string {
	switch rapid.IntRange(0, 3).Draw(t, "ann") {
	case 0:
		return map[string]string{"k": rapid.SampledFrom([]string{"v1", "v2"}).Draw(t, "annv")}
	case 1:
		return map[string]string{"k": "v1", "j": rapid.SampledFrom([]string{"", "世"}).Draw(t, "annj")}
	}
	return nil
}

var c09Comments = []string{"", "c1", "c2", "edited", "世界 \"q\""}

// c09GenGap draws a time span (ms) with a log-ish distribution so that cases
// straddle ends and retention expiries of very different scales.
func c09GenGap(t *rapid.T, label string) int64 {
	scale := rapid.SampledFrom([]int64{5, 1000, 60_000, 600_000, 3_600_000}).Draw(t, label+"Scale")
	return rapid.Int64Range(0, scale).Draw(t, label)
}

func c09GenOp(t *rapid.T, kinds []string) c09APIOp {
	op := c09APIOp{Kind: rapid.SampledFrom(kinds).Draw(t, "kind")}
	switch op.Kind {
	case "create":
		op.Sets = c09GenSets(t)
		if rapid.IntRange(0, 3).Draw(t, "pending") == 0 {
			op.StartInMs = 1 + c09GenGap(t, "startIn")
		}
		op.DurMs = 1000 + c09GenGap(t, "dur")
		op.Creator = rapid.SampledFrom([]string{"alice", "bob"}).Draw(t, "creator")
		op.Comment = rapid.SampledFrom(c09Comments).Draw(t, "comment")
		op.Ann = c09GenAnn(t)
	case "edit", "recreate":
		op.Pick = rapid.IntRange(0, 7).Draw(t, "pick")
		op.KeepEnd = rapid.IntRange(0, 2).Draw(t, "keepEnd") == 0
		if !op.KeepEnd {
			op.DurMs = 1000 + c09GenGap(t, "dur")
		}
		op.Comment = rapid.SampledFrom(c09Comments).Draw(t, "comment")
		op.Ann = c09GenAnn(t)
		if op.Kind == "recreate" {
			op.Sets = c09GenSets(t)
		}
	case "expire":
		op.Pick = rapid.IntRange(0, 7).Draw(t, "pick")
	}
	return op
}

var c09Retentions = []int64{1000, 60_000, 600_000, 3_600_000, 5 * 24 * 3_600_000}
