package checks

// C11Loader / FuzzC11Loader — "for all prefixes/corruptions of a snapshot file
// presented to the loader": never a panic or hang; a cut inside a record is an
// error ("never a torn, partial ... state"), a cut on a record boundary yields
// exactly the records before it; records without payload are rejected
// (mechanism "decoder rejects truncated records / records without payload").
// Where the statement is silent (bit flips, splices, arbitrary bytes that still
// decode) only "no panic" is required, plus: whatever state the loader
// accepted, its own next snapshot must load again ("never refuses to start
// because of a file it wrote itself").

import (
	"bytes"
	"context"
	"fmt"
	"os"
	"path/filepath"
	"testing"
	"time"

	"google.golang.org/protobuf/proto"
	"google.golang.org/protobuf/types/known/timestamppb"
	"pgregory.net/rapid"

	"github.com/prometheus/alertmanager/eventrecorder"
	"github.com/prometheus/alertmanager/nflog"
	"github.com/prometheus/alertmanager/nflog/nflogpb"
	"github.com/prometheus/alertmanager/silence"
	"github.com/prometheus/alertmanager/silence/silencepb"

	"verif/harness/pbt"
)

type c11LoaderScenario struct {
	Store   string        `json:"store"` // sil | nf
	Sils    []c11Sil      `json:"sils,omitempty"`
	NfU     c11NfUniverse `json:"nf_universe"`
	Nfs     []c11NfEntry  `json:"nfs,omitempty"`
	Mut     string        `json:"mut"` // none | cut-boundary | cut-inside | no-payload | empty-record | flip | splice | bytes
	Pos     int           `json:"pos"`
	Pos2    int           `json:"pos2"`
	Bit     int           `json:"bit"`
	Bytes   []byte        `json:"bytes,omitempty"`
	ViaFile bool          `json:"via_file,omitempty"`
}

func c11GenLoader(t *rapid.T) c11LoaderScenario {
	sc := c11LoaderScenario{
		Store:   rapid.SampledFrom([]string{"sil", "nf"}).Draw(t, "store"),
		Mut:     rapid.SampledFrom([]string{"none", "cut-boundary", "cut-inside", "cut-inside", "no-payload", "empty-record", "flip", "flip", "splice", "bytes"}).Draw(t, "mut"),
		Pos:     rapid.IntRange(0, 1<<20).Draw(t, "pos"),
		Pos2:    rapid.IntRange(0, 1<<20).Draw(t, "pos2"),
		Bit:     rapid.IntRange(0, 7).Draw(t, "bit"),
		ViaFile: rapid.IntRange(0, 3).Draw(t, "viaFile") == 0,
	}
	sc.NfU = c11GenNfUniverse(t)
	n := rapid.IntRange(1, 6).Draw(t, "n")
	if sc.Store == "sil" {
		for i := 0; i < n; i++ {
			s := c11GenWireSil(t, fmt.Sprintf("s%d", i), false)
			if rapid.IntRange(0, 3).Draw(t, "long") == 0 {
				// records above 127 bytes have a multi-byte length prefix
				s.Comment = s.Comment + string(bytes.Repeat([]byte("long "), rapid.IntRange(20, 4000).Draw(t, "longN")))
			}
			sc.Sils = append(sc.Sils, s)
		}
	} else {
		seen := map[int]bool{}
		for i := 0; i < n; i++ {
			e := c11GenWireEntry(t, &sc.NfU, false)
			if seen[e.Key] {
				continue
			}
			seen[e.Key] = true
			if rapid.IntRange(0, 3).Draw(t, "long") == 0 {
				for j, m := 0, rapid.IntRange(20, 3000).Draw(t, "longN"); j < m; j++ {
					e.Firing = append(e.Firing, uint64(j)<<20)
				}
			}
			sc.Nfs = append(sc.Nfs, e)
		}
	}
	if sc.Mut == "splice" || sc.Mut == "bytes" {
		sc.Bytes = rapid.SliceOfN(rapid.Byte(), 0, 40).Draw(t, "bytes")
	}
	return sc
}

// c11LoaderStore abstracts the two stores for the loader checks.
type c11LoaderStore struct {
	name string
	// load returns an opaque store, or an error
	load func(b []byte, viaFile bool) (any, error)
	// state returns a canonical, comparable rendering of everything the store answers
	state    func(st any) (map[string]proto.Message, error)
	snapshot func(st any) ([]byte, error)
	exercise func(st any) // Query/Mutes/GC/Merge: must not panic
	merge    func(st any, b []byte) error
}

func c11WithFile(b []byte, name string, f func(path string) (any, error)) (any, error) {
	dir, err := os.MkdirTemp("", "c11ld")
	if err != nil {
		panic(err)
	}
	defer os.RemoveAll(dir)
	p := filepath.Join(dir, name)
	if err := os.WriteFile(p, b, 0o644); err != nil {
		panic(err)
	}
	return f(p)
}

func c11SilLoaderStore(ret time.Duration) c11LoaderStore {
	return c11LoaderStore{
		name: "silences",
		load: func(b []byte, viaFile bool) (any, error) {
			if viaFile {
				return c11WithFile(b, "silences", func(p string) (any, error) { s, err := c11NewSilences(ret, nil, p); return s, err })
			}
			s, err := c11NewSilences(ret, b, "")
			return s, err
		},
		state: func(st any) (map[string]proto.Message, error) {
			q, err := c11QuerySil(st.(*silence.Silences))
			out := map[string]proto.Message{}
			for k, v := range q {
				out[k] = v
			}
			return out, err
		},
		snapshot: func(st any) ([]byte, error) {
			var buf bytes.Buffer
			_, err := st.(*silence.Silences).Snapshot(&buf)
			return buf.Bytes(), err
		},
		exercise: func(st any) {
			s := st.(*silence.Silences)
			ctx := context.Background()
			m := silence.NewSilencer(s, nopLog, eventrecorder.NopRecorder())
			for _, p := range c11UniverseProbes()[:8] {
				m.Mutes(ctx, toLabelSet(p))
			}
			s.Query(ctx, silence.QState(silence.SilenceStateActive, silence.SilenceStatePending, silence.SilenceStateExpired))
			s.CountState(ctx, silence.SilenceStateActive)
			s.GC()
		},
		merge: func(st any, b []byte) error { return st.(*silence.Silences).Merge(b) },
	}
}

func c11NfLoaderStore(ret time.Duration, u *c11NfUniverse) c11LoaderStore {
	return c11LoaderStore{
		name: "nflog",
		load: func(b []byte, viaFile bool) (any, error) {
			if viaFile {
				return c11WithFile(b, "nflog", func(p string) (any, error) { l, err := c11NewLog(ret, nil, p); return l, err })
			}
			l, err := c11NewLog(ret, b, "")
			return l, err
		},
		state: func(st any) (map[string]proto.Message, error) {
			es, err := c11QueryNf(st.(*nflog.Log), u)
			out := map[string]proto.Message{}
			for i, e := range es {
				if e != nil {
					out[fmt.Sprint(i)] = e
				}
			}
			return out, err
		},
		snapshot: func(st any) ([]byte, error) {
			var buf bytes.Buffer
			_, err := st.(*nflog.Log).Snapshot(&buf)
			return buf.Bytes(), err
		},
		exercise: func(st any) {
			l := st.(*nflog.Log)
			for i := range u.Keys {
				c11Dedup(l, u, i, c11Alerts([]int{0, 1}, 1, time.Now()), time.Hour, true, time.Now())
			}
			l.GC()
		},
		merge: func(st any, b []byte) error { return st.(*nflog.Log).Merge(b) },
	}
}

func c11SameState(a, b map[string]proto.Message) string {
	for k, v := range a {
		w, ok := b[k]
		if !ok {
			return fmt.Sprintf("%q missing", k)
		}
		if !proto.Equal(v, w) {
			return fmt.Sprintf("%q differs: %s vs %s", k, c11Short(v), c11Short(w))
		}
	}
	for k := range b {
		if _, ok := a[k]; !ok {
			return fmt.Sprintf("%q unexpected", k)
		}
	}
	return ""
}

// c11JudgeAccepted: whatever the loader accepted must be usable and its own
// snapshot must load again and mean the same.
func c11JudgeAccepted(ls c11LoaderStore, st any, res *pbt.Result) {
	ls.exercise(st)
	q1, err := ls.state(st)
	if err != nil {
		return // a store that cannot be queried is not snapshot-comparable; no panic is all we ask
	}
	snap, err := ls.snapshot(st)
	if err != nil {
		res.Add(pbt.V("accepted-state-not-snapshottable", "%s: the loader accepted the input but Snapshot of that state fails: %v", ls.name, err))
		return
	}
	if mx := c11MaxRecord(snap); mx > c11ProtodelimMax {
		return
	}
	st2, err := ls.load(snap, false)
	if err != nil {
		res.Add(pbt.V("own-snapshot-refused", "%s: the loader accepted the input, but the snapshot written from that state is refused: %v", ls.name, err))
		return
	}
	q2, err := ls.state(st2)
	if err != nil {
		res.Add(pbt.V("own-snapshot-differs", "%s: state reloaded from own snapshot cannot be queried: %v", ls.name, err))
		return
	}
	if d := c11SameState(q1, q2); d != "" {
		res.Add(pbt.V("own-snapshot-differs", "%s: state reloaded from own snapshot differs: %s", ls.name, d))
	}
}

func c11ExecLoader(sc c11LoaderScenario) (res pbt.Result) {
	var bubblePanic any
	bubblePanic = c11Bubble(func() {
		c11SetMode()
		base := time.Now()
		ret := 2 * time.Hour
		var ls c11LoaderStore
		var recs [][]byte // one wire record each
		var ids []string  // canonical state key of each record
		var want []proto.Message
		if sc.Store == "sil" {
			ls = c11SilLoaderStore(ret)
			for i := range sc.Sils {
				recs = append(recs, c11Delim(sc.Sils[i].c11Wire(base)))
				ids = append(ids, sc.Sils[i].ID)
				want = append(want, sc.Sils[i].c11Expected(base))
			}
		} else {
			ls = c11NfLoaderStore(ret, &sc.NfU)
			for i := range sc.Nfs {
				recs = append(recs, c11Delim(sc.Nfs[i].c11Wire(base, &sc.NfU)))
				ids = append(ids, fmt.Sprint(sc.Nfs[i].Key))
				want = append(want, sc.Nfs[i].c11Wire(base, &sc.NfU).Entry)
			}
		}
		var stream []byte
		var ends []int
		for _, r := range recs {
			stream = append(stream, r...)
			ends = append(ends, len(stream))
		}
		// self-check of the independent framer against the construction
		if fe, clean, ok := c11Frames(stream); !ok || !clean || len(fe) != len(ends) {
			res.Fail("generator", "framer disagrees with construction")
			return
		}
		expectPrefix := func(st any, k int, what string) {
			q, err := ls.state(st)
			if err != nil {
				res.Add(pbt.V("query-error", "%s: query after %s: %v", ls.name, what, err))
				return
			}
			exp := map[string]proto.Message{}
			for i := 0; i < k; i++ {
				exp[ids[i]] = want[i]
			}
			if d := c11SameState(exp, q); d != "" {
				res.Add(pbt.V("boundary-cut-state", "%s: %s: loaded state is not exactly the %d records before the cut: %s", ls.name, what, k, d).With("mut", sc.Mut))
			}
		}
		input := stream
		switch sc.Mut {
		case "none":
			st, err := ls.load(input, sc.ViaFile)
			if err != nil {
				res.Add(pbt.V("valid-file-refused", "%s: a well-formed file of %d records is refused: %v", ls.name, len(recs), err))
				return
			}
			expectPrefix(st, len(recs), "complete file")
			c11JudgeAccepted(ls, st, &res)
			res.NonTrivial = true
		case "cut-boundary":
			k := sc.Pos % (len(ends) + 1)
			cut := 0
			if k > 0 {
				cut = ends[k-1]
			}
			input = stream[:cut]
			st, err := ls.load(input, sc.ViaFile)
			if err != nil {
				res.Add(pbt.V("boundary-cut-refused", "%s: a file cut exactly after record %d of %d (offset %d) is refused: %v", ls.name, k, len(recs), cut, err).With("mut", sc.Mut))
				return
			}
			expectPrefix(st, k, fmt.Sprintf("cut after record %d of %d", k, len(recs)))
			res.NonTrivial = k > 0 && k < len(recs)
			res.Class(fmt.Sprintf("boundary:%s", map[bool]string{true: "inner", false: "edge"}[res.NonTrivial]))
		case "cut-inside":
			r := sc.Pos % len(recs)
			start := 0
			if r > 0 {
				start = ends[r-1]
			}
			if ends[r]-start < 2 {
				res.Fail("generator", "record of one byte")
				return
			}
			cut := start + 1 + sc.Pos2%(ends[r]-start-1)
			input = stream[:cut]
			st, err := ls.load(input, sc.ViaFile)
			if err == nil {
				n := -1
				if q, qerr := ls.state(st); qerr == nil {
					n = len(q)
				}
				res.Add(pbt.V("torn-file-accepted", "%s: a file cut inside record %d of %d (offset %d, record spans %d..%d) is accepted silently with %d entries",
					ls.name, r+1, len(recs), cut, start, ends[r], n).With("mut", sc.Mut).With("store", ls.name))
			}
			res.NonTrivial = true
			if cut-start <= 2 {
				res.Class("cut:in-or-right-after-length-prefix")
			} else {
				res.Class("cut:in-payload")
			}
			if r > 0 {
				res.Class("cut:after-complete-records")
			}
		case "no-payload", "empty-record":
			var bad []byte
			switch {
			case sc.Mut == "empty-record":
				bad = []byte{0}
			case sc.Store == "sil":
				bad = c11Delim(&silencepb.MeshSilence{ExpiresAt: timestamppb.New(base.Add(time.Hour))})
			case sc.Pos2%2 == 0:
				bad = c11Delim(&nflogpb.MeshEntry{ExpiresAt: timestamppb.New(base.Add(time.Hour))})
			default: // entry without receiver
				bad = c11Delim(&nflogpb.MeshEntry{Entry: &nflogpb.Entry{GroupKey: []byte("g")}, ExpiresAt: timestamppb.New(base.Add(time.Hour))})
			}
			k := sc.Pos % (len(ends) + 1)
			cut := 0
			if k > 0 {
				cut = ends[k-1]
			}
			input = append(append(append([]byte(nil), stream[:cut]...), bad...), stream[cut:]...)
			if _, err := ls.load(input, sc.ViaFile); err == nil {
				res.Add(pbt.V("record-without-payload-accepted", "%s: a record without payload (%s) at position %d is accepted", ls.name, sc.Mut, k).With("mut", sc.Mut))
			}
			res.NonTrivial = true
		default:
			switch sc.Mut {
			case "flip":
				input = append([]byte(nil), stream...)
				p := sc.Pos % len(input)
				input[p] ^= 1 << uint(sc.Bit)
			case "splice":
				a := sc.Pos % (len(stream) + 1)
				b := a + sc.Pos2%(len(stream)-a+1)
				input = append(append(append([]byte(nil), stream[:a]...), sc.Bytes...), stream[b:]...)
			case "bytes":
				input = sc.Bytes
			}
			st, err := ls.load(input, sc.ViaFile)
			_, clean, ok := c11Frames(input)
			if err == nil && ok && !clean {
				res.Add(pbt.V("torn-file-accepted", "%s: input (%s) whose framing ends inside a record is accepted", ls.name, sc.Mut).With("mut", sc.Mut).With("store", ls.name))
			}
			if err == nil {
				c11JudgeAccepted(ls, st, &res)
				res.Class("corrupt:accepted")
				res.NonTrivial = true
			} else {
				res.Class("corrupt:rejected")
			}
		}
		// the same bytes arriving as a gossip payload: no panic, whatever the verdict
		if st, err := ls.load(stream, false); err == nil {
			_ = ls.merge(st, input)
			ls.exercise(st)
		}
		res.Class("mut:"+sc.Mut, "store:"+sc.Store)
	})
	if bubblePanic != nil {
		res.Add(pbt.V("loader-panic", "panic on %s input (%s): %v", sc.Store, sc.Mut, bubblePanic).With("mut", sc.Mut))
	}
	return res
}

func TestC11Loader(t *testing.T) {
	pbt.Run(t, pbt.Spec[c11LoaderScenario]{
		Property: "C11", Name: "C11Loader",
		Rule: "a well-formed hand-written file of 1-6 records (silences: current / old matcher-list / comments-list format, UTF-8, long comments so that length prefixes have 1-3 bytes; nflog: all receiver-data kinds, deprecated fields, long alert lists) is presented to New(SnapshotReader|SnapshotFile) (and to Merge on a loaded store) after one mutation: none; cut exactly on a record boundary (must load exactly the records before it); cut strictly inside a record incl. inside / right after the length prefix (must be an error); an inserted record without payload or of length zero (must be an error); one bit flipped, a splice with random bytes, arbitrary bytes (free outcome, but never a panic; if the framing ends inside a record it must be an error; an accepted state must be usable — Query, Mutes, DedupStage, GC — and its own Snapshot must load again to the same state). Non-trivial: every case except edge boundary cuts (0 or all records) and rejected corruptions.",
		Gen:  c11GenLoader, Exec: c11ExecLoader,
	})
}

// FuzzC11Loader: native coverage-guided fuzzing of both loaders with the same
// structural oracle (thorough tier only).
func FuzzC11Loader(f *testing.F) {
	c11SetMode()
	base := time.Now()
	u := c11NfUniverse{Recvs: []c11Recv{{Group: "g", Integration: "webhook"}}, Keys: []c11Key{{GKey: "{}:{}"}, {GKey: "k2"}}}
	sils := []c11Sil{
		{ID: "a", Sets: c11GenSetsFixed(2), StartOff: -3600, EndOff: 3600, ExpOff: 9000, UpdOff: -3600, Comment: "c", CreatedBy: "me", Annotations: map[string]string{"k": "v"}, Format: "new"},
		{ID: "b", Sets: c11GenSetsFixed(1), StartOff: 3600, EndOff: 7200, ExpOff: 9000, UpdOff: -10, Comment: "old", Format: "old"},
		{ID: "c", Sets: c11GenSetsFixed(1), StartOff: -7200, EndOff: -3600, ExpOff: 3600, UpdOff: -3600, Comment: "cm", CreatedBy: "x", Format: "comments"},
	}
	nfs := []c11NfEntry{
		{Key: 0, TsOff: -60, ExpOff: 7200, Firing: []uint64{1, 1 << 40}, Resolved: []uint64{7}, Data: map[string]c11Val{"s": {Kind: "str", S: "v"}, "i": {Kind: "int", I: -1}, "f": {Kind: "float", FBits: 0x7ff8000000000001}}},
		{Key: 1, TsOff: -3600, ExpOff: 3600, GroupHash: []byte{1, 2}, ResolvedFlag: true},
	}
	sb, nb := c11SilFile(base, sils), c11NfFile(base, &u, nfs)
	for _, b := range [][]byte{sb, nb, sb[:len(sb)-3], nb[:len(nb)-1], sb[:1], {}, {0}, {0x80}, {0xff, 0xff, 0xff, 0xff, 0xff, 0xff, 0xff, 0xff, 0xff, 0x01}} {
		f.Add(byte(0), b)
		f.Add(byte(1), b)
	}
	f.Fuzz(func(t *testing.T, sel byte, data []byte) {
		var ls c11LoaderStore
		if sel%2 == 0 {
			ls = c11SilLoaderStore(2 * time.Hour)
		} else {
			ls = c11NfLoaderStore(2*time.Hour, &u)
		}
		st, err := ls.load(data, false)
		_, clean, ok := c11Frames(data)
		if err == nil && ok && !clean {
			t.Fatalf("%s: input whose framing ends inside a record is accepted", ls.name)
		}
		if err == nil {
			var res pbt.Result
			c11JudgeAccepted(ls, st, &res)
			if len(res.Violations) > 0 {
				t.Fatalf("[%s] %s", res.Violations[0].Kind, res.Violations[0].Message)
			}
		}
		seed := sb
		if sel%2 == 1 {
			seed = nb
		}
		if st, err := ls.load(seed, false); err == nil {
			_ = ls.merge(st, data)
			ls.exercise(st)
		}
	})
}
