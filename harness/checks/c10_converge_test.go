package checks

// TestC10Converge: two receiving instances get the same multiset of versions
// at one merge instant in different orders, duplications and batchings (after
// an optional identical local pre-history). Their contents must be equal to
// each other and to the order-free reference: per key the greatest timestamp
// among the pre-existing entry and the delivered versions that had not
// expired. A third, empty instance that receives the full state of the first
// one (push-pull sync) must end with the unexpired part of it.

import (
	"fmt"
	"reflect"
	"sort"
	"testing"
	"time"

	"github.com/prometheus/client_golang/prometheus"
	"pgregory.net/rapid"

	"github.com/prometheus/alertmanager/nflog"
	pb "github.com/prometheus/alertmanager/nflog/nflogpb"

	"verif/harness/pbt"
	"verif/harness/ref"
)

type c10ConvScenario struct {
	RetentionSec       int64      `json:"retention_sec"`
	AuthorRetentionSec int64      `json:"author_retention_sec"`
	Entries            []c10Entry `json:"entries"`
	Pre                []c10Op    `json:"pre"`      // local Log calls applied identically to both instances before the merge instant
	MergeDt            int64      `json:"merge_dt"` // seconds between the last Pre operation and the merge instant
	PlanA              [][]int    `json:"plan_a"`   // blobs (entry indices, distinct keys per blob) delivered to instance A in this order
	PlanB              [][]int    `json:"plan_b"`   // the same multiset support, delivered to instance B
	Relay              bool       `json:"relay"`    // also push A's full state into an empty third instance
}

type c10ConvObs struct {
	state   []*pb.MeshEntry
	stErr   error
	queries [c10NKeys]c10Q
}

func c10ValidPlan(plan [][]int, entries []c10Entry) bool {
	for _, blob := range plan {
		seen := map[int]bool{}
		for _, ix := range blob {
			if ix < 0 || ix >= len(entries) || seen[entries[ix].Key] {
				return false
			}
			seen[entries[ix].Key] = true
		}
	}
	return true
}

func c10Support(plan [][]int) []int {
	m := map[int]bool{}
	for _, b := range plan {
		for _, ix := range b {
			m[ix] = true
		}
	}
	var out []int
	for ix := range m {
		out = append(out, ix)
	}
	sort.Ints(out)
	return out
}

func execC10Converge(sc c10ConvScenario) (res pbt.Result) {
	msc := c10ModelScenario{RetentionSec: sc.RetentionSec, AuthorRetentionSec: sc.AuthorRetentionSec, Entries: sc.Entries, Ops: sc.Pre}
	if !c10ValidEntries(sc.Entries, &res) || !c10ValidOps(msc, &res) {
		return res
	}
	for i, op := range sc.Pre {
		if op.Kind != "log" || op.Base == "query" {
			res.Fail("generator", "pre op %d is not a plain local Log", i)
			return res
		}
	}
	if sc.MergeDt < 0 || !c10ValidPlan(sc.PlanA, sc.Entries) || !c10ValidPlan(sc.PlanB, sc.Entries) || !reflect.DeepEqual(c10Support(sc.PlanA), c10Support(sc.PlanB)) {
		res.Fail("generator", "delivery plans are not two deliveries of the same set of versions with distinct keys per blob")
		return res
	}
	vs := c10Author(sc.Entries, sc.AuthorRetentionSec, &res)
	if vs == nil && len(sc.Entries) > 0 {
		return res
	}
	instants := c10OpInstants(sc.Pre)
	var last int64
	if len(instants) > 0 {
		last = instants[len(instants)-1] / 1000
	}
	mergeAt := (last+sc.MergeDt)*1000 + 999
	retention := time.Duration(sc.RetentionSec) * time.Second

	var obs [3]c10ConvObs
	var opErr error
	var clockOK = true
	var panicked any
	bubble(func() {
		defer func() { panicked = recover() }()
		var logs [3]*nflog.Log
		for i := range logs {
			l, err := nflog.New(nflog.Options{Retention: retention, Metrics: prometheus.NewRegistry()})
			if err != nil {
				opErr = err
				return
			}
			logs[i] = l
		}
		for i, op := range sc.Pre {
			clockOK = c10SleepUntil(instants[i]) && clockOK
			for _, l := range logs[:2] {
				var store *nflog.Store
				if op.Base != "nil" {
					store = nflog.NewStore(nil)
					for _, e := range op.Edits {
						if e.Del {
							store.Delete(e.D.K)
						} else {
							c10Apply(store, []c10Datum{e.D})
						}
					}
				}
				if err := l.Log(c10Receiver(op.Key), c10Group(op.Key), append([]uint64(nil), op.Firing...), append([]uint64(nil), op.Resolved...), store, time.Duration(op.ExpirySec)*time.Second); err != nil && opErr == nil {
					opErr = fmt.Errorf("pre Log %d: %w", i, err)
				}
			}
		}
		clockOK = c10SleepUntil(mergeAt) && clockOK
		for side, plan := range [][][]int{sc.PlanA, sc.PlanB} {
			for bi, blob := range plan {
				var b []byte
				for _, ix := range blob {
					b = append(b, vs[ix].enc...)
				}
				if err := logs[side].Merge(b); err != nil && opErr == nil {
					opErr = fmt.Errorf("instance %d Merge of blob %d: %w", side, bi, err)
				}
			}
		}
		if sc.Relay {
			b, err := logs[0].MarshalBinary()
			if err == nil {
				err = logs[2].Merge(b)
			}
			if err != nil && opErr == nil {
				opErr = fmt.Errorf("relay: %w", err)
			}
		}
		clockOK = time.Now().Equal(c10At(mergeAt)) && clockOK
		for i, l := range logs {
			b, err := l.MarshalBinary()
			if err != nil {
				obs[i].stErr = err
			} else {
				obs[i].state, obs[i].stErr = c10Decode(b)
			}
			for k := 0; k < c10NKeys; k++ {
				obs[i].queries[k] = c10Query(l, k)
			}
		}
	})

	if panicked != nil {
		res.Add(pbt.V("panic", "panicked: %v", panicked))
		return res
	}
	if opErr != nil {
		res.Add(pbt.V("op-error", "%v", opErr))
		return res
	}
	if !clockOK {
		res.Fail("generator", "virtual clock missed an instant")
		return res
	}

	// reference: pre-history through the model, then the order-free merge
	model := ref.NewC10Log()
	want := map[int]*pb.MeshEntry{}
	for i, v := range vs {
		want[i] = v.want
	}
	for i, op := range sc.Pre {
		exp := map[string]c10Datum{}
		if op.Base != "nil" {
			for _, e := range op.Edits {
				if e.Del {
					delete(exp, e.D.K)
				} else {
					exp[e.D.K] = e.D
				}
			}
		}
		rec, verdict := model.Log(c10RefKey(op.Key), 1000+i, instants[i], sc.RetentionSec*1000, op.ExpirySec*1000)
		if verdict != ref.C10Stored {
			res.Fail("generator", "pre Log %d not stored by the reference (%s)", i, verdict)
			return res
		}
		want[1000+i] = c10Build(op.Key, rec.Stamp, rec.Expires, op.Firing, op.Resolved, exp, nil, false)
	}
	pre := model.Clone().S
	var delivered []ref.C10Rec
	for _, ix := range c10Support(sc.PlanA) {
		delivered = append(delivered, vs[ix].rec)
	}
	expected, ok := ref.C10Converged(pre, delivered, mergeAt)
	if !ok {
		res.Fail("generator", "boundary instant reached")
		return res
	}
	// self-check of the reference: the sequential model gives the same for both orders
	for side, plan := range [][][]int{sc.PlanA, sc.PlanB} {
		m := model.Clone()
		for _, blob := range plan {
			for _, ix := range blob {
				m.Merge(vs[ix].rec, mergeAt)
			}
		}
		if !reflect.DeepEqual(m.S, expected) {
			res.Fail("generator", "reference disagrees with itself for plan %d: %v vs %v", side, m.S, expected)
			return res
		}
	}

	classes := map[string]bool{}
	perKey := map[string]int{}
	for _, v := range delivered {
		if v.Expires < mergeAt {
			classes["expired-delivered"] = true
		} else {
			perKey[v.Key]++
			if v.Stamp > mergeAt {
				classes["future-delivered"] = true
			}
		}
	}
	orderMatters := false
	for k, n := range perKey {
		if n >= 2 {
			orderMatters = true
		}
		if p, ok := pre[k]; ok && expected[k].ID == p.ID {
			classes["pre-entry-wins"] = true
		}
	}
	if orderMatters {
		classes["several-live-versions-of-a-key"] = true
	}
	if len(pre) > 0 {
		classes["pre-history"] = true
	}
	count := func(plan [][]int) (n int, batched bool) {
		for _, b := range plan {
			n += len(b)
			batched = batched || len(b) > 1
		}
		return n, batched
	}
	na, ba := count(sc.PlanA)
	nb, bb := count(sc.PlanB)
	if na > len(delivered) || nb > len(delivered) {
		classes["duplicated"] = true
	}
	if ba || bb {
		classes["batched"] = true
	}
	for _, r := range expected {
		if len(want[r.ID].Entry.ReceiverData) > 0 {
			classes["receiver-data"] = true
		}
	}
	plansDiffer := !reflect.DeepEqual(sc.PlanA, sc.PlanB)

	check := func(name string, o c10ConvObs, exp map[string]ref.C10Rec) {
		if o.stErr != nil {
			res.Add(pbt.V("state-undecodable", "instance %s: MarshalBinary output: %v", name, o.stErr).With("instance", name))
			return
		}
		seen := map[int]bool{}
		for _, m := range o.state {
			k := c10KeyOf(m.Entry)
			if k < 0 || seen[k] {
				res.Add(pbt.V("converge-mismatch", "instance %s holds a foreign or repeated key: %v", name, m).With("instance", name).With("field", "presence"))
				continue
			}
			seen[k] = true
			r, ok := exp[c10RefKey(k)]
			if !ok {
				res.Add(pbt.V("converge-mismatch", "instance %s, key %d: holds an entry (timestamp +%dms), reference holds nothing", name, k, c10Ms(m.Entry.Timestamp.AsTime())).With("instance", name).With("field", "presence").With("key", k))
				continue
			}
			if f, d := c10DiffMesh(m, want[r.ID]); f != "" {
				res.Add(pbt.V("converge-mismatch", "instance %s, key %d: differs from the newest unexpired version %d in %s: %s", name, k, r.ID, f, d).With("instance", name).With("field", f).With("key", k))
			}
		}
		for k := 0; k < c10NKeys; k++ {
			r, ok := exp[c10RefKey(k)]
			q := o.queries[k]
			switch {
			case ok && !seen[k]:
				res.Add(pbt.V("converge-mismatch", "instance %s, key %d: nothing stored, reference holds version %d", name, k, r.ID).With("instance", name).With("field", "presence").With("key", k))
			case ok:
				if q.err != nil || q.entry == nil {
					res.Add(pbt.V("query-mismatch", "instance %s, key %d: Query = %v, reference holds version %d", name, k, q.err, r.ID).With("instance", name).With("field", "presence").With("key", k))
				} else if f, d := c10DiffEntry(q.entry, want[r.ID].Entry); f != "" {
					res.Add(pbt.V("query-mismatch", "instance %s, key %d: Query differs from version %d in %s: %s", name, k, r.ID, f, d).With("instance", name).With("field", f).With("key", k))
				}
			default:
				if q.entry != nil || q.err == nil {
					res.Add(pbt.V("query-mismatch", "instance %s, key %d: Query returned an entry, reference holds nothing", name, k).With("instance", name).With("field", "presence").With("key", k))
				}
			}
		}
	}
	check("A", obs[0], expected)
	check("B", obs[1], expected)
	if sc.Relay {
		live := map[string]ref.C10Rec{}
		for k, r := range expected {
			if r.Expires > mergeAt {
				live[k] = r
			} else {
				classes["relay-drops-expired"] = true
			}
		}
		check("relay", obs[2], live)
	}
	res.NonTrivial = plansDiffer && orderMatters
	for c := range classes {
		res.Class(c)
	}
	sort.Strings(res.Classes)
	return res
}

// genC10Plan delivers every version of support at least once: a shuffled
// sequence with duplicates, cut into blobs at key collisions and at drawn cuts.
func genC10Plan(t *rapid.T, support []int, entries []c10Entry, label string) [][]int {
	var seq []int
	for _, ix := range support {
		copies := rapid.SampledFrom([]int{1, 1, 1, 2, 3}).Draw(t, label+"Copies")
		for c := 0; c < copies; c++ {
			seq = append(seq, ix)
		}
	}
	// Fisher-Yates with explicit draws
	for i := len(seq) - 1; i > 0; i-- {
		j := rapid.IntRange(0, i).Draw(t, label+"Swap")
		seq[i], seq[j] = seq[j], seq[i]
	}
	var plan [][]int
	var cur []int
	seen := map[int]bool{}
	single := rapid.IntRange(0, 3).Draw(t, label+"AllSingle") == 0
	for _, ix := range seq {
		k := entries[ix].Key
		if len(cur) > 0 && (single || seen[k] || rapid.IntRange(0, 2).Draw(t, label+"Cut") == 0) {
			plan = append(plan, cur)
			cur, seen = nil, map[int]bool{}
		}
		cur = append(cur, ix)
		seen[k] = true
	}
	if len(cur) > 0 {
		plan = append(plan, cur)
	}
	return plan
}

func genC10Converge(t *rapid.T) c10ConvScenario {
	maxEnt, maxPre := 10, 4
	if pbt.Thorough() {
		maxEnt, maxPre = 24, 8
	}
	sc := c10ConvScenario{
		RetentionSec:       rapid.SampledFrom(c10Retentions).Draw(t, "retention"),
		AuthorRetentionSec: rapid.SampledFrom(c10Retentions).Draw(t, "authorRetention"),
		Relay:              rapid.Bool().Draw(t, "relay"),
	}
	keySpace := rapid.SampledFrom([]int{1, 2, 2, 3, 4, 4}).Draw(t, "keySpace")
	nPre := rapid.IntRange(0, maxPre).Draw(t, "nPre")
	var cum int64
	for i := 0; i < nPre; i++ {
		op := genC10LogOp(t, keySpace)
		if op.Base == "query" {
			op.Base = "fresh"
		}
		op.Dt = rapid.SampledFrom(c10Dts).Draw(t, "dt")
		cum += op.Dt
		sc.Pre = append(sc.Pre, op)
	}
	sc.MergeDt = rapid.SampledFrom(c10Dts).Draw(t, "mergeDt")
	mergeSec := cum + sc.MergeDt
	nEnt := rapid.IntRange(2, maxEnt).Draw(t, "nEntries")
	sc.Entries = genC10Entries(t, nEnt, keySpace, []int64{mergeSec, mergeSec, cum}, mergeSec)
	support := make([]int, nEnt)
	for i := range support {
		support[i] = i
	}
	sc.PlanA = genC10Plan(t, support, sc.Entries, "a")
	sc.PlanB = genC10Plan(t, support, sc.Entries, "b")
	return sc
}

func TestC10Converge(t *testing.T) {
	pbt.Run(t, pbt.Spec[c10ConvScenario]{
		Property: "C10", Name: "C10Converge",
		Rule: "2-10 (thorough: 2-24) versions over 2 groups x 2 receiver indices (authored by a second real Log or hand-built; distinct timestamps; expiries before and after the merge instant), delivered to two real instances at ONE virtual instant as two independently drawn plans (shuffled, each version 1-3 times, cut into full-state blobs with distinct keys per blob), after 0-4 (thorough: 0-8) identical local Log calls on both; optionally A's full state is pushed into an empty third instance. Oracle: decoded MarshalBinary and Query of both instances equal the order-free reference (per key the greatest timestamp among the pre-existing entry and the delivered versions with expires_at > now), the relay holds the unexpired part. Non-trivial: the two plans differ and some key has at least two delivered unexpired versions.",
		Gen:  genC10Converge, Exec: execC10Converge,
	})
}
