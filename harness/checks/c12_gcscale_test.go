package checks

// C12GCScale: the retention clauses of C12 ("every silence stays queryable until its end plus the retention and is
// removed by garbage collection afterwards, and silences that are pending or active are never garbage collected")
// when one garbage collection removes a large part of a large store: a burst of short silences (an incident, a
// deployment tool) reaches end + retention together while a few longer-lived silences remain.

import (
	"context"
	"fmt"
	"sort"
	"testing"
	"time"

	"github.com/prometheus/client_golang/prometheus"
	"github.com/prometheus/common/model"
	"google.golang.org/protobuf/types/known/timestamppb"
	"pgregory.net/rapid"

	"github.com/prometheus/alertmanager/eventrecorder"
	"github.com/prometheus/alertmanager/featurecontrol"
	"github.com/prometheus/alertmanager/marker"
	"github.com/prometheus/alertmanager/matcher/compat"
	"github.com/prometheus/alertmanager/silence"
	pb "github.com/prometheus/alertmanager/silence/silencepb"

	"verif/harness/pbt"
)

type c12gsSurvivor struct {
	Kind   string `json:"kind"`   // active | pending | expired (expired by hand shortly before the GC, still inside the retention)
	Before bool   `json:"before"` // created before the burst (else after it)
}

type c12gsScenario struct {
	Burst     int             `json:"burst"` // short silences created in one process life
	BurstLenS int             `json:"burst_len_s"`
	RetS      int             `json:"ret_s"`
	Survivors []c12gsSurvivor `json:"survivors"`
	Rounds    int             `json:"rounds"` // bursts (each followed by the GC that collects it)
}

func genC12GCScale(t *rapid.T) c12gsScenario {
	sc := c12gsScenario{
		Burst:     rapid.SampledFrom([]int{40, 300, 600, 900, 1300, 2200}).Draw(t, "burst"),
		BurstLenS: rapid.SampledFrom([]int{30, 60}).Draw(t, "burstLen"),
		RetS:      rapid.SampledFrom([]int{60, 600}).Draw(t, "ret"),
		Rounds:    rapid.IntRange(1, 2).Draw(t, "rounds"),
	}
	n := rapid.IntRange(1, 5).Draw(t, "survivors")
	for i := 0; i < n; i++ {
		sc.Survivors = append(sc.Survivors, c12gsSurvivor{Kind: rapid.SampledFrom([]string{"active", "pending", "expired"}).Draw(t, "kind"), Before: rapid.Bool().Draw(t, "before")})
	}
	return sc
}

func execC12GCScale(sc c12gsScenario) (res pbt.Result) {
	bubble(func() {
		compat.InitFromFlags(nopLog, featurecontrol.NoopFlags{})
		ret := time.Duration(sc.RetS) * time.Second
		s, err := silence.New(silence.Options{Retention: ret, Logger: nopLog, Metrics: prometheus.NewRegistry(), EventRecorder: eventrecorder.NopRecorder()})
		if err != nil {
			res.Fail("harness", "silence.New: %v", err)
			return
		}
		// a peer that receives every update A broadcasts and never runs a GC itself (C09: same updates, same silences)
		peer, err := silence.New(silence.Options{Retention: ret, Logger: nopLog, Metrics: prometheus.NewRegistry(), EventRecorder: eventrecorder.NopRecorder()})
		if err != nil {
			res.Fail("harness", "silence.New: %v", err)
			return
		}
		s.SetBroadcast(func(b []byte) {
			if err := peer.Merge(append([]byte(nil), b...)); err != nil {
				res.Fail("harness", "peer.Merge: %v", err)
			}
		})
		ctx := context.Background()
		mk := func(val string, startIn, endIn time.Duration) (string, bool) {
			now := time.Now()
			sil := &pb.Silence{MatcherSets: []*pb.MatcherSet{{Matchers: []*pb.Matcher{{Type: pb.Matcher_EQUAL, Name: "a", Pattern: val}}}},
				StartsAt: timestamppb.New(now.Add(startIn)), EndsAt: timestamppb.New(now.Add(endIn)), CreatedBy: "c12", Comment: "c"}
			if err := s.Set(ctx, sil); err != nil {
				res.Fail("harness", "Set(%s): %v", val, err)
				return "", false
			}
			return sil.Id, true
		}
		listed := func() (map[string]bool, bool) {
			sils, _, err := s.Query(ctx)
			if err != nil {
				res.Add(pbt.V("query-error", "Query: %v", err))
				return nil, false
			}
			out := map[string]bool{}
			for _, x := range sils {
				out[x.Id] = true
			}
			return out, true
		}
		far := 10 * time.Hour
		type surv struct {
			id, kind, val string
		}
		var survivors []surv
		addSurvivors := func(before bool, round int) bool {
			for i, sv := range sc.Survivors {
				if sv.Before != before || round > 0 {
					continue
				}
				startIn := time.Duration(0)
				if sv.Kind == "pending" {
					startIn = far / 2
				}
				id, ok := mk(fmt.Sprintf("keep%d", i), startIn, far)
				if !ok {
					return false
				}
				survivors = append(survivors, surv{id, sv.Kind, fmt.Sprintf("keep%d", i)})
			}
			return true
		}
		for round := 0; round < sc.Rounds; round++ {
			time.Sleep(time.Millisecond)
			if !addSurvivors(true, round) {
				return
			}
			var burst []string
			for i := 0; i < sc.Burst; i++ {
				id, ok := mk(fmt.Sprintf("b%d-%d", round, i), 0, time.Duration(sc.BurstLenS)*time.Second)
				if !ok {
					return
				}
				burst = append(burst, id)
			}
			if !addSurvivors(false, round) {
				return
			}
			// shortly before the burst leaves its retention: expire the "expired" survivors by hand (they stay retained)
			time.Sleep(time.Duration(sc.BurstLenS)*time.Second + ret - 5*time.Second)
			if round == 0 {
				for _, sv := range survivors {
					if sv.kind == "expired" {
						if err := s.Expire(ctx, sv.id); err != nil {
							res.Fail("harness", "Expire: %v", err)
							return
						}
					}
				}
			}
			// still inside the retention: a GC must keep everything
			if _, err := s.GC(); err != nil {
				res.Add(pbt.V("gc-error", "GC: %v", err))
			}
			if l, ok := listed(); ok {
				missing := 0
				for _, id := range burst {
					if !l[id] {
						missing++
					}
				}
				if missing > 0 {
					res.Add(pbt.V("retained-silence-not-listed", "round %d: %d of the %d ended silences are no longer listed 5 s before their end + retention", round, missing, len(burst)))
				}
			}
			// past the burst's retention: one GC collects the whole burst and nothing else
			time.Sleep(10 * time.Second)
			if _, err := s.GC(); err != nil {
				res.Add(pbt.V("gc-error", "GC: %v", err))
			}
			l, ok := listed()
			if !ok {
				return
			}
			left := 0
			for _, id := range burst {
				if l[id] {
					left++
				}
			}
			if left > 0 {
				res.Add(pbt.V("expired-silence-not-collected", "round %d: %d of the %d silences past their end + retention are still listed after a GC", round, left, len(burst)))
			}
			var lost []string
			for _, sv := range survivors {
				// an "expired" survivor of round 0 leaves its retention during a later round
				if sv.kind == "expired" && round > 0 {
					continue
				}
				if !l[sv.id] {
					lost = append(lost, sv.kind)
				} else if one, _, err := s.Query(ctx, silence.QIDs(sv.id)); err != nil || len(one) != 1 {
					lost = append(lost, sv.kind+" (by id)")
				}
			}
			// C02: an alert nobody asked about before is muted exactly by the active survivors
			for i, sv := range sc.Survivors {
				if round > 0 {
					break
				}
				var id string
				for _, x := range survivors {
					if x.val == fmt.Sprintf("keep%d", i) {
						id = x.id
					}
				}
				if id == "" {
					continue
				}
				lset := model.LabelSet{"a": model.LabelValue(fmt.Sprintf("keep%d", i)), "round": model.LabelValue(fmt.Sprint(round))}
				want := sv.Kind == "active"
				got := silence.NewSilencer(s, nopLog, eventrecorder.NopRecorder()).Mutes(marker.WithContext(ctx, marker.NewAlertMarker()), lset)
				if got != want {
					res.Add(pbt.V("mutes-wrong-after-gc", "round %d: after the GC that collected %d silences Mutes(%v)=%v, the stored %s silence %s says %v", round, len(burst), lset, got, sv.Kind, id, want).With("burst", sc.Burst))
				}
			}
			// C09: the peer received the same updates; both hold the survivors with the same content, and a fresh
			// instance fed A's full state gets them too
			fresh, err := silence.New(silence.Options{Retention: ret, Logger: nopLog, Metrics: prometheus.NewRegistry(), EventRecorder: eventrecorder.NopRecorder()})
			if err == nil {
				if st, err := s.MarshalBinary(); err != nil {
					res.Add(pbt.V("full-state-error", "MarshalBinary: %v", err))
				} else if err := fresh.Merge(st); err != nil {
					res.Add(pbt.V("full-state-error", "Merge of the full state: %v", err))
				}
			}
			pl, _, _ := peer.Query(ctx)
			peerHas := map[string]bool{}
			for _, x := range pl {
				peerHas[x.Id] = true
			}
			fl, _, _ := fresh.Query(ctx)
			freshHas := map[string]bool{}
			for _, x := range fl {
				freshHas[x.Id] = true
			}
			for _, sv := range survivors {
				if sv.kind == "expired" && round > 0 {
					continue
				}
				if peerHas[sv.id] != l[sv.id] || freshHas[sv.id] != l[sv.id] {
					res.Add(pbt.V("replicas-differ-after-gc", "round %d: the %s silence %s is listed by the instance that ran the GC: %v, by a peer that received the same updates: %v, by a fresh instance fed its full state: %v", round, sv.kind, sv.id, l[sv.id], peerHas[sv.id], freshHas[sv.id]).With("burst", sc.Burst))
				}
			}
			if len(lost) > 0 {
				sort.Strings(lost)
				res.Add(pbt.V("live-silence-not-listed", "round %d: after the GC that collected %d silences, %d surviving silences %v (pending / active / expired inside the retention) are no longer listed", round, len(burst), len(lost), lost).With("burst", sc.Burst))
			}
		}
		// the hand-expired survivors are collected once past their own retention
		time.Sleep(ret + time.Minute)
		if _, err := s.GC(); err != nil {
			res.Add(pbt.V("gc-error", "GC: %v", err))
		}
		if l, ok := listed(); ok {
			for _, sv := range survivors {
				switch {
				case sv.kind == "expired" && l[sv.id]:
					res.Add(pbt.V("expired-silence-not-collected", "a silence expired by hand is still listed more than its retention later, after a GC"))
				case sv.kind != "expired" && !l[sv.id]:
					res.Add(pbt.V("live-silence-not-listed", "a %s silence is no longer listed after the last GC", sv.kind))
				}
				if sv.kind == "expired" {
					if one, _, _ := s.Query(ctx, silence.QIDs(sv.id)); len(one) != 0 {
						res.Add(pbt.V("expired-silence-not-collected", "a silence expired by hand is still found by id more than its retention later, after a GC"))
					}
				}
			}
		}
	})
	res.NonTrivial = sc.Burst >= 300
	res.Class(fmt.Sprintf("burst-%d", sc.Burst))
	return res
}

func c12gsKeep(exec func(c12gsScenario) pbt.Result, kinds ...string) func(c12gsScenario) pbt.Result {
	return func(sc c12gsScenario) pbt.Result {
		res := exec(sc)
		kept := res.Violations[:0]
		for _, v := range res.Violations {
			for _, k := range kinds {
				if v.Kind == k {
					kept = append(kept, v)
				}
			}
		}
		res.Violations = kept
		return res
	}
}

// C02GCScale / C09GCScale: the C12GCScale histories judged for "Mutes follows the stored silences" and for "instances
// that received the same updates hold the same silences" after a GC that removes most of a large store.
func TestC02GCScale(t *testing.T) {
	pbt.Run(t, pbt.Spec[c12gsScenario]{
		Property: "C02", Name: "C02GCScale",
		Rule: "the histories of C12GCScale (a burst of 40-2200 short silences next to 1-5 long-lived ones, one GC removing the whole burst). Judged here: right after that GC a fresh Silencer asked about an alert it has never seen mutes it exactly when the stored long-lived silence for its label value is active (kinds mutes-wrong-after-gc, harness). Non-trivial: the burst has at least 300 silences.",
		Gen:  genC12GCScale, Exec: c12gsKeep(execC12GCScale, "mutes-wrong-after-gc", "harness"),
	})
}

func TestC09GCScale(t *testing.T) {
	pbt.Run(t, pbt.Spec[c12gsScenario]{
		Property: "C09", Name: "C09GCScale",
		Rule: "the histories of C12GCScale with a peer that merges every update the first instance broadcasts and never collects. Judged here: after the first instance's GC removed the burst, every long-lived silence is listed alike by the instance, by the peer and by a fresh instance fed the instance's full state (kinds replicas-differ-after-gc, full-state-error, harness). Non-trivial: the burst has at least 300 silences.",
		Gen:  genC12GCScale, Exec: c12gsKeep(execC12GCScale, "replicas-differ-after-gc", "full-state-error", "harness"),
	})
}

func TestC12GCScale(t *testing.T) {
	pbt.Run(t, pbt.Spec[c12gsScenario]{
		Property: "C12", Name: "C12GCScale",
		Rule: "one silence store in a bubble; 1-2 rounds of a burst of 40-2200 silences of 30/60 s created in one process life, with 1-5 long-lived silences (active, pending, or expired by hand 5 s before the burst leaves its retention) created before or after the burst; retention 60/600 s. A GC 5 s before the burst's end + retention must keep every silence listed; a GC 5 s after it must remove exactly the burst: every survivor is still listed and found by id; finally the hand-expired survivors are collected once past their own retention while pending and active ones stay. Non-trivial: the burst has at least 300 silences.",
		Gen:  genC12GCScale, Exec: c12gsKeep(execC12GCScale, "retained-silence-not-listed", "expired-silence-not-collected", "live-silence-not-listed", "gc-error", "query-error", "harness"),
	})
}
