package checks

import (
	"context"
	"fmt"
	"log/slog"
	"net/http"
	"net/http/httptest"
	"slices"
	"sort"
	"strings"
	"sync"
	"testing"
	"testing/synctest"
	"time"

	"github.com/prometheus/client_golang/prometheus"
	"github.com/prometheus/common/model"
	"pgregory.net/rapid"

	"github.com/prometheus/alertmanager/alert"
	apiv2 "github.com/prometheus/alertmanager/api/v2"
	"github.com/prometheus/alertmanager/config"
	"github.com/prometheus/alertmanager/dispatch"
	"github.com/prometheus/alertmanager/eventrecorder"
	"github.com/prometheus/alertmanager/featurecontrol"
	"github.com/prometheus/alertmanager/marker"
	"github.com/prometheus/alertmanager/notify"
	"github.com/prometheus/alertmanager/provider/mem"
	"github.com/prometheus/alertmanager/verifhook"

	"verif/harness/pbt"
	"verif/harness/ref"
)

// C14, engine E4: the harness owns the schedule of the dispatcher's ingestion
// workers. Every worker parks at the hook point between receive and route; the
// scenario's choice list decides which parked worker proceeds next.

type c14Version struct {
	LS     int `json:"ls"`      // label set index
	EndOff int `json:"end_off"` // seconds from now; <= 0: resolved
}

type c14Scenario struct {
	LabelSets []map[string]string `json:"label_sets"`
	Versions  []c14Version        `json:"versions"` // submitted back to back, in this order
	Choices   []int               `json:"choices"`  // which parked worker proceeds next (index modulo the parked set, oldest first)
	TwoRoutes bool                `json:"two_routes"`
}

func genC14(t *rapid.T) c14Scenario {
	sc := c14Scenario{LabelSets: []map[string]string{{"a": "x"}, {"a": "y"}, {"a": "x", "b": "y"}}[:rapid.IntRange(1, 3).Draw(t, "nls")]}
	n := rapid.IntRange(2, 6).Draw(t, "nversions")
	for i := 0; i < n; i++ {
		sc.Versions = append(sc.Versions, c14Version{LS: rapid.IntRange(0, len(sc.LabelSets)-1).Draw(t, "ls"),
			EndOff: rapid.SampledFrom([]int{-10, 60, 600, 3600}).Draw(t, "end")})
	}
	nc := rapid.IntRange(0, n).Draw(t, "nchoices")
	for i := 0; i < nc; i++ {
		sc.Choices = append(sc.Choices, rapid.IntRange(0, 5).Draw(t, "choice"))
	}
	sc.TwoRoutes = rapid.Bool().Draw(t, "tworoutes")
	return sc
}

type c14Parked struct {
	seq  int
	gate chan struct{}
}

func execC14(sc c14Scenario) (res pbt.Result) {
	reordered := false
	sameAlertVersions := map[int]int{}
	for _, v := range sc.Versions {
		sameAlertVersions[v.LS]++
	}
	synctest.Test(pbt.T(), func(*testing.T) {
		ctx, cancel := context.WithCancel(context.Background())
		defer cancel()
		alerts, err := mem.NewAlerts(ctx, time.Hour, 0, nil, nopLog, eventrecorder.NopRecorder(), prometheus.NewRegistry(), featurecontrol.NoopFlags{})
		if err != nil {
			res.Fail("harness", "%v", err)
			return
		}
		defer alerts.Close()
		cr := &config.Route{Receiver: "r", GroupByStr: []string{"a"}, GroupBy: []model.LabelName{"a"}}
		if sc.TwoRoutes {
			// the alert is held by two aggregation groups (two routes with continue)
			cr.Routes = []*config.Route{{Receiver: "r", Continue: true}, {Receiver: "r2"}}
		}
		gw := model.Duration(time.Hour)
		cr.GroupWait, cr.GroupInterval, cr.RepeatInterval = &gw, &gw, &gw
		route := dispatch.NewRoute(cr, nil)
		stage := notify.StageFunc(func(ctx context.Context, _ *slog.Logger, as ...*alert.Alert) (context.Context, []*alert.Alert, error) {
			return ctx, as, nil
		})
		disp := dispatch.NewDispatcher(alerts, route, stage, marker.NewGroupMarker(), func(d time.Duration) time.Duration { return d }, time.Hour, nil, nopLog, eventrecorder.NopRecorder(), nil, nil)

		var mtx sync.Mutex
		var parked []*c14Parked
		seq := 0
		verifhook.Set(func(name string, arg any) {
			if name != "ingest.received" {
				return
			}
			p := &c14Parked{gate: make(chan struct{})}
			mtx.Lock()
			p.seq = seq
			seq++
			parked = append(parked, p)
			mtx.Unlock()
			<-p.gate
		})
		defer verifhook.Set(nil)
		go disp.Run(time.Now())
		disp.WaitForLoading()
		synctest.Wait()

		// submit the versions back to back: no waiting for the dispatcher in between. Each
		// submission has its own receive time (distinct UpdatedAt, 1 microsecond apart).
		for i, v := range sc.Versions {
			now := time.Now()
			a := &alert.Alert{Alert: model.Alert{Labels: toLabelSet(sc.LabelSets[v.LS]), StartsAt: now.Add(-time.Minute),
				EndsAt: now.Add(time.Duration(v.EndOff) * time.Second), Annotations: model.LabelSet{"v": model.LabelValue(fmt.Sprint(i))}}, UpdatedAt: now}
			if err := alerts.Put(ctx, a); err != nil {
				res.Fail("harness", "Put: %v", err)
			}
			time.Sleep(time.Microsecond)
		}
		synctest.Wait()
		// release parked workers in the order the choice list says
		ci := 0
		released := -1
		for {
			synctest.Wait()
			mtx.Lock()
			if len(parked) == 0 {
				mtx.Unlock()
				break
			}
			sort.Slice(parked, func(i, j int) bool { return parked[i].seq < parked[j].seq })
			idx := 0
			if ci < len(sc.Choices) {
				idx = sc.Choices[ci] % len(parked)
				ci++
			}
			p := parked[idx]
			parked = append(parked[:idx], parked[idx+1:]...)
			mtx.Unlock()
			if p.seq < released {
				reordered = true
			}
			if p.seq > released {
				released = p.seq
			}
			close(p.gate)
		}
		synctest.Wait()

		// oracle: every group holding the alert holds the version the provider holds (the last submitted one)
		groups, _, err := disp.Groups(context.Background(), func(*dispatch.Route) bool { return true }, func(*alert.Alert, time.Time) bool { return true })
		if err != nil {
			res.Fail("harness", "Groups: %v", err)
		}
		for _, ls := range sc.LabelSets {
			lset := toLabelSet(ls)
			want, err := alerts.Get(lset.Fingerprint())
			if err != nil {
				continue // never submitted
			}
			held := 0
			for _, g := range groups {
				for _, a := range g.Alerts {
					if a.Fingerprint() != lset.Fingerprint() {
						continue
					}
					held++
					if !a.UpdatedAt.Equal(want.UpdatedAt) || !a.EndsAt.Equal(want.EndsAt) || a.Annotations["v"] != want.Annotations["v"] {
						res.Add(pbt.V("stale-version-in-group", "after all %d back-to-back updates were processed, group %s holds version v=%s (end %s) of %s but the last submitted version is v=%s (end %s)",
							len(sc.Versions), g.GroupKey, a.Annotations["v"], a.EndsAt.Format("15:04:05.000000"), ref.LabelKey(ls), want.Annotations["v"], want.EndsAt.Format("15:04:05.000000")).
							With("reordered", reordered).With("held_resolved", a.Resolved()).With("want_firing", !want.Resolved()))
					}
				}
			}
			if held == 0 {
				res.Add(pbt.V("alert-missing-from-groups", "alert %s was submitted but no aggregation group holds it", ref.LabelKey(ls)))
			}
		}
		disp.Stop()
		synctest.Wait()
	})
	multi := false
	for _, n := range sameAlertVersions {
		if n >= 2 {
			multi = true
		}
	}
	res.NonTrivial = multi && reordered
	if reordered {
		res.Class("workers-released-out-of-order")
	}
	if multi {
		res.Class("several-versions-of-one-alert")
	}
	if sc.TwoRoutes {
		res.Class("two-groups-per-alert")
	}
	return res
}

func TestC14Order(t *testing.T) {
	pbt.Run(t, pbt.Spec[c14Scenario]{
		Property: "C14", Name: "C14Order",
		Rule: "2-6 versions (refresh / resolve / re-fire, distinguishable by annotation, end and receive time) of 1-3 label sets submitted back to back to a real provider + dispatcher in a bubble; every ingestion worker parks at the verif hook between receive and route and the scenario's choice list (generated, shrinkable) decides the order in which they proceed. Oracle at quiescence: every aggregation group holding an alert holds the provider's (= last submitted) version. Non-trivial: some alert has >=2 versions and at least one worker was released before an earlier-parked one. Domain: each submission has its own receive time (two versions of one alert inside one POST share it and have no defined order).",
		Gen:  genC14, Exec: execC14,
	})
}

// TestC14Stress is the black-box variant: no hooks, the real Go scheduler.
// Back-to-back pairs (fire then resolve, resolve then fire) of many alerts; once the
// dispatcher has caught up, every group must hold the provider's version. A stale copy
// is a permanent state, so waiting longer can never turn a pass into a failure.
func TestC14Stress(t *testing.T) { c14Stress(t, "C14", "C14Stress", false) }

// TestC14StressAPI: the same through POST /api/v2/alerts, where the receive time of a submission is assigned.
func TestC14StressAPI(t *testing.T) { c14Stress(t, "C14", "C14StressAPI", true) }

// C06StressAPI / C01StressAPI: the same run judged for "GET /alerts/groups (Dispatcher.Groups) shows exactly the
// partition of the current alerts" and for "every alert the API accepted reaches its receivers": an alert the provider
// stores (also one posted by a client that hung up as soon as its request was sent: every third request runs with an
// already cancelled context) is held by an aggregation group.
func TestC06StressAPI(t *testing.T) { c14Stress(t, "C06", "C06StressAPI", true) }
func TestC01StressAPI(t *testing.T) { c14Stress(t, "C01", "C01StressAPI", true) }

func c14Stress(t *testing.T, prop, name string, viaAPI bool) {
	if pbt.Replaying() {
		t.Skip("statistical check: no replay")
	}
	how := "into a real provider"
	if viaAPI {
		how = "as two separate POSTs to the real /api/v2/alerts handler (which assigns the receive time; every third request with an already cancelled request context) of a real provider"
	}
	m := pbt.NewManual(prop, name, "black box, real scheduler: N alerts, each submitted twice back to back (fire->resolve or resolve->fire, distinct receive times) "+how+" + dispatcher; after the dispatcher caught up (polled up to 60 s) every aggregation group must hold the provider's version. Non-trivial: every pair.")
	defer m.Flush()
	n := 600
	if pbt.Thorough() {
		n = 4000
	}
	ctx, cancel := context.WithCancel(context.Background())
	defer cancel()
	alerts, err := mem.NewAlerts(ctx, time.Hour, 0, nil, nopLog, eventrecorder.NopRecorder(), prometheus.NewRegistry(), featurecontrol.NoopFlags{})
	if err != nil {
		t.Fatal(err)
	}
	defer alerts.Close()
	gw := model.Duration(time.Hour)
	cr := &config.Route{Receiver: "r", GroupByStr: []string{"a"}, GroupBy: []model.LabelName{"a"}, GroupWait: &gw, GroupInterval: &gw, RepeatInterval: &gw}
	stage := notify.StageFunc(func(ctx context.Context, _ *slog.Logger, as ...*alert.Alert) (context.Context, []*alert.Alert, error) {
		return ctx, as, nil
	})
	disp := dispatch.NewDispatcher(alerts, dispatch.NewRoute(cr, nil), stage, marker.NewGroupMarker(), func(d time.Duration) time.Duration { return d }, time.Hour, nil, nopLog, eventrecorder.NopRecorder(), nil, nil)
	go disp.Run(time.Now())
	disp.WaitForLoading()
	defer disp.Stop()
	var api *apiv2.API
	if viaAPI {
		conf, err := config.Load("route:\n  receiver: r\nreceivers:\n- name: r\n")
		if err != nil {
			t.Fatal(err)
		}
		api, err = apiv2.NewAPI(alerts, nil, nil, nil, nil, nopLog, prometheus.NewRegistry())
		if err != nil {
			t.Fatal(err)
		}
		api.Update(conf, func(context.Context, model.LabelSet) {})
	}
	for i := 0; i < n; i++ {
		ls := model.LabelSet{"a": model.LabelValue(fmt.Sprintf("v%d", i%50)), "i": model.LabelValue(fmt.Sprint(i))}
		ends := []time.Duration{time.Hour, -time.Second}
		if i%2 == 1 {
			ends = []time.Duration{-time.Second, time.Hour}
		}
		for v, e := range ends {
			now := time.Now()
			if viaAPI {
				body := fmt.Sprintf(`[{"labels":{"a":%q,"i":%q},"annotations":{"v":"%d"},"startsAt":%q,"endsAt":%q}]`, string(ls["a"]), string(ls["i"]), v,
					now.Add(-time.Minute).UTC().Format(time.RFC3339Nano), now.Add(e).UTC().Format(time.RFC3339Nano))
				req := httptest.NewRequest(http.MethodPost, "/api/v2/alerts", strings.NewReader(body))
				req.Header.Set("Content-Type", "application/json")
				if i%3 == 2 {
					// a client that went away once its request was sent: the request context is already cancelled
					// when the handler runs; an update the provider stores must still reach the groups
					cctx, ccancel := context.WithCancel(context.Background())
					ccancel()
					req = req.WithContext(cctx)
				}
				rec := httptest.NewRecorder()
				api.Handler.ServeHTTP(rec, req)
				if rec.Code != http.StatusOK && i%3 != 2 {
					t.Fatalf("POST /alerts: %d %s", rec.Code, rec.Body.String())
				}
				continue
			}
			a := &alert.Alert{Alert: model.Alert{Labels: ls, StartsAt: now.Add(-time.Minute), EndsAt: now.Add(e), Annotations: model.LabelSet{"v": model.LabelValue(fmt.Sprint(v))}}, UpdatedAt: now}
			if err := alerts.Put(ctx, a); err != nil {
				t.Fatal(err)
			}
		}
		m.Case(map[string]any{"alert": i, "order": ends}, true, "pair")
	}
	deadline := time.Now().Add(60 * time.Second)
	var stale []string
	lastHeld, lastProgress, missing := -1, time.Now(), 0
	for {
		stale = stale[:0]
		held := 0
		groups, _, err := disp.Groups(context.Background(), func(*dispatch.Route) bool { return true }, func(*alert.Alert, time.Time) bool { return true })
		if err != nil {
			t.Fatal(err)
		}
		for _, g := range groups {
			for _, a := range g.Alerts {
				held++
				want, err := alerts.Get(a.Fingerprint())
				if err == nil && (a.Annotations["v"] != want.Annotations["v"] || !a.UpdatedAt.Equal(want.UpdatedAt)) {
					stale = append(stale, fmt.Sprintf("%v holds v=%s want v=%s", a.Labels, a.Annotations["v"], want.Annotations["v"]))
				}
			}
		}
		if held == n && len(stale) == 0 {
			break
		}
		if held > lastHeld {
			lastHeld, lastProgress = held, time.Now()
		}
		if time.Now().After(deadline) {
			if held != n && len(stale) == 0 {
				// every submission was stored by the provider (Get finds it); a dispatcher that has made no progress
				// for a while is not catching up, it never received the update
				if time.Since(lastProgress) > 20*time.Second {
					missing = n - held
					break
				}
				// still making progress on a slow machine: keep waiting (bounded by the test timeout)
				deadline = time.Now().Add(30 * time.Second)
				time.Sleep(50 * time.Millisecond)
				continue
			}
			break
		}
		time.Sleep(50 * time.Millisecond)
	}
	m.Set("pairs", n)
	if missing > 0 {
		m.Violation(t, map[string]any{"pairs": n, "missing": missing},
			pbt.V("update-never-reached-a-group", "%d of %d alerts are stored by the provider but held by no aggregation group, and the dispatcher has been idle for more than 20 s", missing, n))
		return
	}
	if len(stale) > 0 {
		m.Violation(t, map[string]any{"pairs": n, "stale": len(stale), "first": stale[0]},
			pbt.V("stale-version-in-group", "%d of %d alerts: the aggregation group holds the older of two back-to-back versions, e.g. %s", len(stale), n, stale[0]))
	}
}

// C14Schedule: the E4 schedules of C06Schedule (group creators, the maintenance sweep and flush completion parked and
// released at the hook points) judged for C14's clause "a resolve-then-fire is never dropped from its group": after
// everything was released every firing alert of the provider is held by exactly one live group and gets notified.
func init() {
	// F24: a worker carrying an older (firing) version is overtaken by the one carrying the newer (resolved) version,
	// whose group flushes, empties and is destroyed; the late worker then builds a new, regular group from the stale
	// version, which notifies it as firing until its stale end time.
	pbt.RegisterSignature("c14-stale-version-recreates-group", func(v pbt.Violation) bool {
		// (both versions reached the dispatcher over the subscription: a stale version out of the start-up snapshot
		// is a different history, see C14Restart)
		return v.Kind == "stale-firing-notification" && v.Facts["older_version_listed"] == true && v.Facts["holding_group_listed"] == true && v.Facts["listed_version_from_snapshot"] != true
	})
}

func TestC14Schedule(t *testing.T) {
	pbt.Run(t, pbt.Spec[c06Scenario]{
		Property: "C14", Name: "C14Schedule",
		Rule: "the scenarios of C06Schedule (fire / resolve / re-fire of up to four label sets put without waiting; dispatcher goroutines parked at group.loaded / group.created / maint.destroyed / maint.deleted / flush.notified and released in a generated order). Judged here: after draining, the last submitted firing version of every alert is held by exactly one live aggregation group and is notified, and no notification made after that lists as firing an alert whose last submitted version ended more than group_interval earlier (kinds alert-not-in-one-group, group-without-running-timer, stale-firing-notification). Non-trivial: two goroutines were inside groupAlert for creation at once.",
		Gen:  genC06,
		Exec: func(sc c06Scenario) pbt.Result {
			res := execC06(sc)
			kept := res.Violations[:0]
			for _, v := range res.Violations {
				if v.Kind == "alert-not-in-one-group" || v.Kind == "group-without-running-timer" || v.Kind == "stale-firing-notification" || v.Kind == "harness" {
					kept = append(kept, v)
				}
			}
			res.Violations = kept
			return res
		},
	})
}

// C14Restart: a dispatcher that starts over a provider which already holds alerts (every configuration reload) routes
// that snapshot and then the updates arriving over its subscription. A snapshot version of an alert must not be applied
// after a newer version of it that arrived over the subscription, however slow the routing of the snapshot is.
func genC14Restart(t *rapid.T) c06Scenario {
	sc := genC06(t)
	if !slices.Contains(sc.Park, "group.loaded") {
		sc.Park = append(sc.Park, "group.loaded")
	}
	n := rapid.IntRange(1, 3).Draw(t, "nPre")
	for i := 0; i < n; i++ {
		sc.PreStart = append(sc.PreStart, c06Step{Op: "put", Alert: rapid.IntRange(0, 3).Draw(t, "preAlert"), Group2: rapid.IntRange(0, 5).Draw(t, "preG2") == 0,
			EndOff: rapid.SampledFrom([]int{40, 300, 300}).Draw(t, "preEnd")})
	}
	// bias: the first snapshot alert is resolved right after the start, time passes (flush, maintenance), then releases
	if rapid.IntRange(0, 3).Draw(t, "resolveSoon") > 0 {
		p := sc.PreStart[0]
		pre := []c06Step{{Op: "put", Alert: p.Alert, Group2: p.Group2, EndOff: -1}}
		if rapid.Bool().Draw(t, "thenAdvance") {
			pre = append(pre, c06Step{Op: "advance", Dt: rapid.SampledFrom([]int{16, 31, 70}).Draw(t, "preDt")})
			if rapid.Bool().Draw(t, "thenAdvance2") {
				pre = append(pre, c06Step{Op: "advance", Dt: rapid.SampledFrom([]int{16, 31, 70}).Draw(t, "preDt2")})
			}
		}
		sc.Steps = append(pre, sc.Steps...)
	}
	return sc
}

func TestC14Restart(t *testing.T) {
	pbt.Run(t, pbt.Spec[c06Scenario]{
		Property: "C14", Name: "C14Restart",
		Rule: "the scenarios of C06Schedule preceded by 1-3 firing alerts put BEFORE the dispatcher is started, so that it finds them in the provider's snapshot (SlurpAndSubscribe) while every later update (usually first a resolve of the first snapshot alert, then 16-140 s of virtual time: flush, emptying, maintenance sweep) reaches it over the subscription; group.loaded is always a parking point, so the goroutine that routes the snapshot can be held while later updates are processed. Judged as C14Schedule: after draining, every firing alert of the provider is held by exactly one live group and notified, and no later notification lists as firing an alert whose last submitted version ended more than group_interval earlier; a stale version that came out of the snapshot is not covered by the known finding F24 (fact listed_version_from_snapshot). Non-trivial: a snapshot version was parked at group.loaded.",
		Gen:  genC14Restart,
		Exec: func(sc c06Scenario) pbt.Result {
			res := execC06(sc)
			kept := res.Violations[:0]
			for _, v := range res.Violations {
				if v.Kind == "alert-not-in-one-group" || v.Kind == "group-without-running-timer" || v.Kind == "stale-firing-notification" || v.Kind == "harness" {
					kept = append(kept, v)
				}
			}
			res.Violations = kept
			res.NonTrivial = slices.Contains(res.Classes, "snapshot-version-parked")
			return res
		},
	})
}

// C05Order: the C14Order schedules judged for C05's clause "an alert that fires again stays in its group and is
// reported firing at the next flush; resolved is reported only when true": when the last submitted version of an
// alert is firing, no aggregation group may hold it as resolved once every update has been processed (the next flush
// would report it resolved and drop it), whatever the order in which the ingestion workers proceed.
func TestC05Order(t *testing.T) {
	pbt.Run(t, pbt.Spec[c14Scenario]{
		Property: "C05", Name: "C05Order",
		Rule: "the scenarios of C14Order (2-6 versions - refresh / resolve / re-fire - of 1-3 label sets submitted back to back; every ingestion worker parks between receive and route and a generated choice list decides the order in which they proceed). Judged here: at quiescence no aggregation group holds as resolved an alert whose last submitted version is firing (kind resolved-held-although-refired), and every submitted alert is held by a group. Non-trivial: some alert has >=2 versions and at least one worker was released before an earlier-parked one.",
		Gen:  genC14,
		Exec: func(sc c14Scenario) pbt.Result {
			res := execC14(sc)
			kept := res.Violations[:0]
			for _, v := range res.Violations {
				switch {
				case v.Kind == "stale-version-in-group" && v.Facts["held_resolved"] == true && v.Facts["want_firing"] == true:
					v.Kind = "resolved-held-although-refired"
					kept = append(kept, v)
				case v.Kind == "alert-missing-from-groups" || v.Kind == "harness":
					kept = append(kept, v)
				}
			}
			res.Violations = kept
			return res
		},
	})
}

// C14Refire: "a resolve-then-fire is never notified as resolved and dropped from its group". The E4 schedules with a
// prefix that lets an alert fire, end and be reported resolved, and puts its re-fire while the goroutine that flushes
// the resolution is held at one of the schedule points at the end of the flush (after the notification, at a log
// line of the group); judged as C14Schedule.
func genC14Refire(t *rapid.T) c06Scenario {
	sc := genC06(t)
	for _, p := range []string{"flush.notified", "log:ag-other"} {
		if !slices.Contains(sc.Park, p) && rapid.IntRange(0, 3).Draw(t, "force:"+p) > 0 {
			sc.Park = append(sc.Park, p)
		}
	}
	a := rapid.IntRange(0, 3).Draw(t, "refireAlert")
	pre := []c06Step{{Op: "put", Alert: a, EndOff: 4}}
	// the first flush (group_wait 0 or 5 s) may park too: release what is parked, let the alert end and the next flush come
	pre = append(pre, c06Step{Op: "advance", Dt: 8}, c06Step{Op: "release"}, c06Step{Op: "release"},
		c06Step{Op: "advance", Dt: sc.GroupInterval + 1}, c06Step{Op: "release"})
	for i, n := 0, rapid.IntRange(0, 2).Draw(t, "extraRelease"); i < n; i++ {
		pre = append(pre, c06Step{Op: "release"})
	}
	pre = append(pre, c06Step{Op: "put", Alert: a, EndOff: 300}, c06Step{Op: "release"}, c06Step{Op: "release"})
	sc.Steps = append(pre, sc.Steps...)
	return sc
}

func TestC14Refire(t *testing.T) {
	pbt.Run(t, pbt.Spec[c06Scenario]{
		Property: "C14", Name: "C14Refire",
		Rule: "the scenarios of C06Schedule after a prefix: an alert is put with an end 4 s ahead, is flushed, ends, and the flush one group_interval later reports it resolved; flush.notified and the log lines of the group (schedule points log:flushing / log:ag-other of the gating logger) are usually among the parking points, so the flushing goroutine can be held between its notification and the end of the flush while the re-fire of the alert (end 300 s ahead) is put; releases follow. Judged as C14Schedule: after draining, the re-fired alert is held by exactly one live group and notified, and nothing stale is notified later. Non-trivial: two goroutines were inside groupAlert for creation at once, or a flush was parked at its end (class parked-at-flush-end).",
		Gen:  genC14Refire,
		Exec: func(sc c06Scenario) pbt.Result {
			res := execC06(sc)
			kept := res.Violations[:0]
			for _, v := range res.Violations {
				if v.Kind == "alert-not-in-one-group" || v.Kind == "group-without-running-timer" || v.Kind == "stale-firing-notification" || v.Kind == "harness" {
					kept = append(kept, v)
				}
			}
			res.Violations = kept
			res.NonTrivial = res.NonTrivial || slices.Contains(res.Classes, "parked-at-flush-end")
			return res
		},
	})
}
