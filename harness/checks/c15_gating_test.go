package checks

// C15, part 2: mute/active gating follows the intervals (stage level).
//
// The real notify.TimeActiveStage and notify.TimeMuteStage (alone, and chained
// in the order of the production pipeline: active, then mute) run over a real
// marker.GroupMarker and a timeinterval.Intervener built from generated specs
// that went through the real YAML unmarshaller. A sequence of flushes with an
// injected Now is judged against ref.C15Gate.

import (
	"context"
	"fmt"
	"sort"
	"testing"
	"time"

	"github.com/prometheus/client_golang/prometheus"
	"github.com/prometheus/common/model"
	"gopkg.in/yaml.v2"
	"pgregory.net/rapid"

	"github.com/prometheus/alertmanager/alert"
	"github.com/prometheus/alertmanager/featurecontrol"
	"github.com/prometheus/alertmanager/marker"
	"github.com/prometheus/alertmanager/notify"
	"github.com/prometheus/alertmanager/timeinterval"

	"verif/harness/gen"
	"verif/harness/pbt"
	"verif/harness/ref"
)

type c15Named struct {
	Name   string        `json:"name"`
	Specs  []ref.C15Spec `json:"specs"`
	Styles [][]int       `json:"styles"`
}

type c15Flush struct {
	At   int64  `json:"at"`   // unix seconds
	Zone string `json:"zone"` // zone Now is expressed in
}

type c15GateScenario struct {
	Intervals []c15Named `json:"intervals"`
	Mode      string     `json:"mode"` // chain | mute | active
	Mute      []string   `json:"mute"`
	Active    []string   `json:"active"`
	// MuteInCtx / ActiveInCtx: whether the (possibly empty) list is put into the
	// context at all; a route without the option may leave it out.
	MuteInCtx   bool       `json:"mute_in_ctx"`
	ActiveInCtx bool       `json:"active_in_ctx"`
	Stale       []string   `json:"stale,omitempty"` // names the group's marker holds before the first flush
	NAlerts     int        `json:"n_alerts"`
	Flushes     []c15Flush `json:"flushes"`
}

var c15IntervalNames = []string{"offhours", "holidays", "weekends", "night shift", "q4-freeze"}

func genC15Gate(t *rapid.T) c15GateScenario {
	var sc c15GateScenario
	n := rapid.IntRange(1, 4).Draw(t, "nIntervals")
	for i := 0; i < n; i++ {
		nm := c15Named{Name: c15IntervalNames[i]}
		k := rapid.IntRange(1, 2).Draw(t, "nSpecs")
		for j := 0; j < k; j++ {
			nm.Specs = append(nm.Specs, gen.C15DrawSpec(t))
			nm.Styles = append(nm.Styles, gen.C15DrawStyle(t))
		}
		sc.Intervals = append(sc.Intervals, nm)
	}
	sc.Mode = rapid.SampledFrom([]string{"chain", "chain", "chain", "mute", "active"}).Draw(t, "mode")
	subset := func(label string) []string {
		var out []string
		for _, iv := range sc.Intervals {
			if rapid.IntRange(0, 2).Draw(t, label) == 0 {
				out = append(out, iv.Name)
			}
		}
		// order in the route is the author's choice
		if len(out) > 1 && rapid.Bool().Draw(t, label+"Rev") {
			for i, j := 0, len(out)-1; i < j; i, j = i+1, j-1 {
				out[i], out[j] = out[j], out[i]
			}
		}
		return out
	}
	sc.Mute = subset("inMute")
	sc.Active = subset("inActive")
	effMute, effActive := len(sc.Mute) > 0 && sc.Mode != "active", len(sc.Active) > 0 && sc.Mode != "mute"
	if !effMute && !effActive && rapid.IntRange(0, 9).Draw(t, "keepNoLists") != 0 {
		// no list seen by the stage(s) under test is the uninteresting corner: keep 1 in 10
		nm := sc.Intervals[rapid.IntRange(0, len(sc.Intervals)-1).Draw(t, "forced")].Name
		if sc.Mode == "mute" || (sc.Mode == "chain" && rapid.Bool().Draw(t, "forcedMute")) {
			sc.Mute = []string{nm}
		} else {
			sc.Active = []string{nm}
		}
	}
	sc.MuteInCtx = len(sc.Mute) > 0 || rapid.Bool().Draw(t, "muteCtx")
	sc.ActiveInCtx = len(sc.Active) > 0 || rapid.Bool().Draw(t, "activeCtx")
	if rapid.IntRange(0, 3).Draw(t, "stale") == 0 {
		sc.Stale = []string{rapid.SampledFrom(c15IntervalNames).Draw(t, "staleName")}
	}
	sc.NAlerts = rapid.IntRange(1, 3).Draw(t, "nAlerts")
	nf := rapid.IntRange(2, 8).Draw(t, "nFlushes")
	if pbt.Thorough() {
		nf = rapid.IntRange(2, 16).Draw(t, "nFlushesT")
	}
	zones := gen.C15Zones()
	for i := 0; i < nf; i++ {
		// bias the instant to the boundaries of one of the referenced specs
		iv := sc.Intervals[rapid.IntRange(0, len(sc.Intervals)-1).Draw(t, "flIv")]
		sp := iv.Specs[rapid.IntRange(0, len(iv.Specs)-1).Draw(t, "flSpec")]
		at := gen.C15DrawInstants(t, sp, 1)[0] + int64(rapid.IntRange(0, 59).Draw(t, "flSec"))
		sc.Flushes = append(sc.Flushes, c15Flush{At: at, Zone: rapid.SampledFrom(zones).Draw(t, "flZone")})
	}
	return sc
}

func c15Set(names []string) []string {
	m := map[string]struct{}{}
	for _, n := range names {
		m[n] = struct{}{}
	}
	out := make([]string, 0, len(m))
	for n := range m {
		out = append(out, n)
	}
	sort.Strings(out)
	return out
}

func c15SameSet(a, b []string) bool {
	a, b = c15Set(a), c15Set(b)
	if len(a) != len(b) {
		return false
	}
	for i := range a {
		if a[i] != b[i] {
			return false
		}
	}
	return true
}

func execC15Gate(sc c15GateScenario) (res pbt.Result) {
	defer func() {
		if r := recover(); r != nil {
			res.Add(pbt.V("panic", "panic in the gating stages: %v", r))
		}
	}()
	real := map[string][]timeinterval.TimeInterval{}
	model_ := map[string][]ref.C15Spec{}
	for _, iv := range sc.Intervals {
		for j, sp := range iv.Specs {
			var style []int
			if j < len(iv.Styles) {
				style = iv.Styles[j]
			}
			text := gen.C15Render(sp, style, nil)
			var ti timeinterval.TimeInterval
			if err := yaml.Unmarshal([]byte(text), &ti); err != nil {
				res.Add(pbt.V("rejected-valid", "yaml.Unmarshal rejects a documented-valid spec: %v\n%s", err, text))
				return res
			}
			real[iv.Name] = append(real[iv.Name], ti)
		}
		model_[iv.Name] = iv.Specs
	}
	intervener := timeinterval.NewIntervener(real)
	mk := marker.NewGroupMarker()
	metrics := notify.NewMetrics(prometheus.NewRegistry(), featurecontrol.NoopFlags{})
	tas := notify.NewTimeActiveStage(intervener, mk, metrics)
	tms := notify.NewTimeMuteStage(intervener, mk, metrics)
	var stage notify.Stage
	mute, active := sc.Mute, sc.Active
	switch sc.Mode {
	case "mute":
		stage, active = tms, nil
	case "active":
		stage, mute = tas, nil
	default:
		stage = notify.MultiStage{tas, tms} // order of notify.PipelineBuilder.New
	}

	const routeID, gkey, otherKey = "{}/{team=\"a\"}/0", "{}/{team=\"a\"}:{alertname=\"x\"}", "{}/{team=\"a\"}:{alertname=\"y\"}"
	if len(sc.Stale) > 0 {
		mk.SetMuted(routeID, gkey, sc.Stale)
	}
	mk.SetMuted(routeID, otherKey, []string{"sentinel"})

	var alerts []*alert.Alert
	for i := 0; i < max(1, sc.NAlerts); i++ {
		alerts = append(alerts, &alert.Alert{Alert: model.Alert{
			Labels:   model.LabelSet{"alertname": "x", "team": "a", "i": model.LabelValue(fmt.Sprint(i))},
			StartsAt: time.Unix(0, 0),
		}})
	}

	nMuted, nOpen, prevMuted, cleared := 0, 0, len(sc.Stale) > 0, false
	for i, fl := range sc.Flushes {
		zone, err := time.LoadLocation(fl.Zone)
		if err != nil {
			zone = time.UTC
		}
		now := time.Unix(fl.At, 0).In(zone)
		ctx := context.Background()
		ctx = notify.WithNow(ctx, now)
		ctx = notify.WithGroupKey(ctx, gkey)
		ctx = notify.WithRouteID(ctx, routeID)
		if sc.MuteInCtx {
			ctx = notify.WithMuteTimeIntervals(ctx, sc.Mute)
		}
		if sc.ActiveInCtx {
			ctx = notify.WithActiveTimeIntervals(ctx, sc.Active)
		}
		_, out, err := stage.Exec(ctx, nopLog, alerts...)

		muted, byActive, muteNames, rerr := ref.C15Gate(model_, mute, active, now)
		if rerr != nil {
			res.Fail("generator", "%v", rerr)
			return res
		}
		where := fmt.Sprintf("flush %d at %s (mode %s, mute %v, active %v)", i, now.UTC().Format(time.RFC3339), sc.Mode, sc.Mute, sc.Active)
		base := func(v pbt.Violation) pbt.Violation {
			return v.With("flush", i).With("instant", now.UTC().Format(time.RFC3339)).With("mode", sc.Mode).
				With("ref_muted", muted).With("ref_by_active", byActive).With("ref_mute_names", muteNames)
		}
		if err != nil {
			res.Add(base(pbt.V("stage-error", "%s: stage returned error %v", where, err)))
			continue
		}
		if muted {
			nMuted++
			if len(out) != 0 {
				res.Add(base(pbt.V("notified-while-muted", "%s: reference says muted (by active list: %v, mute intervals containing now: %v) but %d alerts pass", where, byActive, muteNames, len(out))))
			}
		} else {
			nOpen++
			same := len(out) == len(alerts)
			for k := 0; same && k < len(out); k++ {
				same = out[k] == alerts[k]
			}
			if !same {
				res.Add(base(pbt.V("dropped-while-open", "%s: reference says not muted but %d of %d alerts pass", where, len(out), len(alerts))))
			}
		}
		// marker of this group
		names, isMuted := mk.Muted(routeID, gkey)
		switch {
		case !muted:
			if isMuted || len(names) != 0 {
				res.Add(base(pbt.V("marker-not-cleared", "%s: group not muted but marker says muted=%v by %v", where, isMuted, names)))
			}
			if prevMuted {
				cleared = true
			}
		default:
			okSets := [][]string{}
			if byActive {
				okSets = append(okSets, active)
			}
			if len(muteNames) > 0 {
				okSets = append(okSets, muteNames)
			}
			if byActive && len(muteNames) > 0 {
				okSets = append(okSets, append(append([]string{}, active...), muteNames...))
			}
			ok := false
			for _, s := range okSets {
				ok = ok || c15SameSet(names, s)
			}
			if !isMuted || !ok {
				res.Add(base(pbt.V("marker-names", "%s: group muted (by active list %v: %v; mute intervals containing now: %v) but marker says muted=%v by %v", where, byActive, active, muteNames, isMuted, names)).With("marker", names))
			}
		}
		prevMuted = muted
		// marker of another group of the same route is not touched
		if on, om := mk.Muted(routeID, otherKey); !om || len(on) != 1 || on[0] != "sentinel" {
			res.Add(base(pbt.V("marker-other-group", "%s: marker of another group changed to %v", where, on)))
		}
		if len(res.Violations) >= c15MaxReported {
			break
		}
	}

	if nMuted > 0 {
		res.Class("some-muted")
	}
	if nOpen > 0 {
		res.Class("some-open")
	}
	if cleared {
		res.Class("muted-then-open")
	}
	if len(mute) > 0 && len(active) > 0 {
		res.Class("mute-and-active")
	} else if len(active) > 0 {
		res.Class("active-only")
	} else if len(mute) > 0 {
		res.Class("mute-only")
	} else {
		res.Class("no-lists")
	}
	res.Class("mode-" + sc.Mode)
	res.NonTrivial = nMuted > 0 && nOpen > 0
	return res
}

const c15GateRule = "1-4 named intervals of 1-2 generated specs each (as in C15Calendar, parsed from YAML text by the real unmarshaller) behind timeinterval.NewIntervener; route lists mute_time_intervals / active_time_intervals = generated subsets (either may be empty or absent from the context); real notify.TimeActiveStage / notify.TimeMuteStage alone or chained active->mute as in the pipeline, one real marker.GroupMarker (optionally holding a stale entry); 2-8 (thorough 2-16) flushes, Now injected with notify.WithNow, biased to the boundaries of the referenced specs, arbitrary second and zone. Oracle ref.C15Gate: all alerts dropped iff some mute interval contains Now or (active list non-empty and no active interval contains Now), else all pass unchanged, never an error; GroupMarker.Muted names as a set = the mute intervals containing Now, or the active list when that is what mutes (either, or their union, when both do); cleared when not muted; the marker of another group is untouched. Non-trivial: the flush sequence has both a muted and a non-muted flush."

func TestC15Gating(t *testing.T) {
	pbt.Run(t, pbt.Spec[c15GateScenario]{
		Property: "C15", Name: "C15Gating", Rule: c15GateRule,
		Gen: genC15Gate, Exec: execC15Gate,
	})
}
