package checks

import (
	"testing"

	"pgregory.net/rapid"

	"verif/harness/pbt"
)

// C15Schedule: the E4 schedules of C06Schedule with a route whose mute time interval always matches and the real
// TimeActiveStage / TimeMuteStage in front of the pipeline: whatever the interleaving of group creators, the
// maintenance sweep and flush completion, a live group whose flush was muted is reported as muted by the group marker
// (which is what GET /api/v2/alerts/groups reads).
func TestC15Schedule(t *testing.T) {
	pbt.Run(t, pbt.Spec[c06Scenario]{
		Property: "C15", Name: "C15Schedule",
		Rule: "the scenarios of C06Schedule (fire / resolve / re-fire of up to four label sets; dispatcher goroutines parked at the hook points around group creation, the maintenance sweep and flush completion and released in a generated order) on a route with mute_time_intervals: [always]. Judged right after everything was released and again after settling: every live group that holds a firing alert and whose first flush is due is reported as muted by the group marker (kind marker-not-muted). Non-trivial: two goroutines were inside groupAlert for creation at once.",
		Gen: func(t *rapid.T) c06Scenario {
			sc := genC06(t)
			sc.Muted = true
			return sc
		},
		Exec: func(sc c06Scenario) pbt.Result {
			res := execC06(sc)
			kept := res.Violations[:0]
			for _, v := range res.Violations {
				if v.Kind == "marker-not-muted" || v.Kind == "harness" {
					kept = append(kept, v)
				}
			}
			res.Violations = kept
			return res
		},
	})
}
