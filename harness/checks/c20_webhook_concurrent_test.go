package checks

// C20WebhookConcurrent: "the data handed to … webhooks lists exactly the alerts of the batch" when several
// notifications are under way at once (several aggregation groups of one receiver flush together; the dispatcher runs
// every group's pipeline in its own goroutine). One webhook notifier posts 4-24 batches with distinct group keys
// concurrently to a loopback server; every request body must be the faithful document of exactly one batch, and every
// batch must arrive exactly once.

import (
	"bytes"
	"context"
	"encoding/json"
	"fmt"
	"io"
	"net/http"
	"net/http/httptest"
	"runtime"
	"sync"
	"testing"
	"time"

	commoncfg "github.com/prometheus/common/config"
	"pgregory.net/rapid"

	amcommoncfg "github.com/prometheus/alertmanager/config/common"
	"github.com/prometheus/alertmanager/notify"
	"github.com/prometheus/alertmanager/notify/webhook"

	"verif/harness/pbt"
)

type c20wcBatch struct {
	GroupLabels map[string]string `json:"group_labels"`
	Alerts      []c20PAlert       `json:"alerts"`
}

type c20wcScenario struct {
	Procs   int          `json:"procs"` // GOMAXPROCS during the case
	Batches []c20wcBatch `json:"batches"`
}

func genC20WebhookConcurrent(t *rapid.T) c20wcScenario {
	sc := c20wcScenario{Procs: rapid.SampledFrom([]int{1, 2, 4, 16}).Draw(t, "procs")}
	n := rapid.IntRange(4, 24).Draw(t, "batches")
	for i := 0; i < n; i++ {
		sc.Batches = append(sc.Batches, c20wcBatch{GroupLabels: genC20KV(t, c20LabelNames, c20LabelVals, 3, "gl"), Alerts: genC20PAlerts(t, 1, 6)})
	}
	return sc
}

func execC20WebhookConcurrent(sc c20wcScenario) (res pbt.Result) {
	tmpl, err := c20Tmpl()
	if err != nil {
		res.Fail("harness", "template.FromGlobs: %v", err)
		return res
	}
	defer runtime.GOMAXPROCS(runtime.GOMAXPROCS(sc.Procs))
	var mu sync.Mutex
	var bodies [][]byte
	srv := httptest.NewServer(http.HandlerFunc(func(w http.ResponseWriter, r *http.Request) {
		b, _ := io.ReadAll(r.Body)
		mu.Lock()
		bodies = append(bodies, b)
		mu.Unlock()
		w.WriteHeader(200)
	}))
	n, err := webhook.New(&webhook.WebhookConfig{URL: amcommoncfg.SecretTemplateURL(srv.URL), HTTPConfig: &commoncfg.HTTPClientConfig{}},
		tmpl, nopLog, commoncfg.WithKeepAlivesDisabled())
	if err != nil {
		srv.Close()
		res.Fail("harness", "webhook.New: %v", err)
		return res
	}
	now := time.Now()
	start := make(chan struct{})
	var wg sync.WaitGroup
	errs := make([]error, len(sc.Batches))
	for i, b := range sc.Batches {
		wg.Add(1)
		go func(i int, b c20wcBatch) {
			defer wg.Done()
			built := c20BuildAlerts(b.Alerts, now)
			ctx, cancel := context.WithTimeout(context.Background(), 30*time.Second)
			defer cancel()
			ctx = notify.WithGroupKey(ctx, fmt.Sprintf("gk-%d", i))
			ctx = notify.WithReceiverName(ctx, "recv")
			ctx = notify.WithGroupLabels(ctx, toLabelSet(b.GroupLabels))
			ctx = notify.WithNotificationReason(ctx, notify.ReasonFirstNotification)
			<-start
			_, errs[i] = n.Notify(ctx, built...)
		}(i, b)
	}
	close(start)
	wg.Wait()
	srv.Close()
	for _, e := range errs {
		if e != nil {
			// a transport problem of the loopback server is not a verdict about the property
			res.Class("transport-error")
			return res
		}
	}
	seen := map[string]int{}
	for _, body := range bodies {
		var msg c20WebhookMsg
		if err := json.NewDecoder(bytes.NewReader(body)).Decode(&msg); err != nil {
			res.Add(pbt.V("webhook-json", "a request body is not one JSON document: %v: %.200q", err, body))
			continue
		}
		var idx int
		if _, err := fmt.Sscanf(msg.GroupKey, "gk-%d", &idx); err != nil || idx < 0 || idx >= len(sc.Batches) {
			res.Add(pbt.V("webhook-groupkey", "a request body carries group key %q, which no batch has", msg.GroupKey))
			continue
		}
		seen[msg.GroupKey]++
		b := sc.Batches[idx]
		if len(msg.Alerts) != len(b.Alerts) {
			res.Add(pbt.V("webhook-listed", "the body for %s lists %d alerts, its batch has %d", msg.GroupKey, len(msg.Alerts), len(b.Alerts)))
			continue
		}
		res.Add(c20JudgeData("webhook-", &msg.Data, b.Alerts, c20BuildAlerts(b.Alerts, now), "recv", b.GroupLabels, nil)...)
	}
	for i := range sc.Batches {
		if k := fmt.Sprintf("gk-%d", i); seen[k] != 1 {
			res.Add(pbt.V("webhook-wrong-batch", "batch %s was accepted by the endpoint (Notify returned nil) but %d request bodies carry its group key (want exactly 1 of %d)", k, seen[k], len(bodies)))
		}
	}
	res.NonTrivial = len(bodies) == len(sc.Batches)
	res.Class(fmt.Sprintf("procs-%d", sc.Procs))
	return res
}

func TestC20WebhookConcurrent(t *testing.T) {
	pbt.Run(t, pbt.Spec[c20wcScenario]{
		Property: "C20", Name: "C20WebhookConcurrent",
		Rule: "one notify/webhook.Notifier, 4-24 batches (1-6 alerts each, own group labels, group keys gk-0…) posted at the same time from as many goroutines to a loopback httptest.Server (real scheduler, GOMAXPROCS 1/2/4/16 for the case, keep-alives off so every request dials). Every Notify must succeed (a transport error makes the case inconclusive); every request body must be one JSON document whose group key names a batch, list exactly that batch's alerts with faithful fields / status / common labels (the C20Webhook judge), and every batch must arrive exactly once. Built with -race in the thorough tier. Non-trivial: the endpoint received as many requests as there are batches.",
		Gen:  genC20WebhookConcurrent, Exec: execC20WebhookConcurrent,
	})
}
