package checks

// C14Subscribers: "every aggregation group … holds the most recently submitted version, regardless of how ingestion
// work is scheduled" rests on the provider handing every stored update to every live subscriber (each dispatcher and
// inhibitor of every configuration load is one). Subscriptions come and go with reloads, closed ones are collected at
// the provider's GC tick; through any such history a live subscription receives every update stored after it was made,
// in order.

import (
	"context"
	"fmt"
	"sync"
	"testing"
	"testing/synctest"
	"time"

	"github.com/prometheus/client_golang/prometheus"
	"github.com/prometheus/common/model"
	"pgregory.net/rapid"

	"github.com/prometheus/alertmanager/alert"
	"github.com/prometheus/alertmanager/eventrecorder"
	"github.com/prometheus/alertmanager/featurecontrol"
	"github.com/prometheus/alertmanager/provider"
	"github.com/prometheus/alertmanager/provider/mem"

	"verif/harness/pbt"
)

type c14sOp struct {
	Kind  string `json:"kind"`            // sub | slurp | close | put | gc (advance one provider GC interval)
	Which int    `json:"which,omitempty"` // close: index into the live subscriptions (mod count)
}

type c14sScenario struct {
	Ops []c14sOp `json:"ops"`
}

func genC14Subscribers(t *rapid.T) c14sScenario {
	var sc c14sScenario
	// the shape of a process: two subscribers per configuration load, a reload closes both and makes two new ones
	sc.Ops = append(sc.Ops, c14sOp{Kind: "slurp"}, c14sOp{Kind: "slurp"}, c14sOp{Kind: "put"})
	n := rapid.IntRange(4, 30).Draw(t, "n")
	for i := 0; i < n; i++ {
		switch k := rapid.IntRange(0, 11).Draw(t, "op"); {
		case k <= 2:
			sc.Ops = append(sc.Ops, c14sOp{Kind: "put"})
		case k <= 4:
			sc.Ops = append(sc.Ops, c14sOp{Kind: "gc"})
		case k <= 6:
			sc.Ops = append(sc.Ops, c14sOp{Kind: rapid.SampledFrom([]string{"sub", "slurp"}).Draw(t, "how")})
		case k <= 8:
			sc.Ops = append(sc.Ops, c14sOp{Kind: "close", Which: rapid.IntRange(0, 5).Draw(t, "which")})
		default:
			// a reload: close two, make two
			sc.Ops = append(sc.Ops, c14sOp{Kind: "close", Which: rapid.IntRange(0, 5).Draw(t, "w1")}, c14sOp{Kind: "close", Which: rapid.IntRange(0, 5).Draw(t, "w2")},
				c14sOp{Kind: "slurp"}, c14sOp{Kind: "slurp"}, c14sOp{Kind: "put"})
		}
	}
	sc.Ops = append(sc.Ops, c14sOp{Kind: "put"})
	return sc
}

type c14sSub struct {
	id   int
	it   provider.AlertIterator
	mu   sync.Mutex
	got  []string // versions received
	from int      // first version it must see
	quit chan struct{}
}

func execC14Subscribers(sc c14sScenario) (res pbt.Result) {
	collected, reused := false, false
	synctest.Test(pbt.T(), func(*testing.T) {
		ctx, cancel := context.WithCancel(context.Background())
		defer cancel()
		const gcIv = time.Minute
		alerts, err := mem.NewAlerts(ctx, gcIv, 0, nil, nopLog, eventrecorder.NopRecorder(), prometheus.NewRegistry(), featurecontrol.NoopFlags{})
		if err != nil {
			res.Fail("harness", "%v", err)
			return
		}
		defer alerts.Close()
		var live []*c14sSub
		nsub, version, closedSinceGC := 0, 0, 0
		ls := model.LabelSet{"alertname": "A"}
		start := func(slurp bool) {
			s := &c14sSub{id: nsub, from: version + 1, quit: make(chan struct{})}
			nsub++
			if slurp {
				_, s.it = alerts.SlurpAndSubscribe(fmt.Sprintf("s%d", s.id))
			} else {
				s.it = alerts.Subscribe(fmt.Sprintf("s%d", s.id))
				// Subscribe replays what is stored: the current version comes first
				if version > 0 {
					s.from = version
				}
			}
			go func() {
				ch := s.it.Next()
				for {
					select {
					case a, ok := <-ch:
						if !ok {
							return
						}
						s.mu.Lock()
						s.got = append(s.got, string(a.Data.Annotations["v"]))
						s.mu.Unlock()
					case <-s.quit:
						return
					}
				}
			}()
			live = append(live, s)
		}
	steps:
		for i, op := range sc.Ops {
			time.Sleep(time.Millisecond)
			switch op.Kind {
			case "sub", "slurp":
				if closedSinceGC == 0 && collected {
					reused = true
				}
				start(op.Kind == "slurp")
			case "close":
				if len(live) == 0 {
					continue
				}
				k := op.Which % len(live)
				live[k].it.Close()
				close(live[k].quit)
				live = append(live[:k], live[k+1:]...)
				closedSinceGC++
			case "gc":
				time.Sleep(gcIv)
				if closedSinceGC > 0 {
					collected = true
				}
				closedSinceGC = 0
			case "put":
				version++
				now := time.Now()
				a := &alert.Alert{Alert: model.Alert{Labels: ls, StartsAt: now.Add(-time.Minute), EndsAt: now.Add(time.Hour), Annotations: model.LabelSet{"v": model.LabelValue(fmt.Sprint(version))}}, UpdatedAt: now}
				if err := alerts.Put(ctx, a); err != nil {
					res.Fail("harness", "Put: %v", err)
				}
			}
			synctest.Wait()
			for _, s := range live {
				s.mu.Lock()
				got := append([]string(nil), s.got...)
				s.mu.Unlock()
				var want []string
				for v := s.from; v <= version; v++ {
					want = append(want, fmt.Sprint(v))
				}
				if fmt.Sprint(got) != fmt.Sprint(want) {
					res.Add(pbt.V("subscriber-missed-update", "after op %d (%s): subscription s%d (made when version %d was current, still open) has received versions %v, stored since: %v", i, op.Kind, s.id, s.from-1, got, want).With("op", op.Kind))
					break steps
				}
			}
		}
		for _, s := range live {
			s.it.Close()
			close(s.quit)
		}
		alerts.Close()
		cancel()
		synctest.Wait()
	})
	res.NonTrivial = collected
	if collected {
		res.Class("closed-subscriptions-collected")
	}
	if reused {
		res.Class("subscribed-after-collection")
	}
	return res
}

func TestC14Subscribers(t *testing.T) {
	pbt.Run(t, pbt.Spec[c14sScenario]{
		Property: "C14", Name: "C14Subscribers",
		Rule: "a real provider in a bubble; histories of subscribe (Subscribe or SlurpAndSubscribe), close of a generated live subscription, reloads (close two, make two, as a configuration load replaces dispatcher and inhibitor), provider GC ticks (which collect closed subscriptions) and puts of the next version of one alert. After every step every open subscription has received exactly the versions stored since it was made, in order. Non-trivial: a GC tick collected at least one closed subscription.",
		Gen:  genC14Subscribers, Exec: execC14Subscribers,
	})
}
