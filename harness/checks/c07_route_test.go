package checks

import (
	"encoding/json"
	"fmt"
	"sort"
	"strings"
	"testing"

	"pgregory.net/rapid"

	"github.com/prometheus/alertmanager/config"
	"github.com/prometheus/alertmanager/dispatch"
	"github.com/prometheus/alertmanager/featurecontrol"
	"github.com/prometheus/alertmanager/matcher/compat"

	"verif/harness/gen"
	"verif/harness/pbt"
	"verif/harness/ref"
)

// c07Scenario: a routing tree as the user writes it, the names the surrounding
// configuration defines, and the label sets to route.
type c07Scenario struct {
	Tree      *ref.RouteNode      `json:"tree"`
	Receivers []string            `json:"receivers"`
	Intervals []string            `json:"intervals"`
	LabelSets []map[string]string `json:"label_sets"`
}

func c07GenScenario(t *rapid.T, o gen.C07TreeOpts, maxLabelSets int) c07Scenario {
	var sc c07Scenario
	sc.Tree = gen.C07Tree(o).Draw(t, "tree")
	sc.Receivers = gen.C07ReceiversUsed(sc.Tree)
	if rapid.Bool().Draw(t, "spareReceiver") {
		sc.Receivers = append(sc.Receivers, "unused")
	}
	sc.Intervals = gen.C07Intervals
	n := rapid.IntRange(1, maxLabelSets).Draw(t, "nLabelSets")
	lsGen := gen.C07LabelSet(sc.Tree)
	for i := 0; i < n; i++ {
		sc.LabelSets = append(sc.LabelSets, lsGen.Draw(t, "labelSet"))
	}
	return sc
}

func c07GenRoute(t *rapid.T) c07Scenario {
	o := gen.C07TreeOpts{GuardedRootOneIn: 12}
	if pbt.Thorough() {
		o.MaxNodes = 40
	}
	return c07GenScenario(t, o, 6)
}

// c07Load renders the scenario's configuration, loads it with the real loader
// in the production parser mode and builds the real routing tree.
func c07Load(sc c07Scenario) (text string, cfg *config.Config, root *dispatch.Route, err error) {
	compat.InitFromFlags(nopLog, featurecontrol.NoopFlags{})
	text = ref.ConfigYAML(sc.Tree, sc.Receivers, sc.Intervals)
	defer func() {
		if p := recover(); p != nil {
			err = fmt.Errorf("panic: %v", p)
		}
	}()
	cfg, err = config.Load(text)
	if err != nil {
		return text, nil, nil, err
	}
	root = dispatch.NewRoute(cfg.Route, nil)
	// A running server builds several trees from one loaded configuration (the dispatcher's, then the API's, again at
	// every reload): building another one must not disturb the first.
	c07SecondTree = dispatch.NewRoute(cfg.Route, nil)
	// amtool (with --alertmanager.url) and every reader of the status API rebuild the tree from the configuration as
	// the server prints it
	c07PrintedTree = nil
	if printed, perr := config.Load(cfg.String()); perr == nil {
		c07PrintedTree = dispatch.NewRoute(printed.Route, nil)
	}
	return text, cfg, root, nil
}

// c07PrintedTree is the tree built from the printed form of the configuration of the last c07Load call (nil when
// the printed form does not load: judged by C17).
var c07PrintedTree *dispatch.Route

// c07SecondTree is the tree built second from the configuration of the last c07Load call.
var c07SecondTree *dispatch.Route

func c07SameStrings(a, b []string) bool {
	if len(a) != len(b) {
		return false
	}
	for i := range a {
		if a[i] != b[i] {
			return false
		}
	}
	return true
}

// c07OptDiffs compares the options in effect at a real route node with the
// reference; returns one "field: got … want …" text per difference.
func c07OptDiffs(got *dispatch.Route, want ref.RoutedTo) []string {
	var d []string
	o := got.RouteOpts
	if o.Receiver != want.Receiver {
		d = append(d, fmt.Sprintf("receiver: got %q want %q", o.Receiver, want.Receiver))
	}
	if o.GroupByAll != want.GroupByAll {
		d = append(d, fmt.Sprintf("group_by_all: got %v want %v", o.GroupByAll, want.GroupByAll))
	}
	if !want.GroupByAll {
		var names []string
		for ln := range o.GroupBy {
			names = append(names, string(ln))
		}
		sort.Strings(names)
		if !c07SameStrings(names, want.GroupBy) {
			d = append(d, fmt.Sprintf("group_by: got %v want %v", names, want.GroupBy))
		}
	}
	if o.GroupWait != want.GroupWait {
		d = append(d, fmt.Sprintf("group_wait: got %v want %v", o.GroupWait, want.GroupWait))
	}
	if o.GroupInterval != want.GroupInterval {
		d = append(d, fmt.Sprintf("group_interval: got %v want %v", o.GroupInterval, want.GroupInterval))
	}
	if o.RepeatInterval != want.RepeatInterval {
		d = append(d, fmt.Sprintf("repeat_interval: got %v want %v", o.RepeatInterval, want.RepeatInterval))
	}
	gotLabels := map[string]string{}
	for k, v := range o.Labels {
		gotLabels[string(k)] = string(v)
	}
	if fmt.Sprint(gotLabels) != fmt.Sprint(want.Labels) { // fmt prints maps with sorted keys
		d = append(d, fmt.Sprintf("labels: got %v want %v", gotLabels, want.Labels))
	}
	if !c07SameStrings(o.MuteTimeIntervals, want.Mute) {
		d = append(d, fmt.Sprintf("mute_time_intervals: got %v want %v", o.MuteTimeIntervals, want.Mute))
	}
	if !c07SameStrings(o.ActiveTimeIntervals, want.Active) {
		d = append(d, fmt.Sprintf("active_time_intervals: got %v want %v", o.ActiveTimeIntervals, want.Active))
	}
	if k := got.Key(); k != want.RouteKey && k != want.RouteKeyPlain {
		d = append(d, fmt.Sprintf("route key: got %q want %q", k, want.RouteKey))
	}
	return d
}

// c07RealAt follows child indexes in the real tree; nil if the shape differs.
func c07RealAt(root *dispatch.Route, path []int) *dispatch.Route {
	r := root
	for _, i := range path {
		if i >= len(r.Routes) {
			return nil
		}
		r = r.Routes[i]
	}
	return r
}

func c07Summary(r *dispatch.Route) string {
	o := r.RouteOpts
	var gb []string
	for ln := range o.GroupBy {
		gb = append(gb, string(ln))
	}
	sort.Strings(gb)
	return fmt.Sprintf("{key=%s rcv=%s all=%v by=%v gw=%v gi=%v ri=%v}", r.Key(), o.Receiver, o.GroupByAll, gb, o.GroupWait, o.GroupInterval, o.RepeatInterval)
}

// c07Classify adds the generator-distribution classes of one routing result
// and reports whether a non-root node was chosen.
func c07Classify(res *pbt.Result, tree *ref.RouteNode, ls map[string]string, want []ref.RoutedTo, seen map[string]bool) (nonRoot bool) {
	class := func(c string) {
		if !seen[c] {
			seen[c] = true
			res.Class(c)
		}
	}
	if len(want) > 1 {
		class("multi-route-result")
	}
	for _, w := range want {
		if len(w.Path) == 0 {
			class("root-result")
			continue
		}
		nonRoot = true
		if len(w.Path) >= 2 {
			class("deep-result")
		}
		if w.GroupByAll {
			class("groupby-all")
		}
		var inhGroupBy, inhGW, inhGI, inhRI, sawAll, explicitEmpty bool
		n := tree
		for d := 0; ; d++ {
			last := d == len(w.Path)
			if n.Continue {
				class("continue-used")
			}
			if len(n.LegacyMatch) > 0 || len(n.LegacyMatchRE) > 0 {
				class("legacy-match")
			}
			if len(n.LegacyMatchRE) > 0 {
				class("legacy-match-re")
			}
			for _, m := range n.AllMatchers() {
				if _, present := ls[m.Name]; !present && (m.Op == "!=" || m.Op == "!~") {
					class("negative-on-absent")
				}
			}
			if n.GroupBy != nil {
				gb := *n.GroupBy
				isAll := len(gb) == 1 && gb[0] == "..."
				if sawAll && !isAll {
					class("groupby-override-clears-all")
				}
				sawAll = isAll
				explicitEmpty = len(gb) == 0
				inhGroupBy = !last
			}
			if !last {
				inhGW = inhGW || n.GroupWait != nil
				inhGI = inhGI || n.GroupInterval != nil
				inhRI = inhRI || n.RepeatInterval != nil
			}
			if last {
				if len(n.Children) > 0 {
					class("self-fallback")
				}
				if n.Receiver == nil {
					class("inherited-receiver")
				}
				// an explicitly written ancestor setting is in effect at the chosen node
				if (inhGroupBy && n.GroupBy == nil) || (inhGW && n.GroupWait == nil) || (inhGI && n.GroupInterval == nil) || (inhRI && n.RepeatInterval == nil) {
					class("inherited-option")
				}
				if len(n.Mute) > 0 || len(n.Active) > 0 {
					class("time-intervals")
				}
				break
			}
			n = n.Children[w.Path[d]]
		}
		if explicitEmpty && !w.GroupByAll && len(w.GroupBy) == 0 {
			class("groupby-empty")
		}
		if len(w.Labels) > 0 {
			class("route-labels")
		}
	}
	return nonRoot
}

func c07ExecRoute(sc c07Scenario) (res pbt.Result) {
	text, _, root, err := c07Load(sc)
	if len(sc.Tree.AllMatchers()) > 0 {
		// a root route with matchers of its own: refused by the loader, or, if
		// accepted, the root still matches every label set (the statement's
		// "the root always matches … every alert is always routed to at least
		// one receiver").
		if err != nil {
			res.Class("guarded-root-refused")
			return res
		}
		res.Class("guarded-root-accepted")
		probes := append([]map[string]string{{}, {"zz_unrelated": "1"}}, sc.LabelSets...)
		for _, ls := range probes {
			var got []*dispatch.Route
			func() {
				defer func() {
					if p := recover(); p != nil {
						res.Add(pbt.V("panic", "Route.Match(%v) panicked: %v", ls, p))
					}
				}()
				got = root.Match(toLabelSet(ls))
			}()
			if len(got) == 0 {
				res.Add(pbt.V("empty-result", "label set %v is routed nowhere (the accepted root route carries matchers)\n%s", ls, text))
			}
		}
		return res
	}
	if err != nil {
		res.Add(pbt.V("load", "a documented-valid configuration was not accepted: %v\n%s", err, text))
		return res
	}
	// replay fidelity: the scenario must survive its JSON form unchanged
	if b, err := json.Marshal(sc); err == nil {
		var back c07Scenario
		if err := json.Unmarshal(b, &back); err != nil || ref.ConfigYAML(back.Tree, back.Receivers, back.Intervals) != text {
			res.Add(pbt.V("generator", "scenario does not round-trip through JSON (%v)", err))
			return res
		}
	}
	defined := map[string]bool{}
	for _, r := range sc.Receivers {
		defined[r] = true
	}

	// (1) options in effect at every node of the tree
	shapeOK := true
	sc.Tree.Walk(func(path []int, _ *ref.RouteNode) {
		want := ref.RouteOptions(sc.Tree, path)
		got := c07RealAt(root, path)
		if got == nil {
			shapeOK = false
			res.Add(pbt.V("shape", "real tree has no node at path %v", path))
			return
		}
		for _, d := range c07OptDiffs(got, want) {
			field := d[:strings.Index(d, ":")]
			res.Add(pbt.V("options", "node %v: %s\n%s", path, d, text).With("field", field).With("path", path))
		}
	})
	if !shapeOK {
		return res
	}

	// (2) the routing result of every label set
	seen := map[string]bool{}
	nonRoot := false
	for _, ls := range sc.LabelSets {
		want := ref.Route(sc.Tree, ls)
		var got []*dispatch.Route
		func() {
			defer func() {
				if p := recover(); p != nil {
					res.Add(pbt.V("panic", "Route.Match(%v) panicked: %v", ls, p))
				}
			}()
			got = root.Match(toLabelSet(ls))
		}()
		if len(got) == 0 {
			res.Add(pbt.V("empty-result", "label set %v is routed nowhere\n%s", ls, text))
			continue
		}
		if c07PrintedTree != nil {
			// receivers and route keys only: the printed form is known to lose a child's empty group_by (finding F11, C17)
			got3 := c07PrintedTree.Match(toLabelSet(ls))
			same := len(got3) == len(got)
			for i := 0; same && i < len(got); i++ {
				same = got[i].RouteOpts.Receiver == got3[i].RouteOpts.Receiver && got[i].Key() == got3[i].Key()
			}
			if !same {
				var a, b []string
				for _, g := range got {
					a = append(a, g.Key()+"→"+g.RouteOpts.Receiver)
				}
				for _, g := range got3 {
					b = append(b, g.Key()+"→"+g.RouteOpts.Receiver)
				}
				res.Add(pbt.V("printed-config-routes-differently", "label set %v: the server's tree chooses %v, the tree built from the configuration as the server prints it (what amtool and the status API's readers use) chooses %v\n%s", ls, a, b, text))
			}
		}
		if got2 := c07SecondTree.Match(toLabelSet(ls)); len(got2) != len(got) {
			res.Add(pbt.V("second-tree-differs", "label set %v: the tree built first from the loaded configuration chooses %d routes, the tree built second %d\n%s", ls, len(got), len(got2), text))
		} else {
			for i := range got {
				if c07Summary(got[i]) != c07Summary(got2[i]) {
					res.Add(pbt.V("second-tree-differs", "label set %v: result[%d] is %s in the tree built first from the loaded configuration and %s in the tree built second\n%s", ls, i, c07Summary(got[i]), c07Summary(got2[i]), text))
				}
			}
		}
		var gotS []string
		for _, g := range got {
			gotS = append(gotS, c07Summary(g))
			if !defined[g.RouteOpts.Receiver] {
				res.Add(pbt.V("undefined-receiver", "label set %v routed to receiver %q which the configuration does not define", ls, g.RouteOpts.Receiver))
			}
		}
		if len(got) != len(want) {
			res.Add(pbt.V("route-list", "label set %v: %d routes chosen %v, reference chooses %d: %s\n%s", ls, len(got), gotS, len(want), c07Paths(want), text).
				With("got", len(got)).With("want", len(want)))
		} else {
			for i := range want {
				if node := c07RealAt(root, want[i].Path); node != got[i] {
					res.Add(pbt.V("route-list", "label set %v: result[%d] is %s, reference chooses the node at path %v\n%s", ls, i, gotS[i], want[i].Path, text).
						With("index", i))
					continue
				}
				for _, d := range c07OptDiffs(got[i], want[i]) {
					res.Add(pbt.V("route-options", "label set %v: result[%d] (path %v): %s", ls, i, want[i].Path, d))
				}
			}
		}
		if c07Classify(&res, sc.Tree, ls, want, seen) {
			nonRoot = true
		}
	}
	depth := sc.Tree.Depth()
	res.NonTrivial = depth >= 2 && nonRoot
	res.Class(fmt.Sprintf("depth-%d", depth))
	return res
}

func c07Paths(rs []ref.RoutedTo) string {
	var p []string
	for _, r := range rs {
		p = append(p, fmt.Sprintf("%v→%s", r.Path, r.Receiver))
	}
	return strings.Join(p, " ")
}

const c07RouteRule = "routing trees rendered as the YAML a user writes (depth <=4 edges, fan-out <=4, <=24 nodes (40 thorough); per non-root node: `matchers` with = != =~ !~ over a 3-name/3-value universe with regexes from a grammar, legacy `match`/`match_re`, or no matchers; `continue`; receiver, group_by (absent | [] | names | ['...']), group_wait, group_interval, repeat_interval, route labels, mute/active interval lists each independently present or absent) inside a minimal configuration loaded by config.Load in the production (fallback) parser mode; one tree in 12 carries `matchers`, `match` or `match_re` on the root itself and must be refused by the loader or, if accepted, still route every label set (also {} and an unrelated label) somewhere; 1-6 label sets per tree, half of them bent towards the matchers on a path. Oracle: an independent interpreter of the generated tree (root always matches; children in order; stop after first matching child without continue; self iff no child matched; options defaulted 30s/5m/4h/no group_by and overridden field by field; labels merged; time-interval lists not inherited) compared with dispatch.NewRoute(...).Match (of the tree built first from the loaded configuration, after a second tree has been built from it; the second tree must choose the same, and so must the tree built from the configuration's printed form, by receiver and route key) as ordered lists of tree nodes and their options, and for every node of the tree; Route.Key() compared with the path of canonically sorted matcher lists. Non-trivial: the tree has a grandchild (depth >=2 edges) and at least one label set is routed to a non-root node. Distinct by scenario digest."

func TestC07Route(t *testing.T) {
	pbt.Run(t, pbt.Spec[c07Scenario]{
		Property: "C07", Name: "C07Route",
		Rule: c07RouteRule,
		Gen:  c07GenRoute, Exec: c07ExecRoute,
	})
}

// C16Routes: "routes … use this same meaning": the C07Route cases judged for C16. Every route of the generated trees
// carries matchers in the new and / or the deprecated spelling; the trees the dispatcher, the API and amtool build from
// one loaded configuration (several trees from the same configuration object, as every process does) must keep exactly
// the configured matchers on every node and select the routes the reference evaluation of those matchers selects.
func TestC16Routes(t *testing.T) {
	pbt.Run(t, pbt.Spec[c07Scenario]{
		Property: "C16", Name: "C16Routes",
		Rule: "the cases of C07Route judged for C16: " + c07RouteRule,
		Gen:  c07GenRoute, Exec: c07ExecRoute,
	})
}
