package checks

// C12ApiRoundTrip: "editing only comment/creator/end … keeps the id" for the edit every client makes: GET the silence,
// change comment / creator / end in what came back, POST it with its id. The stored times have nanosecond precision
// (a start in the past is replaced by the instant of the call), the API speaks milliseconds; whatever the sub-second
// phase of the instants involved, the round trip of an active or pending silence keeps its id, and the times the API
// shows afterwards are the ones it showed before (apart from the edited end).

import (
	"bytes"
	"context"
	"encoding/json"
	"fmt"
	"net/http"
	"net/http/httptest"
	"sort"
	"testing"
	"time"

	"github.com/prometheus/client_golang/prometheus"
	"google.golang.org/protobuf/types/known/timestamppb"
	"pgregory.net/rapid"

	apiv2 "github.com/prometheus/alertmanager/api/v2"
	"github.com/prometheus/alertmanager/eventrecorder"
	"github.com/prometheus/alertmanager/featurecontrol"
	"github.com/prometheus/alertmanager/matcher/compat"
	"github.com/prometheus/alertmanager/silence"
	pb "github.com/prometheus/alertmanager/silence/silencepb"

	"verif/harness/pbt"
)

type c12rtScenario struct {
	PhaseNs   int64  `json:"phase_ns"`   // sub-second phase of the instant at which the silence is created
	Pending   bool   `json:"pending"`    // created with a start 5 min ahead (else: a start in the past, replaced by the instant of the call)
	StartNs   int64  `json:"start_ns"`   // pending: sub-second part of the requested start (the API accepts any precision)
	EditDelay int    `json:"edit_delay"` // seconds between creation and the edit
	EditPhase int64  `json:"edit_phase"` // sub-second phase of the edit instant
	Edit      string `json:"edit"`       // comment | creator | end | all
	List      bool   `json:"list"`       // the client reads GET /api/v2/silences (filtered by the matcher) instead of /silence/{id}
}

func genC12ApiRoundTrip(t *rapid.T) c12rtScenario {
	phase := func(l string) int64 {
		switch rapid.IntRange(0, 3).Draw(t, l+"Class") {
		case 0:
			return rapid.Int64Range(0, 999_999_999).Draw(t, l)
		case 1:
			return rapid.SampledFrom([]int64{0, 499_999, 500_000, 500_001, 999_000_000, 999_499_999, 999_500_000, 999_600_000, 999_999_999}).Draw(t, l)
		case 2:
			return 999_000_000 + rapid.Int64Range(0, 999_999).Draw(t, l)
		default:
			return rapid.Int64Range(0, 999).Draw(t, l)*1_000_000 + rapid.SampledFrom([]int64{0, 1, 499_999, 500_000, 999_999}).Draw(t, l+"Sub")
		}
	}
	return c12rtScenario{PhaseNs: phase("phase"), Pending: rapid.IntRange(0, 3).Draw(t, "pending") == 0, StartNs: phase("start"),
		EditDelay: rapid.SampledFrom([]int{0, 1, 30, 200}).Draw(t, "delay"), EditPhase: phase("editPhase"),
		Edit: rapid.SampledFrom([]string{"comment", "creator", "end", "all"}).Draw(t, "edit"), List: rapid.IntRange(0, 2).Draw(t, "list") == 0}
}

func execC12ApiRoundTrip(sc c12rtScenario) (res pbt.Result) {
	bubble(func() {
		compat.InitFromFlags(nopLog, featurecontrol.NoopFlags{})
		reg := prometheus.NewRegistry()
		sils, err := silence.New(silence.Options{Retention: time.Hour, Logger: nopLog, Metrics: reg, EventRecorder: eventrecorder.NopRecorder()})
		if err != nil {
			res.Fail("harness", "silence.New: %v", err)
			return
		}
		api, err := apiv2.NewAPI(nil, nil, func(string, string) ([]string, bool) { return nil, false }, sils, nil, nopLog, reg)
		if err != nil {
			res.Fail("harness", "NewAPI: %v", err)
			return
		}
		do := func(method, path string, body any) (int, []byte) {
			var rd *bytes.Reader
			if body != nil {
				raw, _ := json.Marshal(body)
				rd = bytes.NewReader(raw)
			} else {
				rd = bytes.NewReader(nil)
			}
			req := httptest.NewRequest(method, path, rd)
			req.Header.Set("Content-Type", "application/json")
			rec := httptest.NewRecorder()
			api.Handler.ServeHTTP(rec, req)
			return rec.Code, rec.Body.Bytes()
		}
		// move to the next whole second, then to the phase
		now := time.Now()
		time.Sleep(now.Truncate(time.Second).Add(time.Second).Sub(now) + time.Duration(sc.PhaseNs))
		t0 := time.Now()
		start := t0.Add(-time.Hour)
		if sc.Pending {
			start = t0.Truncate(time.Second).Add(5*time.Minute + time.Duration(sc.StartNs))
		}
		create := map[string]any{"matchers": []map[string]any{{"name": "a", "value": "x", "isRegex": false, "isEqual": true}},
			"startsAt": start.UTC().Format(time.RFC3339Nano), "endsAt": t0.Add(2 * time.Hour).UTC().Format(time.RFC3339Nano), "createdBy": "me", "comment": "c0"}
		code, body := do(http.MethodPost, "/api/v2/silences", create)
		var created struct {
			SilenceID string `json:"silenceID"`
		}
		if code != 200 || json.Unmarshal(body, &created) != nil || created.SilenceID == "" {
			res.Fail("harness", "create answered %d %s", code, body)
			return
		}
		get := func() map[string]any {
			if sc.List {
				code, body := do(http.MethodGet, "/api/v2/silences?filter=a%3D%22x%22", nil)
				var l []map[string]any
				if code != 200 || json.Unmarshal(body, &l) != nil {
					res.Add(pbt.V("get-failed", "GET /silences answered %d %s", code, body))
					return nil
				}
				for _, m := range l {
					if m["id"] == created.SilenceID {
						return m
					}
				}
				res.Add(pbt.V("get-failed", "GET /silences?filter=a=\"x\" does not list the silence %s just created or edited: %s", created.SilenceID, body))
				return nil
			}
			code, body := do(http.MethodGet, "/api/v2/silence/"+created.SilenceID, nil)
			var m map[string]any
			if code != 200 || json.Unmarshal(body, &m) != nil {
				res.Add(pbt.V("get-failed", "GET of the silence just created answered %d %s", code, body))
				return nil
			}
			return m
		}
		before := get()
		if before == nil {
			return
		}
		time.Sleep(time.Duration(sc.EditDelay) * time.Second)
		now = time.Now()
		time.Sleep(now.Truncate(time.Second).Add(time.Second).Sub(now) + time.Duration(sc.EditPhase))
		// the client's edit: what GET returned, with some fields changed
		post := map[string]any{"id": before["id"], "matchers": before["matchers"], "startsAt": before["startsAt"], "endsAt": before["endsAt"], "createdBy": before["createdBy"], "comment": before["comment"]}
		if sc.Edit == "comment" || sc.Edit == "all" {
			post["comment"] = "edited"
		}
		if sc.Edit == "creator" || sc.Edit == "all" {
			post["createdBy"] = "someone else"
		}
		if sc.Edit == "end" || sc.Edit == "all" {
			post["endsAt"] = t0.Add(3 * time.Hour).UTC().Format(time.RFC3339Nano)
		}
		code, body = do(http.MethodPost, "/api/v2/silences", post)
		var edited struct {
			SilenceID string `json:"silenceID"`
		}
		if code != 200 || json.Unmarshal(body, &edited) != nil {
			res.Add(pbt.V("edit-refused", "POSTing back what GET returned (with %s changed) answered %d %s", sc.Edit, code, body))
			return
		}
		if edited.SilenceID != created.SilenceID {
			res.Add(pbt.V("edit-changed-id", "a %s silence created at second phase %dns (start shown by GET: %v) was edited %d s later by posting back what GET returned with only %s changed: the id changed from %s to %s",
				map[bool]string{true: "pending", false: "active"}[sc.Pending], sc.PhaseNs, before["startsAt"], sc.EditDelay, sc.Edit, created.SilenceID, edited.SilenceID).With("edit", sc.Edit))
			return
		}
		after := get()
		if after == nil {
			return
		}
		if fmt.Sprint(after["startsAt"]) != fmt.Sprint(before["startsAt"]) {
			res.Add(pbt.V("edit-moved-start", "after an edit of %s only, GET shows startsAt %v; before it showed %v", sc.Edit, after["startsAt"], before["startsAt"]))
		}
		if sc.Edit == "comment" || sc.Edit == "creator" {
			if fmt.Sprint(after["endsAt"]) != fmt.Sprint(before["endsAt"]) {
				res.Add(pbt.V("edit-moved-end", "after an edit of %s only, GET shows endsAt %v; before it showed %v", sc.Edit, after["endsAt"], before["endsAt"]))
			}
		}
	})
	res.NonTrivial = sc.PhaseNs%1_000_000 != 0 || sc.StartNs%1_000_000 != 0
	return res
}

func TestC12ApiRoundTrip(t *testing.T) {
	pbt.Run(t, pbt.Spec[c12rtScenario]{
		Property: "C12", Name: "C12ApiRoundTrip",
		Rule: "the real silence store behind the real API v2 handlers in a bubble; a silence is created at an instant whose sub-second phase is generated down to the nanosecond (uniform, around the half-millisecond and the last millisecond of a second) with a start in the past (replaced by that instant) or, one case in four, a start 5 min ahead with its own nanosecond part; 0-200 s later, at another generated phase, the client posts back exactly what GET /api/v2/silence/{id} (one case in three: the filtered list GET /api/v2/silences) returned with comment and / or creator and / or end changed. The edit is accepted, keeps the id, and GET shows the same start (and the same end unless it was edited). Non-trivial: a sub-millisecond phase is involved.",
		Gen:  genC12ApiRoundTrip, Exec: execC12ApiRoundTrip,
	})
}

// ---------------------------------------------------------------------------------------------------- C12GCPhase
//
// "Every silence stays queryable until its end plus the retention; pending or active silences are never garbage
// collected", with the instants of the expiry and of the GC runs at generated sub-second phases: a GC that runs in the
// same second as end + retention but before it keeps the silence, the first GC after that instant removes it.

type c12gpScenario struct {
	RetentionMs int64 `json:"retention_ms"` // 0 is accepted by the store
	EndPhaseNs  int64 `json:"end_phase_ns"` // sub-second phase of the instant the silence ends (expired by hand or by its end time)
	ByExpire    bool  `json:"by_expire"`
	// GC runs at end + retention + offset, for each offset (nanoseconds, ascending; negative = before)
	GCOffsetsNs []int64 `json:"gc_offsets_ns"`
}

func genC12GCPhase(t *rapid.T) c12gpScenario {
	sc := c12gpScenario{RetentionMs: rapid.SampledFrom([]int64{0, 1, 1000, 1500, 3600_000}).Draw(t, "retention"),
		EndPhaseNs: rapid.SampledFrom([]int64{0, 1, 250_000_000, 500_000_000, 750_000_000, 999_999_999}).Draw(t, "endPhase"), ByExpire: rapid.Bool().Draw(t, "byExpire")}
	if rapid.IntRange(0, 2).Draw(t, "anyPhase") == 0 {
		sc.EndPhaseNs = rapid.Int64Range(0, 999_999_999).Draw(t, "endPhaseAny")
	}
	offs := map[int64]bool{}
	n := rapid.IntRange(1, 4).Draw(t, "gcs")
	for i := 0; i < n; i++ {
		o := rapid.SampledFrom([]int64{-3_000_000_000, -999_999_999, -600_000_000, -400_000_000, -100_000_000, -1_000_000, -1000, 1000, 1_000_000, 300_000_000, 1_200_000_000}).Draw(t, "off")
		offs[o] = true
	}
	for o := range offs {
		sc.GCOffsetsNs = append(sc.GCOffsetsNs, o)
	}
	sort.Slice(sc.GCOffsetsNs, func(i, j int) bool { return sc.GCOffsetsNs[i] < sc.GCOffsetsNs[j] })
	return sc
}

func execC12GCPhase(sc c12gpScenario) (res pbt.Result) {
	sameSecondBefore := false
	bubble(func() {
		compat.InitFromFlags(nopLog, featurecontrol.NoopFlags{})
		retention := time.Duration(sc.RetentionMs) * time.Millisecond
		sils, err := silence.New(silence.Options{Retention: retention, Logger: nopLog, Metrics: prometheus.NewRegistry(), EventRecorder: eventrecorder.NopRecorder()})
		if err != nil {
			res.Fail("harness", "silence.New: %v", err)
			return
		}
		ctx := context.Background()
		t0 := time.Now()
		// the silence ends 10 s from now at the generated phase
		end := t0.Truncate(time.Second).Add(10*time.Second + time.Duration(sc.EndPhaseNs))
		sil := &pb.Silence{MatcherSets: []*pb.MatcherSet{{Matchers: []*pb.Matcher{{Type: pb.Matcher_EQUAL, Name: "a", Pattern: "x"}}}},
			StartsAt: timestamppb.New(t0), EndsAt: timestamppb.New(end), CreatedBy: "c12", Comment: "c"}
		if sc.ByExpire {
			sil.EndsAt = timestamppb.New(end.Add(time.Hour))
		}
		if err := sils.Set(ctx, sil); err != nil {
			res.Fail("harness", "Set: %v", err)
			return
		}
		id := sil.Id
		// a GC while it is active never touches it
		time.Sleep(5 * time.Second)
		if _, err := sils.GC(); err != nil {
			res.Fail("harness", "GC: %v", err)
			return
		}
		if _, err := sils.QueryOne(ctx, silence.QIDs(id)); err != nil {
			res.Add(pbt.V("active-silence-collected", "an active silence (retention %v) is gone after a GC 5 s into its life: %v", retention, err))
			return
		}
		time.Sleep(time.Until(end))
		if sc.ByExpire {
			if err := sils.Expire(ctx, id); err != nil {
				res.Fail("harness", "Expire: %v", err)
				return
			}
		}
		limit := end.Add(retention)
		for _, off := range sc.GCOffsetsNs {
			at := limit.Add(time.Duration(off))
			if d := time.Until(at); d < 0 {
				continue // before the end itself (retention shorter than the offset): skip
			} else {
				time.Sleep(d)
			}
			now := time.Now()
			if _, err := sils.GC(); err != nil {
				res.Fail("harness", "GC: %v", err)
				return
			}
			_, qerr := sils.QueryOne(ctx, silence.QIDs(id))
			switch {
			case now.Before(limit):
				if now.Unix() == limit.Unix() {
					sameSecondBefore = true
				}
				if qerr != nil {
					res.Add(pbt.V("collected-before-retention", "a silence that ended at %s (by %s) with retention %v was removed by a GC at %s, %v before end + retention: %v",
						end.Format(time.RFC3339Nano), map[bool]string{true: "Expire", false: "its end time"}[sc.ByExpire], retention, now.Format(time.RFC3339Nano), limit.Sub(now), qerr))
					return
				}
			case now.After(limit):
				if qerr == nil {
					res.Add(pbt.V("kept-after-retention", "a silence that ended at %s with retention %v is still stored after a GC at %s, %v after end + retention",
						end.Format(time.RFC3339Nano), retention, now.Format(time.RFC3339Nano), now.Sub(limit)))
				}
				return
			}
		}
	})
	res.NonTrivial = sameSecondBefore
	return res
}

func TestC12GCPhase(t *testing.T) {
	pbt.Run(t, pbt.Spec[c12gpScenario]{
		Property: "C12", Name: "C12GCPhase",
		Rule: "the real silence store in a bubble with retention 0, 1 ms, 1 s, 1.5 s or 1 h: a silence ends (by its end time or by Expire) at an instant with a generated sub-second phase; GC runs 5 s into its active life and then at 1-4 generated offsets (3 s before to 1.2 s after, down to 1 us) around end + retention. Before end + retention the silence is still queryable by id after the GC, the first GC after it removes it. Non-trivial: a GC ran before end + retention within the same wall-clock second.",
		Gen:  genC12GCPhase, Exec: execC12GCPhase,
	})
}
