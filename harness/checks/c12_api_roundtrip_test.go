package checks

// C12ApiRoundTrip: "editing only comment/creator/end … keeps the id" for the edit every client makes: GET the silence,
// change comment / creator / end in what came back, POST it with its id. The stored times have nanosecond precision
// (a start in the past is replaced by the instant of the call), the API speaks milliseconds; whatever the sub-second
// phase of the instants involved, the round trip of an active or pending silence keeps its id, and the times the API
// shows afterwards are the ones it showed before (apart from the edited end).

import (
	"bytes"
	"encoding/json"
	"fmt"
	"net/http"
	"net/http/httptest"
	"testing"
	"time"

	"github.com/prometheus/client_golang/prometheus"
	"pgregory.net/rapid"

	apiv2 "github.com/prometheus/alertmanager/api/v2"
	"github.com/prometheus/alertmanager/eventrecorder"
	"github.com/prometheus/alertmanager/featurecontrol"
	"github.com/prometheus/alertmanager/matcher/compat"
	"github.com/prometheus/alertmanager/silence"

	"verif/harness/pbt"
)

type c12rtScenario struct {
	PhaseNs   int64  `json:"phase_ns"`   // sub-second phase of the instant at which the silence is created
	Pending   bool   `json:"pending"`    // created with a start 5 min ahead (else: a start in the past, replaced by the instant of the call)
	StartNs   int64  `json:"start_ns"`   // pending: sub-second part of the requested start (the API accepts any precision)
	EditDelay int    `json:"edit_delay"` // seconds between creation and the edit
	EditPhase int64  `json:"edit_phase"` // sub-second phase of the edit instant
	Edit      string `json:"edit"`       // comment | creator | end | all
	List      bool   `json:"list"`       // the client reads GET /api/v2/silences (filtered by the matcher) instead of /silence/{id}
}

func genC12ApiRoundTrip(t *rapid.T) c12rtScenario {
	phase := func(l string) int64 {
		switch rapid.IntRange(0, 3).Draw(t, l+"Class") {
		case 0:
			return rapid.Int64Range(0, 999_999_999).Draw(t, l)
		case 1:
			return rapid.SampledFrom([]int64{0, 499_999, 500_000, 500_001, 999_000_000, 999_499_999, 999_500_000, 999_600_000, 999_999_999}).Draw(t, l)
		case 2:
			return 999_000_000 + rapid.Int64Range(0, 999_999).Draw(t, l)
		default:
			return rapid.Int64Range(0, 999).Draw(t, l)*1_000_000 + rapid.SampledFrom([]int64{0, 1, 499_999, 500_000, 999_999}).Draw(t, l+"Sub")
		}
	}
	return c12rtScenario{PhaseNs: phase("phase"), Pending: rapid.IntRange(0, 3).Draw(t, "pending") == 0, StartNs: phase("start"),
		EditDelay: rapid.SampledFrom([]int{0, 1, 30, 200}).Draw(t, "delay"), EditPhase: phase("editPhase"),
		Edit: rapid.SampledFrom([]string{"comment", "creator", "end", "all"}).Draw(t, "edit"), List: rapid.IntRange(0, 2).Draw(t, "list") == 0}
}

func execC12ApiRoundTrip(sc c12rtScenario) (res pbt.Result) {
	bubble(func() {
		compat.InitFromFlags(nopLog, featurecontrol.NoopFlags{})
		reg := prometheus.NewRegistry()
		sils, err := silence.New(silence.Options{Retention: time.Hour, Logger: nopLog, Metrics: reg, EventRecorder: eventrecorder.NopRecorder()})
		if err != nil {
			res.Fail("harness", "silence.New: %v", err)
			return
		}
		api, err := apiv2.NewAPI(nil, nil, func(string, string) ([]string, bool) { return nil, false }, sils, nil, nopLog, reg)
		if err != nil {
			res.Fail("harness", "NewAPI: %v", err)
			return
		}
		do := func(method, path string, body any) (int, []byte) {
			var rd *bytes.Reader
			if body != nil {
				raw, _ := json.Marshal(body)
				rd = bytes.NewReader(raw)
			} else {
				rd = bytes.NewReader(nil)
			}
			req := httptest.NewRequest(method, path, rd)
			req.Header.Set("Content-Type", "application/json")
			rec := httptest.NewRecorder()
			api.Handler.ServeHTTP(rec, req)
			return rec.Code, rec.Body.Bytes()
		}
		// move to the next whole second, then to the phase
		now := time.Now()
		time.Sleep(now.Truncate(time.Second).Add(time.Second).Sub(now) + time.Duration(sc.PhaseNs))
		t0 := time.Now()
		start := t0.Add(-time.Hour)
		if sc.Pending {
			start = t0.Truncate(time.Second).Add(5*time.Minute + time.Duration(sc.StartNs))
		}
		create := map[string]any{"matchers": []map[string]any{{"name": "a", "value": "x", "isRegex": false, "isEqual": true}},
			"startsAt": start.UTC().Format(time.RFC3339Nano), "endsAt": t0.Add(2 * time.Hour).UTC().Format(time.RFC3339Nano), "createdBy": "me", "comment": "c0"}
		code, body := do(http.MethodPost, "/api/v2/silences", create)
		var created struct {
			SilenceID string `json:"silenceID"`
		}
		if code != 200 || json.Unmarshal(body, &created) != nil || created.SilenceID == "" {
			res.Fail("harness", "create answered %d %s", code, body)
			return
		}
		get := func() map[string]any {
			if sc.List {
				code, body := do(http.MethodGet, "/api/v2/silences?filter=a%3D%22x%22", nil)
				var l []map[string]any
				if code != 200 || json.Unmarshal(body, &l) != nil {
					res.Add(pbt.V("get-failed", "GET /silences answered %d %s", code, body))
					return nil
				}
				for _, m := range l {
					if m["id"] == created.SilenceID {
						return m
					}
				}
				res.Add(pbt.V("get-failed", "GET /silences?filter=a=\"x\" does not list the silence %s just created or edited: %s", created.SilenceID, body))
				return nil
			}
			code, body := do(http.MethodGet, "/api/v2/silence/"+created.SilenceID, nil)
			var m map[string]any
			if code != 200 || json.Unmarshal(body, &m) != nil {
				res.Add(pbt.V("get-failed", "GET of the silence just created answered %d %s", code, body))
				return nil
			}
			return m
		}
		before := get()
		if before == nil {
			return
		}
		time.Sleep(time.Duration(sc.EditDelay) * time.Second)
		now = time.Now()
		time.Sleep(now.Truncate(time.Second).Add(time.Second).Sub(now) + time.Duration(sc.EditPhase))
		// the client's edit: what GET returned, with some fields changed
		post := map[string]any{"id": before["id"], "matchers": before["matchers"], "startsAt": before["startsAt"], "endsAt": before["endsAt"], "createdBy": before["createdBy"], "comment": before["comment"]}
		if sc.Edit == "comment" || sc.Edit == "all" {
			post["comment"] = "edited"
		}
		if sc.Edit == "creator" || sc.Edit == "all" {
			post["createdBy"] = "someone else"
		}
		if sc.Edit == "end" || sc.Edit == "all" {
			post["endsAt"] = t0.Add(3 * time.Hour).UTC().Format(time.RFC3339Nano)
		}
		code, body = do(http.MethodPost, "/api/v2/silences", post)
		var edited struct {
			SilenceID string `json:"silenceID"`
		}
		if code != 200 || json.Unmarshal(body, &edited) != nil {
			res.Add(pbt.V("edit-refused", "POSTing back what GET returned (with %s changed) answered %d %s", sc.Edit, code, body))
			return
		}
		if edited.SilenceID != created.SilenceID {
			res.Add(pbt.V("edit-changed-id", "a %s silence created at second phase %dns (start shown by GET: %v) was edited %d s later by posting back what GET returned with only %s changed: the id changed from %s to %s",
				map[bool]string{true: "pending", false: "active"}[sc.Pending], sc.PhaseNs, before["startsAt"], sc.EditDelay, sc.Edit, created.SilenceID, edited.SilenceID).With("edit", sc.Edit))
			return
		}
		after := get()
		if after == nil {
			return
		}
		if fmt.Sprint(after["startsAt"]) != fmt.Sprint(before["startsAt"]) {
			res.Add(pbt.V("edit-moved-start", "after an edit of %s only, GET shows startsAt %v; before it showed %v", sc.Edit, after["startsAt"], before["startsAt"]))
		}
		if sc.Edit == "comment" || sc.Edit == "creator" {
			if fmt.Sprint(after["endsAt"]) != fmt.Sprint(before["endsAt"]) {
				res.Add(pbt.V("edit-moved-end", "after an edit of %s only, GET shows endsAt %v; before it showed %v", sc.Edit, after["endsAt"], before["endsAt"]))
			}
		}
	})
	res.NonTrivial = sc.PhaseNs%1_000_000 != 0 || sc.StartNs%1_000_000 != 0
	return res
}

func TestC12ApiRoundTrip(t *testing.T) {
	pbt.Run(t, pbt.Spec[c12rtScenario]{
		Property: "C12", Name: "C12ApiRoundTrip",
		Rule: "the real silence store behind the real API v2 handlers in a bubble; a silence is created at an instant whose sub-second phase is generated down to the nanosecond (uniform, around the half-millisecond and the last millisecond of a second) with a start in the past (replaced by that instant) or, one case in four, a start 5 min ahead with its own nanosecond part; 0-200 s later, at another generated phase, the client posts back exactly what GET /api/v2/silence/{id} (one case in three: the filtered list GET /api/v2/silences) returned with comment and / or creator and / or end changed. The edit is accepted, keeps the id, and GET shows the same start (and the same end unless it was edited). Non-trivial: a sub-millisecond phase is involved.",
		Gen:  genC12ApiRoundTrip, Exec: execC12ApiRoundTrip,
	})
}
