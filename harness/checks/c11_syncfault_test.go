package checks

// C11SyncFault: "a restart loads exactly the state of the last completed snapshot": a snapshot whose fsync reported an
// error is not a completed one. A sub-process (second process life) loads the files of a first life, changes both
// stores and takes its shutdown snapshots while strace fails one fsync of that process with EIO (every later fsync
// succeeds, as the kernel reports an I/O error only once). The store whose temporary file was being synced must keep
// the previous snapshot in place and count the failed maintenance run: the third life starts from the first life's
// state for that store and from the second life's state for the other one.

import (
	"context"
	"encoding/json"
	"fmt"
	"os"
	"os/exec"
	"path/filepath"
	"regexp"
	"runtime"
	"sort"
	"strings"
	"testing"
	"time"

	"github.com/prometheus/client_golang/prometheus"
	"google.golang.org/protobuf/types/known/timestamppb"
	"pgregory.net/rapid"

	"github.com/prometheus/alertmanager/eventrecorder"
	"github.com/prometheus/alertmanager/nflog"
	"github.com/prometheus/alertmanager/nflog/nflogpb"
	"github.com/prometheus/alertmanager/silence"
	pb "github.com/prometheus/alertmanager/silence/silencepb"

	"verif/harness/pbt"
)

type c11sfScenario struct {
	SilA, SilB int  `json:"-"`
	A          int  `json:"a"`           // items per store in the first life
	B          int  `json:"b"`           // items per store added in the second life
	FailNth    int  `json:"fail_nth"`    // the n-th fsync of the second life's snapshot thread fails
	NflogFirst bool `json:"nflog_first"` // order of the two shutdown snapshots
}

func genC11SyncFault(t *rapid.T) c11sfScenario {
	return c11sfScenario{A: rapid.IntRange(1, 4).Draw(t, "a"), B: rapid.IntRange(1, 4).Draw(t, "b"), FailNth: rapid.IntRange(1, 3).Draw(t, "failNth"), NflogFirst: rapid.Bool().Draw(t, "nflogFirst")}
}

type c11sfOut struct {
	Sil       []string `json:"sil"`
	Nf        []string `json:"nf"`
	SilErrors float64  `json:"sil_errors"`
	NfErrors  float64  `json:"nf_errors"`
	Err       string   `json:"err,omitempty"`
}

func c11sfOpen(dir string) (*silence.Silences, *nflog.Log, *prometheus.Registry, *prometheus.Registry, error) {
	sr, nr := prometheus.NewRegistry(), prometheus.NewRegistry()
	sopts := silence.Options{Retention: 100 * time.Hour, Metrics: sr, Logger: nopLog, EventRecorder: eventrecorder.NopRecorder()}
	if _, err := os.Stat(filepath.Join(dir, "silences")); err == nil {
		sopts.SnapshotFile = filepath.Join(dir, "silences")
	}
	s, err := silence.New(sopts)
	if err != nil {
		return nil, nil, nil, nil, fmt.Errorf("silences: %w", err)
	}
	nopts := nflog.Options{Retention: 100 * time.Hour, Metrics: nr, Logger: nopLog}
	if _, err := os.Stat(filepath.Join(dir, "nflog")); err == nil {
		nopts.SnapshotFile = filepath.Join(dir, "nflog")
	}
	l, err := nflog.New(nopts)
	if err != nil {
		return nil, nil, nil, nil, fmt.Errorf("nflog: %w", err)
	}
	return s, l, sr, nr, nil
}

func c11sfAdd(s *silence.Silences, l *nflog.Log, tag string, n int) error {
	now := time.Now()
	for i := 0; i < n; i++ {
		sil := &pb.Silence{MatcherSets: []*pb.MatcherSet{{Matchers: []*pb.Matcher{{Type: pb.Matcher_EQUAL, Name: "a", Pattern: fmt.Sprint(tag, i)}}}},
			StartsAt: timestamppb.New(now), EndsAt: timestamppb.New(now.Add(50 * time.Hour)), CreatedBy: "c11", Comment: fmt.Sprint(tag, i)}
		if err := s.Set(context.Background(), sil); err != nil {
			return err
		}
		if err := l.Log(&nflogpb.Receiver{GroupName: "r", Integration: "webhook", Idx: uint32(i)}, fmt.Sprintf("{}:{g=%q}", tag), []uint64{uint64(i + 1)}, nil, nil, 0); err != nil {
			return err
		}
	}
	return nil
}

func c11sfDump(s *silence.Silences, l *nflog.Log) (sil, nf []string, err error) {
	ss, _, err := s.Query(context.Background())
	if err != nil {
		return nil, nil, err
	}
	for _, x := range ss {
		sil = append(sil, x.Comment)
	}
	sort.Strings(sil)
	for _, tag := range []string{"one", "two"} {
		for i := 0; i < 4; i++ {
			es, err := l.Query(nflog.QGroupKey(fmt.Sprintf("{}:{g=%q}", tag)), nflog.QReceiver(&nflogpb.Receiver{GroupName: "r", Integration: "webhook", Idx: uint32(i)}))
			if err == nil && len(es) == 1 {
				nf = append(nf, fmt.Sprint(tag, i))
			}
		}
	}
	return sil, nf, nil
}

// TestC11SyncHelper is one process life: C11_SYNC_HELPER = "<dir>|<tag>|<n>|<nflogFirst>|<out file>".
func TestC11SyncHelper(t *testing.T) {
	spec := os.Getenv("C11_SYNC_HELPER")
	if spec == "" {
		t.Skip("sub-process of TestC11SyncFault")
	}
	f := strings.Split(spec, "|")
	var out c11sfOut
	defer func() {
		b, _ := json.Marshal(out)
		os.WriteFile(f[4], b, 0o644)
	}()
	c11SetMode()
	var n int
	fmt.Sscan(f[2], &n)
	s, l, sr, nr, err := c11sfOpen(f[0])
	if err != nil {
		out.Err = err.Error()
		return
	}
	if err := c11sfAdd(s, l, f[1], n); err != nil {
		out.Err = err.Error()
		return
	}
	// both shutdown snapshots on one OS thread (strace counts the calls it fails per thread)
	done := make(chan struct{})
	go func() {
		defer close(done)
		runtime.LockOSThread()
		stopc := make(chan struct{})
		close(stopc)
		if f[3] == "true" {
			l.Maintenance(time.Hour, filepath.Join(f[0], "nflog"), stopc, nil)
			s.Maintenance(time.Hour, filepath.Join(f[0], "silences"), stopc, nil)
		} else {
			s.Maintenance(time.Hour, filepath.Join(f[0], "silences"), stopc, nil)
			l.Maintenance(time.Hour, filepath.Join(f[0], "nflog"), stopc, nil)
		}
	}()
	<-done
	out.Sil, out.Nf, err = c11sfDump(s, l)
	if err != nil {
		out.Err = err.Error()
	}
	out.SilErrors = c11CounterValue(sr, "alertmanager_silences_maintenance_errors_total")
	out.NfErrors = c11CounterValue(nr, "alertmanager_nflog_maintenance_errors_total")
}

var c11sfInjected = regexp.MustCompile(`fsync\(\d+<([^>]*)>\)\s*=\s*-1 EIO[^\n]*INJECTED`)

func execC11SyncFault(sc c11sfScenario) (res pbt.Result) {
	strace, err := exec.LookPath("strace")
	if err != nil {
		res.Class("environment-error:no-strace")
		return res
	}
	dir, err := os.MkdirTemp("", "c11sf")
	if err != nil {
		res.Fail("harness", "%v", err)
		return res
	}
	defer os.RemoveAll(dir)
	data := filepath.Join(dir, "data")
	os.Mkdir(data, 0o755)
	life := func(tag string, n int, traced bool) (c11sfOut, string, error) {
		outFile := filepath.Join(dir, "out-"+tag)
		args := []string{os.Args[0], "-test.run", "^TestC11SyncHelper$", "-test.count=1"}
		trace := filepath.Join(dir, "trace-"+tag)
		if traced {
			// -ff: one output file per thread, so that no call is split into "unfinished" / "resumed" lines
			args = append([]string{strace, "-ff", "-y", "-e", "trace=fsync", "-e", fmt.Sprintf("inject=fsync:error=EIO:when=%d", sc.FailNth), "-o", trace}, args...)
		}
		ctx, cancel := context.WithTimeout(context.Background(), 2*time.Minute)
		defer cancel()
		cmd := exec.CommandContext(ctx, args[0], args[1:]...)
		cmd.Env = append(os.Environ(), fmt.Sprintf("C11_SYNC_HELPER=%s|%s|%d|%v|%s", data, tag, n, sc.NflogFirst, outFile))
		if b, err := cmd.CombinedOutput(); err != nil {
			return c11sfOut{}, "", fmt.Errorf("%v: %.400s", err, b)
		}
		var o c11sfOut
		b, err := os.ReadFile(outFile)
		if err != nil {
			return o, "", err
		}
		if err := json.Unmarshal(b, &o); err != nil {
			return o, "", err
		}
		var tr strings.Builder
		if files, _ := filepath.Glob(trace + ".*"); traced {
			for _, f := range files {
				b, _ := os.ReadFile(f)
				tr.Write(b)
				tr.WriteString("\n")
			}
		}
		return o, tr.String(), nil
	}
	one, _, err := life("one", sc.A, false)
	if err != nil || one.Err != "" {
		res.Class("environment-error")
		res.Sample = fmt.Sprint(err, one.Err)
		return res
	}
	two, trace, err := life("two", sc.B, true)
	if err != nil {
		res.Class("environment-error")
		res.Sample = fmt.Sprint(err)
		return res
	}
	if two.Err != "" {
		res.Add(pbt.V("second-life-failed", "the second life could not load the first life's files or work on them: %s", two.Err))
		return res
	}
	failed := map[string]bool{}
	for _, m := range c11sfInjected.FindAllStringSubmatch(trace, -1) {
		switch base := filepath.Base(m[1]); {
		case strings.HasPrefix(base, "silences"):
			failed["silences"] = true
		case strings.HasPrefix(base, "nflog"):
			failed["nflog"] = true
		default:
			res.Class("injected-into-other-file")
		}
	}
	// third life
	c11SetMode()
	s, l, _, _, err := c11sfOpen(data)
	if err != nil {
		res.Add(pbt.V("refuses-to-start", "after a snapshot whose fsync failed (%v) the next start fails: %v", failed, err))
		return res
	}
	sil, nf, err := c11sfDump(s, l)
	if err != nil {
		res.Fail("harness", "dump: %v", err)
		return res
	}
	judge := func(store string, got, first, second []string, errs float64) {
		if errs > 0 && !failed[store] {
			// a failed maintenance run the trace does not explain (an injected call the parser could not attribute, a
			// real I/O problem of the sandbox): nothing is judged for this store
			res.Class("environment-error:unattributed-maintenance-error")
			return
		}
		want, what := second, "the second life's state (its snapshot completed)"
		if failed[store] {
			want, what = first, "the first life's state (the second life's snapshot was not completed: fsync reported EIO)"
			if errs < 1 {
				res.Add(pbt.V("sync-failure-not-counted", "%s: fsync of the snapshot's temporary file failed with EIO, the maintenance error counter says %v", store, errs).With("store", store))
			}
		}
		if fmt.Sprint(got) != fmt.Sprint(want) {
			res.Add(pbt.V("unsynced-snapshot-installed", "%s: the third life holds %v, want %s %v", store, got, what, want).With("store", store))
		}
	}
	judge("silences", sil, one.Sil, two.Sil, two.SilErrors)
	judge("nflog", nf, one.Nf, two.Nf, two.NfErrors)
	res.NonTrivial = len(failed) > 0
	for k := range failed {
		res.Class("fsync-failed:" + k)
	}
	return res
}

func TestC11SyncFault(t *testing.T) {
	pbt.Run(t, pbt.Spec[c11sfScenario]{
		Property: "C11", Name: "C11SyncFault",
		Rule: "real files, three process lives: the first (a sub-process) stores 1-4 silences and log entries and takes its shutdown snapshots; the second (a sub-process under strace) loads them, adds 1-4 more and takes its shutdown snapshots (generated order of the two stores) on one thread while the 1st, 2nd or 3rd fsync of that thread fails with EIO (injected by strace; every later fsync succeeds); the third (in this process) starts from the files. A store whose temporary snapshot file was being synced when the error was reported starts from the first life's state and has counted a maintenance error; the other store starts from the second life's state. Non-trivial: an fsync of a snapshot file failed.",
		Gen:  genC11SyncFault, Exec: execC11SyncFault,
	})
}
